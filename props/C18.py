P = {
    "level_text": "placeholder",
    "level_note": "placeholder",
    "props_modules": ["Spine.Props.C18", "Spine.Props.C18Shapes", "Spine.Props.C18Json"],
    "lemma_modules": ["Spine.JsonThm", "Spine.CmdThm"],
    "generated": ["functions", "cmdtables", "schema"],
    "generated_files": ["Functions.lean", "CmdTables.lean", "Schema.lean"],
    "drivers": ["drv_cmd", "drv_json"],
    "tests": [{"name": "TestWireCmd"}, {"name": "TestWireJson"}],
    "trusted_base": [],
    "assumptions": [],
}
