P = {
    "level_text": "Theorems (kernel-checked, all histories / all interleavings): counters on the wire pairwise distinct under any interleaving of concurrent senders; monotone when calls do not overlap; withheld only if an identical request is unanswered, with the earlier counter; a different request never withheld; a response re-enables; request memory bounded with one entry per request. The last-100 clause is refuted by a kernel-checked witness (known finding lru-promotion). The model is tied to spine/send.go by an op-by-op differential run against the real Sender and a SPEC monitor on the implementation trace.",
    "level_note": "Trusted: Lean kernel; hand-written model Spine.Snd/Spine.Ctr; harness; A-hash (SHA-256 injective), A-lru (library modelled), A-atomic. Concurrent uniqueness is proved on the event-sourced model and only monitored (not explored exhaustively) on the real code.",
    "props_modules": ["Spine.Props.C13", "Spine.Props.C13Gen"],
    "generated_props": ["Spine.Props.C13Gen"],
    "generated": ["sender"],
    "generated_files": ["Sender.lean"],
    "lemma_modules": ["Spine.SenderThm", "Spine.Counter", "Spine.SenderLru", "Spine.SenderSpec"],
    "drivers": ["drv_snd"],
    "tests": [{"name": "TestSender"}, {"name": "TestSenderWorld"}],
    "trusted_base": [
        "translator generator `sender` (go/ast over spine/send.go, 150 lines): extracts the two cache constants and three critical-section facts the model's event granularity rests on",
        "model Spine.Snd / Spine.Ctr written by hand from spine/send.go; SHA-256 of destination+command modelled as an injective id (A-hash); golanguzb70/lrucache modelled as a 3-line list model read from its source (A-lru); atomic.AddUint64 as atomic fetch-add (A-atomic)",
    ],
    "assumptions": ["A-hash", "A-lru", "A-atomic", "interleavings of concurrent senders are covered by the event-sourced theorem c13_unique; the concurrent harness rounds only monitor"],
}
