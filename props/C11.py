P = {'level_text': "Theorems (kernel-checked) about FunctionData's store with Go's slice sharing made explicit (structs holding (array id, length); DataCopy copies the struct; the filter-less update "
               "adopts the caller's struct, which is also the event payload; engine writes in place or into fresh arrays as model/update.go does). Proved for histories of any length from any "
               'reachable state and every member of the family: across DataCopy, replace and merge-path updates (identifier-based partial updates, non-persisting filter-less updates; local or '
               'remote; persisting or not; succeeding or failing) every retained value other than the adopted struct reads what it read at hand-out (c11_snapshot_stable_partial, c11_datacopy_stable: '
               'the earlier history may be arbitrary); a merge-path update that does not persist, or fails, leaves the stored data exactly as it was; for members whose fast path stores a copy '
               '(fastpathAdopts off, fixes/c04/04) EVERY value ever handed in or out is stable across such histories (c11_every_handle_stable: the store never points to a struct the application '
               'holds). NEW, exact regions of clauses 2 and 3 (every member, every shape, local or remote): a non-persisting update, and an update reported as failed (persisting or not), leave the '
               'stored data exactly as it was whenever the delete filter names no elements and the partial part addresses, on an in-place path, no stored item it may write '
               '(c11_nonpersist_noop_exact, c11_failed_noop_exact: merge path, delete by selector, selector matching nothing, remote updates meeting unwritable items only are inside); a LOCAL update '
               'is never reported as failed (c11_failed_is_remote); each of the six refutation witnesses violates exactly one hypothesis (c11_noop_refuted_is_outside). All three clauses are REFUTED '
               'on the code as written by kernel-checked witnesses (in-place writes of copyToSelectedData / copyToAllData / RemoveElementFromItem, adopted pointer), each replayed on the real code on '
               "every run; they are known findings because the repository's own suite codifies the in-place behaviour. ROUND 4 (Props/C11Snap, Props/C11Gen): USE-CASE DATA - "
               'NodeManagementUseCaseData is read-modified-written through a one-level DataCopy, so both slice levels are shared with every value handed out; model Spine.UCS (heap with both levels, '
               'the helpers of model/nodemanagement_additions.go and usecaseinformation_additions.go as programs of heap writes in the order of the code). Proved at full strength for the member '
               '/repo is (clone before the change, append to a clipped slice, filter into a new list): along ANY history of EntityLocal helper calls, of model-level helpers run by the application on '
               "a fresh copy of its own or on a value it was handed earlier, and of hand-outs, every value handed out at any point and the store's value at that point read the same after ANY later "
               'history (c11_usecase_snapshots_stable); a scratch helper never changes the store (c11_scratch_helper_keeps_store); the bridge c11_owned_writes_keep_snapshots: ANY program of heap '
               'writes whose element assignments all go to arrays it allocated itself keeps every earlier value, and the modelled programs are of that kind (c11_usecase_programs_write_owned). '
               "CROSS-MODEL AGREEMENT with C20's value-level registry Spine.UC, proved for every well-formed heap and every input: what the store reads after a helper program equals the registry "
               'operation applied to what it read before (c11_usecase_program_is_the_registry_operation), and along any history from the empty store the store reads the fold of the registry '
               "operations of the EntityLocal helper calls, hand-outs and the application's own helper calls playing no role (c11_usecase_store_is_the_registry). Refuted members (kernel-checked "
               'witnesses): in-place filtering list[:0] in RemoveUseCaseDataForAddress (the value shows the following entity twice; invisible when the last element is removed; the store is the same '
               'for every member), and the two in-place helpers before /repo 478c80b. REGENERATED from the SSA form of the tree on every run (go/snapfacts): no function of package model outside the '
               'update engine (not reachable from the exported generic UpdateList) writes through a slice it did not allocate - element store, field of an element, mutating method on an element, '
               'copy, in-place slices.* / sort.*, append into spare capacity (c11_helpers_write_only_own_slices, non-vacuous: c11_helpers_write_somewhere). CONCURRENT CLAUSE - model Spine.SnapConc '
               '(micro-step interleavings of DataCopy against any number of in-place updaters): with the copy inside the critical section, on EVERY schedule every copied word is the word of the '
               "store at the reader's acquire, one of the states the store went through (c11_snapshot_is_one_state); refuted for the member that fetches the pointer under the mutex and copies after "
               'the unlock (c11_snapshot_refuted_copy_after_unlock). The member is selected by the source: regenerated table of every access to the stored pointer of spine.FunctionData and through '
               'it, with the mutexes held, walked from every exported method of the type and of the types embedding it (helpers, closures, defer vs explicit unlock looked through): all static '
               'accesses covered, ONE mutex disciplines them (reads at least read-locked, the pointer assignment and the in-place UpdateList call locked, the pointer never escapes), the copy of '
               'DataCopy / ReplyCmdType / NotifyOrWriteCmdType is inside the critical section (c11_store_accesses_covered, c11_store_disciplined, c11_copy_inside_critical_section, '
               'c11_inplace_update_inside_critical_section, c11_source_snapshot_is_one_state).',
 'level_note': 'AUDIT: design/audit-C11.md. /repo now probes to Heap.patched (fastpathAdopts off): c11_every_handle_stable applies to it. Trusted: Lean kernel; hand-written models Spine.Update / '
               'Spine.UpdateF / Spine.Heap; the harness and its codec. Tie: differential run on real FunctionData stores of 79 list functions (quick: 16 representative at volume, the rest lightly; '
               'thorough: all at volume) with every value ever handed in or out (inputs, DataCopy results, returned data, event payloads) retained, deep-copied as JSON at hand-out and re-read after '
               'every op; the composed device (FeatureLocal / FeatureRemote DataCopy, SetData, UpdateData, write / notify / reply datagrams, event payloads). Only refuted + partial: all three '
               'clauses (no repaired member: DESIGN §9). ROUND 4: the use-case helpers are now modelled (Spine.UCS), proved (Props/C11Snap) and compared on every run (TestSnap, driver drv_ucsnap: '
               'three local entities, every value handed out retained and JSON-compared after every op, store and retained values compared with the model op by op; corpus, exhaustive 450-history '
               'single-op grid, random histories); the static face is regenerated (go/snapfacts part B). The concurrent clause is a theorem about the interleaving model Spine.SnapConc whose member '
               'is selected by the regenerated store discipline (go/snapfacts part A), plus a concurrent SEARCH on the real generic spine.FunctionData with a wide value type (2 writers partial/full, '
               '4 readers, 0.8 s quick / 5 s thorough; SPEC: every snapshot is one store state) - a search, not steered (no yield hook inside DataCopy): on a tree whose copy is outside the critical '
               'section it found the mixed snapshot in every run made (seeded C11-r4-2, own mutants), and the proof obligation fails deterministically. Trusted in addition: the SSA walkers of '
               'go/snapfacts (limits in design/audit-C11.md: pointers to elements travelling through variables, reflection); the micro-step reading of sync.Mutex in Spine.SnapConc; hand-written '
               "Spine.UCS (programs transcribed from the helpers; its store semantics is PROVED equal to C20's value-level model Spine.UC - Spine.UseCaseSnapRefine - and compared with the real code "
               'op by op). Clause 1 is not widened beyond Op.Safe histories for retained handles of list stores.',
 'props_modules': ['Spine.Props.C11', 'Spine.Props.C11Snap', 'Spine.Props.C11Gen'],
 'generated_props': ['Spine.Props.C11Gen'],
 'generated': ['snapfacts'],
 'generated_files': ['SnapFacts.lean'],
 'lemma_modules': ['Spine.UpdateF',
                   'Spine.Heap',
                   'Spine.C04Thm',
                   'Spine.HeapThm',
                   'Spine.C04Wit',
                   'Spine.C04Applied',
                   'Spine.SnapFacts',
                   'Spine.UseCaseSnap',
                   'Spine.UseCaseSnapThm',
                   'Spine.UseCaseSnapRefine'],
 'drivers': ['drv_heap', 'drv_ucsnap'],
 'tests': [{'name': 'TestHeap'}, {'name': 'TestSnap'}],
 'trusted_base': ['models Spine.Update (shared with C02), Spine.UpdateF, Spine.Heap written by hand from model/update.go, model/collection_operations.go, spine/function_data.go',
                  'abstract <-> concrete value codec of go/comp/heap_test.go; snapshots are compared as JSON text and as abstract items',
                  'sort.Slice behaves as insertion sort for lists of at most 12 items',
                  'go/snapfacts (own Go module, golang.org/x/tools v0.29.0 go/packages + go/ssa): lock-state and stored-pointer walk from the exported methods of spine.FunctionData; slice-origin '
                  'classification per function of package model; run by translator generator `snapfacts`',
                  'hand-written models Spine.UCS (use-case helpers as heap-write programs) and Spine.SnapConc (mutex micro-steps); world, op language and renderer of go/comp/usecase_test.go (C20) '
                  'reused by go/comp/snap_test.go'],
 'assumptions': ['A-json (composed-world part only)',
                 'schedules: list-store theorems are about sequential histories; the concurrent clause is proved on the interleaving model Spine.SnapConc (A-sched: sync.Mutex excludes; word-granular '
                 'copies) and searched, not steered, on the real code']}
