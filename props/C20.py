P = {
    "level_text": "Theorems (kernel-checked): for ALL sequential histories of AddUseCaseSupport / RemoveUseCaseSupport / SetUseCaseAvailability / RemoveAllUseCaseSupports over any entities, actors and names (non-empty actor and name) the registry model equals the specification map (entity, actor, name) -> (version, sub-revision, scenarios, available) folded over the history (c20_refines), HasUseCaseSupport is its domain test (c20_has), an operation on one entity leaves every other entity's entries unchanged (c20_isolation), and what a peer reads is that registry (c20_read_equals_registry; in the model the reply is the stored data). Concurrent clause: REFUTED for the code as written by a kernel-checked witness schedule copy1 copy2 store1 store2 on two different entities (c20_concurrent_refuted, known finding usecase-lost-update); proved for every schedule without overlapping cycles (c20_concurrent_partial) and, for the repaired member (one mutex around each read-modify-write), for ALL schedules (c20_concurrent). Tie: op-by-op differential run of the model against the real EntityLocal operations and real nodeManagementUseCaseData read datagrams from a connected peer; the witness and all interleavings of two (thorough: three) concurrent cycles are driven on the real code through the yield hook; a probe selects the member (as written / serialised) so the check is valid before and after a repair.",
    "level_note": "Trusted: Lean kernel; hand-written models Spine.UC (value semantics, the one the theorems are about) and Spine.UCH (aliasing-exact heap member: DataCopy copies only the slice header, so overlapping cycles share backing arrays; executable only, validated on every interleaving explored, no theorem but the witness); the harness and its schedule driver (A-sched: at the yield point the goroutine is between DataCopy and modify+SetData). Outside the statement and only compared with the model: calls with an empty actor or name (wildcards of the lookup, not rejected by the API). Overlapping cycles on the SAME entity are not judged by the monitor (order-dependent outcome). The reply = stored data step is checked by the harness on every read, it is an identity in the model.",
    "props_modules": ["Spine.Props.C20"],
    "lemma_modules": ["Spine.UseCaseHeap"],
    "drivers": ["drv_uc"],
    "tests": [{"name": "TestUseCase"}],
    "trusted_base": [
        "models Spine.UC (model/nodemanagement_additions.go, usecaseinformation_additions.go, spine/entity_local.go:126-230 transcribed by hand, wildcard rules of useCaseInformationIndex included) and Spine.UCH (slice headers, shared backing arrays, append doubling capacity from 1 - Go's growth rule for 40- and 56-byte elements)",
        "yield hook spine.VerifYield at site UseCase.copied (A-sched); goroutines identified by runtime goroutine id",
    ],
    "assumptions": [
        "A-sched", "A-mutex (repaired member: the mutex makes each read-modify-write one event)",
        "actor and use-case name non-empty (Op.ok); entity addresses of distinct entities are distinct",
        "interleavings of more than three concurrent cycles are covered by the theorems on the model only",
    ],
}
