P = {'level_text': 'Theorems (kernel-checked). History level: for EVERY history of API calls the discovery reply computed from the model state, read as maps from addresses, equals the SPEC - what the '
               'application declared (entities attached; per entity and feature number the type, role, description; per function the read/write flags of its first addition), folded over the calls '
               'and the numbers they returned; inside the domain the reply has no duplicate keys (c07_refines; per state c07_reply_faithful, for a read overlapping AddEntity / RemoveEntity '
               'c07_reply_faithful_held; per operation c07_feature_announced, c07_function_announced, c07_function_first_wins, c07_function_client_ignored). Announced CONTENTS: the device '
               'description of a reply and the destination list - one entry, the constructor arguments (device address, device type, feature set), filters ignored, independent of entities and peers, '
               'unanswered for an unknown source feature (c07_destination_list; node management announces the destination-list function iff a feature set other than simple is given, '
               'c07_destination_list_function_announced); every announced feature names each function once, exactly the functions the SPEC declares, with the read / write / partial-write flags of '
               'the first addition, never a partial read, partial write only with write (c07_supported_functions). Every announced address resolves back to that feature (c07_resolves), announced '
               "addresses pairwise distinct inside the domain 'an entity is added only while not part of the device' (c07_addresses_unique, with the counterexample outside). Over ANY history the "
               'partial notifications each peer received are exactly one per AddEntity / RemoveEntity performed while it was subscribed, in order, added with the features / removed without, none '
               'otherwise (c07_notifications_history; per step c07_entity_added_notification, c07_entity_removed_notification, c07_notifications_only_to_subscribers); what a healthy peer receives '
               "does not depend on which other peers' connections fail, a failing peer receives nothing (c07_notify_independent_of_other_failures). Numbers fresh and one feature per type and role "
               'sequentially (c07_ids_fresh_tree, c07_fresh_number, c07_one_feature_per_type_role_sequential, c07_get_or_add_idempotent). NEVER REUSED as a theorem over histories (deepening round): '
               'for every history and every continuation that does not replace the entity object - it may be removed from the device and added again any number of times - the numbers the object '
               'hands out (NextFeatureId, or to a feature GetOrAddFeature creates), in the order of time, are strictly increasing, above every number the entity had, and are what the calls returned '
               '(c07_numbers_never_reused_history). Event model Spine.Feat, ALL interleavings of any number of calls: numbers never duplicated in both members (c07_ids_fresh); all numbers DRAWN from '
               'the generator, numbers burnt by NextFeatureId included, are strictly increasing in the order of time, both members (c07_numbers_never_reused); a call is handed a feature of the type '
               "and role it ASKED for, which is in the list at the end (c07_handed_what_was_asked, both members; the model's record of results is exactly the observer's list); a lookup answers or "
               'leaves the call pending with its request and the creation event of a pending call answers it (c07_call_answered); for the member the current tree is (recheck = true, creation looks '
               'up again under the lock; regenerated facts c07_creation_rechecks_under_lock, c07_generator_is_one_event, c07_current_tree_one_feature_per_type_role re-checked against the source text '
               'on every run) one feature per type and role and one and the same feature for every caller - any two calls that ASKED for the same type and role, however their lookups and creations '
               'interleave (c07_one_feature_per_type_role, c07_same_feature, c07_same_feature_asked; regenerated in addition: every search of the feature list in GetOrAddFeature happens under the '
               "entity lock, c07_lookup_is_one_event); for the pinned commit's member (recheck = false) refuted by the kernel-checked schedule lookup1 lookup2 create1 create2 "
               '(c07_one_feature_per_type_role_refuted, c07_same_feature_refuted, c07_same_feature_asked_refuted; finding get-or-add-double-creation, recorded as fixed) and proved when no calls '
               'overlap (c07_one_feature_per_type_role_partial). Tie: op-by-op differential run against the real DeviceLocal / EntityLocal / FeatureLocal with real subscription, read, reply and '
               'notify datagrams of three peers, with writer faults as a generator dimension (per peer: healthy, or set up without a writer so that every send to it returns an error - the only way a '
               'Sender fails, the writer interface has no error return; failing peer first / middle / last in a permuted subscription order; the monitor requires one discovery and one use-case '
               'notification per change for every healthy subscriber regardless of the others), including reads held in the middle of their walk over the entities while an entity is added or '
               'removed; witness and all interleavings of two (thorough: three) overlapping GetOrAddFeature calls driven through the yield hook, random interleavings of four to six overlapping calls '
               'with NextFeatureId calls and non-overlapped calls in between; at the end of every feature history the two observers the schedule theorems are stated with - the numbers drawn from the '
               'generator in the order of time, and the completed calls as (operation, type asked, role asked, number handed back) - are printed by the model driver and compared with the '
               "implementation's own record; a probe selects the member. SECOND WAVE. The CONTENT of the notifications is a theorem against the SPEC: over ANY history the notifications a peer "
               'received, read as maps (added / removed, slot, entity type, feature number to type, role, description, operations), are exactly the list computed from the SPEC maps alone, folded '
               'over the calls and the numbers they returned; the reading loses nothing (c07_notification_content; per step c07_entity_notification_content: the feature list of an added-notification '
               'read as a map IS the SPEC feature map of that slot at that prefix). A READ THAT OVERLAPS ADDITIONS is modelled as events (Spine/LocalTreeRead.lean: the entity list is taken once, '
               'then per entity its feature list, then per feature the operations map and the description - the four lock regions of processReadDetailedDiscoveryData / FeatureLocal.Information; '
               'application calls interleave anywhere): a read nothing overlaps ends and is the atomic read of the tree model (c07_read_events_refine_atomic_read); with ONE overlapping call of any '
               'kind at any point of the walk the reply is exactly the tree before the call or exactly the tree after it, a linearisable snapshot (c07_overlapped_read_one_call; hypotheses: the state '
               'invariant, which every reachable state has, and distinct entity addresses); for ANY schedule with any number of overlapping calls the entity list is the one of the start '
               '(c07_overlapped_read_entities) and the feature part lies between the tree at the start and the tree at the end of the read, feature by feature: every entry is a feature the tree has '
               'at the end, with that type and role and only functions it has by then, and every feature of the start has an entry with at least the functions it had then '
               '(c07_overlapped_read_sandwich); with two overlapping calls the reply can be the tree of no moment - kernel-checked schedule, reproduced on the real code '
               '(c07_overlapped_read_not_atomic_refuted; an observation, not a finding). Tie: block 1b of TestLocalTree holds the real read at entity boundaries (gate in the entity Information(), '
               'once or twice per read) while features, functions, descriptions and entities are added, and compares the reply with drv_ltree running the event model (corpus, exhaustive grid 2 hold '
               'points x held once or moved on x 9 x 9 additions, random histories); a model-free sandwich monitor judges every overlapped reply (entities of the start; every feature between its '
               "state at the start and at the end). ROUND 6 FOLLOW-UP. The ORDER of the two events of AddEntity / RemoveEntity - the entity joins / leaves the device's list, the change is announced "
               '- is part of the model (Spine/LocalTreeReact.lean) and regenerated from the source on every run (generator entitylocal: addEntityChangeBeforeNotify, removeEntityChangeBeforeNotify, '
               'entityListWritesLocked; the list field is found by its type, the notification through helpers on the receiver, defer and explicit unlock alike; c07_tree_changes_before_announcement). '
               'For every state, operation and peer a detailed-discovery read issued from INSIDE the notification (the sender writes synchronously), or falling between the announcement and the end '
               'of the call, is answered exactly like a read after the call (c07_read_inside_notification_current); an entity announced as removed is not listed, one announced as added is '
               '(c07_announced_removed_not_listed, c07_announced_added_listed); the order is necessary: with the announcement first the stale reply occurs in EVERY state in which the entity is part '
               "of the device (c07_announcement_first_refuted; LTree.react_removed_not_listed_iff / react_added_listed_iff are the iff). Tie: worlds with flag r in TestLocalTree - every peer's "
               'connection writer answers a partial detailed-discovery notification with a detailed-discovery read through the real datagram path from inside the write; the reply is judged '
               "model-free (told removed: not listed; told added: listed; equal to the bookkeeping after the operation, addresses resolve) and compared with the model's answer to a read after the "
               'operation. Worlds with flag s: all three connections (SKIs) announce one and the same SPINE device address with identical entity / feature numbering; model and monitor are per '
               "connection, so 'each subscribed peer exactly one notification' is checked where peers can only be told apart by connection.",
 'level_note': 'Round 5 follow-up: the shared generator `entitylocal` recognises package-level mutexes by type for every form of declaration and locates the use-case helpers in the whole package '
               "model (design/audit-C07.md, last section); C07's facts unchanged. Audit of the statement clause by clause (theorem, strength before / after the deepening round, tie): "
               'design/audit-C07.md. The SPEC of c07_refines is folded over the trace (calls WITH the numbers they returned), as the application sees it; that the returned numbers are fresh is '
               "c07_fresh_number / c07_ids_fresh. The notification SPEC takes the notification's content (entity type, features at that moment) from the model state; c07_refines identifies it with "
               'the declared one. Trusted: Lean kernel; hand-written models; translator generator `entitylocal` (go/ast, about 450 lines: event traces through helpers and function literals); harness '
               'incl. its bookkeeping and the schedule driver (A-sched). Domain: distinct entity addresses, features obtained through GetOrAddFeature / NextFeatureId (the API rejects neither a '
               'duplicate address nor a hand-made duplicate number); RemoveEntity also emits a use-case notify when use-case data exists - not a detailed-discovery notify, not counted (modelled and '
               'compared). Partial flags are part of the observation: the model takes the partial-update capability of a function on a feature type from the regenerated factory table '
               "(Spine.Generated.Functions, looked up by name in the driver); the monitor itself only requires 'no partial read, partial write only with write', so a wrong partial-write value shows "
               'as a correspondence violation. Observations, not judged: a function added again with other flags keeps the flags of its first addition (explicit guard in AddFunctionType; counted as '
               'fn:again-other-flags-ignored); the destination list is answered even when node management does not announce the function (feature set none / simple); the order of supportedFunction '
               "follows Go's map iteration and differs from read to read (compared as a set). Order of entities / features in the reply is compared with the model but not required by the monitor. "
               'Second wave: the content of a notification against the SPEC is a theorem now (c07_notification_content). Overlapped reads: the sandwich (c07_overlapped_read_sandwich) is what the '
               "harness's model-free monitor judges on the real replies (keys overlapped-read-*); NOT proved - that the description of an entry is one the feature carried since the read started "
               '(monitored: overlapped-read-description-never-set); the event points between the features of one entity and between Operations() and Description() of one feature are in the model but '
               'cannot be held by the harness (no hook there; holds are at entity boundaries); a fresh object for a slot (renew) during a held read is outside the event model and not performed; no '
               'generator re-checks the lock structure of the read against the source text - the differential run with held reads is the tie. The mixture reply under two overlapping additions is '
               'recorded as an observation (the statement quantifies over reads INTERLEAVED with additions; the read is not one critical section by design), its frequency is a generator floor. '
               'Observers Spine.Feat.drawn / answers (Spine/FeatureMore.lean) are defined from the event and the state it meets, the model itself is unchanged; res_eq_answers shows they lose nothing '
               'the model records. Round 6 follow-up: audit table and details in design/audit-C07.md (last section). Not proved: that the read inside the notification is served by the same goroutine '
               '(the harness waits for it inside the write, bounded by 10 s: an unanswered read is reported as read-inside-notification-unanswered); a reader on another goroutine that falls between '
               'the two events is covered by the theorem (any read at that moment) and by the order fact, not by a schedule of the harness. In worlds with flag r the held reads of the generator are '
               'performed plainly (a held read and a read from inside a notification of one peer at the same time could not be told apart).',
 'props_modules': ['Spine.Props.C07', 'Spine.Props.C07Gen'],
 'generated_props': ['Spine.Props.C07Gen'],
 'generated': ['entitylocal', 'functions'],
 'generated_files': ['EntityLocal.lean', 'Functions.lean'],
 'lemma_modules': ['Spine.LocalTreeThm',
                   'Spine.LocalTreeSpec',
                   'Spine.LocalTreeNote',
                   'Spine.LocalTreeRead',
                   'Spine.LocalTreeReadThm',
                   'Spine.FeatureMore',
                   'Spine.LocalTreeMore',
                   'Spine.LocalTreeReact'],
 'drivers': ['drv_ltree', 'drv_feat'],
 'tests': [{'name': 'TestLocalTree'}],
 'trusted_base': ['observers Spine.Feat.drawnOf / answerOf and Spine.LTree.drawnAt (which event hands out which number / completes which call) transcribed by hand; compared with the implementation '
                  'by the harness (drawn, answers) and op by op (returned numbers)',
                  'models Spine.LTree (device_local.go AddEntity/RemoveEntity/notifySubscribersOfEntity/FeatureByAddress, entity_local.go, entity.go NextFeatureId, feature_local.go '
                  'AddFunctionType/Information, operations.go, nodemanagement_detaileddiscovery.go:22-50) and Spine.Feat (GetOrAddFeature as lookup/create events) transcribed by hand; names interned '
                  'to numbers by the harness',
                  'yield hook spine.VerifYield at site GetOrAddFeature.miss (A-sched); goroutines identified by runtime goroutine id',
                  'event model of the detailed-discovery read (Spine/LocalTreeRead.lean: which lock region reads what, in which order) transcribed by hand from '
                  'nodemanagement_detaileddiscovery.go:22-50, entity_local.go Features(), feature.go Operations() / Description(); the gate that holds the real read is a wrapper around '
                  'EntityLocal.Information() (harness)',
                  "Spine/LocalTreeReact.lean: 'a read at the moment of the announcement meets the tree before or after the change according to the regenerated order' - the two-event reading of "
                  'AddEntity / RemoveEntity; what counts as the announcement for the generator: the first call, through helpers on the receiver, of Sender.Notify / NotifySubscribers / a helper named '
                  'notify...; what counts as the tree: the fields of DeviceLocal whose element type mentions EntityLocal'],
 'assumptions': ['A-sched',
                 'A-mutex',
                 "a read overlapping AddEntity / RemoveEntity is modelled as 'entity list taken before the operation' (heldRead); reads overlapping feature / function / description additions are "
                 'modelled as events (Spine/LocalTreeRead.lean) and explored with the read held at entity boundaries only',
                 'entity addresses of the entities added to the device are distinct; features are obtained through GetOrAddFeature / NextFeatureId (Op.ok / validFrom)',
                 "node-management subscriptions are not duplicated (the duplicate check of the subscription registry is C08's subject)",
                 'interleavings of more than three overlapping GetOrAddFeature calls are explored at random (four to six calls), exhaustively only up to three; beyond that the theorems on the model']}
