P = {
    "level_text": (
        "Theorems (Lean kernel, no sorry; axioms propext / Classical.choice / Quot.sound only) about an executable model of "
        "binary64 as exact integer arithmetic (Spine.Num: parse, product, quotient, math.Trunc / math.Round, math.Pow(10,+-d), "
        "the decimals count of FormatFloat) that the check ties bit for bit to the real NewScaledNumberType / GetValue on every run. "
        "Scaled numbers, clause 'a decimal with <= 4 fractional digits survives': REFUTED for the code as written by kernel-checked "
        "witnesses (0.29 -> (28,-2); (-199998,-1) read back as -19999.800000000003); PROVED for the repaired member of the model "
        "(math.Round; division by the exact power) for ALL d <= 4 and ALL |k| < 2^50: the pair denotes exactly k*10^-d "
        "(c19_scaled_exact) and GetValue returns the very double that was converted (c19_scaled_float_exact). The proof goes through "
        "IEEE-754 rounding as a relation (IsRnd): functional (c19_isRnd_unique), dependent on the rational only (c19_isRnd_congr), two "
        "roundings stay within half a unit (c19_round_recovers), the decimals count finds an equal decimal (c19_decimal_unique, "
        "c19_nearest_recovers), GetValue by division (c19_getvalue_by_division), sign symmetry for every double and both members "
        "(c19_sign_symmetry), and the soundness of the executable rounding for every positive rational (c19_rnd_sound). "
        "Clause 'below 10^14 within 0.0001': PROVED for the repaired member for EVERY normal double of magnitude up to (2^53-1)/10^4 = 9.007e11 "
        "(c19_scaled_close: |number*10^scale - v| <= 10^-4 in exact arithmetic); for the code as written REFUTED (0.29 -> 0.28, c19_scaled_close_refuted) "
        "and PARTIAL (c19_scaled_close_partial: holds whenever the shortest decimal form of v has >= 4 fractional digits); REFUTED above 2^53/10^4 for both "
        "members (c19_bound_refuted; stays a known finding: the clause's bound 10^14 is unattainable in binary64). "
        "Durations n*100 ms: PROVED exact below 3277 days, either sign, all n (c19_duration_exact, c19_duration_exact_signed, omega), and the bound is exact: "
        "3277 days is the least duration that does not survive (c19_duration_threshold_exact); REFUTED from 3277 days on (library switches to approximate "
        "years/months; known finding). The SPINE TEXT in between is now inside the model (Spine.DurText, a byte-level transcription of rickb777/date/period: "
        "period64.String, period.Parse with its scanner, the Unready/Armed/Set automaton of the seven designators, the fraction rule, weeks, normalise64, toPeriod, "
        "DurationApprox incl. int64 wrap-around): PROVED for every int64 duration (any sign, any fraction of 100 ms, below and above 3277 days; hypothesis Dur.monthsOk, which holds below 3277 days and excludes, above, a band of relative width 1e-6 where the library's signed months field is -1 and the text written is not even readable - c19_duration_text_negative_months, found by the text comparison of this round, inside the known finding) that the text "
        "NewDurationType writes is accepted by GetTimeDuration and read as exactly DurationApprox(NewOf d) (c19_duration_text_refines_fields: the text level "
        "refines the field level, formerly assumption A-period), hence clause (c) on the text for all multiples of 100 ms below 3277 days, either sign "
        "(c19_duration_text_exact), exact truncation of a fraction of 100 ms (c19_duration_text_truncates), the refutation from 3277 days on as texts "
        "(c19_duration_text_ge_3277_days_refuted: P8Y11M20D) and, outside the statement, the wrap-around of texts above 292 years (c19_duration_text_wraps). "
        "Sentence 1 needs a magnitude bound although the statement has none: 2^53 and 2^53+1 are one double (c19_scaled_exact_needs_bound); proved bound 2^50, "
        "region up to the first colliding pair for d = 1..4 neither proved nor refuted (design/audit-C19.md). "
        "Relative end time of a time period: PROVED to the second for all instants and durations, incl. the JSON round trip "
        "(c19_period_le_second, c19_period_at_once, c19_period_json); decoding a period document is a function of the document and the clock only, never of "
        "what the Go value held before (c19_period_decode_history_independent, c19_period_decode_relative - trivial in the model, tied to UnmarshalJSON by "
        "sequences of decodes into ONE value, directly and through a surrounding struct, with a fresh-value reference and an alias check on copies of the earlier value). "
        "Instants: only the glue is modelled, over facts regenerated from the tree under test on every run in two independent ways: DYNAMIC (the compiled code is "
        "probed with a fixed universe of text shapes: the shape NewDateTimeTypeFromTime writes is accepted and read as the right instant, it rounds to the second and "
        "converts to UTC, every getter accepts the plain and the Z form - c19_datetime_written_is_read, c19_datetime_whole_second_utc, c19_plain_and_z_forms) and STATIC "
        "(the layout strings found in the source by structural search - anchors are the exported names only; guarded cross-checks c19_ast_first_match, "
        "c19_ast_format_agrees, c19_ast_layouts_accepted, vacuous when a refactoring hides the strings, broken when a layout that is found contradicts the glue); "
        "calendar arithmetic and time.Format/Parse are assumed (A-time), the round trip itself is monitored on the real code (years 1-9999, zones, fractions)."
    ),
    "level_note": (
        "The probe phase selects the member of the model family (flags truncScaled, inexactPower) that matches the tree under test; the same check "
        "passes on the unchanged tree (as written, 4 known findings) and on the tree with the two planned repairs (2 known findings left). "
        "Tie: exhaustive grid k*10^-d, 0<=d<=4, |k| <= 2*10^5 (quick) / 2*10^7 (thorough; beyond |k| = 2*10^6 the negative half is compared with the "
        "model's answers for the positive half through the proved sign symmetry), random decimals up to 2^50, random doubles across magnitudes; "
        "the intermediate 'decimals' and 'product' are recomputed by the harness with the same Go expressions the code uses (they tie the model's "
        "decimals count and product to strconv/math, they are not read out of the code). The driver additionally asserts IsRnd on every rounding. "
        "Durations, text level: the text of every duration of the dense sweep (every multiple of 100 ms to 55 h / 23 days, strided to 400 days, both signs) is "
        "compared BYTE FOR BYTE with Spine.DurText.render (by digest, together with the value read back through Spine.DurText.parse), single values up to 292 years "
        "with an independent ISO 8601 reader as SPEC monitor (key duration-text-denotes-other); period.Parse / GetTimeDuration are compared with Spine.DurText.parse "
        "(error or duration in ns + normalised text) on every written text, on the exhaustive grid of all 127 designator subsets x 6 number patterns x 2 signs and on "
        "30 000 / 300 000 random well-formed (75 %) and damaged texts (floors on accepted / refused). Texts with a digit run above 12 are outside the model (answer "
        "'range', counted). Clause-by-clause audit: design/audit-C19.md. "
        "Trusted: Lean kernel; hand-written models Spine.Num / Spine.Dur / Spine.DurText / Spine.TP; harness and monitor; A-strconv, A-time (A-period only for %g of float32 inside writeField64, tied by the run). "
        "Values outside the model (subnormals, |v| >= 9.2e14 where value*10^4 overflows int64, NaN/Inf) are monitored only or excluded. "
        "The monitor judges clause (b) on the exact representation number*10^scale; for the double read back it allows the spacing of doubles at v in addition "
        "(above 2^39 that spacing alone exceeds 0.0001). The time-period monitor brackets the code's own clock readings with the harness clock."
    ),
    "props_modules": ["Spine.Props.C19", "Spine.Props.C19Layouts", "Spine.Props.C19Instants", "Spine.Props.C19Scaled"],
    "generated_props": ["Spine.Props.C19Layouts", "Spine.Props.C19Instants", "Spine.Props.C19Scaled"],
    "generated": ["timelayouts", "scaledexpr"],
    "generated_files": ["TimeLayouts.lean", "ScaledExpr.lean"],
    "lemma_modules": ["Spine.C19", "Spine.C19Wide", "Spine.RndSound", "Spine.C19Exec", "Spine.DurText", "Spine.DurTextThm", "Spine.TimeText", "Spine.TimeTextThm", "Spine.FExpr"],
    "drivers": ["drv_num"],
    "tests": [{"name": "TestNumeric"}],
    "trusted_base": [
        "models Spine.Num (binary64 as integers), Spine.Rnd.IsRnd (IEEE-754 round-to-nearest-even as a relation, normal range, exponent unbounded), Spine.Dur (period.NewOf / DurationApprox of rickb777/date v1.21.1), Spine.DurText (period64.String / period.Parse / normalise64 / toPeriod / DurationApprox of the same library at the level of bytes), Spine.TP (time.Time.Round / Duration.Round to the second) written by hand from model/commondatatypes_additions.go and the library source",
        "A-strconv: strconv.FormatFloat(v,'f',-1,64) yields the least number of decimals that round-trips (checked against the model's count on every generated value); A-period (now a theorem over Spine.DurText for every period NewOf builds, c19_duration_text_refines_fields; what remains assumed is that fmt's %g of float32(field)/10 prints the decimal i.f, compared on every run); A-time: time.Format/Parse/Round and calendar arithmetic as documented",
        "decide +kernel for 53-bit witnesses (kernel GMP arithmetic incl. Nat.log2, no extra axiom); Mathlib tactic modules (Linarith, Positivity, NormNum, Ring, Zify) in the lemma files Spine/FloatL.lean, Spine/C19.lean, Spine/RndSound.lean, Spine/C19Exec.lean only - never in a model or driver",
    ],
    "assumptions": ["A-strconv", "A-period", "A-time",
                    "binary64 arithmetic of the Go runtime on the test machine is IEEE-754 round-to-nearest-even without fused operations (amd64); math.Pow(10, +-d), d <= 4, is the correctly rounded power (checked bit for bit on every run)"],
}
