P = {
    "level_text": (
        "Theorems (Lean kernel, no sorry; axioms propext / Classical.choice / Quot.sound only) about an executable model of "
        "binary64 as exact integer arithmetic (Spine.Num: parse, product, quotient, math.Trunc / math.Round, math.Pow(10,+-d), "
        "the decimals count of FormatFloat) that the check ties bit for bit to the real NewScaledNumberType / GetValue on every run. "
        "Scaled numbers, clause 'a decimal with <= 4 fractional digits survives': REFUTED for the code as written by kernel-checked "
        "witnesses (0.29 -> (28,-2); (-199998,-1) read back as -19999.800000000003); PROVED for the repaired member of the model "
        "(math.Round; division by the exact power) for ALL d <= 4 and ALL |k| < 2^50: the pair denotes exactly k*10^-d "
        "(c19_scaled_exact) and GetValue returns the very double that was converted (c19_scaled_float_exact). The proof goes through "
        "IEEE-754 rounding as a relation (IsRnd): functional (c19_isRnd_unique), dependent on the rational only (c19_isRnd_congr), two "
        "roundings stay within half a unit (c19_round_recovers), the decimals count finds an equal decimal (c19_decimal_unique, "
        "c19_nearest_recovers), GetValue by division (c19_getvalue_by_division), sign symmetry for every double and both members "
        "(c19_sign_symmetry), and the soundness of the executable rounding for every positive rational (c19_rnd_sound). "
        "Clause 'below 10^14 within 0.0001': PROVED for the repaired member for EVERY normal double of magnitude up to (2^53-1)/10^4 = 9.007e11 "
        "(c19_scaled_close: |number*10^scale - v| <= 10^-4 in exact arithmetic); for the code as written REFUTED (0.29 -> 0.28, c19_scaled_close_refuted) "
        "and PARTIAL (c19_scaled_close_partial: holds whenever the shortest decimal form of v has >= 4 fractional digits); REFUTED above 2^53/10^4 for both "
        "members (c19_bound_refuted; stays a known finding: the clause's bound 10^14 is unattainable in binary64). "
        "Durations n*100 ms: PROVED exact below 3277 days, either sign, all n (c19_duration_exact, c19_duration_exact_signed, omega), and the bound is exact: "
        "3277 days is the least duration that does not survive (c19_duration_threshold_exact); REFUTED from 3277 days on (library switches to approximate "
        "years/months; known finding). The SPINE TEXT in between is now inside the model (Spine.DurText, a byte-level transcription of rickb777/date/period: "
        "period64.String, period.Parse with its scanner, the Unready/Armed/Set automaton of the seven designators, the fraction rule, weeks, normalise64, toPeriod, "
        "DurationApprox incl. int64 wrap-around): PROVED for every int64 duration (any sign, any fraction of 100 ms, below and above 3277 days; hypothesis Dur.monthsOk, which holds below 3277 days and excludes, above, a band of relative width 1e-6 where the library's signed months field is -1 and the text written is not even readable - c19_duration_text_negative_months, found by the text comparison of this round, inside the known finding) that the text "
        "NewDurationType writes is accepted by GetTimeDuration and read as exactly DurationApprox(NewOf d) (c19_duration_text_refines_fields: the text level "
        "refines the field level, formerly assumption A-period), hence clause (c) on the text for all multiples of 100 ms below 3277 days, either sign "
        "(c19_duration_text_exact), exact truncation of a fraction of 100 ms (c19_duration_text_truncates), the refutation from 3277 days on as texts "
        "(c19_duration_text_ge_3277_days_refuted: P8Y11M20D) and, outside the statement, the wrap-around of texts above 292 years (c19_duration_text_wraps). "
        "Sentence 1 needs a magnitude bound although the statement has none: 2^53 and 2^53+1 are one double (c19_scaled_exact_needs_bound); proved bound 2^50, "
        "above it see the least failing decimals below. "
        "Relative end time of a time period: PROVED to the second for all instants and durations, incl. the JSON round trip "
        "(c19_period_le_second, c19_period_at_once, c19_period_json); decoding a period document is a function of the document and the clock only, never of "
        "what the Go value held before (c19_period_decode_history_independent, c19_period_decode_relative - trivial in the model, tied to UnmarshalJSON by "
        "sequences of decodes into ONE value, directly and through a surrounding struct, with a fresh-value reference and an alias check on copies of the earlier value). "
        "Instants, TEXT LEVEL (second wave): byte-level model Spine.TimeText of what the date/time helpers do with package time - lex (time.nextStdChunk, every chunk kind recognised, the ones no layout of the code uses are outside the model), "
        "format (Time.AppendFormat), parse (time.parse: getnum, four-digit year, range checks, the fraction read although the layout has none, the optional .999 element, numeric zones, extra text, validation of the day), the proleptic Gregorian calendar, "
        "the loop of GetTime, NewDateTimeTypeFromTime - over the layout strings REGENERATED from the source on every run. PROVED (c19_instant_text_exact, c19_instant_text_whole_second): for every instant whose rounding to the second lies in the years 0000-9999, every fraction, "
        "every zone, GetTime(NewDateTimeTypeFromTime t) = t.Round(second), UTC; the domain is exact at its upper end (c19_instant_text_year_10000_refuted: five-digit year, unreadable). The proof is generic in the list of layouts "
        "(written_is_read: any list, in any order, of layouts of the family 2006-01-02T15:04:05 + optional .999 + literal bytes or zone element that contains one accepting Z), rests on civil_spec (calendar round trip for ALL day numbers, omega) and parse_written. "
        "DateType / TimeType (only read by the stack): PROVED that the plain and the Z form of every date of the years 0000-9999 / every time of day are read as midnight UTC of that date / that time on 1 January of year 0 (c19_date_text_read, c19_time_of_day_text_read); numeric zones and fractions by the differential run and kernel-evaluated witnesses (c19_getters_on_peer_texts). "
        "The glue theorems over DYNAMIC facts (probing the compiled code: c19_datetime_written_is_read, c19_datetime_whole_second_utc, c19_plain_and_z_forms) and the guarded STATIC cross-checks (c19_ast_*) of the first rounds stay. "
        "Sentence 1 above 2^50 (second wave): the least decimals that do not survive, per number of fractional digits, kernel-checked and replayed on the real code on every run (c19_scaled_exact_least_failures: 10*2^49+3, 100*2^45+2, 1000*2^42+21, 10^4*2^38+4; "
        "known finding decimal-from-least-failing-on); that nothing smaller fails is the error analysis 10^d*ulp(v)/2 < 1/4 - its arithmetic heart is a theorem without bound on the numerator (c19_round_recovers_wide), the rest an argument backed by a directed search on the real code every run. "
        "The expressions decimals / product / GetValue of the model are the ones in the SOURCE: recovered by the generator scaledexpr, proved equal to the model (Props/C19Scaled: c19_src_product, c19_src_number, c19_src_getvalue, c19_src_decimals), evaluated by the harness. "
        "Assumed: A-time now only for what Spine.TimeText does not model (the zone database, chunk kinds outside the family) and for time.Time.Round; the model of package time is compared with the real package on every run."
    ),
    "level_note": (
        "The probe phase selects the member of the model family (flags truncScaled, inexactPower) that matches the tree under test; the same check "
        "passes on the unchanged tree (as written, 4 known findings) and on the tree with the two planned repairs (2 known findings left). "
        "Tie: exhaustive grid k*10^-d, 0<=d<=4, |k| <= 2*10^5 (quick) / 5*10^6 and one block of 10^4 in seven up to 2*10^7 (thorough; beyond |k| = 10^6 the negative half is compared with the "
        "model's answers for the positive half through the proved sign symmetry and the model's digest is computed without the run-time IsRnd assertion), random decimals up to 2^50, a directed search from 2^50 to the least failing decimals "
        "(more than one period at the start of every segment between powers of two of k and of k*10^-d, both signs), random doubles across magnitudes; "
        "the intermediate 'decimals' and 'product' columns are evaluated from the expression trees the generator scaledexpr RECOVERED FROM THE SOURCE of the tree under test (validated by the generator against the compiled code; fallback to the harness's own expressions, "
        "reported in the evidence, when a refactoring cannot be followed). The driver additionally asserts IsRnd on every rounding of the quick-tier grid and of every single value. "
        "Instants, text level: texts written compared byte for byte with Spine.TimeText (digest over every second of 16/160 days around 8 anchor dates, the years 0000-9999 strided, fractions and zones), the three getters on 45 000 / 450 000 random well-formed and damaged texts, "
        "package time itself on 131 layouts; an independent reader (regular expression + time.Date) is the SPEC monitor (keys instant-text-denotes-other, instant-misread). All single-value phases run as op lists on the workers (deterministic per seed). "
        "Durations, text level: the text of every duration of the dense sweep (every multiple of 100 ms to 55 h / 23 days, strided to 400 days, both signs) is "
        "compared BYTE FOR BYTE with Spine.DurText.render (by digest, together with the value read back through Spine.DurText.parse), single values up to 292 years "
        "with an independent ISO 8601 reader as SPEC monitor (key duration-text-denotes-other); period.Parse / GetTimeDuration are compared with Spine.DurText.parse "
        "(error or duration in ns + normalised text) on every written text, on the exhaustive grid of all 127 designator subsets x 6 number patterns x 2 signs and on "
        "30 000 / 300 000 random well-formed (75 %) and damaged texts (floors on accepted / refused). Texts with a digit run above 12 are outside the model (answer "
        "'range', counted). Clause-by-clause audit: design/audit-C19.md. "
        "Trusted: Lean kernel; hand-written models Spine.Num / Spine.Dur / Spine.DurText / Spine.TimeText / Spine.FExpr / Spine.TP; harness and monitor; A-strconv, A-time (A-period only for %g of float32 inside writeField64, tied by the run). "
        "Values outside the model (subnormals, |v| >= 9.2e14 where value*10^4 overflows int64, NaN/Inf) are monitored only or excluded. "
        "The monitor judges clause (b) on the exact representation number*10^scale; for the double read back it allows the spacing of doubles at v in addition "
        "(above 2^39 that spacing alone exceeds 0.0001). The time-period monitor brackets the code's own clock readings with the harness clock."
    ),
    "props_modules": ["Spine.Props.C19", "Spine.Props.C19Layouts", "Spine.Props.C19Instants", "Spine.Props.C19Scaled"],
    "generated_props": ["Spine.Props.C19Layouts", "Spine.Props.C19Instants", "Spine.Props.C19Scaled"],
    "generated": ["timelayouts", "scaledexpr"],
    "generated_files": ["TimeLayouts.lean", "ScaledExpr.lean"],
    "lemma_modules": ["Spine.C19", "Spine.C19Wide", "Spine.RndSound", "Spine.C19Exec", "Spine.DurText", "Spine.DurTextThm", "Spine.TimeText", "Spine.TimeTextThm", "Spine.FExpr"],
    "drivers": ["drv_num"],
    "tests": [{"name": "TestNumeric"}],
    "trusted_base": [
        "model Spine.TimeText (time.nextStdChunk / AppendFormat / parse of the Go runtime at the level of bytes, proleptic Gregorian calendar; written by hand from src/time/format.go of Go 1.23, compared with the package on every run); Spine.FExpr (evaluator of the expression trees recovered from the source); the generators timelayouts and scaledexpr (go/ast; scaledexpr validates what it recovers against the compiled code)",
        "models Spine.Num (binary64 as integers), Spine.Rnd.IsRnd (IEEE-754 round-to-nearest-even as a relation, normal range, exponent unbounded), Spine.Dur (period.NewOf / DurationApprox of rickb777/date v1.21.1), Spine.DurText (period64.String / period.Parse / normalise64 / toPeriod / DurationApprox of the same library at the level of bytes), Spine.TP (time.Time.Round / Duration.Round to the second) written by hand from model/commondatatypes_additions.go and the library source",
        "A-strconv: strconv.FormatFloat(v,'f',-1,64) yields the least number of decimals that round-trips (checked against the model's count on every generated value); A-period (now a theorem over Spine.DurText for every period NewOf builds, c19_duration_text_refines_fields; what remains assumed is that fmt's %g of float32(field)/10 prints the decimal i.f, compared on every run); A-time: time.Format/Parse/Round and calendar arithmetic as documented",
        "decide +kernel for 53-bit witnesses (kernel GMP arithmetic incl. Nat.log2, no extra axiom); Mathlib tactic modules (Linarith, Positivity, NormNum, Ring, Zify) in the lemma files Spine/FloatL.lean, Spine/C19.lean, Spine/RndSound.lean, Spine/C19Exec.lean only - never in a model or driver",
    ],
    "assumptions": ["A-strconv", "A-period", "A-time",
                    "binary64 arithmetic of the Go runtime on the test machine is IEEE-754 round-to-nearest-even without fused operations (amd64); math.Pow(10, +-d), d <= 4, is the correctly rounded power (checked bit for bit on every run)"],
}
