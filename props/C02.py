P = {
    "level_text": "Theorems (kernel-checked, all shapes / stored lists / updates / histories, no size bound). REFINEMENT: on every input the SPEC decides (stored data and update with complete, pairwise distinct identifiers, or one identifier-less item, or a selector matching at most one item; delete filter with selector and/or elements naming no identifier; all seven filter shapes) the update engine succeeds and its result, read as a map identifier -> item, equals Spec.KV.apply (delete first, then overlay by identifier / over all / over the selected item); one item per identifier; the same along any history through the per-type wrapper (stored data = fold of the rules). ORDER: with numeric identifiers of 1, 2 or 3 key fields ordered data stays ordered and the merge path orders, where ordered = the identifier tuples increase strictly in lexicographic order; SortData's comparator is proved a strict weak order, total on identifiers. IDEMPOTENCE: idempotentRegion is the exact decidable side condition (second application decided, the rules give the same data at every identifier involved); inside it updateList (updateList st u) u = updateList st u as LISTS for numeric identifiers and all seven filter shapes (c02_idempotent), as lists for selector updates with any identifiers, as maps for every shape; outside it a kernel-checked witness shows the rules themselves are not idempotent (delete selector testing a field the partial part changes). IDENTITY: hashKey builds a string from the identifier parts; a character-level model of that string (Spine/HashKey.lean) proves it injective on complete identifiers for every kind of identifier that occurs in the regenerated table (1-3 numeric parts for all values incl. the largest uint; number + string for all strings incl. empty ones and ones containing the separator; device / entity / feature addresses for all device strings, up to an absent vs empty device part), proves that the abstract hash used by all other theorems identifies exactly what the string identifies (numeric identifiers, complete or not: the present prefix), and gives kernel-checked collisions for incomplete identifiers, the degenerate address, and a kind of identifier (string part before another part) that the table is decided not to contain; SortData is proved, for ALL lists, to return a permutation in which no item is less than its left neighbour and to be idempotent, with a witness that with missing identifier parts the comparator is no weak order. SEVERAL MATCHES: a partial update with a selector changes the first matching item only, everything else is as before; a delete selector removes every matching item and keeps every other. FAMILY: every member of the engine family (defect flags of C04/C05 sites: the pinned commit = all on, the repaired HEAD = cfg 0 0 0 0 0 / selfacts 1, any mixture) computes exactly updateList on every input the SPEC decides (c02_every_member_on_decided), so all of the above are theorems about the member the check runs against HEAD; the repaired SelectorMatch (nil check + reflect.DeepEqual) is proved total and to decide equality for every selector field class of every list type, struct-typed fields included. ENTRY PATHS ('received as reply or notify from a peer or applied through the local API'): over a table regenerated on every run from the SSA form of the tree under test (go/updpaths) - every way FeatureLocal.HandleMessage and NodeManagement.HandleMessage (per command classifier), FeatureLocal.SetData / UpdateData / ApproveOrDenyWrite and FeatureRemote.UpdateData reach FunctionDataInterface.UpdateDataAny - reply, notify and the local API hand remoteWrite = false, persist = true and the unchanged filters to the store, a write remoteWrite = true; one call site per path; no call site of UpdateDataAny in the module lies outside these paths; FunctionData hands its five arguments on, in order, once, down to model.Updater.UpdateList (c02_entry_paths, c02_entry_paths_cover, c02_store_hands_arguments_on); hence a history whose updates arrive through ANY mixture of reply, notify, UpdateData, SetData is folded by the one engine call of c02_history (c02_history_any_entry_path). TABLES regenerated from the tree on every run: every list type implementing model.Updater has a shape the theorems apply to; every UpdateList method outside the generated list wiringFailing (empty on HEAD) reads, passes and assigns one list field, persists only under success && persist and returns the data; wiringFailing is proved exact. Refuted by kernel-checked witness: order after a full update (stored as received; known finding, open on HEAD). The model is tied to the code by a differential run against the real per-type UpdateList of every list type with struct items (86), spine.FunctionData, FeatureLocal.UpdateData and reply/notify datagrams, with the family member and the selector encoding probed on the tree under test; the SPEC is monitored on the implementation's own results.",
    "level_note": "AUDIT (statement sentence by sentence -> theorems -> strength before/after -> tie): design/audit-C02.md. Trusted: Lean kernel; hand-written model Spine/Update.lean + Spine/Store.lean (as written = pinned commit) and the family Spine/UpdateF.lean (validated by the correspondence run incl. panics and in-place effects, on the pinned, the intermediate and the repaired trees); the translator's reflection / go/ast extraction (G3, G4), the SSA walker go/updpaths (constant propagation through helpers and interface calls; its limits - dispatch tables, flags travelling through struct fields - are listed in design/audit-C02.md and make it alarm, never pass silently) and the harness codec. The Go SPEC monitor is an independent twin of Spine/SpecKV.lean and is compared with it on every local case; beyond the twin it judges selectors matching several items by the first-match reading proved in c02_selector_first_match. The string model of hashKey is tied to the code by identity probes on the real UpdateList (every proved / refuted pair replayed) and by running the whole correspondence with adversarial concrete identifier values (separators, empty strings, max uint, address punctuation inside device strings). Not proved, monitored only: inputs the SPEC does not decide other than several matches (duplicate / missing identifiers in an update, elements naming identifiers, the identifier-less NodeManagementDestinationListData, scalar-item SpecificationVersionListData - not driven); list-level idempotence on the sorting paths for the six list types with non-numeric identifier parts (map-level is proved). String/struct identifiers are modelled as injectively hashed (no '|' in key strings). Remote writes belong to C04, panics to C05, sharing of backing arrays to C11.",
    "props_modules": [
        "Spine.Props.C02"
    ],
    "generated_props": [
        "Spine.Props.C02"
    ],
    "lemma_modules": [
        "Spine.Update",
        "Spine.Store",
        "Spine.SpecKV",
        "Spine.C02Tables",
        "Spine.UpdateThm",
        "Spine.SortThm",
        "Spine.C02Thm",
        "Spine.SelectThm",
        "Spine.C02Refine",
        "Spine.UpdateF",
        "Spine.StoreF",
        "Spine.C02Idem",
        "Spine.HashKey",
        "Spine.SortGen",
        "Spine.C02Paths"
    ],
    "drivers": [
        "drv_upd"
    ],
    "tests": [
        {
            "name": "TestUpdate"
        }
    ],
    "generated": [
        "shapes",
        "wiring",
        "updpaths"
    ],
    "generated_files": [
        "Shapes.lean",
        "Wiring.lean",
        "UpdPaths.lean"
    ],
    "trusted_base": [
        "model Spine.updateList / updateStore / updateData written by hand from model/update.go, model/collection_operations.go, spine/function_data.go; items abstracted to List (Option Nat) with one Shape per list type (G3)",
        "translator generators shapes (reflection over model.CmdType / model.FilterType with the repo's own EEBusTags) and wiring (go/ast over model/*.go); the harness uses the same extraction (go/h/updshape.go) and the correspondence run exercises every row",
        "selector fields are classified by type facts of the data model (G3: ignored / scalar / othertype / nonptr / struct / structnc) and encoded for the model by Spine.Tables.selMapFor from two facts PROBED on the tree under test (selected item field nil: panic or no match; struct values compared deeply or with !=); the harness checks before generating that the real SelectorMatch behaves for every selector field of every list type as its class says (same value / other value / nil), and that its own copy of the encoding equals the driver's",
        "go/updpaths (own Go module, golang.org/x/tools v0.29.0 go/packages + go/ssa): entry points found by exported name (SetData, UpdateData, HandleMessage, ApproveOrDenyWrite), everything below them by call structure; interface calls resolved to every non-generic type of the module implementing the interface; the classifier of a path = the CmdClassifierType constant whose comparison guards the call; run by the translator generator `updpaths`",
        "string and struct identifiers modelled as injectively hashed values (the code's 'a|b' concatenation is not injective if a key string contains '|' or is empty; no enum key of the data model does)"
    ],
    "assumptions": [
        "key strings contain no '|' and are non-empty (A-hash for identifiers)",
        "Go's sort.Slice is insertion sort for <= 12 elements; longer lists are compared as multisets"
    ]
}
