// Command notifypaths regenerates, from the tree under test, the static face of property C08's clause "a change of a
// local server feature's data sends one notification carrying the changed function's data … through SetData,
// UpdateData and accepted remote writes alike":
//
//   - for every exported method of spine.FeatureLocal from which DeviceLocalInterface.NotifySubscribers can be reached
//     (SetData, UpdateData, HandleMessage, ApproveOrDenyWrite, …) and every function literal below them that reaches it
//     (the approval timer): the set of EVENT TRACES over S (a call of FunctionDataInterface.UpdateDataAny — the store)
//     and N (a call of NotifySubscribers) along the feasible paths, the abstract value of the address argument of every
//     N and whether its cmd argument is built by NotifyOrWriteCmdType invoked on the very function-data object an S of
//     the same path stored into;
//   - every other call site of NotifySubscribers in the module, with the abstract address argument and the traces of
//     its enclosing function (the node-management announcements of the local tree: no store);
//   - for DeviceLocal.NotifySubscribers itself: that it ranges over SubscriptionsOnFeature(its address parameter), sends
//     Notify(element's server address, element's client address, its cmd parameter) through the sender of the element's
//     client feature, and that no path leaves the loop from the send other than through the loop header.
//
// The analysis is SEMANTIC: go/packages + go/ssa, a path-sensitive symbolic walk (nil-ness of values is tracked through
// returns of inlined callees, so that `fctData != nil && err == nil` after `updateData` is correlated with the path
// taken inside it), callees are inlined at any depth when they can reach one of the two sinks, interface calls are
// resolved to every implementing type of the module, names of unexported functions and fields play no role (unexported
// fields are rendered by their type).
//
// Output: <out>/NotifyPaths.lean. Own Go module because it needs golang.org/x/tools.
package main

import (
	"flag"
	"fmt"
	"go/token"
	"go/types"
	"os"
	"path/filepath"
	"sort"
	"strings"

	"golang.org/x/tools/go/packages"
	"golang.org/x/tools/go/ssa"
	"golang.org/x/tools/go/ssa/ssautil"
)

const modPrefix = "github.com/enbility/spine-go/"

const (
	sinkStore  = "UpdateDataAny"
	sinkNotify = "NotifySubscribers"
	cmdBuilder = "NotifyOrWriteCmdType"
)

type sym struct {
	id      string
	desc    string
	nilness int8          // 0 unknown, 1 nil, 2 non-nil (intrinsic)
	method  string        // for the result of an opaque method call: its name …
	recv    string        // … and the id of its receiver
	after   bool          // … and whether the call came after a store into that receiver on the same path
	fn      *ssa.Function // a function value (function literal handed on as an argument) …
	binds   []*sym        // … with its captured variables
}

var symNil = &sym{id: "nil", desc: "nil", nilness: 1}

type facts map[string]int8

func (f facts) with(k string, v int8) facts {
	g := make(facts, len(f)+1)
	for a, b := range f {
		g[a] = b
	}
	g[k] = v
	return g
}

func (f facts) key() string {
	ks := make([]string, 0, len(f))
	for k, v := range f {
		ks = append(ks, fmt.Sprintf("%s=%d", k, v))
	}
	sort.Strings(ks)
	return strings.Join(ks, ";")
}

type frame struct {
	fn     *ssa.Function
	sig    string
	vals   map[ssa.Value]*sym
	tuples map[ssa.Value][]*sym
	mem    map[*ssa.Alloc]*sym // what the path last stored into a local (result slots of functions with defer)
	depth  int
	stack  map[*ssa.Function]bool
}

type nsite struct {
	addr      string
	cmdStored bool
	pos       string
}

type result struct {
	traces map[string]bool
	addrs  map[string]bool
	cmds   map[string]bool
	// silent: for every store that a path left WITHOUT a following notification (the root returned, or the next store
	// came): what the path knows about the store's error result - 2 = non-nil (the store was refused), 1 = nil (the
	// store was accepted and yet nobody was told), 0 = the path never looked at it
	silent map[int]bool
}

const pendPrefix = "pend:"

// pendingOf: the error results of stores the path has not yet notified about
func pendingOf(st facts) []string {
	var ks []string
	for k := range st {
		if strings.HasPrefix(k, pendPrefix) {
			ks = append(ks, strings.TrimPrefix(k, pendPrefix))
		}
	}
	sort.Strings(ks)
	return ks
}

// settle: the path leaves its pending stores behind (silently: record what it knows about their error results)
func (a *analyser) settle(st facts, silently bool) facts {
	ks := pendingOf(st)
	if len(ks) == 0 {
		return st
	}
	g := make(facts, len(st))
	for k, v := range st {
		if !strings.HasPrefix(k, pendPrefix) {
			g[k] = v
		}
	}
	if silently {
		for _, k := range ks {
			a.res.silent[int(st[k])] = true
		}
	}
	return g
}

// errResult: the index of the error result of a store call (the last result of pointer-to-ErrorType or error type; -1: none)
func errResult(val ssa.Value) int {
	if val == nil {
		return -1
	}
	isErr := func(t types.Type) bool {
		ts := types.TypeString(t, nil)
		return strings.HasSuffix(ts, "ErrorType") || ts == "error"
	}
	if tup, ok := val.Type().(*types.Tuple); ok {
		for k := tup.Len() - 1; k >= 0; k-- {
			if isErr(tup.At(k).Type()) {
				return k
			}
		}
		return -1
	}
	if isErr(val.Type()) {
		return 0
	}
	return -1
}

type analyser struct {
	prog    *ssa.Program
	pkgs    []*ssa.Package
	impl    map[string][]*ssa.Function
	reach   map[*ssa.Function]bool // can reach a sink
	memo    map[string]bool
	res     *result
	visited map[string]bool // N call sites met
	steps   int
}

func isModule(f *ssa.Function) bool {
	if f == nil {
		return false
	}
	p := f.Pkg
	if p == nil && f.Origin() != nil {
		p = f.Origin().Pkg
	}
	if p == nil && f.Parent() != nil {
		return isModule(f.Parent())
	}
	return p != nil && strings.HasPrefix(p.Pkg.Path()+"/", modPrefix)
}

func (a *analyser) implementations(iface types.Type, name string) []*ssa.Function {
	it, ok := iface.Underlying().(*types.Interface)
	if !ok {
		return nil
	}
	key := types.TypeString(iface, nil) + "." + name
	if r, ok := a.impl[key]; ok {
		return r
	}
	var out []*ssa.Function
	for _, p := range a.pkgs {
		for _, mem := range p.Members {
			tn, ok := mem.(*ssa.Type)
			if !ok {
				continue
			}
			named, ok := tn.Type().(*types.Named)
			if !ok || named.TypeParams().Len() > 0 {
				continue
			}
			if _, isIface := named.Underlying().(*types.Interface); isIface {
				continue
			}
			for _, t := range []types.Type{named, types.NewPointer(named)} {
				if !types.Implements(t, it) {
					continue
				}
				sel := a.prog.MethodSets.MethodSet(t).Lookup(p.Pkg, name)
				if sel == nil {
					sel = a.prog.MethodSets.MethodSet(t).Lookup(nil, name)
				}
				if sel == nil {
					continue
				}
				if f := a.prog.MethodValue(sel); f != nil {
					out = append(out, f)
				}
				break
			}
		}
	}
	sort.Slice(out, func(i, j int) bool { return out[i].String() < out[j].String() })
	a.impl[key] = out
	return out
}

// callees of a call instruction inside the module (static, or every implementation of an interface method)
func (a *analyser) callees(c *ssa.CallCommon) []*ssa.Function {
	if c.IsInvoke() {
		var out []*ssa.Function
		for _, f := range a.implementations(c.Value.Type(), c.Method.Name()) {
			if isModule(f) {
				out = append(out, f)
			}
		}
		return out
	}
	if mc, ok := c.Value.(*ssa.MakeClosure); ok {
		if f, ok := mc.Fn.(*ssa.Function); ok {
			return []*ssa.Function{f}
		}
	}
	f := c.StaticCallee()
	if f == nil || !isModule(f) {
		return nil
	}
	return []*ssa.Function{f}
}

func sinkOf(c *ssa.CallCommon) string {
	name := ""
	if c.IsInvoke() {
		name = c.Method.Name()
	} else if f := c.StaticCallee(); f != nil && isModule(f) && f.Signature.Recv() != nil {
		name = f.Name()
	}
	switch {
	case name == sinkStore && len(c.Args) >= 5:
		return "S"
	case name == sinkNotify && (c.IsInvoke() && len(c.Args) == 2 || !c.IsInvoke() && len(c.Args) == 3):
		return "N"
	}
	return ""
}

// computeReach: functions of the module from which a sink call is reachable (through calls, go, defer and function literals)
func (a *analyser) computeReach(all []*ssa.Function) {
	edges := map[*ssa.Function][]*ssa.Function{}
	direct := map[*ssa.Function]bool{}
	for _, f := range all {
		for _, b := range f.Blocks {
			for _, ins := range b.Instrs {
				if mc, ok := ins.(*ssa.MakeClosure); ok {
					if g, ok := mc.Fn.(*ssa.Function); ok {
						edges[f] = append(edges[f], g)
					}
				}
				ci, ok := ins.(ssa.CallInstruction)
				if !ok {
					continue
				}
				c := ci.Common()
				if sinkOf(c) != "" {
					direct[f] = true
					if sinkOf(c) == "N" && !c.IsInvoke() {
						continue
					}
					if sinkOf(c) == "S" {
						continue
					}
				}
				edges[f] = append(edges[f], a.callees(c)...)
			}
		}
	}
	a.reach = map[*ssa.Function]bool{}
	changed := true
	for f := range direct {
		a.reach[f] = true
	}
	for changed {
		changed = false
		for _, f := range all {
			if a.reach[f] {
				continue
			}
			for _, g := range edges[f] {
				if o := g.Origin(); o != nil {
					g = o
				}
				if a.reach[g] {
					a.reach[f] = true
					changed = true
					break
				}
			}
		}
	}
}

func fieldDesc(x ssa.Value, idx int) string {
	t := x.Type()
	if p, ok := t.Underlying().(*types.Pointer); ok {
		t = p.Elem()
	}
	if s, ok := t.Underlying().(*types.Struct); ok && idx < s.NumFields() {
		f := s.Field(idx)
		if f.Exported() {
			return f.Name()
		}
		ts := types.TypeString(f.Type(), func(*types.Package) string { return "" })
		return "<" + ts + ">"
	}
	return "?"
}

func (a *analyser) eval(fr *frame, v ssa.Value, prev *ssa.BasicBlock, depth int) *sym {
	if s, ok := fr.vals[v]; ok {
		return s
	}
	if depth > 16 {
		return &sym{id: fr.sig + "/" + v.Name(), desc: "?"}
	}
	switch x := v.(type) {
	case *ssa.Const:
		if x.IsNil() {
			return symNil
		}
		return &sym{id: "const:" + x.String(), desc: x.String(), nilness: 2}
	case *ssa.Parameter, *ssa.FreeVar:
		return &sym{id: fr.sig + "/" + v.Name(), desc: "?" + v.Name()}
	case *ssa.Global:
		return &sym{id: "global:" + x.Name(), desc: "global:" + x.Name(), nilness: 2}
	case *ssa.Extract:
		if t, ok := fr.tuples[x.Tuple]; ok && x.Index < len(t) {
			return t[x.Index]
		}
	case *ssa.FieldAddr:
		b := a.eval(fr, x.X, prev, depth+1)
		return &sym{id: b.id + ".&" + fieldDesc(x.X, x.Field), desc: b.desc + "." + fieldDesc(x.X, x.Field), nilness: 2}
	case *ssa.Field:
		b := a.eval(fr, x.X, prev, depth+1)
		return &sym{id: b.id + "." + fieldDesc(x.X, x.Field), desc: b.desc + "." + fieldDesc(x.X, x.Field)}
	case *ssa.IndexAddr:
		b := a.eval(fr, x.X, prev, depth+1)
		return &sym{id: b.id + "[]", desc: "elem(" + b.desc + ")", nilness: 2}
	case *ssa.Index:
		b := a.eval(fr, x.X, prev, depth+1)
		return &sym{id: b.id + "[]", desc: "elem(" + b.desc + ")"}
	case *ssa.UnOp:
		if x.Op == token.MUL {
			switch y := x.X.(type) {
			case *ssa.FieldAddr:
				b := a.eval(fr, y.X, prev, depth+1)
				return &sym{id: b.id + "." + fieldDesc(y.X, y.Field), desc: b.desc + "." + fieldDesc(y.X, y.Field)}
			case *ssa.IndexAddr:
				b := a.eval(fr, y.X, prev, depth+1)
				return &sym{id: b.id + "[]", desc: "elem(" + b.desc + ")"}
			case *ssa.Alloc:
				if m, ok := fr.mem[y]; ok {
					return m
				}
				var val ssa.Value
				n := 0
				for _, r := range *y.Referrers() {
					if st, ok := r.(*ssa.Store); ok && st.Addr == y {
						val = st.Val
						n++
					}
				}
				if n == 1 {
					return a.eval(fr, val, prev, depth+1)
				}
			default:
				b := a.eval(fr, x.X, prev, depth+1)
				return &sym{id: "*" + b.id, desc: "*" + b.desc}
			}
		}
	case *ssa.ChangeType:
		return a.eval(fr, x.X, prev, depth+1)
	case *ssa.Convert:
		return a.eval(fr, x.X, prev, depth+1)
	case *ssa.MakeInterface:
		return a.eval(fr, x.X, prev, depth+1)
	case *ssa.ChangeInterface:
		return a.eval(fr, x.X, prev, depth+1)
	case *ssa.TypeAssert:
		if !x.CommaOk {
			return a.eval(fr, x.X, prev, depth+1)
		}
	case *ssa.Phi:
		if prev != nil {
			for i, p := range x.Block().Preds {
				if p == prev && i < len(x.Edges) {
					return a.eval(fr, x.Edges[i], nil, depth+1)
				}
			}
		}
	case *ssa.Function:
		return &sym{id: "func:" + x.String(), desc: "func", nilness: 2, fn: x}
	case *ssa.MakeClosure:
		if f, ok := x.Fn.(*ssa.Function); ok {
			s := &sym{id: fr.sig + "/" + v.Name(), desc: "func", nilness: 2, fn: f}
			for _, b := range x.Bindings {
				s.binds = append(s.binds, a.eval(fr, b, prev, depth+1))
			}
			return s
		}
	case *ssa.Alloc, *ssa.MakeMap, *ssa.MakeSlice, *ssa.MakeChan:
		return &sym{id: fr.sig + "/" + v.Name(), desc: "new", nilness: 2}
	}
	return &sym{id: fr.sig + "/" + v.Name(), desc: "?"}
}

func (a *analyser) nilness(s *sym, st facts) int8 {
	if s.nilness != 0 {
		return s.nilness
	}
	return st[s.id]
}

// run executes block b of frame fr from instruction i on; ret is called at every return of the frame
func (a *analyser) run(fr *frame, b *ssa.BasicBlock, i int, prev *ssa.BasicBlock, st facts, tr string, ret func([]*sym, facts, string)) {
	a.steps++
	if a.steps > 400000 {
		return
	}
	if i == 0 {
		pi := -1
		if prev != nil {
			pi = prev.Index
		}
		key := fmt.Sprintf("%s|%d|%d|%s|%s", fr.sig, b.Index, pi, tr, st.key())
		if a.memo[key] {
			return
		}
		a.memo[key] = true
	}
	for ; i < len(b.Instrs); i++ {
		switch ins := b.Instrs[i].(type) {
		case *ssa.If:
			a.branch(fr, b, ins, prev, st, tr, ret)
			return
		case *ssa.Jump:
			a.run(fr, b.Succs[0], 0, b, st, tr, ret)
			return
		case *ssa.Return:
			var rs []*sym
			for _, r := range ins.Results {
				rs = append(rs, a.eval(fr, r, prev, 0))
			}
			ret(rs, st, tr)
			return
		case *ssa.Panic:
			return
		case ssa.CallInstruction:
			if _, isDefer := ins.(*ssa.Defer); isDefer {
				if !a.anyReach(a.callees(ins.Common())) && sinkOf(ins.Common()) == "" {
					continue
				}
			}
			a.call(fr, b, i, ins, prev, st, tr, ret)
			return
		case *ssa.Phi:
			delete(fr.vals, ins)
			fr.vals[ins] = a.eval(fr, ins, prev, 0)
			// a boolean joined from several blocks (`ok := x != nil && err == nil`): the path remembers which edge
			// it came by, so that a later branch on it is decided like a branch on the condition itself
			if bt, ok := ins.Type().Underlying().(*types.Basic); ok && bt.Kind() == types.Bool && prev != nil {
				for k, pb := range b.Preds {
					if pb == prev && k < len(ins.Edges) {
						st = st.with(fmt.Sprintf("phi:%s/%s", fr.sig, ins.Name()), int8(k+1))
					}
				}
			}
		case *ssa.Store:
			if al, ok := ins.Addr.(*ssa.Alloc); ok {
				if fr.mem == nil {
					fr.mem = map[*ssa.Alloc]*sym{}
				}
				fr.mem[al] = a.eval(fr, ins.Val, prev, 0)
			}
		}
	}
}

func (a *analyser) anyReach(fs []*ssa.Function) bool {
	for _, f := range fs {
		if o := f.Origin(); o != nil {
			f = o
		}
		if a.reach[f] {
			return true
		}
	}
	return false
}

func (a *analyser) branch(fr *frame, b *ssa.BasicBlock, ins *ssa.If, prev *ssa.BasicBlock, st facts, tr string, ret func([]*sym, facts, string)) {
	goT := func(st facts) { a.run(fr, b.Succs[0], 0, b, st, tr, ret) }
	goF := func(st facts) { a.run(fr, b.Succs[1], 0, b, st, tr, ret) }
	// look through negations and through booleans joined by a phi (the edge this path came by)
	cond := ins.Cond
	for n := 0; n < 8; n++ {
		if u, ok := cond.(*ssa.UnOp); ok && u.Op == token.NOT {
			goT, goF = goF, goT
			cond = u.X
			continue
		}
		if ph, ok := cond.(*ssa.Phi); ok {
			if k := st[fmt.Sprintf("phi:%s/%s", fr.sig, ph.Name())]; k > 0 && int(k) <= len(ph.Edges) {
				cond = ph.Edges[k-1]
				continue
			}
		}
		break
	}
	if c, ok := cond.(*ssa.Const); ok {
		if c.Value != nil && c.Value.String() == "true" {
			goT(st)
		} else {
			goF(st)
		}
		return
	}
	if bo, ok := cond.(*ssa.BinOp); ok && (bo.Op == token.EQL || bo.Op == token.NEQ) {
		var other ssa.Value
		if c, ok := bo.Y.(*ssa.Const); ok && c.IsNil() {
			other = bo.X
		} else if c, ok := bo.X.(*ssa.Const); ok && c.IsNil() {
			other = bo.Y
		}
		if other != nil {
			s := a.eval(fr, other, prev, 0)
			isNilBranch, nonNilBranch := goT, goF
			if bo.Op == token.NEQ {
				isNilBranch, nonNilBranch = goF, goT
			}
			switch a.nilness(s, st) {
			case 1:
				isNilBranch(st)
			case 2:
				nonNilBranch(st)
			default:
				isNilBranch(st.with(s.id, 1))
				nonNilBranch(st.with(s.id, 2))
			}
			return
		}
	}
	goT(st)
	goF(st)
}

func (a *analyser) call(fr *frame, b *ssa.BasicBlock, i int, ins ssa.CallInstruction, prev *ssa.BasicBlock, st facts, tr string, ret func([]*sym, facts, string)) {
	c := ins.Common()
	val := ins.Value() // nil for go / defer
	cont := func(results []*sym, st facts, tr string) {
		if val != nil {
			if tup, ok := val.Type().(*types.Tuple); ok {
				rs := make([]*sym, tup.Len())
				for k := range rs {
					if k < len(results) && results[k] != nil {
						rs[k] = results[k]
					} else {
						rs[k] = &sym{id: fmt.Sprintf("%s/%s#%d", fr.sig, val.Name(), k), desc: "?"}
					}
				}
				fr.tuples[val] = rs
			} else if len(results) == 1 && results[0] != nil {
				fr.vals[val] = results[0]
			} else {
				fr.vals[val] = &sym{id: fr.sig + "/" + val.Name(), desc: "?"}
			}
		}
		a.run(fr, b, i+1, prev, st, tr, ret)
	}
	args := make([]*sym, len(c.Args))
	for k, x := range c.Args {
		args[k] = a.eval(fr, x, prev, 0)
	}
	var recv *sym
	if c.IsInvoke() {
		recv = a.eval(fr, c.Value, prev, 0)
	} else if f := c.StaticCallee(); f != nil && f.Signature.Recv() != nil && len(args) > 0 {
		recv = args[0]
	}
	switch sinkOf(c) {
	case "S":
		if len(tr) < 6 {
			tr += "S"
		}
		if os.Getenv("NP_DEBUG") != "" && recv != nil {
			fmt.Fprintf(os.Stderr, "S in %s sig=%s recv.id=%s recv.desc=%s\n", fr.fn.Name(), fr.sig, recv.id, recv.desc)
		}
		st2 := a.settle(st, true) // a store directly after a store: the earlier one stays unannounced
		if recv != nil {
			st2 = st2.with("stored:"+recv.id, 1)
		}
		// the error result of the store gets a symbol of its own; it is PENDING until a notification follows
		// … unless the object stored into is not reached from the receiver (the cache of a REMOTE feature's data, filled
		// by replies and notifications of the peer: nobody subscribes to that)
		var rs []*sym
		if recv != nil && !strings.HasPrefix(recv.id, "p0") && !strings.HasPrefix(recv.id, "&p0") {
			cont(nil, st2, tr)
			return
		}
		if k := errResult(val); k >= 0 {
			n := 1
			if tup, ok := val.Type().(*types.Tuple); ok {
				n = tup.Len()
			}
			rs = make([]*sym, n)
			id := fmt.Sprintf("%s/%s#err", fr.sig, val.Name())
			rs[k] = &sym{id: id, desc: "storeErr"}
			st2 = st2.with(pendPrefix+id, 1)
		} else {
			st2 = st2.with(pendPrefix+fmt.Sprintf("%s/%s#noerr", fr.sig, ins.String()), 1)
		}
		cont(rs, st2, tr)
		return
	case "N":
		if len(tr) < 6 {
			tr += "N"
		}
		na := args
		if !c.IsInvoke() {
			na = args[1:]
		}
		if os.Getenv("NP_DEBUG") != "" {
			fmt.Fprintf(os.Stderr, "N in %s sig=%s tr=%s st=%s cmd=%+v\n", fr.fn.Name(), fr.sig, tr, st.key(), *na[1])
		}
		a.visited[a.prog.Fset.Position(ins.Pos()).String()] = true
		a.res.addrs[na[0].desc] = true
		cmd := na[1]
		// built by the cmd builder, invoked on an object this path stored into, AFTER that store
		stored := cmd.method == cmdBuilder && st["stored:"+cmd.recv] == 1 && cmd.after
		// is the address that of the feature whose function data the path stored into? (the object the address is
		// taken from — field selections stripped — is a prefix object of a stored function-data object)
		own := "foreign"
		base := na[0].recv
		if base == "" {
			base = na[0].id
		}
		for base != "" && own != "own" {
			for k := range st {
				if strings.HasPrefix(k, "stored:"+base+".") {
					own = "own"
				}
			}
			j := strings.LastIndex(base, ".")
			if j < 0 || strings.Contains(base[j:], "()") {
				break // only field selections are stripped: an object reached through a method call is another object
			}
			base = base[:j]
		}
		a.res.cmds[fmt.Sprintf("%s:%v:%s", cmd.method, stored, own)] = true
		st = a.settle(st, false)
		if c.IsInvoke() {
			cont(nil, st, tr)
			return
		}
		// a static call of the fan-out function itself: do not descend
		cont(nil, st, tr)
		return
	}
	var inl []*ssa.Function
	var fnval *sym
	if !c.IsInvoke() && c.StaticCallee() == nil {
		// a call of a function VALUE: when the value is a function literal of the module handed down the path, it is
		// inlined like a helper (whatever it reaches: it may build the cmd)
		if v := a.eval(fr, c.Value, prev, 0); v.fn != nil && isModule(v.fn) && len(v.fn.Blocks) > 0 && !fr.stack[v.fn] && fr.depth < 14 {
			fnval = v
			inl = append(inl, v.fn)
		}
	}
	for _, f := range a.callees(c) {
		if fnval != nil {
			break
		}
		g := f
		if o := g.Origin(); o != nil {
			g = o
		}
		if a.reach[g] && len(f.Blocks) > 0 && !fr.stack[f] && fr.depth < 14 {
			inl = append(inl, f)
		}
	}
	if len(inl) == 0 {
		// opaque
		name := ""
		if c.IsInvoke() {
			name = c.Method.Name()
		} else if f := c.StaticCallee(); f != nil {
			name = f.Name()
		}
		mk := func(k int) *sym {
			id := fr.sig + "/" + ins.String()
			if val != nil {
				id = fr.sig + "/" + val.Name()
			}
			s := &sym{id: fmt.Sprintf("%s#%d", id, k), desc: name + "(?)", method: name}
			if recv != nil {
				// a method of the same receiver yields "the same" value wherever it is called (r.Address(), r.Device())
				s.id = fmt.Sprintf("%s.%s()#%d", recv.id, name, k)
				s.desc = name + "(" + recv.desc + ")"
				s.recv = recv.id
				s.after = st["stored:"+recv.id] == 1
			}
			return s
		}
		n := 1
		if val != nil {
			if tup, ok := val.Type().(*types.Tuple); ok {
				n = tup.Len()
			}
		}
		rs := make([]*sym, n)
		for k := range rs {
			rs[k] = mk(k)
		}
		cont(rs, st, tr)
		return
	}
	for _, f := range inl {
		stack := map[*ssa.Function]bool{f: true}
		for k := range fr.stack {
			stack[k] = true
		}
		nf := &frame{fn: f, sig: fmt.Sprintf("%s>%s@%d", fr.sig, f.Name(), a.prog.Fset.Position(ins.Pos()).Offset), vals: map[ssa.Value]*sym{}, tuples: map[ssa.Value][]*sym{}, depth: fr.depth + 1, stack: stack}
		pa := args
		if c.IsInvoke() {
			pa = append([]*sym{recv}, args...)
		}
		for k, p := range f.Params {
			if k < len(pa) {
				nf.vals[p] = pa[k]
			}
		}
		if mc, ok := c.Value.(*ssa.MakeClosure); ok {
			for k, fv := range f.FreeVars {
				if k < len(mc.Bindings) {
					nf.vals[fv] = a.eval(fr, mc.Bindings[k], prev, 0)
				}
			}
		} else if fnval != nil {
			for k, fv := range f.FreeVars {
				if k < len(fnval.binds) {
					nf.vals[fv] = fnval.binds[k]
				}
			}
		}
		a.run(nf, f.Blocks[0], 0, nil, st, tr, cont)
	}
}

func (a *analyser) analyse(f *ssa.Function, paramNames bool) *result {
	a.res = &result{traces: map[string]bool{}, addrs: map[string]bool{}, cmds: map[string]bool{}, silent: map[int]bool{}}
	a.memo = map[string]bool{}
	a.steps = 0
	fr := &frame{fn: f, sig: "", vals: map[ssa.Value]*sym{}, tuples: map[ssa.Value][]*sym{}, stack: map[*ssa.Function]bool{f: true}}
	for k, p := range f.Params {
		fr.vals[p] = &sym{id: fmt.Sprintf("p%d", k), desc: fmt.Sprintf("p%d", k)}
		if k == 0 && f.Signature.Recv() != nil {
			fr.vals[p].nilness = 2
		}
	}
	for k, fv := range f.FreeVars {
		// the receiver captured by a function literal is rendered like the receiver of a method
		d := fmt.Sprintf("free%d", k)
		if pt, ok := fv.Type().(*types.Pointer); ok {
			if pp, ok := pt.Elem().(*types.Pointer); ok {
				if n, ok := pp.Elem().(*types.Named); ok && n.Obj().Name() == "FeatureLocal" {
					d = "&p0"
				}
			} else if n, ok := pt.Elem().(*types.Named); ok && n.Obj().Name() == "FeatureLocal" {
				d = "p0"
			}
		}
		fr.vals[fv] = &sym{id: d, desc: d}
	}
	res := a.res
	a.run(fr, f.Blocks[0], 0, nil, facts{}, "", func(_ []*sym, st facts, tr string) {
		res.traces[tr] = true
		saved := a.res
		a.res = res
		a.settle(st, true)
		a.res = saved
	})
	return res
}

func keys(m map[string]bool) []string {
	var out []string
	for k := range m {
		out = append(out, k)
	}
	sort.Strings(out)
	return out
}

func codes(ts []string) string {
	var o []string
	for _, t := range ts {
		var c []string
		for _, ch := range t {
			c = append(c, map[rune]string{'S': "0", 'N': "1"}[ch])
		}
		o = append(o, "["+strings.Join(c, ", ")+"]")
	}
	return "[" + strings.Join(o, ", ") + "]"
}

func qs(xs []string) string {
	var o []string
	for _, x := range xs {
		o = append(o, fmt.Sprintf("%q", x))
	}
	return "[" + strings.Join(o, ", ") + "]"
}

// fanout: the facts about DeviceLocal.NotifySubscribers itself
func (a *analyser) fanout(f *ssa.Function) (list string, notifyArgs []string, sender string, loopOnly bool, sends int) {
	fr := &frame{fn: f, sig: "", vals: map[ssa.Value]*sym{}, tuples: map[ssa.Value][]*sym{}, stack: map[*ssa.Function]bool{}}
	for k, p := range f.Params {
		fr.vals[p] = &sym{id: fmt.Sprintf("p%d", k), desc: fmt.Sprintf("p%d", k)}
	}
	// opaque method results, in block order (the function is straight-line up to the loop)
	for _, b := range f.Blocks {
		for _, ins := range b.Instrs {
			ci, ok := ins.(*ssa.Call)
			if !ok {
				continue
			}
			c := ci.Common()
			name := ""
			var recv *sym
			if c.IsInvoke() {
				name = c.Method.Name()
				recv = a.eval(fr, c.Value, nil, 0)
			} else if g := c.StaticCallee(); g != nil {
				name = g.Name()
				if g.Signature.Recv() != nil && len(c.Args) > 0 {
					recv = a.eval(fr, c.Args[0], nil, 0)
				}
			}
			var as []string
			for k, x := range c.Args {
				if !c.IsInvoke() && k == 0 && recv != nil {
					continue
				}
				as = append(as, a.eval(fr, x, nil, 0).desc)
			}
			d := name + "("
			if recv != nil {
				d += recv.desc
			}
			if name == "SubscriptionsOnFeature" {
				d += "; " + strings.Join(as, ", ")
				list = d + ")"
			}
			d += ")"
			fr.vals[ci] = &sym{id: d, desc: d}
			if name == "Notify" && len(as) == 3 {
				sends++
				notifyArgs = as
				if recv != nil {
					sender = recv.desc
				}
				// loop header: the innermost block that dominates b and is reachable from b
				var hdr *ssa.BasicBlock
				for _, x := range f.Blocks {
					if x != b && x.Dominates(b) && reachable(b, x, nil) {
						if hdr == nil || hdr.Dominates(x) {
							hdr = x
						}
					}
				}
				loopOnly = hdr != nil
				if hdr != nil {
					for _, x := range f.Blocks {
						if len(x.Instrs) > 0 {
							if _, isRet := x.Instrs[len(x.Instrs)-1].(*ssa.Return); isRet && x != b && reachable(b, x, hdr) {
								loopOnly = false
							}
						}
					}
					if _, isRet := b.Instrs[len(b.Instrs)-1].(*ssa.Return); isRet {
						loopOnly = false
					}
				}
			}
		}
	}
	return
}

// loopHeader: the innermost block that dominates b and is reachable from b (nil: b is in no loop)
func loopHeader(f *ssa.Function, b *ssa.BasicBlock) *ssa.BasicBlock {
	var hdr *ssa.BasicBlock
	for _, x := range f.Blocks {
		if (x == b && reachable(b, b, nil)) || (x != b && x.Dominates(b) && reachable(b, x, nil)) {
			if hdr == nil || hdr.Dominates(x) {
				hdr = x
			}
		}
	}
	return hdr
}

// reachable: is `to` reachable from `from` by at least one edge, never entering `avoid`
func reachable(from, to, avoid *ssa.BasicBlock) bool {
	seen := map[*ssa.BasicBlock]bool{}
	var dfs func(x *ssa.BasicBlock) bool
	dfs = func(x *ssa.BasicBlock) bool {
		for _, s := range x.Succs {
			if s == avoid {
				continue
			}
			if s == to {
				return true
			}
			if !seen[s] {
				seen[s] = true
				if dfs(s) {
					return true
				}
			}
		}
		return false
	}
	return dfs(from)
}

// descFrame: a frame of f in which every call carries a structural description name(receiver; arguments) — for
// straight-line extraction (the reply builders), no path sensitivity
func (a *analyser) descFrame(f *ssa.Function) *frame {
	fr := &frame{fn: f, sig: "", vals: map[ssa.Value]*sym{}, tuples: map[ssa.Value][]*sym{}, stack: map[*ssa.Function]bool{}}
	for k, p := range f.Params {
		fr.vals[p] = &sym{id: fmt.Sprintf("p%d", k), desc: fmt.Sprintf("p%d", k)}
	}
	for k, p := range f.FreeVars {
		fr.vals[p] = &sym{id: fmt.Sprintf("free%d", k), desc: fmt.Sprintf("free%d", k)}
	}
	for _, b := range f.Blocks {
		for _, ins := range b.Instrs {
			ci, ok := ins.(*ssa.Call)
			if !ok {
				continue
			}
			c := ci.Common()
			name := ""
			var recv *sym
			if c.IsInvoke() {
				name = c.Method.Name()
				recv = a.eval(fr, c.Value, nil, 0)
			} else if g := c.StaticCallee(); g != nil {
				name = g.Name()
				if k := strings.Index(name, "["); k > 0 {
					name = name[:k] // instantiation of a generic function
				}
				if g.Signature.Recv() != nil && len(c.Args) > 0 {
					recv = a.eval(fr, c.Args[0], nil, 0)
				}
			}
			var as []string
			for k, x := range c.Args {
				if !c.IsInvoke() && k == 0 && recv != nil {
					continue
				}
				as = append(as, a.eval(fr, x, nil, 0).desc)
			}
			d := name + "("
			if recv != nil {
				d += recv.desc
				if len(as) > 0 {
					d += "; "
				}
			}
			d += strings.Join(as, ", ") + ")"
			fr.vals[ci] = &sym{id: d, desc: d}
		}
	}
	return fr
}

type wireRow struct {
	typ    string   // SubscriptionManagementEntryDataType | BindingManagementEntryDataType
	fields []string // "Field<-desc", sorted, the element abbreviated to E
	elem   string   // what E is: "literal-parameter" | "element-of-list" | "?"
	list   []string // argument descriptions of the per-peer list calls in the enclosing top-level function
}

// wireReply: every construction site of a wire entry of the subscription / binding list in the module
func (a *analyser) wireReply(all []*ssa.Function) []wireRow {
	var rows []wireRow
	for _, f := range all {
		var fr *frame
		sites := map[ssa.Value]map[string]string{} // struct address -> field -> desc
		styp := map[ssa.Value]string{}
		for _, b := range f.Blocks {
			for _, ins := range b.Instrs {
				st, ok := ins.(*ssa.Store)
				if !ok {
					continue
				}
				fa, ok := st.Addr.(*ssa.FieldAddr)
				if !ok {
					continue
				}
				pt, ok := fa.X.Type().Underlying().(*types.Pointer)
				if !ok {
					continue
				}
				named, ok := pt.Elem().(*types.Named)
				if !ok || (named.Obj().Name() != "SubscriptionManagementEntryDataType" && named.Obj().Name() != "BindingManagementEntryDataType") {
					continue
				}
				if fr == nil {
					fr = a.descFrame(f)
				}
				if sites[fa.X] == nil {
					sites[fa.X] = map[string]string{}
				}
				fld := fieldDesc(fa.X, fa.Field)
				d := a.eval(fr, st.Val, nil, 0).desc
				if al, ok := st.Val.(*ssa.Alloc); ok {
					// `x := value; field: &x` — like Ptr(value) when x is a fresh variable per element; a variable that
					// lives outside the loop that builds the entries is shared by all of them
					var val ssa.Value
					n := 0
					for _, ref := range *al.Referrers() {
						if s2, ok := ref.(*ssa.Store); ok && s2.Addr == al {
							val = s2.Val
							n++
						}
					}
					if n == 1 {
						d = "Ptr(" + a.eval(fr, val, nil, 0).desc + ")"
						if hdr := loopHeader(f, b); hdr != nil && !(hdr.Dominates(al.Block()) && reachable(al.Block(), hdr, nil)) {
							d = "shared(" + d + ")"
						}
					}
				}
				if old, dup := sites[fa.X][fld]; dup && old != d {
					d = "?"
				}
				sites[fa.X][fld] = d
				styp[fa.X] = named.Obj().Name()
			}
		}
		for x, fields := range sites {
			row := wireRow{typ: styp[x], elem: "?"}
			// the element: what the id field is taken from
			base := ""
			for fld, d := range fields {
				if strings.HasSuffix(fld, "Id") && strings.HasPrefix(d, "Ptr(") && strings.HasSuffix(d, ".Id)") {
					base = d[len("Ptr(") : len(d)-len(".Id)")]
				}
			}
			for fld, d := range fields {
				if base != "" {
					d = strings.ReplaceAll(d, base, "E")
				}
				row.fields = append(row.fields, fld+"<-"+d)
			}
			sort.Strings(row.fields)
			switch {
			case base == "":
			case f.Parent() != nil && strings.HasPrefix(base, "p") && !strings.Contains(base, "."):
				row.elem = "literal-parameter"
			case strings.HasPrefix(base, "elem("):
				row.elem = "element-of-list"
			}
			top := f
			for top.Parent() != nil {
				top = top.Parent()
			}
			tfr := a.descFrame(top)
			for _, b := range top.Blocks {
				for _, ins := range b.Instrs {
					if ci, ok := ins.(*ssa.Call); ok && ci.Common().IsInvoke() && (ci.Common().Method.Name() == "Subscriptions" || ci.Common().Method.Name() == "Bindings") {
						for _, x := range ci.Common().Args {
							row.list = append(row.list, ci.Common().Method.Name()+"<-"+a.eval(tfr, x, nil, 0).desc)
						}
					}
				}
			}
			sort.Strings(row.list)
			rows = append(rows, row)
		}
	}
	sort.Slice(rows, func(i, j int) bool { return fmt.Sprint(rows[i]) < fmt.Sprint(rows[j]) })
	return rows
}

func main() {
	out := flag.String("out", "", "output directory (lean/Spine/Generated)")
	flag.Parse()
	if *out == "" {
		fmt.Fprintln(os.Stderr, "usage: notifypaths -out <dir>")
		os.Exit(2)
	}
	repo := os.Getenv("VERIF_REPO")
	if repo == "" {
		repo = "/repo"
	}
	cfg := &packages.Config{Mode: packages.LoadAllSyntax, Dir: repo, BuildFlags: []string{"-tags=verif"},
		Env: append(os.Environ(), "GOFLAGS=-mod=mod", "GOPROXY=off", "GOSUMDB=off", "GOTOOLCHAIN=local")}
	pkgs, err := packages.Load(cfg, "./spine", "./model", "./api", "./util")
	if err != nil {
		fmt.Fprintln(os.Stderr, "load:", err)
		os.Exit(1)
	}
	if packages.PrintErrors(pkgs) > 0 {
		os.Exit(1)
	}
	prog, spkgs := ssautil.AllPackages(pkgs, ssa.BuilderMode(0))
	prog.Build()
	var mod []*ssa.Package
	var spine *ssa.Package
	for _, p := range spkgs {
		if p != nil && strings.HasPrefix(p.Pkg.Path()+"/", modPrefix) {
			mod = append(mod, p)
			if p.Pkg.Path() == modPrefix+"spine" {
				spine = p
			}
		}
	}
	if spine == nil {
		fmt.Fprintln(os.Stderr, "notifypaths: package spine not found")
		os.Exit(1)
	}
	a := &analyser{prog: prog, pkgs: mod, impl: map[string][]*ssa.Function{}, visited: map[string]bool{}}
	var all []*ssa.Function
	for f := range ssautil.AllFunctions(prog) {
		if isModule(f) && (f.Origin() == nil || f.Origin() == f) && len(f.Blocks) > 0 {
			all = append(all, f)
		}
	}
	sort.Slice(all, func(i, j int) bool { return all[i].String() < all[j].String() })
	a.computeReach(all)

	// every N call site of the module
	type site struct {
		pos string
		fn  *ssa.Function
	}
	var sites []site
	for _, f := range all {
		for _, b := range f.Blocks {
			for _, ins := range b.Instrs {
				if ci, ok := ins.(ssa.CallInstruction); ok && sinkOf(ci.Common()) == "N" {
					sites = append(sites, site{prog.Fset.Position(ins.Pos()).String(), f})
				}
			}
		}
	}

	// roots: exported methods of FeatureLocal that reach N
	tn, ok := spine.Members["FeatureLocal"].(*ssa.Type)
	if !ok {
		fmt.Fprintln(os.Stderr, "notifypaths: type spine.FeatureLocal not found")
		os.Exit(1)
	}
	reachN := func(f *ssa.Function) bool {
		r := a.analyse(f, true)
		for t := range r.traces {
			if strings.Contains(t, "N") {
				return true
			}
		}
		return false
	}
	type row struct {
		name string
		res  *result
	}
	var rows []row
	ms := prog.MethodSets.MethodSet(types.NewPointer(tn.Type()))
	for i := 0; i < ms.Len(); i++ {
		sel := ms.At(i)
		if !sel.Obj().Exported() {
			continue
		}
		f := prog.MethodValue(sel)
		if f == nil || f.Synthetic != "" || len(f.Blocks) == 0 || !a.reach[f] {
			continue
		}
		if !reachN(f) {
			continue
		}
		rows = append(rows, row{"FeatureLocal." + f.Name(), a.analyse(f, true)})
	}
	// function literals below FeatureLocal methods that reach N (run asynchronously: timers, goroutines)
	for _, f := range all {
		if f.Parent() == nil || !a.reach[f] {
			continue
		}
		top := f
		for top.Parent() != nil {
			top = top.Parent()
		}
		if top.Signature.Recv() == nil || !strings.HasSuffix(types.TypeString(top.Signature.Recv().Type(), nil), "spine.FeatureLocal") {
			continue
		}
		if !reachN(f) {
			continue
		}
		rows = append(rows, row{"FeatureLocal.literal", a.analyse(f, true)})
	}
	sort.SliceStable(rows, func(i, j int) bool { return rows[i].name < rows[j].name })
	dataVisited := map[string]bool{}
	for k := range a.visited {
		dataVisited[k] = true
	}
	// the other N sites
	type other struct {
		fn     string
		addrs  []string
		traces []string
	}
	var others []other
	for _, s := range sites {
		if dataVisited[s.pos] {
			continue
		}
		r := a.analyse(s.fn, true)
		others = append(others, other{s.fn.String(), keys(r.addrs), keys(r.traces)})
	}
	sort.Slice(others, func(i, j int) bool { return fmt.Sprint(others[i]) < fmt.Sprint(others[j]) })

	// the fan-out function
	var fan *ssa.Function
	if dl, ok := spine.Members["DeviceLocal"].(*ssa.Type); ok {
		if sel := prog.MethodSets.MethodSet(types.NewPointer(dl.Type())).Lookup(spine.Pkg, sinkNotify); sel != nil {
			fan = prog.MethodValue(sel)
		}
	}
	if fan == nil {
		fmt.Fprintln(os.Stderr, "notifypaths: DeviceLocal.NotifySubscribers not found")
		os.Exit(1)
	}
	if d := os.Getenv("NP_DUMP"); d != "" {
		for _, f := range all {
			if f.Name() == d {
				f.WriteTo(os.Stderr)
			}
		}
	}
	list, nargs, sender, loopOnly, sends := a.fanout(fan)
	// the list is abbreviated to L wherever it occurs; of the list itself only the argument is kept (how the manager is
	// obtained plays no role)
	if list != "" {
		for i := range nargs {
			nargs[i] = strings.ReplaceAll(nargs[i], list, "L")
		}
		sender = strings.ReplaceAll(sender, list, "L")
		if k := strings.Index(list, "; "); k >= 0 {
			list = "SubscriptionsOnFeature(" + strings.TrimSuffix(list[k+2:], ")") + ")"
		}
	}

	var sb strings.Builder
	sb.WriteString("/- GENERATED by go/notifypaths from the tree under test - do not edit.\n   Event traces (S = a call of FunctionDataInterface.UpdateDataAny, N = a call of NotifySubscribers) along the feasible\n   paths of every exported method of spine.FeatureLocal that can reach NotifySubscribers, and of the function literals\n   below them; abstract address argument of every N (p0 = the receiver; unexported fields by type); whether the cmd\n   argument is NotifyOrWriteCmdType of an object the same path stored into. -/\nnamespace Spine.Generated.NotifyPaths\n\n")
	sb.WriteString("structure Row where\n  root : String\n  traces : List String\n  /-- the same traces, S = 0, N = 1 -/\n  codes : List (List Nat)\n  addrs : List String\n  cmds : List String\n  /-- what a path knows about the error result of a store it leaves WITHOUT a following notification:\n      2 = non-nil (store refused), 1 = nil (store accepted, nobody told), 0 = never tested -/\n  silent : List Nat\nderiving DecidableEq, Repr\n\n")
	sb.WriteString("def rows : List Row := [\n")
	for i, r := range rows {
		sep := ","
		if i == len(rows)-1 {
			sep = ""
		}
		var sil []string
		for _, k := range []int{0, 1, 2} {
			if r.res.silent[k] {
				sil = append(sil, fmt.Sprint(k))
			}
		}
		fmt.Fprintf(&sb, "  ⟨%q, %s, %s, %s, %s, [%s]⟩%s\n", r.name, qs(keys(r.res.traces)), codes(keys(r.res.traces)), qs(keys(r.res.addrs)), qs(keys(r.res.cmds)), strings.Join(sil, ", "), sep)
	}
	sb.WriteString("]\n\n")
	fmt.Fprintf(&sb, "/-- call sites of NotifySubscribers in the whole module / those met on the paths above -/\ndef sites : Nat := %d\ndef sitesOnDataPaths : Nat := %d\n\n", len(sites), len(dataVisited))
	sb.WriteString("/-- the remaining call sites: (address arguments, traces of the enclosing function) -/\ndef otherSites : List (List String × List (List Nat)) := [")
	for i, o := range others {
		if i > 0 {
			sb.WriteString(", ")
		}
		fmt.Fprintf(&sb, "(%s, %s)", qs(o.addrs), codes(o.traces))
	}
	sb.WriteString("]")
	for _, o := range others {
		fmt.Fprintf(&sb, "  -- in %s", o.fn)
	}
	sb.WriteString("\n\n")
	fmt.Fprintf(&sb, "/-- DeviceLocal.NotifySubscribers(p1 = feature address, p2 = cmd): the list it ranges over, the arguments and the\n    sender of its Notify call, the number of Notify call sites, and whether every path from the send to a return\n    passes the loop header (no early exit) -/\ndef fanoutList : String := %q\ndef fanoutNotifyArgs : List String := %s\ndef fanoutSender : String := %q\ndef fanoutSends : Nat := %d\ndef fanoutNoEarlyExit : Bool := %v\n", list, qs(nargs), sender, sends, loopOnly)
	sb.WriteString("\nend Spine.Generated.NotifyPaths\n")
	if err := os.MkdirAll(*out, 0o755); err != nil {
		fmt.Fprintln(os.Stderr, err)
		os.Exit(1)
	}
	if err := os.WriteFile(filepath.Join(*out, "NotifyPaths.lean"), []byte(sb.String()), 0o644); err != nil {
		fmt.Fprintln(os.Stderr, err)
		os.Exit(1)
	}
	wr := a.wireReply(all)
	var wb strings.Builder
	wb.WriteString("/- GENERATED by go/notifypaths from the tree under test - do not edit.\n   Every construction site of an entry of the subscription / binding list sent over the wire: from which value each\n   field is taken (E = the element the id is taken from), what E is, and for which device the per-peer list is asked. -/\nnamespace Spine.Generated.WireReply\n\n")
	wb.WriteString("structure Row where\n  typ : String\n  fields : List String\n  elem : String\n  list : List String\nderiving DecidableEq, Repr\n\ndef rows : List Row := [\n")
	for i, r := range wr {
		sep := ","
		if i == len(wr)-1 {
			sep = ""
		}
		fmt.Fprintf(&wb, "  ⟨%q, %s, %q, %s⟩%s\n", r.typ, qs(r.fields), r.elem, qs(r.list), sep)
	}
	wb.WriteString("]\n\nend Spine.Generated.WireReply\n")
	if err := os.WriteFile(filepath.Join(*out, "WireReply.lean"), []byte(wb.String()), 0o644); err != nil {
		fmt.Fprintln(os.Stderr, err)
		os.Exit(1)
	}
	fmt.Printf("generated notifypaths: %d data-change roots, %d/%d notify sites on them, %d other\n", len(rows), len(dataVisited), len(sites), len(others))
}
