package comp

// C08, clause "… carrying the changed function's data, through SetData, UpdateData and accepted remote writes alike":
// the payload side of the correspondence with Spine.RegData (driver drv_reg in `rich` mode) and of the SPEC monitor.
// A function's data is reduced to its CONTENT NUMBER: the harness numbers the values it sets (w.val), the number is
// read back out of the payload of every notification and out of the local feature's own DataCopy.

import (
	"fmt"
	"sort"
	"strconv"
	"strings"

	"github.com/enbility/spine-go/api"
	"github.com/enbility/spine-go/model"

	"verifharness/h"
)

// regFnID: the model's name of a function (the type number of the feature that owns it in the harness world)
func regFnID(fn model.FunctionType) int {
	switch fn {
	case model.FunctionTypeLoadControlLimitListData:
		return 1
	case model.FunctionTypeSetpointListData:
		return 2
	case model.FunctionTypeDeviceClassificationManufacturerData:
		return 3
	case model.FunctionTypeDeviceDiagnosisStateData:
		return 4
	case model.FunctionTypeNodeManagementUseCaseData:
		return 100
	}
	return 999
}

func regNum(s string) int {
	if strings.HasPrefix(s, "n") {
		if n, err := strconv.Atoi(s[1:]); err == nil {
			return n
		}
	}
	return 0
}

// regDigest: the content number of a function's data (0 = never set by the harness / carries no number)
func regDigest(v any) int {
	switch d := v.(type) {
	case *model.LoadControlLimitListDataType:
		if d != nil {
			for _, it := range d.LoadControlLimitData {
				if it.LimitId != nil && *it.LimitId == 1 && it.Value != nil {
					return int(it.Value.GetValue())
				}
			}
		}
	case *model.SetpointListDataType:
		if d != nil {
			for _, it := range d.SetpointData {
				if it.SetpointId != nil && *it.SetpointId == 1 && it.Value != nil {
					return int(it.Value.GetValue())
				}
			}
		}
	case *model.DeviceClassificationManufacturerDataType:
		if d != nil && d.DeviceName != nil {
			return regNum(string(*d.DeviceName))
		}
	case *model.DeviceDiagnosisStateDataType:
		if d != nil && d.VendorStateCode != nil {
			return regNum(string(*d.VendorStateCode))
		}
	}
	return 0
}

// notifyPayloads: "fn:number" of every notification written during the step, in the order of w.notifies
func (w *regWorld) notifyPayloads() []string {
	var ps []string
	for _, o := range w.out {
		if o.d.Header.CmdClassifier == nil || *o.d.Header.CmdClassifier != model.CmdClassifierTypeNotify || o.d.Header.AddressDestination == nil {
			continue
		}
		p := "?"
		if len(o.d.Payload.Cmd) == 1 {
			if cd, err := o.d.Payload.Cmd[0].Data(); err == nil && cd.Function != nil {
				p = fmt.Sprintf("%d:%d", regFnID(*cd.Function), regDigest(cd.Value))
			}
		}
		ps = append(ps, p)
	}
	return ps
}

// regStored: the content number the local feature holds for the function after the step ("none": no such function)
func (w *regWorld) regStored(se string, sf uint, fn model.FunctionType) string {
	lf := w.l.FeatureByAddress(regAddr(99, se, sf))
	if lf == nil {
		return "none"
	}
	has := false
	for _, f := range lf.Functions() {
		has = has || f == fn
	}
	if !has {
		return "none"
	}
	return strconv.Itoa(regDigest(lf.DataCopy(fn)))
}

// regWirePeer: whose entry a wire entry claims to be — the peer named by the device part of its client address (-1: no
// device part or not a peer's device; -2: the server address does not name the local device)
func regWirePeer(client, server *model.FeatureAddressType) int {
	if server == nil || server.Device == nil || string(*server.Device) != "HEMS" {
		return -2
	}
	if client == nil || client.Device == nil {
		return -1
	}
	for p := 1; p <= 9; p++ {
		if string(*client.Device) == regDev(p) {
			return p
		}
	}
	return -1
}

// regEventKey: what a subscription-change event names: "+p:ce/cf->se/sf" (add) / "-…" (remove); p from the Ski
func regEventKey(p api.EventPayload) string {
	sign := "~"
	switch p.ChangeType {
	case api.ElementChangeAdd:
		sign = "+"
	case api.ElementChangeRemove:
		sign = "-"
	}
	peer := strings.TrimPrefix(p.Ski, "ski")
	c, sv := "?", "?"
	if p.Feature != nil && p.Feature.Address() != nil && p.Feature.Address().Feature != nil {
		c = fmt.Sprintf("%s/%d", h.EntStr(p.Feature.Address().Entity), *p.Feature.Address().Feature)
	}
	if p.LocalFeature != nil && p.LocalFeature.Address() != nil && p.LocalFeature.Address().Feature != nil {
		sv = fmt.Sprintf("%s/%d", h.EntStr(p.LocalFeature.Address().Entity), *p.LocalFeature.Address().Feature)
	}
	return fmt.Sprintf("%s%s:%s->%s", sign, peer, c, sv)
}

// takeKeys: the keyed subscription-change events since the last call, sorted (handlers are goroutines)
func (r *regEvents) takeKeys() []string {
	r.mu.Lock()
	defer r.mu.Unlock()
	k := r.keys
	r.keys = nil
	sort.Strings(k)
	return k
}
