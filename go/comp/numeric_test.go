package comp

// C19 — numeric and temporal conversions (model/commondatatypes_additions.go).
//
// Correspondence: the real NewScaledNumberType / ScaledNumberType.GetValue, NewDurationType /
// GetTimeDuration and the TimePeriodType end-time arithmetic against the Lean models Spine.Num
// (binary64 as exact integer arithmetic, bit for bit), Spine.Dur and Spine.TP through drv_num.
// SPEC monitor: the property statement itself, evaluated with math/big on the implementation's own
// results; it never consults the model.
//
// Ops (also the replay format):
//   scaled k d      the decimal k*10^-d (parsed to the nearest double)
//   fbits b         the double with IEEE bits b
//   getval n s      GetValue of {number n, scale s}
//   dur z           the duration z*100ms           durns ns   the duration ns nanoseconds
//   dtext ns        the text NewDurationType writes for ns nanoseconds (Spine.DurText.render), then dparse of it
//   dparse text     period.Parse / GetTimeDuration of a duration text (Spine.DurText.parse; any ASCII text without blanks)
//   instant s off   the instant s seconds after the Unix epoch, presented in a zone off seconds east
//   instantns s ns  the same with a fraction of a second (rounded to the second by the code)
//   date s / tod s  the calendar date / time of day of that instant through DateType / TimeType
//   period ns       a time period with relative end time ns (incl. JSON round trip)
//   pseq m d1 d2 …  documents d1, d2, … (SEa SEr R<n> A<n> E S) decoded one after the other into ONE value,
//                   m = direct | outer (through a LoadControlLimitDataType decoded into repeatedly)
//   reuse k v…      one receiver used repeatedly (k = sn k d | dur z | art unixsec)
//   ttext / tread / tlib   instants at the level of the text (Spine.TimeText): see numeric_time_test.go
//
// The columns `decimals` and `product` of a scaled-number observation are evaluated from the expression trees the
// translator generator `scaledexpr` recovered from the source of the tree under test (numScaledSrc); the single-value
// phases are drawn from the seeded generator first and then run as op lists on the workers (numRunOpsParallel).

import (
	"encoding/json"
	"fmt"
	"math"
	"math/big"
	"math/rand"
	"os"
	"path/filepath"
	"regexp"
	"runtime"
	"sort"
	"strconv"
	"strings"
	"sync"
	"testing"
	"time"

	"github.com/enbility/spine-go/model"
	"github.com/rickb777/date/period"
	"verifharness/h"
)

const numComponent = "numeric"

// ---------------------------------------------------------------- implementation side

type numObs struct {
	vb     uint64 // bits of the value
	nd     int    // decimals FormatFloat yields, capped at 4 (recomputed here as the code does: ties the model's count to strconv)
	pb     uint64 // bits of value * Pow(10, nd) (recomputed here: ties the model's product and powers to the Go runtime)
	number int64  // real NewScaledNumberType
	scale  int    // real NewScaledNumberType
	gb     uint64 // bits of the real GetValue
}

func (o numObs) String() string {
	return fmt.Sprintf("%d %d %d %d %d %d", o.vb, o.nd, o.pb, o.number, o.scale, o.gb)
}

func numDecimals(v float64) int {
	s := strconv.FormatFloat(v, 'f', -1, 64)
	if i := strings.IndexByte(s, '.'); i >= 0 {
		if n := len(s) - i - 1; n < 4 {
			return n
		}
		return 4
	}
	return 0
}

const numNil = math.MinInt64 // a nil Number / Scale (never on the pinned code)

// numScaledSrc: the expressions the translator recovered from the source of the tree under test (generator
// scaledexpr; Generated/ScaledExpr.lean, line "-- HARNESS"); nil = not recovered: the harness's own expressions
var (
	numScaledSrcOnce sync.Once
	numScaledSrcV    *h.ScaledSrc
)

func numScaledSrc() *h.ScaledSrc {
	numScaledSrcOnce.Do(func() {
		root := os.Getenv("VERIF_ROOT")
		if root == "" {
			root = filepath.Join("..", "..")
		}
		b, err := os.ReadFile(filepath.Join(root, "lean", "Spine", "Generated", "ScaledExpr.lean"))
		if err != nil {
			return
		}
		for _, l := range strings.Split(string(b), "\n") {
			if strings.HasPrefix(l, "-- HARNESS ") {
				var src h.ScaledSrc
				if json.Unmarshal([]byte(strings.TrimPrefix(l, "-- HARNESS ")), &src) == nil && src.Known && src.Product != nil {
					numScaledSrcV = &src
				}
			}
		}
	})
	return numScaledSrcV
}

func numImpl(v float64) (numObs, *model.ScaledNumberType) {
	sn := model.NewScaledNumberType(v)
	// the intermediate columns `decimals` and `product`: the expressions RECOVERED FROM THE SOURCE, evaluated by the
	// Go runtime (they tie the model's decimals count and product to the code's text, to strconv and to math)
	var nd int
	var p float64
	if src := numScaledSrc(); src != nil {
		nd = src.Decimals(v)
		x, err := src.Product.Eval(h.FEnv{Param: v, Decimals: int64(nd)})
		if err != nil {
			panic("harness: the recovered product expression cannot be evaluated: " + err.Error())
		}
		p = x
	} else {
		nd = numDecimals(v)
		p = v * math.Pow(10, float64(nd))
	}
	o := numObs{vb: math.Float64bits(v), nd: nd, pb: math.Float64bits(p), number: numNil, scale: -128}
	if sn != nil && sn.Number != nil {
		o.number = int64(*sn.Number)
	}
	if sn != nil && sn.Scale != nil {
		o.scale = int(*sn.Scale)
	}
	if sn != nil {
		o.gb = math.Float64bits(sn.GetValue())
	}
	return o, sn
}

var numPow10f = [...]float64{1, 10, 100, 1000, 10000}

// numDec is the double nearest to k*10^-d: the correctly rounded quotient of two exactly
// representable integers (|k| < 2^53); cross-checked against strconv.ParseFloat by the caller.
func numDec(k int64, d int) float64 { return float64(k) / numPow10f[d] }

func numParse(k int64, d int) float64 {
	v, err := strconv.ParseFloat(fmt.Sprintf("%de-%d", k, d), 64)
	if err != nil {
		panic(err)
	}
	return v
}

func numMix(hh, x uint64) uint64 { return hh*1099511628211 + x }

const numDigest0 = 1469598103934665603

func (o numObs) mix(hh uint64) uint64 {
	hh = numMix(numMix(numMix(numMix(hh, o.vb), uint64(o.nd)), o.pb), o.gb)
	return numMix(numMix(hh, uint64(o.number)), uint64(int64(o.scale)))
}

// ---------------------------------------------------------------- SPEC monitor (no model involved)

var (
	bigTenTo = func() [40]*big.Int {
		var a [40]*big.Int
		for i := range a {
			a[i] = new(big.Int).Exp(big.NewInt(10), big.NewInt(int64(i)), nil)
		}
		return a
	}()
	ratTenThousandth = big.NewRat(1, 10000)
	rat1e14          = new(big.Rat).SetInt(bigTenTo[14])
	rat2p53e4        = new(big.Rat).SetFrac(new(big.Int).Lsh(big.NewInt(1), 53), big.NewInt(10000))
)

// reprRat = number * 10^scale as an exact rational
func reprRat(number int64, scale int) *big.Rat {
	r := new(big.Rat).SetInt64(number)
	if scale >= 0 {
		return r.Mul(r, new(big.Rat).SetInt(bigTenTo[scale]))
	}
	return r.Quo(r, new(big.Rat).SetInt(bigTenTo[-scale]))
}

func ulpDistance(a, b float64) uint64 {
	ord := func(x float64) int64 {
		u := math.Float64bits(x)
		if u>>63 != 0 {
			return -int64(u &^ (1 << 63))
		}
		return int64(u)
	}
	d := ord(a) - ord(b)
	if d < 0 {
		d = -d
	}
	return uint64(d)
}

// specClose is clause (b): |v| < 10^14 => the representation number*10^scale is within 10^-4 of v
// (exact rational arithmetic); the double read back may in addition be off by the spacing of
// doubles at v (above 2^39 that spacing alone exceeds 10^-4). Returns "" or the key of the failure.
func specClose(v float64, o numObs, g float64) (key, detail string) {
	if math.IsNaN(v) || math.IsInf(v, 0) {
		return "", ""
	}
	rv := new(big.Rat).SetFloat64(v)
	av := new(big.Rat).Abs(rv)
	if av.Cmp(rat1e14) >= 0 {
		return "", ""
	}
	if o.number == numNil || o.scale < -30 || o.scale > 30 {
		return "C19/scaled-malformed", fmt.Sprintf("v=%v number/scale missing or absurd (%d, %d)", v, o.number, o.scale)
	}
	bad := ""
	e1 := new(big.Rat).Sub(reprRat(o.number, o.scale), rv)
	if e1.Abs(e1).Cmp(ratTenThousandth) > 0 {
		f, _ := e1.Float64()
		bad = fmt.Sprintf("v=%v (bits %d) -> %d*10^%d, |repr - v| = %.6g > 0.0001", v, math.Float64bits(v), o.number, o.scale, f)
	} else if math.IsNaN(g) || math.IsInf(g, 0) {
		bad = fmt.Sprintf("v=%v GetValue=%v", v, g)
	} else {
		e2 := new(big.Rat).Sub(new(big.Rat).SetFloat64(g), rv)
		spacing := new(big.Rat).SetFloat64(math.Nextafter(math.Abs(v), math.Inf(1)) - math.Abs(v))
		if e2.Abs(e2).Cmp(spacing.Add(spacing, ratTenThousandth)) > 0 {
			f, _ := e2.Float64()
			bad = fmt.Sprintf("v=%v (bits %d) -> %d*10^%d -> GetValue=%v, |GetValue - v| = %.6g > 0.0001 + spacing of doubles", v, math.Float64bits(v), o.number, o.scale, g, f)
		}
	}
	if bad == "" {
		return "", ""
	}
	if av.Cmp(rat2p53e4) >= 0 {
		// v*10^4 needs more than 53 bits: the bound cannot be met in binary64
		return "C19/bound-above-2^53e-4", bad
	}
	// one unit low in magnitude: number is the truncation, not the nearest integer, of v*10^-scale
	if o.scale <= 0 && o.scale >= -4 && v != 0 {
		x := new(big.Rat).Mul(av, new(big.Rat).SetInt(bigTenTo[-o.scale])) // |v| * 10^-scale
		x.Add(x, big.NewRat(1, 2))
		nearest := new(big.Int).Quo(x.Num(), x.Denom()) // floor(x + 1/2)
		mag := new(big.Int).Abs(big.NewInt(o.number))
		if mag.Add(mag, big.NewInt(1)).Cmp(nearest) == 0 {
			return "C19/trunc-loses-decimal", bad + " (number one unit below the nearest integer)"
		}
	}
	return "C19/not-within-0.0001", bad
}

// specDecimal is clause (a) for the decimal k*10^-d (0 <= d <= 4, |k| < 2^50): the pair
// (number, scale) denotes exactly k*10^-d and GetValue returns the double nearest to it. (Clause (b)
// is then met with error 0 against the decimal itself.)
func specDecimal(k int64, d int, v float64, o numObs, g float64) (key, detail string) {
	key, detail = specDecimalBelow(k, d, v, o, g)
	if key != "" && key != "C19/scaled-malformed" && d >= 0 && d <= 4 && absI(k) >= uint64(numLeastFailing[d]) {
		// from the least decimal that does not survive on (16 significant digits; Props/C19
		// c19_scaled_exact_least_failures) a failure is the known limit of binary64, not a new defect
		return "C19/decimal-from-least-failing-on", detail
	}
	return
}

// numLeastFailing[d]: the least k >= 2^50 for which k*10^-d does not survive the (repaired) conversion; kernel-checked
// in Spine/Props/C19.lean (c19_scaled_exact_least_failures, c19_scaled_exact_needs_bound), re-established by the
// directed search of every run
var numLeastFailing = [5]int64{1<<53 + 1, 5629499534213123, 3518437208883202, 4398046511104021, 2748779069440004}

func specDecimalBelow(k int64, d int, v float64, o numObs, g float64) (key, detail string) {
	if o.number == numNil || o.scale < -30 || o.scale > 30 {
		return "C19/scaled-malformed", fmt.Sprintf("%de-%d: number/scale missing or absurd (%d, %d)", k, d, o.number, o.scale)
	}
	// number * 10^(scale+d) == k, cross-multiplied
	e := o.scale + d
	lhs, rhs := big.NewInt(o.number), big.NewInt(k)
	if e >= 0 {
		lhs.Mul(lhs, bigTenTo[e])
	} else {
		rhs.Mul(rhs, bigTenTo[-e])
	}
	if lhs.Cmp(rhs) != 0 {
		// one unit low in magnitude at the reported scale = the truncated binary product
		sgn := int64(1)
		if k < 0 {
			sgn = -1
		}
		low := big.NewInt(o.number + sgn)
		if e >= 0 {
			low.Mul(low, bigTenTo[e])
		}
		if e >= 0 && low.Cmp(big.NewInt(k)) == 0 {
			return "C19/trunc-loses-decimal", fmt.Sprintf("%de-%d = %v -> number %d scale %d (one unit low), GetValue %v", k, d, v, o.number, o.scale, g)
		}
		return "C19/scaled-wrong-pair", fmt.Sprintf("%de-%d = %v -> number %d scale %d", k, d, v, o.number, o.scale)
	}
	if o.number != 0 && (o.scale > 0 || o.scale < -4) {
		return "C19/scaled-wrong-pair", fmt.Sprintf("%de-%d = %v -> scale %d outside [-4,0]", k, d, v, o.scale)
	}
	if g != v {
		if ud := ulpDistance(g, v); ud <= 2 {
			return "C19/getvalue-inexact-power", fmt.Sprintf("%de-%d = %v -> (%d, %d) exact, but GetValue = %v (bits %#x vs %#x, %d ulp)", k, d, v, o.number, o.scale, g, math.Float64bits(g), math.Float64bits(v), ud)
		}
		return "C19/getvalue-wrong", fmt.Sprintf("%de-%d = %v -> (%d, %d) exact, but GetValue = %v", k, d, v, o.number, o.scale, g)
	}
	return "", ""
}

// ---------------------------------------------------------------- statistics of a sweep

type numWit struct {
	abs    uint64 // |k| (decimals) resp. bits without sign (floats): the smallest is kept
	op     string
	detail string
}

type numStats struct {
	evals   map[string]int
	fails   map[string]int
	wit     map[string]numWit
	mism    []h.Mismatch
	mismN   int
	skipped int // driver answered "range"
	inputs  map[string]int // classes of generated inputs (for the generator floors; independent of the outcome)
	cases   []string // failing inputs (capped), for the count of distinct non-trivial cases
}

func newNumStats() *numStats {
	return &numStats{evals: map[string]int{}, fails: map[string]int{}, wit: map[string]numWit{}, inputs: map[string]int{}}
}

func (s *numStats) fail(key string, abs uint64, op, detail string) {
	s.fails[key]++
	if len(s.cases) < 200 {
		s.cases = append(s.cases, op)
	}
	if w, ok := s.wit[key]; !ok || abs < w.abs || (abs == w.abs && op < w.op) {
		s.wit[key] = numWit{abs, op, detail}
	}
}

func (s *numStats) mismatch(op, impl, mdl, note string) {
	s.mismN++
	if len(s.mism) < 5 {
		s.mism = append(s.mism, h.Mismatch{Ops: []string{op}, Impl: impl, Model: mdl, Note: note})
	}
}

func (s *numStats) merge(o *numStats) {
	for k, v := range o.evals {
		s.evals[k] += v
	}
	for k, v := range o.inputs {
		s.inputs[k] += v
	}
	for k, v := range o.fails {
		s.fails[k] += v
		w := o.wit[k]
		if c, ok := s.wit[k]; !ok || w.abs < c.abs || (w.abs == c.abs && w.op < c.op) {
			s.wit[k] = w
		}
	}
	s.mismN += o.mismN
	for _, m := range o.mism {
		if len(s.mism) < 5 {
			s.mism = append(s.mism, m)
		}
	}
	s.skipped += o.skipped
	if len(s.cases) < 20000 {
		s.cases = append(s.cases, o.cases...)
	}
}

// flush moves the statistics of a sweep into the report (bulk: the sweeps are too large for one
// locked call per value).
func (s *numStats) flush(r *h.Report) {
	for k, v := range s.evals {
		r.Evaluations += v
		r.Dist[k] += v
	}
	keys := make([]string, 0, len(s.fails))
	for k := range s.fails {
		keys = append(keys, k)
	}
	sort.Strings(keys)
	for _, k := range keys {
		w := s.wit[k]
		r.SpecFail(k, []string{w.op}, w.detail)
		r.SpecFailN[k] += s.fails[k] - 1
	}
	for _, c := range s.cases {
		r.Case(c)
	}
	for _, m := range s.mism {
		r.Mismatch(m.Ops, m.Impl, m.Model, m.Note)
	}
	if extra := s.mismN - len(s.mism); extra > 0 {
		r.MismatchN += extra
	}
}

// ---------------------------------------------------------------- single ops (corpus, replay, samples)

func absI(k int64) uint64 {
	if k < 0 {
		return uint64(-k)
	}
	return uint64(k)
}

// numOneDecimal: impl, monitor, and (want != "") comparison with the model's answer
func numOneDecimal(s *numStats, k int64, d int, want string) {
	op := fmt.Sprintf("scaled %d %d", k, d)
	v := numDec(k, d)
	o, sn := numImpl(v)
	g := math.NaN()
	if sn != nil {
		g = sn.GetValue()
	}
	kind := "decimal:exact"
	if key, det := specDecimal(k, d, v, o, g); key != "" {
		s.fail(key, absI(k), op, det)
		kind = "decimal:" + strings.TrimPrefix(key, "C19/")
	}
	s.evals[kind]++
	if want != "" && want != o.String() {
		if want == "range" {
			s.skipped++
			return
		}
		s.mismatch(op, o.String(), want, "value-bits decimals product-bits number scale getvalue-bits")
	}
}

func numOneFloat(s *numStats, b uint64, want string) {
	op := fmt.Sprintf("fbits %d", b)
	v := math.Float64frombits(b)
	o, sn := numImpl(v)
	g := math.NaN()
	if sn != nil {
		g = sn.GetValue()
	}
	kind := "float:within"
	if math.Abs(v) < 1e14 && v != math.Trunc(v) {
		s.inputs["float:in-range-non-integer"]++
	}
	if math.Abs(v) >= 1e14 {
		kind = "float:beyond-1e14"
	} else if key, det := specClose(v, o, g); key != "" {
		s.fail(key, b&^(1<<63), op, det)
		kind = "float:" + strings.TrimPrefix(key, "C19/")
	} else if math.Abs(v)*1e4 >= 1<<53 {
		kind = "float:within-above-2^53e-4"
	}
	s.evals[kind]++
	if want != "" && want != o.String() {
		if want == "range" {
			s.skipped++
			s.evals["float:outside-model-range"]++
			return
		}
		s.mismatch(op, o.String(), want, "value-bits decimals product-bits number scale getvalue-bits")
	}
}

// ---------------------------------------------------------------- durations

const hundredMs = 100 * time.Millisecond
const days3277 = 3277 * 24 * time.Hour

func durImpl(d time.Duration) (fields string, back time.Duration, err error) {
	p, _ := period.NewOf(d)
	t := int(math.Round(float64(p.SecondsFloat()) * 10))
	ab := func(x int) int {
		if x < 0 {
			return -x
		}
		return x
	}
	fields = fmt.Sprintf("%d %d %d %d %d %d", ab(p.Years()), ab(p.Months()), ab(p.Days()), ab(p.Hours()), ab(p.Minutes()), ab(t))
	s := model.NewDurationType(d)
	if s == nil {
		return fields, 0, fmt.Errorf("nil DurationType")
	}
	back, err = s.GetTimeDuration()
	return
}

func absD(d time.Duration) time.Duration {
	if d < 0 {
		return -d
	}
	return d
}

// specDuration is clause (c): a whole multiple of 100 ms survives NewDurationType -> GetTimeDuration.
func specDuration(d, back time.Duration, err error) (key, detail string) {
	if err == nil && back == d {
		return "", ""
	}
	det := fmt.Sprintf("duration %v (%d x 100ms) -> %q -> %v (err %v)", d, int64(d/hundredMs), string(*model.NewDurationType(d)), back, err)
	if absD(d) >= days3277 {
		return "C19/duration-ge-3277-days", det
	}
	return "C19/duration-inexact", det
}

func numOneDur(s *numStats, dr *h.Driver, z int64) {
	op := fmt.Sprintf("dur %d", z)
	d := time.Duration(z) * hundredMs
	fields, back, err := durImpl(d)
	kind := "dur:exact"
	if key, det := specDuration(d, back, err); key != "" {
		s.fail(key, absI(z), op, det)
		kind = "dur:" + strings.TrimPrefix(key, "C19/")
	}
	s.evals[kind]++
	if dr != nil {
		impl := fmt.Sprintf("%s %d", fields, int64(back/hundredMs))
		if err != nil || back%hundredMs != 0 {
			impl = fmt.Sprintf("%s error-or-fraction %v %v", fields, back, err)
		}
		if want := dr.Ask(op); want == "range" {
			s.skipped++ // the library's signed months field is negative: outside Spine.Dur (inside the known finding)
			s.evals["dur:negative-months-outside-model"]++
		} else if want != impl {
			s.mismatch(op, impl, want, "years months days hours minutes tenths back(100ms)")
		}
	}
}

func numOneDurNs(s *numStats, dr *h.Driver, ns int64) {
	op := fmt.Sprintf("durns %d", ns)
	d := time.Duration(ns)
	_, back, err := durImpl(d)
	if d%hundredMs == 0 {
		if key, det := specDuration(d, back, err); key != "" {
			s.fail(key, absI(ns/int64(hundredMs)), op, det)
		}
	} else if absD(d) < days3277 && (err != nil || absD(back-d) >= hundredMs) {
		s.fail("C19/duration-inexact", absI(ns/int64(hundredMs)), op, fmt.Sprintf("duration %v -> %v (err %v): more than 100 ms off", d, back, err))
	}
	s.evals["dur:with-fraction-of-100ms"]++
	if dr != nil {
		impl := strconv.FormatInt(int64(back), 10)
		if err != nil {
			impl = "error " + err.Error()
		}
		if want := dr.Ask(op); want == "range" {
			s.skipped++
			s.evals["dur:negative-months-outside-model"]++
		} else if want != impl {
			s.mismatch(op, impl, want, "duration read back, ns")
		}
	}
}

// ---------------------------------------------------------------- durations at the level of the text (Spine.DurText)

// isoDuration is an independent reader of the ISO 8601 duration text (not the library's parser): the
// value a peer would read, with a day of 24 h, a week of 7 days, years and months refused.
var isoDuration = regexp.MustCompile(`^(-?)P(?:(\d+)W)?(?:(\d+)D)?(?:T(?:(\d+)H)?(?:(\d+)M)?(?:(\d+)(?:\.(\d))?S)?)?$`)

func isoDurationValue(text string) (time.Duration, bool) {
	m := isoDuration.FindStringSubmatch(text)
	if m == nil || text == "P" || text == "-P" || strings.HasSuffix(text, "T") {
		return 0, false
	}
	n := func(i int) int64 {
		if m[i] == "" {
			return 0
		}
		v, err := strconv.ParseInt(m[i], 10, 64)
		if err != nil || v > 1000000 {
			return -1 << 40
		}
		return v
	}
	tenths := (((n(2)*7+n(3))*24+n(4))*60+n(5))*600 + n(6)*10 + n(7)
	if tenths < 0 {
		return 0, false
	}
	d := time.Duration(tenths) * hundredMs
	if m[1] == "-" {
		d = -d
	}
	return d, true
}

// numOneDurText: the text of NewDurationType(ns) against Spine.DurText.render, what the text denotes for an
// independent reader (SPEC: a duration below 3277 days is written as a text that denotes it, to 100 ms),
// then the way back through numOneDurParse.
func numOneDurText(s *numStats, dr *h.Driver, ns int64) {
	op := fmt.Sprintf("dtext %d", ns)
	d := time.Duration(ns)
	text := string(*model.NewDurationType(d))
	kind := "durtext:clock-fields-only"
	switch {
	case strings.ContainsAny(text, "Y"):
		kind = "durtext:years-months"
	case strings.Contains(text, "W"):
		kind = "durtext:weeks"
	case strings.Contains(text, "D") && text != "P0D":
		kind = "durtext:days"
	case text == "P0D":
		kind = "durtext:zero"
	}
	s.evals[kind]++
	if absD(d) < days3277 {
		trunc := d / hundredMs * hundredMs
		if v, ok := isoDurationValue(text); !ok || v != trunc {
			s.fail("C19/duration-text-denotes-other", absI(ns/int64(hundredMs)), op, fmt.Sprintf("duration %v is written as %q, which an ISO 8601 reader takes as %v (readable %v)", d, text, v, ok))
		}
	}
	if dr != nil {
		if want := dr.Ask(op); want == "range" {
			s.skipped++ // months field of period.NewOf negative (mixed-sign period): outside the model, inside the known finding
			s.evals["durtext:negative-months-outside-model"]++
			if ip := strings.IndexByte(text, 'P'); absD(d) < days3277 || ip < 0 || !strings.Contains(text[ip:], "-") {
				s.mismatch(op, text, want, "the model declares a duration outside its domain that the library writes as an ordinary text")
			}
		} else if want != text {
			s.mismatch(op, text, want, "text written by NewDurationType")
		}
		numOneDurParse(s, dr, text)
	}
}

// numOneDurParse: GetTimeDuration of an arbitrary duration text (what a peer may send) and the
// normalised period the library reads, against Spine.DurText.parse / approxNs / render.
func numOneDurParse(s *numStats, dr *h.Driver, text string) {
	if text == "" || strings.ContainsAny(text, " \t\r\n") {
		return
	}
	for i := 0; i < len(text); i++ {
		if text[i] >= 0x80 {
			return // the model is about ASCII texts
		}
	}
	op := "dparse " + text
	want := dr.Ask(op)
	if want == "range" {
		s.skipped++
		s.evals["durparse:outside-model"]++
		return
	}
	dt := model.DurationType(text)
	back, err := dt.GetTimeDuration()
	impl := "err"
	if err == nil {
		p, perr := period.Parse(text)
		impl = fmt.Sprintf("%d %s", int64(back), p.String())
		if perr != nil {
			impl = "GetTimeDuration accepts, period.Parse refuses: " + perr.Error()
		}
		s.evals["durparse:accepted"]++
	} else {
		s.evals["durparse:refused"]++
	}
	if want != impl {
		s.mismatch(op, impl, want, "GetTimeDuration in ns and the normalised period, or err")
	}
}

// numRandomDurText draws a duration text: mostly well-formed (fields in order, small and large numbers,
// weeks, a fraction in the last or in any field, dot or comma, either sign), sometimes damaged.
func numRandomDurText(rng *rand.Rand) string {
	num := func(frac bool) string {
		var v int64
		switch rng.Intn(10) {
		case 0:
			v = 0
		case 1, 2:
			v = rng.Int63n(40000)
		case 3:
			v = rng.Int63n(1000000000000)
		default:
			v = rng.Int63n(75)
		}
		t := strconv.FormatInt(v, 10)
		if rng.Intn(12) == 0 {
			t = "0" + t
		}
		if frac {
			sep := "."
			if rng.Intn(4) == 0 {
				sep = ","
			}
			t += sep + strconv.Itoa(rng.Intn(10))
			if rng.Intn(5) == 0 {
				t += strconv.Itoa(rng.Intn(100))
			}
		}
		return t
	}
	type fld struct {
		des  byte
		time bool
	}
	all := []fld{{'Y', false}, {'M', false}, {'W', false}, {'D', false}, {'H', true}, {'M', true}, {'S', true}}
	var use []fld
	for _, f := range all {
		if rng.Intn(3) == 0 {
			use = append(use, f)
		}
	}
	if len(use) == 0 {
		use = append(use, all[rng.Intn(len(all))])
	}
	damaged := rng.Intn(10) < 3
	if damaged && rng.Intn(3) == 0 {
		rng.Shuffle(len(use), func(i, j int) { use[i], use[j] = use[j], use[i] })
	}
	if damaged && rng.Intn(4) == 0 {
		use = append(use, use[rng.Intn(len(use))])
	}
	var sb strings.Builder
	switch rng.Intn(12) {
	case 0, 1:
		sb.WriteByte('-')
	case 2:
		sb.WriteByte('+')
	}
	sb.WriteByte('P')
	inTime := false
	anyFrac := rng.Intn(12) == 0
	for i, f := range use {
		if f.time && !inTime {
			sb.WriteByte('T')
			inTime = true
		}
		frac := (i == len(use)-1 && rng.Intn(4) == 0) || (anyFrac && rng.Intn(2) == 0)
		sb.WriteString(num(frac))
		sb.WriteByte(f.des)
	}
	t := sb.String()
	if damaged {
		b := []byte(t)
		switch rng.Intn(8) {
		case 0:
			b = b[:len(b)-1] // digits without designator
		case 1:
			b = append(b, 'T')
		case 2:
			i := rng.Intn(len(b))
			b[i] = "XPT.,-+0Z:"[rng.Intn(10)]
		case 3:
			i := rng.Intn(len(b))
			b = append(b[:i], b[i+1:]...)
		case 4:
			b = append([]byte{"-+pT1"[rng.Intn(5)]}, b...)
		case 5:
			i := rng.Intn(len(b) + 1)
			b = append(b[:i], append([]byte{"T.,MS9"[rng.Intn(6)]}, b[i:]...)...)
		}
		t = string(b)
	}
	if t == "" {
		t = "P"
	}
	return t
}

// numDurTextGrid: every subset of the seven designators in the order of the grammar, with six patterns of
// numbers each (all whole; the last with a fraction; all zero; large; rippling; all with a fraction).
func numDurTextGrid() []string {
	des := []byte("YMWDHMS")
	pats := [][2]string{{"2", "2"}, {"2", "2.5"}, {"0", "0"}, {"3277", "3276"}, {"61", "1445"}, {"1.5", "1.5"}}
	var out []string
	for mask := 1; mask < 128; mask++ {
		for _, pat := range pats {
			for _, sign := range []string{"", "-"} {
				var sb strings.Builder
				sb.WriteString(sign + "P")
				last := 0
				for i := 0; i < 7; i++ {
					if mask&(1<<i) != 0 {
						last = i
					}
				}
				for i := 0; i < 7; i++ {
					if mask&(1<<i) == 0 {
						continue
					}
					if i >= 4 && !strings.Contains(sb.String(), "T") {
						sb.WriteByte('T')
					}
					v := pat[0]
					if i == last {
						v = pat[1]
					}
					sb.WriteString(v)
					sb.WriteByte(des[i])
				}
				out = append(out, sb.String())
			}
		}
	}
	return out
}

// ---------------------------------------------------------------- instants (monitor only; glue theorems in Props/C19)

func numOneInstant(s *numStats, sec int64, offset int) {
	op := fmt.Sprintf("instant %d %d", sec, offset)
	t := time.Unix(sec, 0).In(time.FixedZone("z", offset))
	bad := ""
	dt := model.NewDateTimeTypeFromTime(t)
	if back, err := dt.GetTime(); err != nil || !back.Equal(t) {
		bad = fmt.Sprintf("NewDateTimeTypeFromTime(%s) = %q -> %v (err %v)", t.UTC().Format(time.RFC3339), string(*dt), back, err)
	}
	ar := model.NewAbsoluteOrRelativeTimeTypeFromTime(t)
	if back, err := ar.GetTime(); bad == "" && (err != nil || !back.Equal(t)) {
		bad = fmt.Sprintf("NewAbsoluteOrRelativeTimeTypeFromTime(%s) = %q -> %v (err %v)", t.UTC().Format(time.RFC3339), string(*ar), back, err)
	}
	if bad == "" && ar.IsRelativeTime() {
		bad = fmt.Sprintf("absolute time %q is taken for a duration", string(*ar))
	}
	if back, err := ar.GetDateTimeType().GetTime(); bad == "" && (err != nil || !back.Equal(t)) {
		bad = fmt.Sprintf("GetDateTimeType of %q -> %v (err %v)", string(*ar), back, err)
	}
	// the textual forms GetTime accepts: without zone designator (UTC implied), with fraction
	u := t.UTC()
	for _, layout := range []string{"2006-01-02T15:04:05", "2006-01-02T15:04:05Z", "2006-01-02T15:04:05.000", "2006-01-02T15:04:05.000000000Z"} {
		txt := u.Format(layout)
		if back, err := model.NewDateTimeType(txt).GetTime(); bad == "" && (err != nil || !back.Equal(t)) {
			bad = fmt.Sprintf("DateTimeType %q -> %v (err %v)", txt, back, err)
		}
	}
	if bad != "" {
		s.fail("C19/instant-lost", absI(sec), op, bad)
		s.evals["instant:lost"]++
		return
	}
	s.evals["instant:exact"]++
}

func numOneInstantNs(s *numStats, sec, ns int64) {
	op := fmt.Sprintf("instantns %d %d", sec, ns)
	t := time.Unix(sec, ns).UTC()
	dt := model.NewDateTimeTypeFromTime(t)
	back, err := dt.GetTime()
	diff := back.Sub(t)
	if err != nil || diff > 500*time.Millisecond || diff < -500*time.Millisecond || back.Nanosecond() != 0 {
		s.fail("C19/instant-lost", absI(sec), op, fmt.Sprintf("NewDateTimeTypeFromTime(%s) = %q -> %v (err %v): not the nearest whole second", t.Format(time.RFC3339Nano), string(*dt), back, err))
		s.evals["instant:lost"]++
		return
	}
	s.evals["instant:fraction-rounded"]++
}

func numOneDate(s *numStats, sec int64) {
	op := fmt.Sprintf("date %d", sec)
	t := time.Unix(sec, 0).UTC()
	bad := ""
	for _, c := range []struct {
		layout string
		zone   *time.Location
	}{{"2006-01-02", time.UTC}, {"2006-01-02Z", time.UTC}} {
		local := time.Date(t.Year(), t.Month(), t.Day(), 0, 0, 0, 0, c.zone)
		txt := local.Format(c.layout)
		back, err := model.NewDateType(txt).GetTime()
		if err != nil || !back.Equal(local) {
			bad = fmt.Sprintf("DateType %q -> %v (err %v), want %v", txt, back, err, local)
			break
		}
	}
	if bad != "" {
		s.fail("C19/date-lost", absI(sec), op, bad)
		s.evals["date:lost"]++
		return
	}
	s.evals["date:exact"]++
}

func numOneTimeOfDay(s *numStats, sec int64) {
	op := fmt.Sprintf("tod %d", sec)
	t := time.Unix(sec, 0).UTC()
	bad := ""
	for _, c := range []struct {
		layout string
		zone   *time.Location
	}{{"15:04:05", time.UTC}, {"15:04:05Z", time.UTC}, {"15:04:05.000", time.UTC}, {"15:04:05-07:00", time.FixedZone("e", 3600)}, {"15:04:05-07:00", time.FixedZone("w", -7*3600)}} {
		local := time.Date(0, 1, 1, t.Hour(), t.Minute(), t.Second(), 0, c.zone)
		txt := local.Format(c.layout)
		back, err := model.NewTimeType(txt).GetTime()
		if err != nil || !back.Equal(local) {
			bad = fmt.Sprintf("TimeType %q -> %v (err %v), want %v", txt, back, err, local)
			break
		}
	}
	if bad != "" {
		s.fail("C19/time-of-day-lost", absI(sec), op, bad)
		s.evals["tod:lost"]++
		return
	}
	s.evals["tod:exact"]++
}

// ---------------------------------------------------------------- time period with relative end time

func askInt(dr *h.Driver, line string) int64 {
	a := dr.Ask(line)
	v, err := strconv.ParseInt(a, 10, 64)
	if err != nil {
		panic(fmt.Sprintf("drv_num: %q answered %q", line, a))
	}
	return v
}

// numOnePeriod: NewTimePeriodTypeWithRelativeEndTime(d), GetDuration, JSON out and back in,
// GetDuration. The code reads the clock itself; the harness brackets every call with its own
// clock readings, so model and monitor are evaluated at both ends of each bracket.
func numOnePeriod(s *numStats, dr *h.Driver, ns int64) {
	op := fmt.Sprintf("period %d", ns)
	d := time.Duration(ns)
	sec := int64(time.Second)
	now := func() int64 { return time.Now().UnixNano() }
	var notes []string
	fail := func(f string, a ...any) { notes = append(notes, fmt.Sprintf(f, a...)) }
	mism := func(what string, got, lo, hi int64) {
		s.mismatch(op, fmt.Sprintf("%s = %d", what, got), fmt.Sprintf("%s in [%d, %d]", what, lo, hi), "instants in ns since the Unix epoch, durations in ns; bracket of the harness clock")
	}

	t0 := now()
	tp := model.NewTimePeriodTypeWithRelativeEndTime(d)
	t1 := now()
	if tp == nil || tp.EndTime == nil || tp.StartTime != nil {
		s.fail("C19/period-not-to-the-second", absI(ns/sec), op, "no end time stored")
		return
	}
	endT, err := tp.EndTime.GetTime()
	if err != nil {
		s.fail("C19/period-not-to-the-second", absI(ns/sec), op, fmt.Sprintf("stored end time %q unreadable: %v", string(*tp.EndTime), err))
		return
	}
	end := endT.UnixNano()
	if lo, hi := askInt(dr, fmt.Sprintf("endof %d %d", t0, ns)), askInt(dr, fmt.Sprintf("endof %d %d", t1, ns)); end < lo || end > hi {
		mism("stored end", end, lo, hi)
	}
	t2 := now()
	rem, err := tp.GetDuration()
	t3 := now()
	if err != nil {
		fail("GetDuration: %v", err)
	} else {
		if lo, hi := askInt(dr, fmt.Sprintf("remaining %d %d", end, t3)), askInt(dr, fmt.Sprintf("remaining %d %d", end, t2)); int64(rem) < lo || int64(rem) > hi {
			mism("remaining", int64(rem), lo, hi)
		}
		// SPEC (e): the true remaining duration at the reading lies in [d-(t3-t0), d-(t2-t1)]
		if int64(rem)%sec != 0 || int64(rem) > ns-(t2-t1)+sec || int64(rem) < ns-(t3-t0)-sec {
			fail("relative end time %v read back as %v after at most %v", d, rem, time.Duration(t3-t0))
		}
	}
	// JSON: out (relative again), in (absolute again), read
	t4 := now()
	js, err := json.Marshal(tp)
	t5 := now()
	var wire struct {
		EndTime *string `json:"endTime"`
	}
	if err != nil || json.Unmarshal(js, &wire) != nil || wire.EndTime == nil {
		fail("MarshalJSON: %s %v", js, err)
	} else {
		pd, perr := period.Parse(*wire.EndTime)
		dw := int64(pd.DurationApprox())
		if perr != nil {
			fail("MarshalJSON wrote %s: not a relative end time", js)
		} else {
			if lo, hi := askInt(dr, fmt.Sprintf("remaining %d %d", end, t5)), askInt(dr, fmt.Sprintf("remaining %d %d", end, t4)); dw < lo || dw > hi {
				mism("marshalled duration", dw, lo, hi)
			}
			if 2*(dw-(end-t4)) > sec || 2*((end-t5)-dw) > sec {
				fail("MarshalJSON wrote %s for an end %v away", js, time.Duration(end-t4))
			}
			// the same period handed to the encoder in every position a Go value can take (the application
			// may marshal a copy, a map element, a value inside an interface): each must be written as the
			// remaining duration too — encoding/json only finds a marshaller of the VALUE's method set there
			tv0 := now()
			forms := []struct {
				name string
				v    any
				path []string
			}{
				{"value", *tp, nil},
				{"map element", map[string]model.TimePeriodType{"p": *tp}, []string{"p"}},
				{"interface element", []any{*tp}, nil},
				{"struct field by value", struct {
					P model.TimePeriodType `json:"p"`
				}{*tp}, []string{"p"}},
			}
			for _, f := range forms {
				fj, ferr := json.Marshal(f.v)
				tv1 := now()
				var raw any
				if ferr != nil || json.Unmarshal(fj, &raw) != nil {
					fail("MarshalJSON (%s): %s %v", f.name, fj, ferr)
					continue
				}
				if l, ok := raw.([]any); ok && len(l) == 1 {
					raw = l[0]
				}
				for _, k := range f.path {
					if m, ok := raw.(map[string]any); ok {
						raw = m[k]
					}
				}
				m, _ := raw.(map[string]any)
				et, _ := m["endTime"].(string)
				pv, pverr := period.Parse(et)
				dv := int64(pv.DurationApprox())
				if m == nil || pverr != nil {
					fail("as %s the period is written as %s: not a relative end time", f.name, fj)
				} else if 2*(dv-(end-tv0)) > sec || 2*((end-tv1)-dv) > sec {
					fail("as %s the period is written as %s for an end %v away", f.name, fj, time.Duration(end-tv0))
				}
			}
			t6 := now()
			var tp2 model.TimePeriodType
			err := json.Unmarshal(js, &tp2)
			t7 := now()
			if err != nil || tp2.EndTime == nil {
				fail("UnmarshalJSON(%s): %v", js, err)
			} else if e2T, err := tp2.EndTime.GetTime(); err != nil {
				fail("UnmarshalJSON(%s) stored %q", js, string(*tp2.EndTime))
			} else {
				e2 := e2T.UnixNano()
				if lo, hi := askInt(dr, fmt.Sprintf("endof %d %d", t6, dw)), askInt(dr, fmt.Sprintf("endof %d %d", t7, dw)); e2 < lo || e2 > hi {
					mism("end after unmarshal", e2, lo, hi)
				}
				if 2*(e2-(t7+dw)) > sec || 2*((t6+dw)-e2) > sec {
					fail("UnmarshalJSON(%s) stored an end %v away", js, time.Duration(e2-t6))
				}
				t8 := now()
				rem2, err := tp2.GetDuration()
				t9 := now()
				// end to end: four roundings to the second
				if err != nil || int64(rem2)%sec != 0 || int64(rem2) > ns-(t8-t1)+2*sec || int64(rem2) < ns-(t9-t0)-2*sec {
					fail("relative end time %v read back through JSON as %v (err %v) after at most %v", d, rem2, err, time.Duration(t9-t0))
				}
			}
		}
	}
	if len(notes) > 0 {
		s.fail("C19/period-not-to-the-second", absI(ns/sec), op, strings.Join(notes, "; "))
		s.evals["period:off"]++
		return
	}
	s.evals["period:to-the-second"]++
}

// ---------------------------------------------------------------- sequences of decodes into one value

// canonT classifies a start / end time: '-' absent, 'a' instant (ns since the epoch), 'r' duration
// (ns), '?' neither. Parsed with the standard library and the period library, not with the code.
func canonT(a *model.AbsoluteOrRelativeTimeType) (kind byte, v int64, txt string) {
	if a == nil {
		return '-', 0, ""
	}
	txt = string(*a)
	for _, l := range []string{"2006-01-02T15:04:05Z", "2006-01-02T15:04:05", "2006-01-02T15:04:05.999999999Z"} {
		if t, err := time.ParseInLocation(l, txt, time.UTC); err == nil {
			return 'a', t.UnixNano(), txt
		}
	}
	if p, err := period.Parse(txt); err == nil {
		return 'r', int64(p.DurationApprox()), txt
	}
	return '?', 0, txt
}

func showT(kind byte, v int64) string {
	switch kind {
	case '-':
		return "-"
	case 'a':
		return fmt.Sprintf("a:%d", v)
	case 'r':
		return fmt.Sprintf("r:%d", v)
	}
	return "?"
}

type periodState struct {
	sk, ek byte
	sv, ev int64
	st, et string
}

func periodStateOf(tp *model.TimePeriodType) periodState {
	var ps periodState
	if tp == nil {
		ps.sk, ps.ek = '-', '-'
		return ps
	}
	ps.sk, ps.sv, ps.st = canonT(tp.StartTime)
	ps.ek, ps.ev, ps.et = canonT(tp.EndTime)
	return ps
}

func (ps periodState) String() string { return showT(ps.sk, ps.sv) + " " + showT(ps.ek, ps.ev) }

// parsePeriodState reads a driver answer "start end" (each "-", "a:<ns>" or "r:<ns>").
func parsePeriodState(ans string) (ps periodState, ok bool) {
	f := strings.Fields(ans)
	if len(f) != 2 {
		return ps, false
	}
	one := func(w string) (byte, int64, bool) {
		if w == "-" {
			return '-', 0, true
		}
		if len(w) > 2 && (w[0] == 'a' || w[0] == 'r') && w[1] == ':' {
			v, err := strconv.ParseInt(w[2:], 10, 64)
			return w[0], v, err == nil
		}
		return '?', 0, false
	}
	var o1, o2 bool
	ps.sk, ps.sv, o1 = one(f[0])
	ps.ek, ps.ev, o2 = one(f[1])
	return ps, o1 && o2
}

// periodDoc builds the JSON text of a document kind at the harness clock `base`:
// SEa start+end absolute, SEr start+end relative, R<n> only a relative end of n s, A<n> only an
// absolute end n s ahead, E empty, S only a start.
func periodDoc(kind string, base time.Time) (text string, want periodState) {
	abs := func(d time.Duration) (string, int64) {
		t := base.Add(d).Round(time.Second).UTC()
		return t.Format("2006-01-02T15:04:05Z"), t.UnixNano()
	}
	rel := func(d time.Duration) (string, int64) {
		p, _ := period.NewOf(d)
		return p.String(), int64(d)
	}
	want.sk, want.ek = '-', '-'
	var f []string
	setS := func(txt string, k byte, v int64) {
		want.sk, want.sv, want.st = k, v, txt
		f = append(f, fmt.Sprintf("%q:%q", "startTime", txt))
	}
	setE := func(txt string, k byte, v int64) {
		want.ek, want.ev, want.et = k, v, txt
		f = append(f, fmt.Sprintf("%q:%q", "endTime", txt))
	}
	switch {
	case kind == "SEa":
		t, v := abs(10 * time.Second)
		setS(t, 'a', v)
		t, v = abs(time.Hour)
		setE(t, 'a', v)
	case kind == "SEr":
		t, v := rel(10 * time.Second)
		setS(t, 'r', v)
		t, v = rel(time.Hour)
		setE(t, 'r', v)
	case kind == "S":
		t, v := abs(20 * time.Second)
		setS(t, 'a', v)
	case kind == "E":
	case strings.HasPrefix(kind, "R"):
		n, err := strconv.Atoi(kind[1:])
		if err != nil {
			panic("bad period document " + kind)
		}
		t, v := rel(time.Duration(n) * time.Second)
		setE(t, 'r', v)
	case strings.HasPrefix(kind, "A"):
		n, err := strconv.Atoi(kind[1:])
		if err != nil {
			panic("bad period document " + kind)
		}
		t, v := abs(time.Duration(n) * time.Second)
		setE(t, 'a', v)
	default:
		panic("bad period document " + kind)
	}
	return "{" + strings.Join(f, ",") + "}", want
}

// numOnePeriodSeq decodes a sequence of documents into ONE Go value (directly, or through a
// LoadControlLimitDataType that is decoded into repeatedly). After every decode:
//   tie    the value against Spine.TP.decode (previous value, document, clock bracket), GetDuration and
//          MarshalJSON against getDuration / encode;
//   SPEC   history independence: the value, its remaining duration and its JSON are those of the same
//          document decoded into a fresh value at the same time; a relative end time is read back to the
//          second; a copy of the earlier value (sharing its pointers) is unchanged by the decode.
func numOnePeriodSeq(s *numStats, dr *h.Driver, op string) {
	f := strings.Fields(op)
	if len(f) < 3 || (f[1] != "direct" && f[1] != "outer") {
		panic("bad op " + op)
	}
	outerMode := f[1] == "outer"
	sec := int64(time.Second)
	now := func() int64 { return time.Now().UnixNano() }
	var tp model.TimePeriodType
	var outer model.LoadControlLimitDataType
	cur := func() *model.TimePeriodType {
		if outerMode {
			return outer.TimePeriod
		}
		return &tp
	}
	within := func(a, b, tol int64) bool { return a-b <= tol && b-a <= tol }
	bad := map[string][]string{}
	fail := func(key, format string, a ...any) { bad[key] = append(bad[key], fmt.Sprintf(format, a...)) }
	const kHist, kAlias, kSec = "C19/period-decode-depends-on-history", "C19/period-decode-writes-through-shared-pointer", "C19/period-not-to-the-second"

	for i, kind := range f[2:] {
		text, doc := periodDoc(kind, time.Now())
		prev := periodStateOf(cur())
		// a copy of the earlier value: its own struct, the same pointers
		var snap *model.TimePeriodType
		var snapDur time.Duration
		var snapErr error
		var tSnap int64
		if i > 0 && cur() != nil {
			c := *cur()
			snap = &c
			tSnap = now()
			snapDur, snapErr = snap.GetDuration()
		}
		snapState := periodStateOf(snap)

		t0 := now()
		var err error
		if outerMode {
			err = json.Unmarshal([]byte(`{"limitId":1,"timePeriod":`+text+`}`), &outer)
		} else {
			err = json.Unmarshal([]byte(text), &tp)
		}
		t1 := now()
		if err != nil || cur() == nil {
			fail(kHist, "decode %d (%s %s): error %v", i+1, kind, text, err)
			break
		}
		got := periodStateOf(cur())

		// ---- tie: Spine.TP.decode at both ends of the clock bracket
		lo := dr.Ask(fmt.Sprintf("pdec %s %s %d", prev, doc, t0))
		hi := dr.Ask(fmt.Sprintf("pdec %s %s %d", prev, doc, t1))
		okTie := false
		l, ok1 := parsePeriodState(lo)
		hgh, ok2 := parsePeriodState(hi)
		if ok1 && ok2 {
			okTie = got.sk == l.sk && got.sv == l.sv && got.ek == l.ek && got.ek == hgh.ek &&
				((got.ek == 'a' && l.ev <= got.ev && got.ev <= hgh.ev) || (got.ek != 'a' && got.ev == l.ev))
		}
		if !okTie {
			s.mismatch(op, fmt.Sprintf("after decode %d (%s): %s", i+1, kind, got), fmt.Sprintf("between %q and %q", lo, hi), "value after UnmarshalJSON: start end (a:instant ns, r:duration ns, -:absent)")
		}

		// ---- GetDuration and MarshalJSON of the reused value
		t2 := now()
		dur, derr := cur().GetDuration()
		t3 := now()
		js, jerr := json.Marshal(cur())
		t4 := now()
		{
			a, b := dr.Ask(fmt.Sprintf("pdur %s %d", got, t3)), dr.Ask(fmt.Sprintf("pdur %s %d", got, t2))
			impl := "invalid"
			if derr == nil {
				impl = strconv.FormatInt(int64(dur), 10)
			}
			ok := a == "invalid" && b == "invalid" && derr != nil
			if !ok && derr == nil {
				x, e1 := strconv.ParseInt(a, 10, 64)
				y, e2 := strconv.ParseInt(b, 10, 64)
				ok = e1 == nil && e2 == nil && x <= int64(dur) && int64(dur) <= y
			}
			if !ok {
				s.mismatch(op, fmt.Sprintf("GetDuration after decode %d (%s) of %s: %s", i+1, kind, got, impl), fmt.Sprintf("in [%s, %s]", a, b), "remaining duration in ns or invalid")
			}
		}
		var wire model.TimePeriodType
		type rawPeriod struct {
			StartTime *model.AbsoluteOrRelativeTimeType `json:"startTime,omitempty"`
			EndTime   *model.AbsoluteOrRelativeTimeType `json:"endTime,omitempty"`
		}
		var raw rawPeriod
		if jerr != nil || json.Unmarshal(js, &raw) != nil {
			fail(kHist, "MarshalJSON after decode %d (%s): %s %v", i+1, kind, js, jerr)
		} else {
			wire.StartTime, wire.EndTime = raw.StartTime, raw.EndTime
			w := periodStateOf(&wire)
			a, b := dr.Ask(fmt.Sprintf("penc %s %d", got, t4)), dr.Ask(fmt.Sprintf("penc %s %d", got, t3))
			pa, ok1 := parsePeriodState(a)
			pb, ok2 := parsePeriodState(b)
			ok := false
			if ok1 && ok2 {
				ok = w.sk == pa.sk && w.sv == pa.sv && w.ek == pa.ek && pa.ev <= w.ev && w.ev <= pb.ev
			}
			if !ok {
				s.mismatch(op, fmt.Sprintf("MarshalJSON after decode %d (%s) of %s: %s", i+1, kind, got, w), fmt.Sprintf("between %q and %q", a, b), "document written")
			}
		}

		// ---- SPEC: the same document into a fresh value, now
		var fresh model.TimePeriodType
		t5 := now()
		ferr := json.Unmarshal([]byte(text), &fresh)
		fs := periodStateOf(&fresh)
		fdur, fderr := fresh.GetDuration()
		fjs, _ := json.Marshal(&fresh)
		t6 := now()
		span := t6 - t0
		same := ferr == nil && got.sk == fs.sk && got.st == fs.st && got.ek == fs.ek &&
			((got.ek == 'a' && within(got.ev, fs.ev, sec+span)) || (got.ek != 'a' && got.et == fs.et))
		if !same {
			fail(kHist, "decode %d of %s (%s) into the value that held [%s] gives [%s]; into a fresh value [%s]", i+1, kind, text, prev, got, fs)
		} else if (derr == nil) != (fderr == nil) || (derr == nil && !within(int64(dur), int64(fdur), sec+span)) {
			fail(kHist, "after decode %d of %s into the value that held [%s]: GetDuration %v (err %v); fresh value %v (err %v)", i+1, kind, prev, dur, derr, fdur, fderr)
		} else if jerr == nil {
			var r2 rawPeriod
			_ = json.Unmarshal(fjs, &r2)
			w1, w2 := periodStateOf(&model.TimePeriodType{StartTime: raw.StartTime, EndTime: raw.EndTime}), periodStateOf(&model.TimePeriodType{StartTime: r2.StartTime, EndTime: r2.EndTime})
			if w1.sk != w2.sk || w1.st != w2.st || w1.ek != w2.ek || !within(w1.ev, w2.ev, sec+span) {
				fail(kHist, "after decode %d of %s into the value that held [%s]: MarshalJSON %s; fresh value %s", i+1, kind, prev, js, fjs)
			}
		}
		// clause (e) on the reused value
		if doc.sk == '-' && doc.ek == 'r' {
			if derr != nil || int64(dur)%sec != 0 || int64(dur) > doc.ev-(t2-t1)+sec || int64(dur) < doc.ev-(t3-t0)-sec {
				key := kSec
				if fderr == nil && within(int64(fdur), doc.ev, sec+span) {
					key = kHist // a fresh value reads it back correctly: the previous content interferes
				}
				fail(key, "relative end time %v decoded into the value that held [%s] is read back as %v (err %v)", time.Duration(doc.ev), prev, dur, derr)
			}
		}
		_ = t5

		// ---- SPEC: the copy of the earlier value is untouched
		if snap != nil {
			after := periodStateOf(snap)
			t7 := now()
			d2, e2 := snap.GetDuration()
			t8 := now()
			if after.sk != snapState.sk || after.st != snapState.st || after.ek != snapState.ek || after.et != snapState.et {
				fail(kAlias, "a copy of the value [%s] taken before decode %d (%s) reads [%s] afterwards", snapState, i+1, kind, after)
			} else if (e2 == nil) != (snapErr == nil) || (e2 == nil && (int64(d2) > int64(snapDur)+sec || int64(d2) < int64(snapDur)-(t8-tSnap)-sec)) {
				fail(kAlias, "a copy of the value [%s] taken before decode %d (%s): GetDuration %v (err %v) before, %v (err %v) after", snapState, i+1, kind, snapDur, snapErr, d2, e2)
			}
			_ = t7
		}
	}
	if len(bad) > 0 {
		keys := make([]string, 0, len(bad))
		for k := range bad {
			keys = append(keys, k)
		}
		sort.Strings(keys)
		for _, k := range keys {
			s.fail(k, uint64(len(f)), op, strings.Join(bad[k], "; "))
		}
		s.evals["pseq:off"]++
		return
	}
	s.evals["pseq:"+f[1]]++
}

// numOneReuse uses one receiver repeatedly: the pure readers of ScaledNumberType, DurationType and
// AbsoluteOrRelativeTimeType answer the same every time and leave the receiver as it was.
func numOneReuse(s *numStats, op string) {
	f := strings.Fields(op)
	arg := func(i int) int64 {
		v, err := strconv.ParseInt(f[i], 10, 64)
		if err != nil {
			panic("bad op " + op)
		}
		return v
	}
	var notes []string
	note := func(format string, a ...any) { notes = append(notes, fmt.Sprintf(format, a...)) }
	switch f[1] {
	case "sn":
		sn := model.NewScaledNumberType(numDec(arg(2), int(arg(3))))
		n0, s0 := *sn.Number, *sn.Scale
		j1, _ := json.Marshal(sn)
		g1 := sn.GetValue()
		g2 := sn.GetValue()
		j2, _ := json.Marshal(sn)
		var fresh model.ScaledNumberType
		_ = json.Unmarshal(j1, &fresh)
		g3 := fresh.GetValue()
		g4 := sn.GetValue()
		if math.Float64bits(g1) != math.Float64bits(g2) || math.Float64bits(g1) != math.Float64bits(g4) || math.Float64bits(g1) != math.Float64bits(g3) ||
			*sn.Number != n0 || *sn.Scale != s0 || string(j1) != string(j2) {
			note("ScaledNumberType %s: GetValue %v %v %v (decoded copy %v), number/scale %d/%d -> %d/%d, json %s -> %s", j1, g1, g2, g4, g3, n0, s0, *sn.Number, *sn.Scale, j1, j2)
		}
	case "dur":
		d := model.NewDurationType(time.Duration(arg(2)) * hundredMs)
		txt := string(*d)
		r1, e1 := d.GetTimeDuration()
		r2, e2 := d.GetTimeDuration()
		a := model.NewAbsoluteOrRelativeTimeTypeFromDuration(time.Duration(arg(2)) * hundredMs)
		r3, e3 := a.GetTimeDuration()
		rel := a.IsRelativeTime()
		dt, e4 := a.GetDurationType()
		r5, e5 := a.GetTimeDuration()
		if r1 != r2 || (e1 == nil) != (e2 == nil) || string(*d) != txt || r3 != r1 || r5 != r1 || e3 != nil || e5 != nil || !rel || e4 != nil || dt == nil || string(*dt) != txt || string(*a) != txt {
			note("DurationType %q: %v/%v then %v/%v; as AbsoluteOrRelativeTimeType %q: %v %v, relative %v, GetDurationType %v (err %v), text now %q", txt, r1, e1, r2, e2, string(*a), r3, r5, rel, dt, e4, string(*d))
		}
	case "art":
		t := time.Unix(arg(2), 0).UTC()
		a := model.NewAbsoluteOrRelativeTimeTypeFromTime(t)
		txt := string(*a)
		t1, e1 := a.GetTime()
		rel := a.IsRelativeTime()
		_, e2 := a.GetTimeDuration()
		t3, e3 := a.GetDateTimeType().GetTime()
		_, e4 := a.GetDurationType()
		t5, e5 := a.GetTime()
		if e1 != nil || e3 != nil || e5 != nil || !t1.Equal(t) || !t3.Equal(t) || !t5.Equal(t) || rel || e2 == nil || e4 == nil || string(*a) != txt {
			note("AbsoluteOrRelativeTimeType %q: GetTime %v/%v, %v/%v, %v/%v; relative %v; text now %q", txt, t1, e1, t3, e3, t5, e5, rel, string(*a))
		}
	default:
		panic("bad op " + op)
	}
	if len(notes) > 0 {
		s.fail("C19/receiver-changed-by-use", absI(arg(2)), op, strings.Join(notes, "; "))
		s.evals["reuse:off"]++
		return
	}
	s.evals["reuse:"+f[1]]++
}

// ---------------------------------------------------------------- op dispatcher (corpus, replay)

func numRunOp(s *numStats, dr *h.Driver, op string) {
	f := strings.Fields(op)
	arg := func(i int) int64 {
		if i >= len(f) {
			panic("bad op " + op)
		}
		v, err := strconv.ParseInt(f[i], 10, 64)
		if err != nil {
			u, err2 := strconv.ParseUint(f[i], 10, 64)
			if err2 != nil {
				panic("bad op " + op)
			}
			return int64(u)
		}
		return v
	}
	switch f[0] {
	case "scaled":
		numOneDecimal(s, arg(1), int(arg(2)), dr.Ask(op))
	case "fbits":
		numOneFloat(s, uint64(arg(1)), dr.Ask(op))
	case "getval":
		n, sc := arg(1), arg(2)
		nt, st := model.NumberType(n), model.ScaleType(sc)
		g := (&model.ScaledNumberType{Number: &nt, Scale: &st}).GetValue()
		s.evals["getval"]++
		if want := dr.Ask(op); want != "range" && want != strconv.FormatUint(math.Float64bits(g), 10) {
			s.mismatch(op, strconv.FormatUint(math.Float64bits(g), 10), want, "bits of GetValue")
		}
	case "dur":
		numOneDur(s, dr, arg(1))
	case "durns":
		numOneDurNs(s, dr, arg(1))
	case "dtext":
		numOneDurText(s, dr, arg(1))
	case "dparse":
		if len(f) != 2 {
			panic("bad op " + op)
		}
		numOneDurParse(s, dr, f[1])
	case "instant":
		numOneInstant(s, arg(1), int(arg(2)))
	case "instantns":
		numOneInstantNs(s, arg(1), arg(2))
	case "date":
		numOneDate(s, arg(1))
	case "tod":
		numOneTimeOfDay(s, arg(1))
	case "ttext":
		numOneTimeText(s, dr, loadTimeLayouts(), arg(1), arg(2), int(arg(3)))
	case "tread":
		if len(f) != 3 {
			panic("bad op " + op)
		}
		numOneTimeRead(s, dr, loadTimeLayouts(), f[1], f[2])
	case "tlib":
		if len(f) != 5 {
			panic("bad op " + op)
		}
		numOneTimeLib(s, dr, f[1], arg(2), arg(3), int(arg(4)))
	case "period":
		numOnePeriod(s, dr, arg(1))
	case "pseq":
		numOnePeriodSeq(s, dr, op)
	case "reuse":
		numOneReuse(s, op)
	default:
		panic("bad op " + op)
	}
}

// ---------------------------------------------------------------- sweeps

type numChunk struct {
	d      int
	k0, k1 int64
	mirror bool // also sweep -k1..-k0, judged against the model's answers for k0..k1 through sign symmetry
	fast   bool // the model's digest without the run-time assertion of IsRnd (a theorem: c19_rnd_sound)
}

// mirrored maps the observation of -v to what the model predicts for v (theorems newScaled_negate,
// getValue_neg, mul_negate, bits_negate of Spine.Num): sign bits flipped, number negated.
func (o numObs) mirrored() numObs {
	const sb = uint64(1) << 63
	m := numObs{vb: o.vb ^ sb, nd: o.nd, pb: o.pb ^ sb, number: o.number, scale: o.scale, gb: o.gb}
	if o.number != numNil {
		m.number = -o.number
	}
	if o.number != 0 {
		m.gb ^= sb
	}
	return m
}

// numSweepChunk compares one chunk of the decimal grid by digest; on a difference it bisects
// down to single values and reports those.
func numSweepChunk(s *numStats, dr *h.Driver, c numChunk, crossParse bool) {
	line := fmt.Sprintf("srange %d %d %d 1", c.d, c.k0, c.k1)
	if c.fast {
		line = fmt.Sprintf("srangef %d %d %d 1", c.d, c.k0, c.k1)
	}
	ans := make(chan string, 1)
	go func() { ans <- dr.AskWithin(line, numRangeTimeout) }()
	hh, hm := uint64(numDigest0), uint64(numDigest0)
	one := func(k int64) numObs {
		v := numDec(k, c.d)
		if crossParse || k&63 == 0 {
			if p := numParse(k, c.d); p != v {
				panic(fmt.Sprintf("harness: %de-%d: quotient %v, ParseFloat %v", k, c.d, v, p))
			}
		}
		o, sn := numImpl(v)
		g := math.NaN()
		if sn != nil {
			g = sn.GetValue()
		}
		kind := "decimal:exact"
		if key, det := specDecimal(k, c.d, v, o, g); key != "" {
			s.fail(key, absI(k), fmt.Sprintf("scaled %d %d", k, c.d), det)
			kind = "decimal:" + strings.TrimPrefix(key, "C19/")
		}
		s.evals[kind]++
		return o
	}
	for k := c.k0; k <= c.k1; k++ {
		hh = one(k).mix(hh)
		if c.mirror {
			hm = one(-k).mirrored().mix(hm)
		}
	}
	want := fmt.Sprintf("digest %d %d", hh, c.k1-c.k0+1)
	got := <-ans
	if c.mirror && got == want && hm != hh {
		// the negative half differs from the mirrored model: compare it directly
		q := newNumStats()
		numSweepChunk(q, dr, numChunk{c.d, -c.k1, -c.k0, false, false}, false)
		if q.mismN == 0 {
			s.mismatch(line, fmt.Sprintf("mirrored digest %d", hm), want, "negative half differs from the model's mirrored answers, but agrees with its direct answers: sign symmetry of the model broken")
		}
		s.mismN += q.mismN
		s.mism = append(s.mism, q.mism...)
		return
	}
	if got == want {
		return
	}
	if c.k0 == c.k1 || !strings.HasPrefix(got, "digest ") {
		// a single value, or a failed assertion inside the driver: name the value
		if c.k0 != c.k1 {
			if f := strings.Fields(got); len(f) == 2 {
				if k, err := strconv.ParseInt(f[1], 10, 64); err == nil {
					c.k0, c.k1 = k, k
				}
			}
		}
		op := fmt.Sprintf("scaled %d %d", c.k0, c.d)
		o, _ := numImpl(numDec(c.k0, c.d))
		s.mismatch(op, o.String(), dr.Ask(op), "value-bits decimals product-bits number scale getvalue-bits")
		return
	}
	// bisect (evaluations of the halves are not counted again)
	q := newNumStats()
	mid := c.k0 + (c.k1-c.k0)/2
	numSweepChunk(q, dr, numChunk{c.d, c.k0, mid, false, false}, false)
	if q.mismN == 0 {
		numSweepChunk(q, dr, numChunk{c.d, mid + 1, c.k1, false, false}, false)
	}
	s.mismN += q.mismN
	s.mism = append(s.mism, q.mism...)
}

// numRangeTimeout bounds one range / batch op of the driver (a fraction of a second on an idle
// machine; generous because the check may share the machine).
const numRangeTimeout = 5 * time.Minute

func numWorkers() int {
	n := runtime.NumCPU() * 5 / 8 // each worker is a goroutine plus a driver process
	if n > 10 {
		n = 10
	}
	if n < 1 {
		n = 1
	}
	return n
}

// numParallel runs jobs 0..n-1 on the workers (each with its own driver) and merges the statistics
// in job order, so the result does not depend on the number of workers.
func numParallel(args []string, n int, job func(s *numStats, dr *h.Driver, i int)) *numStats {
	w := numWorkers()
	if w > n {
		w = n
	}
	res := make([]*numStats, n)
	next := make(chan int, n)
	for i := 0; i < n; i++ {
		next <- i
	}
	close(next)
	var wg sync.WaitGroup
	var pmu sync.Mutex
	var pan any
	for g := 0; g < w; g++ {
		wg.Add(1)
		go func() {
			defer wg.Done()
			defer func() {
				if p := recover(); p != nil {
					pmu.Lock()
					pan = p
					pmu.Unlock()
				}
			}()
			dr := h.StartDriver("drv_num", args...)
			defer dr.Close()
			for i := range next {
				s := newNumStats()
				job(s, dr, i)
				dr.Mark()
				res[i] = s
			}
		}()
	}
	wg.Wait()
	if pan != nil {
		panic(pan)
	}
	total := newNumStats()
	for _, s := range res {
		if s != nil {
			total.merge(s)
		}
	}
	return total
}

// numRunOpsParallel runs single ops (replay format) on the workers, in chunks of `chunk` ops, each worker with its
// own driver; the statistics are merged in the order of the ops, so the result does not depend on the number of
// workers. The ops are drawn (sequentially, from the seeded generator) before this is called.
func numRunOpsParallel(args []string, ops []string, chunk int) *numStats {
	n := (len(ops) + chunk - 1) / chunk
	return numParallel(args, n, func(s *numStats, dr *h.Driver, i int) {
		hi := (i + 1) * chunk
		if hi > len(ops) {
			hi = len(ops)
		}
		for _, op := range ops[i*chunk : hi] {
			numRunOp(s, dr, op)
		}
	})
}

// numRandomBits draws a finite double "across magnitudes" (see the distribution table in the evidence).
func numRandomBits(rng *rand.Rand) uint64 {
	mk := func(exp int) uint64 { // random mantissa, given unbiased exponent, random sign
		return uint64(rng.Intn(2))<<63 | uint64(exp+1023)<<52 | uint64(rng.Int63())&(1<<52-1)
	}
	switch x := rng.Intn(100); {
	case x < 55: // the property's range, 2^-40 .. 2^46 (< 10^14)
		return mk(-40 + rng.Intn(86))
	case x < 67: // around and above 2^53/10^4 up to the int64 limit of value*10^4 (9.2e14)
		v := math.Float64frombits(mk(39 + rng.Intn(11)))
		if math.Abs(v) >= 9.2e14 {
			v /= 2
		}
		return math.Float64bits(v)
	case x < 75: // tiny normal numbers
		return mk(-1022 + rng.Intn(982))
	case x < 93: // a decimal with up to 4 digits, moved by up to 3 units in the last place
		k := rng.Int63n(1 << uint(10+rng.Intn(41)))
		v := numDec(k, rng.Intn(5))
		b := math.Float64bits(v)
		if b > 8 {
			b = b - 3 + uint64(rng.Intn(7))
		}
		return b | uint64(rng.Intn(2))<<63
	case x < 97: // powers of two and their neighbours
		b := uint64(rng.Intn(1070-1023+46)+1023-40) << 52
		return (b - 2 + uint64(rng.Intn(5))) | uint64(rng.Intn(2))<<63
	default: // zeros and subnormals (outside the model's range: monitor only)
		if rng.Intn(2) == 0 {
			return uint64(rng.Intn(2)) << 63
		}
		return uint64(rng.Intn(2))<<63 | uint64(rng.Int63())&(1<<52-1)
	}
}

// ---------------------------------------------------------------- the test

func TestNumeric(t *testing.T) {
	r := h.NewReport(numComponent, "bit-exact comparison of the real NewScaledNumberType/GetValue with Spine.Num (bits of the parsed double, decimals count, bits of value*10^decimals, number, scale, bits of GetValue) on the exhaustive grid k*10^-d and on random doubles across magnitudes; NewDurationType/GetTimeDuration with Spine.Dur; TimePeriodType end-time arithmetic with Spine.TP; instants, dates, times of day by the monitor; the driver asserts the rounding relation IsRnd on every rounding; SPEC monitor = the property statement in exact arithmetic (math/big) on the implementation's results; non-trivial = distinct inputs on which a clause fails or the value is not exactly representable")
	defer r.Write()

	// ---- probe phase: which member of the model family is the tree under test? (DESIGN §4.7)
	cfgT, cfgI := true, true
	{
		sn := model.NewScaledNumberType(0.29)
		switch {
		case sn != nil && sn.Number != nil && *sn.Number == 28:
			cfgT = true
		case sn != nil && sn.Number != nil && *sn.Number == 29:
			cfgT = false
		default:
			r.Mismatch([]string{"scaled 29 2"}, fmt.Sprint(sn), "number 28 (Trunc) or 29 (Round)", "probe of flag truncScaled: neither member")
		}
		r.SetFlag("truncScaled", cfgT, []string{"scaled 29 2"}, "NewScaledNumberType(0.29).Number is 28 with math.Trunc, 29 with math.Round")
		n, sc := model.NumberType(-199998), model.ScaleType(-1)
		g := (&model.ScaledNumberType{Number: &n, Scale: &sc}).GetValue()
		switch math.Float64bits(g) {
		case 0xC0D387F333333334:
			cfgI = true
		case 0xC0D387F333333333:
			cfgI = false
		default:
			r.Mismatch([]string{"getval -199998 -1"}, fmt.Sprint(g), "-19999.800000000003 (times 10^-1) or -19999.8 (divided by 10)", "probe of flag inexactPower: neither member")
		}
		r.SetFlag("inexactPower", cfgI, []string{"getval -199998 -1"}, "GetValue of -199998e-1 is -19999.800000000003 when multiplying by Pow(10,-1), -19999.8 when dividing by Pow(10,1)")
	}
	args := []string{fmt.Sprintf("trunc=%d", h.B2i(cfgT)), fmt.Sprintf("inexact=%d", h.B2i(cfgI))}
	d := h.StartDriver("drv_num", args...)
	defer d.Close()
	if a := d.Ask("nonsense"); a != "bad-op" {
		t.Fatalf("drv_num: unknown op answered %q", a)
	}

	if ops := h.ReplayOps(numComponent); ops != nil {
		s := newNumStats()
		for _, op := range ops {
			numRunOp(s, d, op)
		}
		s.flush(r)
		return
	}

	// ---- corpus: one witness per known defect, then edge values
	fb := func(v float64) string { return fmt.Sprintf("fbits %d", math.Float64bits(v)) }
	corpus := []string{
		"scaled 29 2",             // 0.29 -> 28e-2            (trunc-loses-decimal)
		"scaled -199998 1",        // -19999.8 -> -19999.800000000003 (getvalue-inexact-power)
		fb(2199023255552.3706),    // -> ...3708 (bound-above-2^53e-4)
		"dur 3153600000",          // 10 years of 365 days -> 87599h42m54s (duration-ge-3277-days)
		"scaled 57 2", "scaled 435 2", "scaled 1005 3", "scaled -29 2", "scaled 0 0", "scaled 0 4",
		"scaled 1 4", "scaled -1 4", "scaled 5 1", "scaled 15 1", "scaled 25 1", "scaled 12345 4",
		"scaled 99999 4", "scaled 100000 4", "scaled 1125899906842623 0", "scaled 1125899906842623 4",
		"scaled -1125899906842623 3", "scaled 900719925474 0", "scaled 9007199254740 1",
		fb(0), fb(math.Copysign(0, -1)), fb(1), fb(0.1), fb(1.0 / 3), fb(-2.5), fb(1e-7), fb(123456.78905), fb(0.00019999), fb(math.Ldexp(1, 46)),
		fb(99999999999999.98), fb(1e14), fb(9e14), fb(900719925474.0993), fb(900719925474.1), fb(5e-324), fb(2.2250738585072014e-308), fb(1e-300),
		"getval 0 0", "getval 1 -4", "getval -1 4", "getval 123456789 -3", "getval 9007199254740993 0", "getval 5 -1",
		"dur 0", "dur 1", "dur -1", "dur 599", "dur 600", "dur 35999", "dur 36000",
		"dur 117935999", "dur 117936000", "dur 117972000", "dur 115956000", "dur 115920000", // 3276 h, 3277 h; 3220.5 h (the parser's ripple)
		"dur 2831327999", "dur 2831328000", "dur -2831328000", "dur 2831328001", // 3277 days - 100 ms, 3277 days
		"durns 150000000", "durns -1", "durns 99999999", "durns 3600000000001",
		"dtext 0", "dtext 5990000000", "dtext -5990000000", "dtext 604800000000000", "dtext 11793600000000000", "dtext 283132799900000000", "dtext 283132800000000000", "dtext -50000000", "dtext 9223372036854775807", "dtext 8583573421155919265", "dtext 3250454086230841373", "dtext -4291753169893406838", "durns 8583573421155919265", "dparse -P-272Y1M-30DT-21H",
		"dparse PT3276H", "dparse PT3220H30M", "dparse P1Y2M3W4DT5H6M7.8S", "dparse P1.5Y2M", "dparse P1.5Y2.5M", "dparse PT1H1H", "dparse P1W1D", "dparse P1DT", "dparse P", "dparse -P0D", "dparse P0", "dparse -P0",
		"dparse PT90M", "dparse P40000D", "dparse P4000D", "dparse PT1,55S", "dparse PT.5S", "dparse PT5.S", "dparse P1T1H", "dparse PT1HT1M", "dparse P1H", "dparse PT1D", "dparse P1", "dparse 1D", "dparse +P1D", "dparse P3277Y", "dparse P3276.7Y", "dparse P300Y",
		"instant 0 0", "instant -62135596800 0", "instant 253402300799 0", "instant 1727352000 7200", "instant 951782400 -34200",
		"instantns 0 500000000", "instantns 1727352000 499999999", "instantns -62135596800 1",
		"ttext 0 0 0", "ttext -62167219200 0 0", "ttext 253402300799 0 0", "ttext 253402300799 500000000 0", "ttext 951782399 500000000 -34200", "ttext 1727352000 499999999 7200",
		"tread dt 2024-02-29T12:00:00Z", "tread dt 2023-02-29T12:00:00Z", "tread dt 2024-09-26T7:04:05", "tread dt 2024-09-26T12:00:00.5", "tread dt 2024-09-26T12:00:00,25Z", "tread dt 2024-09-26T12:00:60Z", "tread dt 2024-09-26T24:00:00Z", "tread dt 2024-13-01T00:00:00", "tread dt 2024-09-26T12:00:00+02:00", "tread dt 10000-01-01T00:00:00Z",
		"tread date 2001-10-26", "tread date 2001-10-26Z", "tread date 2001-10-26+07:00", "tread date 2001-10-26+02:00", "tread date 2001-02-30", "tread tod 13:20:00", "tread tod 13:20:00.125Z", "tread tod 13:20:00+07:00", "tread tod 13:20:00+05:30", "tread tod 13:20:00-11:00", "tread tod 3:20:00", "tread tod 13:20:00+25:00",
		"tlib 2006-01-02T15:04:05.999999999Z07:00 951782400 123456789 -34200", "tlib 2006-01-02T15:04:05Z 253402300800 0 0", "tlib 20060102 0 0 0",
		"date 0", "date -62135596800", "date 253402300799", "date 951782400", "tod 0", "tod 86399", "tod 43200",
		"pseq direct SEa R90", "pseq outer SEa R90", "pseq direct A3600 R90", "pseq outer A3600 R90 E R30", "pseq direct R90 R90", "pseq direct SEr A60 S R5",
		"reuse sn 29 2", "reuse sn -199998 1", "reuse dur 36001", "reuse dur -5", "reuse art 1727352000",
		"period 0", "period 7200000000000", "period -5000000000", "period 1500000000", "period 86400000000000", "period 259200000000000000",
	}
	t0 := time.Now()
	phase := func(name string) {
		r.Info["wall_s:"+name] = math.Round(time.Since(t0).Seconds()*100) / 100
		t0 = time.Now()
	}
	for _, op := range corpus {
		cs := newNumStats()
		numRunOp(cs, d, op)
		cs.flush(r) // one by one: the corpus witnesses stay the recorded witnesses of their keys
		r.Case(op)
	}
	r.Traces += len(corpus)
	phase("corpus")

	// ---- (1) the exhaustive decimal grid, by digest, in parallel
	// quick: every k up to 2*10^5, both signs through the model. thorough: both signs through the model up to 10^6;
	// the positive half through the model and the negative half through the proved sign symmetry up to 5*10^6; from
	// there to 2*10^7 one block of 10^4 consecutive k in seven (the conversion is a function of k's digits and of the
	// binade of k*10^-d: nothing changes between 5*10^6 and 2*10^7 that the blocks, the random decimals up to 2^50 and
	// the directed search would not meet). Beyond 10^6 the model's digest is computed without the run-time
	// assertion of IsRnd (a theorem, asserted on all the rest).
	K := int64(h.Scale(200000, 20000000))
	direct := int64(h.Scale(200000, 1000000)) // both signs through the driver up to here, mirrored beyond
	denseK := int64(h.Scale(200000, 5000000)) // every k up to here, blocks beyond
	const chunk = 10000
	var chunks []numChunk
	for dd := 0; dd <= 4; dd++ {
		for k0 := -direct; k0 <= direct; k0 += chunk {
			k1 := k0 + chunk - 1
			if k1 > direct {
				k1 = direct
			}
			chunks = append(chunks, numChunk{dd, k0, k1, false, false})
		}
		blk := int64(0)
		for k0 := direct + 1; k0 <= K; k0 += chunk {
			k1 := k0 + chunk - 1
			if k1 > K {
				k1 = K
			}
			if k0 > denseK {
				blk++
				if (blk+int64(dd))%7 != 0 {
					continue
				}
			}
			chunks = append(chunks, numChunk{dd, k0, k1, true, true})
		}
	}
	quick := h.Tier() == "quick"
	gs := numParallel(args, len(chunks), func(s *numStats, dr *h.Driver, i int) {
		numSweepChunk(s, dr, chunks[i], quick)
	})
	gridFails := map[string]int{}
	gridWit := map[string]string{}
	for k, v := range gs.fails {
		gridFails[k] = v
		gridWit[k] = gs.wit[k].op + "  — " + gs.wit[k].detail
	}
	gridN := 0
	for _, v := range gs.evals {
		gridN += v
	}
	gs.flush(r)
	r.Traces += len(chunks)
	r.Info["exhaustive_grid"] = fmt.Sprintf("all k*10^-d, 0<=d<=4, |k|<=%d, and one block of %d consecutive k in seven up to |k|<=%d: %d values, compared by digest in %d chunks; both signs computed by the model for |k|<=%d, beyond that the negative half is compared with the model's answers for the positive half through the sign-symmetry theorems of Spine.Num", denseK, chunk, K, gridN, len(chunks), direct)
	r.Info["grid_spec_failures"] = gridFails
	r.Info["grid_minimal_witnesses"] = gridWit
	phase("grid")

	// ---- (2) random decimals with large k (below 2^50) and random doubles across magnitudes
	rng := h.Rng(19)
	nDec := h.Scale(60000, 2000000)
	nFlt := h.Scale(200000, 4000000)
	const batch = 500
	type decJob struct {
		d  int
		ks []int64
	}
	var decJobs []decJob
	for i := 0; i < nDec; i += batch {
		j := decJob{d: rng.Intn(5)}
		for n := 0; n < batch; n++ {
			k := rng.Int63n(1 << uint(8+rng.Intn(43))) // magnitudes 2^8 .. 2^50
			if rng.Intn(2) == 0 {
				k = -k
			}
			j.ks = append(j.ks, k)
		}
		decJobs = append(decJobs, j)
	}
	ds := numParallel(args, len(decJobs), func(s *numStats, dr *h.Driver, i int) {
		j := decJobs[i]
		var sb strings.Builder
		fmt.Fprintf(&sb, "S %d", j.d)
		for _, k := range j.ks {
			fmt.Fprintf(&sb, " %d", k)
		}
		ans := strings.Split(dr.AskWithin(sb.String(), numRangeTimeout), ";")
		if len(ans) != len(j.ks) {
			panic("drv_num: batch answer of wrong length: " + strings.Join(ans, ";"))
		}
		for n, k := range j.ks {
			if p := numParse(k, j.d); p != numDec(k, j.d) {
				panic(fmt.Sprintf("harness: %de-%d: quotient and ParseFloat differ", k, j.d))
			}
			numOneDecimal(s, k, j.d, ans[n])
		}
	})
	decFails := map[string]int{}
	for k, v := range ds.fails {
		decFails[k] = v
	}
	ds.flush(r)
	r.Traces += len(decJobs)
	r.Info["random_decimal_spec_failures"] = decFails
	phase("random-decimals")

	// ---- (2b) directed search between the proved bound 2^50 and the least decimal that does not survive: the
	//      conversion can only start to fail where k or v = k*10^-d crosses a power of two (the spacing of doubles
	//      doubles there); within a segment the outcome is periodic in k with a period of at most 4*10^d. The first W
	//      values of every segment below the least failing decimal must be exact and agree with the model; the
	//      least failing decimal itself must fail (unless the member truncates, which keeps three of them).
	{
		wOf := func(dd int) int64 { // at least one full period (<= 4*10^d) of every segment
			w := int64(5 * numPow10f[dd])
			if w < 2000 {
				w = 2000
			}
			return w * int64(h.Scale(1, 8))
		}
		type seg struct {
			d      int
			k0, k1 int64
		}
		var segs []seg
		for dd := 0; dd <= 4; dd++ {
			var cps []int64
			p10 := int64(numPow10f[dd])
			for i := uint(50); i <= 53; i++ {
				cps = append(cps, int64(1)<<i)
			}
			for e := uint(30); e <= 53; e++ {
				if c := new(big.Int).Mul(big.NewInt(p10), new(big.Int).Lsh(big.NewInt(1), e)); c.IsInt64() && c.Int64() > 1<<50 && c.Int64() < 1<<53 {
					cps = append(cps, c.Int64())
				}
			}
			sort.Slice(cps, func(i, j int) bool { return cps[i] < cps[j] })
			for _, c := range cps {
				if c >= numLeastFailing[dd] || c >= 1<<53 {
					continue
				}
				k1 := c + wOf(dd) - 1
				if k1 >= numLeastFailing[dd] {
					k1 = numLeastFailing[dd] - 1
				}
				for k0 := c; k0 <= k1; k0 += batch {
					e := k0 + batch - 1
					if e > k1 {
						e = k1
					}
					segs = append(segs, seg{dd, k0, e})
				}
				// and the values just below the critical point
				segs = append(segs, seg{dd, c - 64, c - 1})
			}
		}
		ss := numParallel(args, len(segs), func(s *numStats, dr *h.Driver, i int) {
			g := segs[i]
			var sb strings.Builder
			fmt.Fprintf(&sb, "S %d", g.d)
			for k := g.k0; k <= g.k1; k++ {
				fmt.Fprintf(&sb, " %d", k)
			}
			ans := strings.Split(dr.AskWithin(sb.String(), numRangeTimeout), ";")
			if int64(len(ans)) != g.k1-g.k0+1 {
				panic("drv_num: batch answer of wrong length")
			}
			for k := g.k0; k <= g.k1; k++ {
				if p := numParse(k, g.d); p != numDec(k, g.d) {
					panic(fmt.Sprintf("harness: %de-%d: quotient and ParseFloat differ", k, g.d))
				}
				numOneDecimal(s, k, g.d, ans[k-g.k0])
				numOneDecimal(s, -k, g.d, "")
			}
		})
		nDir := 0
		for _, v := range ss.evals {
			nDir += v
		}
		ss.flush(r)
		r.Traces += len(segs)
		ws := newNumStats()
		lost := 0
		for dd := 1; dd <= 4; dd++ {
			numRunOp(ws, d, fmt.Sprintf("scaled %d %d", numLeastFailing[dd], dd))
			numRunOp(ws, d, fmt.Sprintf("scaled %d %d", -numLeastFailing[dd], dd))
		}
		numRunOp(ws, d, "scaled 9007199254740992 0")
		lost = ws.fails["C19/decimal-from-least-failing-on"]
		ws.flush(r)
		if !cfgT && lost != 8 {
			r.Mismatch([]string{fmt.Sprintf("scaled %d 2", numLeastFailing[2])}, fmt.Sprintf("%d of the 8 least failing decimals (both signs) are lost", lost), "all 8 are lost by the member that rounds", "the least failing decimals of Props/C19 c19_scaled_exact_least_failures on the real code")
		}
		r.Info["directed_search_above_2^50"] = fmt.Sprintf("%d decimals (both signs): the first %d (d = 4; at least 5*10^d, more than one period) values of every segment of k in [2^50, least failing decimal) between powers of two of k and of v = k*10^-d, and 64 values below each boundary, compared with the model and judged by clause (a); least failing decimals %v: %d of 8 (both signs, d = 1..4) lost on this tree", nDir, wOf(4), numLeastFailing, lost)
		phase("directed-search")
	}

	var fltJobs [][]uint64
	for i := 0; i < nFlt; i += batch {
		var bs []uint64
		for n := 0; n < batch; n++ {
			bs = append(bs, numRandomBits(rng))
		}
		fltJobs = append(fltJobs, bs)
	}
	fs := numParallel(args, len(fltJobs), func(s *numStats, dr *h.Driver, i int) {
		var sb strings.Builder
		sb.WriteString("B")
		for _, b := range fltJobs[i] {
			fmt.Fprintf(&sb, " %d", b)
		}
		ans := strings.Split(dr.AskWithin(sb.String(), numRangeTimeout), ";")
		if len(ans) != len(fltJobs[i]) {
			panic("drv_num: batch answer of wrong length")
		}
		for n, b := range fltJobs[i] {
			numOneFloat(s, b, ans[n])
		}
	})
	fltFails := map[string]int{}
	for k, v := range fs.fails {
		fltFails[k] = v
	}
	inModel := nFlt - fs.skipped
	fs.flush(r)
	r.Traces += len(fltJobs)
	r.Info["random_float_spec_failures"] = fltFails
	r.Floor("random doubles inside the model's range", inModel, nFlt, 0.9)
	r.Floor("random doubles in the property's range that are not integers", fs.inputs["float:in-range-non-integer"], nFlt, 0.5)

	// GetValue on arbitrary pairs (what a peer may send), |scale| <= 4
	var gvOps []string
	for i := 0; i < h.Scale(20000, 200000); i++ {
		n := rng.Int63n(1 << uint(1+rng.Intn(62)))
		if rng.Intn(2) == 0 {
			n = -n
		}
		gvOps = append(gvOps, fmt.Sprintf("getval %d %d", n, rng.Intn(9)-4))
	}
	vs := numRunOpsParallel(args, gvOps, 500)
	vs.flush(r)
	phase("random-doubles")

	// ---- (3) durations: n*100ms densely to 400 days, geometrically to 30 years
	const day = int64(864000) // in units of 100 ms
	type durJob struct{ z0, z1, step int64 }
	var durJobs []durJob
	dense := int64(h.Scale(2000000, 10000000)) // every multiple up to 55 h / 11.5 days
	for z := int64(0); z < dense; z += 200000 {
		durJobs = append(durJobs, durJob{z, z + 199999, 1})
	}
	stride := int64(h.Scale(1777, 61)) // the rest of the 400 days with a stride coprime to 600 and 36000
	for z := dense; z < 400*day; z += 200000 * stride {
		z1 := z + 200000*stride - 1
		if z1 >= 400*day {
			z1 = 400*day - 1
		}
		durJobs = append(durJobs, durJob{z, z1, stride})
	}
	us := numParallel(args, len(durJobs), func(s *numStats, dr *h.Driver, i int) {
		j := durJobs[i]
		for _, sign := range []int64{1, -1} {
			// dtrange: digest over the TEXT of every duration and what it is read back as (Spine.DurText);
			// the field-level model Spine.Dur is compared on the single values below and, for all durations,
			// by theorem (c19_duration_text_refines_fields)
			line := fmt.Sprintf("dtrange %d %d %d", j.z0, j.z1, j.step)
			if sign < 0 {
				// the negative range, ascending: -z1' .. -z0 where z1' is the last value reached
				last := j.z0 + (j.z1-j.z0)/j.step*j.step
				line = fmt.Sprintf("dtrange %d %d %d", -last, -j.z0, j.step)
			}
			ans := make(chan string, 1)
			go func() { ans <- dr.AskWithin(line, numRangeTimeout) }()
			hh, cnt := uint64(numDigest0), 0
			one := func(z int64) {
				dur := time.Duration(z) * hundredMs
				sdt := model.NewDurationType(dur)
				back, err := sdt.GetTimeDuration()
				if key, det := specDuration(dur, back, err); key != "" {
					s.fail(key, absI(z), fmt.Sprintf("dur %d", z), det)
					s.evals["dur:"+strings.TrimPrefix(key, "C19/")]++
				} else {
					s.evals["dur:exact"]++
				}
				x := int64(back / hundredMs)
				if err != nil || back%hundredMs != 0 {
					x = math.MinInt64
				}
				for i := 0; i < len(*sdt); i++ {
					hh = numMix(hh, uint64((*sdt)[i]))
				}
				hh = numMix(hh, uint64(x))
				cnt++
			}
			if sign > 0 {
				for z := j.z0; z <= j.z1; z += j.step {
					one(z)
				}
			} else {
				last := j.z0 + (j.z1-j.z0)/j.step*j.step
				for z := -last; z <= -j.z0; z += j.step {
					one(z)
				}
			}
			if got, want := <-ans, fmt.Sprintf("digest %d %d", hh, cnt); got != want {
				// find the first differing value
				q := newNumStats()
				for z := j.z0; z <= j.z1 && q.mismN == 0; z += j.step {
					numOneDur(q, dr, sign*z)
					numOneDurText(q, dr, sign*z*int64(hundredMs))
				}
				if q.mismN == 0 {
					s.mismatch(line, want, got, "digest of duration texts and durations read back differs but no single value does")
				}
				s.mismN += q.mismN
				s.mism = append(s.mism, q.mism...)
			}
		}
	})
	us.flush(r)
	r.Traces += len(durJobs)
	// boundaries, single values with field comparison, geometric part to 30 years
	var bsOps []string
	for _, c := range []int64{600, 36000, 3220 * 36000, 32204 * 3600, 32205 * 3600, 3276 * 36000, 3277 * 36000, 400 * day, 3276 * day, 3277 * day} {
		for dz := int64(-3); dz <= 3; dz++ {
			bsOps = append(bsOps, fmt.Sprintf("dur %d", c+dz), fmt.Sprintf("dur %d", -(c+dz)))
		}
	}
	for i := 0; i < h.Scale(20000, 200000); i++ {
		z := rng.Int63n(400 * day)
		if rng.Intn(2) == 0 {
			z = -z
		}
		bsOps = append(bsOps, fmt.Sprintf("dur %d", z))
	}
	for z := float64(400 * day); z < float64(30*366*day); z *= 1.0 + 1.0/float64(h.Scale(400, 4000)) {
		zi := int64(z)
		bsOps = append(bsOps, fmt.Sprintf("dur %d", zi), fmt.Sprintf("dur %d", -zi),
			fmt.Sprintf("dur %d", zi/day*day), // whole days
			fmt.Sprintf("dur %d", zi/600*600)) // whole minutes
	}
	for i := 0; i < h.Scale(5000, 50000); i++ {
		ns := rng.Int63n(400 * day * int64(hundredMs))
		if rng.Intn(2) == 0 {
			ns = -ns
		}
		bsOps = append(bsOps, fmt.Sprintf("durns %d", ns))
	}
	bs := numRunOpsParallel(args, bsOps, 500)
	// the textual level: texts written (boundaries, random, geometric to 292 years), texts a peer may send
	// (the exhaustive grid of designator subsets, random well-formed and damaged texts)
	var tsOps []string
	for _, c := range []int64{0, 600, 36000, 7 * day, 70 * day, 3220 * 36000, 32204 * 3600, 32205 * 3600, 3276 * 36000, 3277 * 36000, 400 * day, 3276 * day, 3277 * day, 3283 * day} {
		for dz := int64(-3); dz <= 3; dz++ {
			tsOps = append(tsOps, fmt.Sprintf("dtext %d", (c+dz)*int64(hundredMs)), fmt.Sprintf("dtext %d", -(c+dz)*int64(hundredMs)))
		}
	}
	for i := 0; i < h.Scale(20000, 200000); i++ {
		var ns int64
		switch rng.Intn(4) {
		case 0:
			ns = rng.Int63n(3277*day) * int64(hundredMs)
		case 1:
			ns = rng.Int63n(3277 * day * int64(hundredMs)) // with a fraction of 100 ms
		case 2:
			ns = rng.Int63n(3277) * day * int64(hundredMs) // whole days (weeks every seventh)
		default:
			ns = rng.Int63n(math.MaxInt64) // up to 292 years
		}
		if rng.Intn(2) == 0 {
			ns = -ns
		}
		tsOps = append(tsOps, fmt.Sprintf("dtext %d", ns))
	}
	grid := numDurTextGrid()
	parseOp := func(tx string) {
		if tx == "" || strings.ContainsAny(tx, " \t\r\n") {
			return
		}
		for i := 0; i < len(tx); i++ {
			if tx[i] >= 0x80 {
				return
			}
		}
		tsOps = append(tsOps, "dparse "+tx)
	}
	for _, tx := range grid {
		parseOp(tx)
	}
	nTxt := h.Scale(30000, 300000)
	for i := 0; i < nTxt; i++ {
		parseOp(numRandomDurText(rng))
	}
	ts := numRunOpsParallel(args, tsOps, 500)
	acc, ref := ts.evals["durparse:accepted"], ts.evals["durparse:refused"]
	ts.flush(r)
	r.Floor("duration texts the library accepts", acc, acc+ref, 0.4)
	r.Floor("duration texts the library refuses", ref, acc+ref, 0.05)
	r.Info["duration_text"] = fmt.Sprintf("texts written by NewDurationType compared byte for byte with Spine.DurText.render on the dense sweep (digest) and on single values up to 292 years; period.Parse/GetTimeDuration compared with Spine.DurText.parse on every written text, on the grid of %d designator-subset texts and on %d random texts (accepted %d, refused %d, outside the model %d)", len(grid), nTxt, acc, ref, ts.evals["durparse:outside-model"])
	durFails := map[string]int{}
	for k, v := range bs.fails {
		durFails[k] = v
	}
	for k, v := range us.fails {
		durFails[k] += v
	}
	bs.flush(r)
	r.Info["duration_spec_failures"] = durFails
	phase("durations")

	// ---- (4) instants across years 1-9999, dates, times of day (monitor only)
	var isOps []string
	const minSec, maxSec = int64(-62135596800), int64(253402300799)
	for i := 0; i < h.Scale(60000, 600000); i++ {
		sec := minSec + rng.Int63n(maxSec-minSec+1)
		off := 0
		if rng.Intn(3) == 0 {
			off = (rng.Intn(27) - 12) * 3600
			if rng.Intn(4) == 0 {
				off += 1800
			}
		}
		isOps = append(isOps, fmt.Sprintf("instant %d %d", sec, off))
		if i%4 == 0 {
			isOps = append(isOps, fmt.Sprintf("date %d", sec), fmt.Sprintf("tod %d", sec))
		}
		if i%8 == 0 && sec < maxSec-1 {
			isOps = append(isOps, fmt.Sprintf("instantns %d %d", sec, rng.Int63n(1000000000)))
		}
	}
	// every second around the edges of the range, leap days, year boundaries
	for _, c := range []int64{minSec, maxSec - 7200, 0, 951782400 - 3600, 4107542400 - 3600, 946684800 - 3600, -2208988800 - 3600} {
		for ds := int64(0); ds < 7200; ds += 7 {
			isOps = append(isOps, fmt.Sprintf("instant %d 0", c+ds))
		}
	}
	is := numRunOpsParallel(args, isOps, 1000)
	is.flush(r)
	// observation outside the statement of C19 (information only): the layouts "2006-01-02+07:00" and
	// "15:04:05+07:00" are not zone layouts of package time ("+07:00" only matches itself)
	{
		_, e1 := model.NewDateType("2001-10-26+02:00").GetTime()
		t2, e2 := model.NewTimeType("13:20:00+07:00").GetTime()
		_, off := t2.Zone()
		r.Info["observation_zone_layouts"] = fmt.Sprintf("DateType 2001-10-26+02:00 -> err %v; TimeType 13:20:00+07:00 -> zone offset %d s (err %v): the text +07:00 in a layout is a literal, not a numeric zone", e1, off, e2)
	}
	phase("instants")

	// ---- (4b) instants at the level of the text (Spine.TimeText)
	numTimeTextPhase(r, d, args, rng)
	phase("instant-texts")

	// ---- (5) time periods with a relative end time, incl. JSON round trip
	ps := newNumStats()
	for i := 0; i < h.Scale(3000, 30000); i++ {
		var ns int64
		switch rng.Intn(4) {
		case 0:
			ns = rng.Int63n(3600) * int64(time.Second)
		case 1:
			ns = rng.Int63n(3000*86400) * int64(time.Second)
		case 2:
			ns = rng.Int63n(3000 * 86400 * int64(time.Second)) // with a fraction of a second
		default:
			ns = -rng.Int63n(1000*86400) * int64(time.Second)
		}
		numOnePeriod(ps, d, ns)
	}
	// sequences of decodes into one value: all ordered pairs of document kinds, both modes, then random
	// longer sequences; repeated use of one receiver
	kinds := []string{"SEa", "SEr", "R90", "A3600", "E", "S"}
	for _, mode := range []string{"direct", "outer"} {
		for _, a := range kinds {
			for _, b := range kinds {
				numOnePeriodSeq(ps, d, fmt.Sprintf("pseq %s %s %s", mode, a, b))
			}
		}
	}
	for i := 0; i < h.Scale(600, 6000); i++ {
		op := "pseq " + []string{"direct", "outer"}[rng.Intn(2)]
		for n := 2 + rng.Intn(4); n > 0; n-- {
			switch k := rng.Intn(8); {
			case k < 4:
				op += " " + kinds[rng.Intn(len(kinds))]
			case k < 6:
				op += fmt.Sprintf(" R%d", 1+rng.Intn(200000))
			default:
				op += fmt.Sprintf(" A%d", rng.Intn(200000)-1000)
			}
		}
		numOnePeriodSeq(ps, d, op)
	}
	for i := 0; i < h.Scale(2000, 20000); i++ {
		switch rng.Intn(3) {
		case 0:
			numOneReuse(ps, fmt.Sprintf("reuse sn %d %d", rng.Int63n(1<<uint(4+rng.Intn(40)))-rng.Int63n(1<<20), rng.Intn(5)))
		case 1:
			numOneReuse(ps, fmt.Sprintf("reuse dur %d", rng.Int63n(3000*864000)-rng.Int63n(864000)))
		default:
			numOneReuse(ps, fmt.Sprintf("reuse art %d", rng.Int63n(253402300799)))
		}
	}
	ps.flush(r)
	phase("periods")

	if src := numScaledSrc(); src != nil {
		r.Info["scaled_expressions"] = fmt.Sprintf("decimals and product columns evaluated from the expressions recovered from the source: FormatFloat(value, %q, %d, %d) capped at %d; math.%s(%s)", rune(src.FmtVerb), src.FmtPrec, src.FmtBits, src.Cap, src.RoundFn, src.Product.Lean())
		if (src.RoundFn == "Trunc") != cfgT || (src.GetNeg != nil && (src.GetNeg.Op != "div") != cfgI) {
			r.Mismatch([]string{"scaled 29 2", "getval -199998 -1"}, fmt.Sprintf("probed member truncScaled=%v inexactPower=%v", cfgT, cfgI), fmt.Sprintf("source: math.%s, GetValue for a negative scale: %s", src.RoundFn, src.GetNeg.Lean()), "the member probed on the compiled code and the member the recovered source denotes differ")
		}
	} else {
		r.Info["scaled_expressions"] = "NOT recovered from the source of this tree: decimals and product columns recomputed with the harness's own expressions"
	}
	r.Info["workers"] = numWorkers()
	r.Info["member"] = map[string]bool{"truncScaled": cfgT, "inexactPower": cfgI}
	if r.MismatchN == 0 {
		r.Traces++
	}
}
