package comp

// C05, round 6 follow-up: the FILTER-SHAPE dimension of payload-carrying notify / reply / write datagrams between
// announced features, for function kinds the base world does not have: functions whose data is NOT a list (scalar
// structs without an UpdateList method: deviceDiagnosisStateData, deviceDiagnosisHeartbeatData,
// deviceClassificationManufacturerData) and functions unknown to the addressed feature.
//
// Two parts, both judged by the unchanged SPEC monitor (returns, no panic, not blocked, both peers' discovery reads
// answered with exactly one reply afterwards):
//
//	grid   state "boundx" (= bound + local features 4-6 and the peer's entity [3] with a device-diagnosis server, a
//	       device-classification server and a device-diagnosis client bound to the local device-diagnosis server):
//	       classifier {notify, reply, write} x function kind {list, state, heartbeat, manufacturer, unknown to the
//	       feature} x 14 filter shapes x function element {matching, absent, naming another function} x data {filled,
//	       empty} x ackRequest
//	       through the production entry point HandleSpineMesssage - EXHAUSTIVE.
//	sweep  every function-data object the factory creates (feature type Generic = all functions, and
//	       NodeManagement) x remoteWrite x persist x partial filter {nil, set} x delete filter {nil, set}: the merge
//	       entry UpdateDataAny returns (an error or data) and does not panic - EXHAUSTIVE over the function table of
//	       the tree under test (the table is read from the code on every run, not listed here).

import (
	"fmt"
	"reflect"
	"runtime/debug"
	"strconv"
	"strings"
	"testing"

	"github.com/enbility/spine-go/api"
	"github.com/enbility/spine-go/model"
	"github.com/enbility/spine-go/spine"
	"github.com/enbility/spine-go/util"
	"verifharness/h"
)

// robXLocal adds the local features of state "boundx" to entity [1]: 4 device-diagnosis client, 5
// device-classification client, 6 device-diagnosis server with a writable state function and a read-only heartbeat.
func robXLocal(e1 *spine.EntityLocal) {
	e1.GetOrAddFeature(model.FeatureTypeTypeDeviceDiagnosis, model.RoleTypeClient)      // 4
	e1.GetOrAddFeature(model.FeatureTypeTypeDeviceClassification, model.RoleTypeClient) // 5
	srv := e1.GetOrAddFeature(model.FeatureTypeTypeDeviceDiagnosis, model.RoleTypeServer) // 6
	srv.AddFunctionType(model.FunctionTypeDeviceDiagnosisStateData, true, true)
	srv.AddFunctionType(model.FunctionTypeDeviceDiagnosisHeartbeatData, true, false)
	srv.SetData(model.FunctionTypeDeviceDiagnosisStateData, robXState(model.DeviceDiagnosisOperatingStateTypeNormalOperation))
}

func robXState(s model.DeviceDiagnosisOperatingStateType) *model.DeviceDiagnosisStateDataType {
	return &model.DeviceDiagnosisStateDataType{OperatingState: util.Ptr(s), LastErrorCode: util.Ptr(model.LastErrorCodeType("none"))}
}

func robXManufacturer() *model.DeviceClassificationManufacturerDataType {
	return &model.DeviceClassificationManufacturerDataType{DeviceName: util.Ptr(model.DeviceClassificationStringType("wallbox")), BrandName: util.Ptr(model.DeviceClassificationStringType("brand"))}
}

func robXHeartbeat() *model.DeviceDiagnosisHeartbeatDataType {
	return &model.DeviceDiagnosisHeartbeatDataType{HeartbeatCounter: util.Ptr(uint64(7)), HeartbeatTimeout: model.NewDurationType(4000000000)}
}

var robXTplCache = map[string][]robTpl{}

// robXTemplates: the valid messages that take a peer from state bound to state boundx. They are NOT part of
// robTemplates (the single-position grid and its baseline enumerate those).
func robXTemplates(dev string) []robTpl {
	if t, ok := robXTplCache[dev]; ok {
		return t
	}
	rNM, lNM := h.FA(dev, []uint{0}, 0), h.FA(robLocalDev, []uint{0}, 0)
	fn := func(f model.FunctionType, write bool) model.FunctionPropertyType {
		po := &model.PossibleOperationsType{Read: &model.PossibleOperationsReadType{}}
		if write {
			po.Write = &model.PossibleOperationsWriteType{}
		}
		return model.FunctionPropertyType{Function: util.Ptr(f), PossibleOperations: po}
	}
	feat := func(fid uint, ft model.FeatureTypeType, role model.RoleType, fns ...model.FunctionPropertyType) model.NodeManagementDetailedDiscoveryFeatureInformationType {
		return model.NodeManagementDetailedDiscoveryFeatureInformationType{Description: &model.NetworkManagementFeatureDescriptionDataType{
			FeatureAddress: h.FA(dev, []uint{3}, fid), FeatureType: &ft, Role: &role, SupportedFunction: fns}}
	}
	devInfo := &model.NodeManagementDetailedDiscoveryDeviceInformationType{Description: &model.NetworkManagementDeviceDescriptionDataType{
		DeviceAddress: &model.DeviceAddressType{Device: util.Ptr(model.AddressDeviceType(dev))}}}
	dd := &model.NodeManagementDetailedDiscoveryDataType{DeviceInformation: devInfo,
		EntityInformation: []model.NodeManagementDetailedDiscoveryEntityInformationType{{Description: &model.NetworkManagementEntityDescriptionDataType{
			EntityAddress: &model.EntityAddressType{Device: util.Ptr(model.AddressDeviceType(dev)), Entity: spine.NewAddressEntityType([]uint{3})},
			EntityType:    util.Ptr(model.EntityTypeTypeGeneric), LastStateChange: util.Ptr(model.NetworkManagementStateChangeTypeAdded)}}},
		FeatureInformation: []model.NodeManagementDetailedDiscoveryFeatureInformationType{
			feat(1, model.FeatureTypeTypeDeviceDiagnosis, model.RoleTypeServer, fn(model.FunctionTypeDeviceDiagnosisStateData, false), fn(model.FunctionTypeDeviceDiagnosisHeartbeatData, false)),
			feat(2, model.FeatureTypeTypeDeviceClassification, model.RoleTypeServer, fn(model.FunctionTypeDeviceClassificationManufacturerData, false)),
			feat(3, model.FeatureTypeTypeDeviceDiagnosis, model.RoleTypeClient),
		}}
	var out []robTpl
	ctr := uint64(300)
	add := func(kind string, src, dst *model.FeatureAddressType, cls model.CmdClassifierType, ref *uint64, ack bool, cmd model.CmdType) {
		ctr++
		b := robDatagram(src, dst, cls, ctr, ref, ack, cmd)
		out = append(out, robTpl{kind: kind, msg: b, tree: robParse(b)})
	}
	partial := model.FilterType{CmdControl: &model.CmdControlType{Partial: &model.ElementTagType{}}}
	add("x-disc-notify-add", rNM, lNM, model.CmdClassifierTypeNotify, nil, false, model.CmdType{Function: util.Ptr(model.FunctionTypeNodeManagementDetailedDiscoveryData), Filter: []model.FilterType{partial}, NodeManagementDetailedDiscoveryData: dd})
	add("x-bind-request", rNM, lNM, model.CmdClassifierTypeCall, nil, true, model.CmdType{NodeManagementBindingRequestCall: spine.NewNodeManagementBindingRequestCallType(h.FA(dev, []uint{3}, 3), h.FA(robLocalDev, []uint{1}, 6), model.FeatureTypeTypeDeviceDiagnosis)})
	add("x-state-notify", h.FA(dev, []uint{3}, 1), h.FA(robLocalDev, []uint{1}, 4), model.CmdClassifierTypeNotify, nil, false, model.CmdType{DeviceDiagnosisStateData: robXState(model.DeviceDiagnosisOperatingStateTypeStandby)})
	add("x-manufacturer-reply", h.FA(dev, []uint{3}, 2), h.FA(robLocalDev, []uint{1}, 5), model.CmdClassifierTypeReply, util.Ptr(uint64(1)), false, model.CmdType{DeviceClassificationManufacturerData: robXManufacturer()})
	robXTplCache[dev] = out
	return out
}

func robXTemplate(dev, kind string) robTpl {
	for _, t := range robXTemplates(dev) {
		if t.kind == kind {
			return t
		}
	}
	panic("no template " + kind)
}

// ---------------------------------------------------------------- the grid

type robXKind struct {
	name     string
	function model.FunctionType
	// source / destination feature ([entity, feature]) for notify and reply, and for write
	nSrc, nDst, wSrc, wDst [2]uint
	cmd                    func(filled bool) model.CmdType
	elements               func(f model.FilterType) model.FilterType
}

func robXKinds() []robXKind {
	lim := func(filled bool) model.CmdType {
		if filled {
			return model.CmdType{LoadControlLimitListData: &model.LoadControlLimitListDataType{LoadControlLimitData: []model.LoadControlLimitDataType{{
				LimitId: util.Ptr(model.LoadControlLimitIdType(1)), IsLimitActive: util.Ptr(true),
				Value: &model.ScaledNumberType{Number: util.Ptr(model.NumberType(10)), Scale: util.Ptr(model.ScaleType(0))}}}}}
		}
		return model.CmdType{LoadControlLimitListData: &model.LoadControlLimitListDataType{}}
	}
	state := func(filled bool) model.CmdType {
		if filled {
			return model.CmdType{DeviceDiagnosisStateData: robXState(model.DeviceDiagnosisOperatingStateTypeFailure)}
		}
		return model.CmdType{DeviceDiagnosisStateData: &model.DeviceDiagnosisStateDataType{}}
	}
	hb := func(filled bool) model.CmdType {
		if filled {
			return model.CmdType{DeviceDiagnosisHeartbeatData: robXHeartbeat()}
		}
		return model.CmdType{DeviceDiagnosisHeartbeatData: &model.DeviceDiagnosisHeartbeatDataType{}}
	}
	man := func(filled bool) model.CmdType {
		if filled {
			return model.CmdType{DeviceClassificationManufacturerData: robXManufacturer()}
		}
		return model.CmdType{DeviceClassificationManufacturerData: &model.DeviceClassificationManufacturerDataType{}}
	}
	manEl := func(f model.FilterType) model.FilterType {
		f.DeviceClassificationManufacturerDataElements = &model.DeviceClassificationManufacturerDataElementsType{BrandName: &model.ElementTagType{}}
		return f
	}
	return []robXKind{
		{"list", model.FunctionTypeLoadControlLimitListData, [2]uint{1, 2}, [2]uint{1, 2}, [2]uint{1, 1}, [2]uint{1, 1}, lim, func(f model.FilterType) model.FilterType {
			f.LoadControlLimitDataElements = &model.LoadControlLimitDataElementsType{Value: &model.ScaledNumberElementsType{}, IsLimitActive: &model.ElementTagType{}}
			return f
		}},
		{"scalar-state", model.FunctionTypeDeviceDiagnosisStateData, [2]uint{3, 1}, [2]uint{1, 4}, [2]uint{3, 3}, [2]uint{1, 6}, state, func(f model.FilterType) model.FilterType {
			f.DeviceDiagnosisStateDataElements = &model.DeviceDiagnosisStateDataElementsType{OperatingState: &model.ElementTagType{}}
			return f
		}},
		{"scalar-heartbeat", model.FunctionTypeDeviceDiagnosisHeartbeatData, [2]uint{3, 1}, [2]uint{1, 4}, [2]uint{3, 3}, [2]uint{1, 6}, hb, func(f model.FilterType) model.FilterType {
			f.DeviceDiagnosisHeartbeatDataElements = &model.DeviceDiagnosisHeartbeatDataElementsType{HeartbeatCounter: &model.ElementTagType{}}
			return f
		}},
		{"scalar-manufacturer", model.FunctionTypeDeviceClassificationManufacturerData, [2]uint{3, 2}, [2]uint{1, 5}, [2]uint{3, 3}, [2]uint{1, 5}, man, manEl},
		// the function does not belong to the addressed features (device diagnosis)
		{"unknown-to-feature", model.FunctionTypeDeviceClassificationManufacturerData, [2]uint{3, 1}, [2]uint{1, 4}, [2]uint{3, 3}, [2]uint{1, 6}, man, manEl},
	}
}

type robXShape struct {
	name    string
	filters func(k robXKind) []model.FilterType
}

func robXShapes() []robXShape {
	tag := &model.ElementTagType{}
	partial := func() model.FilterType { return model.FilterType{CmdControl: &model.CmdControlType{Partial: tag}} }
	del := func() model.FilterType { return model.FilterType{CmdControl: &model.CmdControlType{Delete: tag}} }
	sel := func(f model.FilterType) model.FilterType {
		// the selector of the list function: the function's own for kind list, a foreign one for the others
		f.LoadControlLimitListDataSelectors = &model.LoadControlLimitListDataSelectorsType{LimitId: util.Ptr(model.LoadControlLimitIdType(2))}
		return f
	}
	fs := func(f ...model.FilterType) []model.FilterType { return f }
	return []robXShape{
		{"none", func(robXKind) []model.FilterType { return nil }},
		{"partial", func(robXKind) []model.FilterType { return fs(partial()) }},
		{"delete", func(robXKind) []model.FilterType { return fs(del()) }},
		{"delete+partial", func(robXKind) []model.FilterType { return fs(del(), partial()) }},
		{"partial+delete", func(robXKind) []model.FilterType { return fs(partial(), del()) }},
		{"delete-and-partial-in-one", func(robXKind) []model.FilterType {
			return fs(model.FilterType{CmdControl: &model.CmdControlType{Delete: tag, Partial: tag}})
		}},
		{"delete-selector", func(robXKind) []model.FilterType { return fs(sel(del())) }},
		{"delete-elements", func(k robXKind) []model.FilterType { return fs(k.elements(del())) }},
		{"delete-selector-elements", func(k robXKind) []model.FilterType { return fs(k.elements(sel(del()))) }},
		{"delete+delete", func(k robXKind) []model.FilterType { return fs(del(), k.elements(del())) }},
		{"partial-selector", func(robXKind) []model.FilterType { return fs(sel(partial())) }},
		{"no-cmdcontrol", func(robXKind) []model.FilterType {
			return fs(model.FilterType{FilterId: util.Ptr(model.FilterIdType(1))})
		}},
		{"empty-cmdcontrol", func(k robXKind) []model.FilterType { return fs(k.elements(model.FilterType{CmdControl: &model.CmdControlType{}})) }},
		{"empty-filter", func(robXKind) []model.FilterType { return fs(model.FilterType{}) }},
	}
}

func robXMsg(k robXKind, sh robXShape, cls model.CmdClassifierType, fnElem int, filled, ack bool, ctr uint64) []byte {
	src, dst := k.nSrc, k.nDst
	if cls == model.CmdClassifierTypeWrite {
		src, dst = k.wSrc, k.wDst
	}
	cmd := k.cmd(filled)
	switch fnElem { // the function element: 0 names the data's function, 1 absent, 2 names ANOTHER function (of the other data shape)
	case 0:
		cmd.Function = util.Ptr(k.function)
	case 2:
		if k.name == "list" {
			cmd.Function = util.Ptr(model.FunctionTypeDeviceDiagnosisStateData)
		} else {
			cmd.Function = util.Ptr(model.FunctionTypeLoadControlLimitListData)
		}
	}
	cmd.Filter = sh.filters(k)
	var ref *uint64
	if cls == model.CmdClassifierTypeReply {
		ref = util.Ptr(uint64(1))
	}
	return robDatagram(h.FA("devA", []uint{src[0]}, src[1]), h.FA(robLocalDev, []uint{dst[0]}, dst[1]), cls, ctr, ref, ack, cmd)
}

// ---------------------------------------------------------------- the sweep over the function table

var robXFeatureTypesSwept = []model.FeatureTypeType{model.FeatureTypeTypeGeneric, model.FeatureTypeTypeNodeManagement}

// robXSweepOp runs one point of the sweep; the op is "fd <featureType> <function> <remoteWrite> <persist> <partial> <delete>".
func robXSweepOp(op string) (key, detail string, found bool) {
	f := strings.Fields(op)
	if len(f) != 7 || f[0] != "fd" {
		panic("bad op " + op)
	}
	bit := func(s string) bool { return s == "1" }
	for _, fd := range spine.CreateFunctionData[api.FunctionDataCmdInterface](model.FeatureTypeType(f[1])) {
		if string(fd.FunctionType()) != f[2] {
			continue
		}
		return robXSweepPoint(fd, bit(f[3]), bit(f[4]), bit(f[5]), bit(f[6]))
	}
	return "", "", false
}

func robXSweepPoint(fd api.FunctionDataCmdInterface, remoteWrite, persist, fp, fdel bool) (key, detail string, found bool) {
	found = true
	defer func() {
		if p := recover(); p != nil {
			site, frames := robPanicSite(string(debug.Stack()))
			txt := fmt.Sprint(p)
			if len(txt) > 200 {
				txt = txt[:200]
			}
			// a key of its own: the witness of the grid (through the production entry point) keeps its replay
			key, detail = "panic:"+site+":merge-entry", txt+" @ "+strings.Join(frames, " < ")
		}
	}()
	// a zero value of the function's data type: DataCopyAny returns a (nil) *T
	pt := reflect.TypeOf(fd.DataCopyAny())
	if pt == nil || pt.Kind() != reflect.Ptr {
		return "", "", true
	}
	data := reflect.New(pt.Elem()).Interface()
	var partial, del *model.FilterType
	if fp {
		partial = &model.FilterType{CmdControl: &model.CmdControlType{Partial: &model.ElementTagType{}}}
	}
	if fdel {
		del = &model.FilterType{CmdControl: &model.CmdControlType{Delete: &model.ElementTagType{}}}
	}
	_, _ = fd.UpdateDataAny(remoteWrite, persist, data, partial, del)
	return "", "", true
}

func TestRobFilters(t *testing.T) {
	r := h.NewReport("rob-filters", "filter shapes of payload-carrying datagrams between announced features: classifier (notify, reply, bound write) x function kind (list function, three functions whose data is a scalar struct, function unknown to the addressed feature) x 14 filter shapes (none, partial, delete, both in either order, both in one filter, delete with selector / elements / both, two deletes, partial with selector, filter without / with empty cmdControl, empty filter) x function element matching / absent / naming another function x data filled / empty x ackRequest, exhaustive, through HandleSpineMesssage in state boundx; and the merge entry UpdateDataAny of every function-data object the factory of the tree under test creates x remoteWrite x persist x partial filter x delete filter, exhaustive; monitor: returns, no panic, not blocked, both peers' discovery reads answered afterwards")
	defer r.Write()
	if robOtherReplay("rob-filters") {
		return
	}
	if ops := h.ReplayOps("rob-filters"); ops != nil {
		if len(ops) > 0 && strings.HasPrefix(ops[0], "fd ") {
			if key, detail, _ := robXSweepOp(ops[0]); key != "" {
				r.SpecFail(key, ops, detail)
			}
			return
		}
		robRun(r, ops, nil)
		return
	}
	// the extended world itself: built from valid messages only
	if key := robRun(r, []string{"state boundx"}, nil); key != "" {
		return
	}
	// the setup reached what the grid relies on: the peer's entity [3] and the binding to the local feature 6
	{
		w, _, _ := robNewWorld("boundx")
		a := w.peer("A")
		reached := a.rd.FeatureByAddress(h.FA("devA", []uint{3}, 1)) != nil && a.rd.FeatureByAddress(h.FA("devA", []uint{3}, 2)) != nil &&
			w.local.BindingManager().HasLocalFeatureRemoteBinding(h.FA(robLocalDev, []uint{1}, 6), h.FA("devA", []uint{3}, 3))
		r.Floor("state boundx has the peer's scalar-function features and the binding", h.B2i(reached), 1, 1)
	}
	total, accepted := 0, 0
	ctr := uint64(5000)
	for _, cls := range []model.CmdClassifierType{model.CmdClassifierTypeNotify, model.CmdClassifierTypeReply, model.CmdClassifierTypeWrite} {
		for _, k := range robXKinds() {
			for _, sh := range robXShapes() {
				for v := 0; v < 12; v++ {
					if robTooManyHangs(r) {
						continue
					}
					fnElem, filled, ack := v%3, v/3&1 == 0, v/6 != 0
					ctr++
					msg := robXMsg(k, sh, cls, fnElem, filled, ack, ctr)
					kind := "filter:" + string(cls) + ":" + k.name + ":" + sh.name
					st := &robStats{}
					key := robRun(r, []string{"state boundx", robOp("A", kind, msg)}, st)
					total++
					accepted += st.accepted
					r.Eval("filter:"+string(cls)+":"+k.name+":"+robClass(key), sh.name+" "+strconv.Itoa(v))
				}
			}
		}
	}
	r.Traces += total
	r.Info["filter_grid"] = total
	r.Info["filter_grid_exhaustive_over"] = "3 classifiers x 5 function kinds x 14 filter shapes x function element matching/absent/naming another function x data filled/empty x ackRequest"
	r.Info["filter_grid_answered"] = accepted
	// sweep
	swept, functions := 0, 0
	for _, ft := range robXFeatureTypesSwept {
		for _, fd := range spine.CreateFunctionData[api.FunctionDataCmdInterface](ft) {
			functions++
			for v := 0; v < 16; v++ {
				b := func(i int) string { return strconv.Itoa(v >> i & 1) }
				op := "fd " + string(ft) + " " + string(fd.FunctionType()) + " " + b(0) + " " + b(1) + " " + b(2) + " " + b(3)
				key, detail, found := robXSweepOp(op)
				if !found {
					panic("sweep op does not find its function: " + op)
				}
				swept++
				r.Eval("fd-sweep:"+robClass(key), "")
				if key != "" {
					r.SpecFail(key, []string{op}, "UpdateDataAny("+op+"): "+detail)
				}
			}
		}
	}
	r.Traces += swept
	r.Info["function_data_swept"] = functions
	r.Floor("functions of the factory swept", functions, 100, 1)
}
