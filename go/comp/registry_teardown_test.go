package comp

// C10 — teardown of one peer or entity never leaks into another: the composed
// world of TestRegistry extended by writes pending application approval (with
// real timers), the client-side bookkeeping of a local client feature, device
// resolution and "others are still served". Compared op by op with Spine.Td;
// SPEC monitor step by step on the implementation's own state. A drop or an
// entity removal is inserted at every position of generated histories.

import (
	"fmt"
	"sort"
	"strconv"
	"strings"
	"sync"
	"testing"
	"time"

	"github.com/enbility/spine-go/api"
	"github.com/enbility/spine-go/model"
	"github.com/enbility/spine-go/spine"
	"github.com/enbility/spine-go/util"
	"verifharness/h"
)

const (
	tdShort  = 100 * time.Millisecond  // timeout of a "short" write: fires at the next `fire`
	tdMargin = 100 * time.Millisecond  // slack `fire` waits beyond the timeout
	tdLong   = 10 * time.Minute        // timeout of a "long" write: never fires within a history (2.5 s did, on a machine slowed down tenfold)
)

type tdPend struct {
	peer      int
	ce        string
	short     bool
	need      int // approval callbacks of the written feature
	approvals int // approvals given to THIS write
}

type tdExt struct {
	w         *regWorld
	mu        sync.Mutex
	msgs      map[uint64]*api.Message // messages handed to the approval callbacks, by counter
	appr      map[string]api.FeatureLocalInterface
	lc        api.FeatureLocalInterface // the local client feature [1]/3
	pend      map[uint64]*tdPend        // SPEC: writes accepted for approval and neither decided, timed out nor torn down
	why       map[uint64]string         // SPEC: why a write left `pend`: decided | timeout | drop | entity
	lastShort time.Time                 // when the last short timer was armed
	gen       *regStats // generator quality by SPEC expectation
	preBits   map[int]string
	used      map[int]map[uint64]bool // write counters used on the current connection of a peer
	need      map[string]int          // approval callbacks per guarded feature
	everCtr   map[int]map[uint64]bool // write counters ever used by a peer, on any of its connections
	early     bool // a short timer fired before its `fire` step (timing flake, history abandoned)
}

func newTdExt(w *regWorld) *tdExt {
	t := &tdExt{w: w, msgs: map[uint64]*api.Message{}, appr: map[string]api.FeatureLocalInterface{}, pend: map[uint64]*tdPend{}, why: map[uint64]string{}, preBits: map[int]string{},
		used: map[int]map[uint64]bool{}, need: map[string]int{"1/1": 2, "1/2": 1}, everCtr: map[int]map[uint64]bool{}}
	for _, a := range [][2]uint{{1, 1}, {1, 2}} {
		lf := w.l.FeatureByAddress(h.FA("HEMS", []uint{a[0]}, a[1]))
		lf.SetWriteApprovalTimeout(tdLong)
		key := fmt.Sprintf("%d/%d", a[0], a[1])
		// feature [1]/1 has two approval callbacks (both must approve a write), [1]/2 has one
		for i := 0; i < t.need[key]; i++ {
			_ = lf.AddWriteApprovalCallback(func(m *api.Message) {
				t.mu.Lock()
				t.msgs[uint64(*m.RequestHeader.MsgCounter)] = m
				t.mu.Unlock()
			})
		}
		t.appr[key] = lf
	}
	t.lc = w.l.FeatureByAddress(h.FA("HEMS", []uint{1}, 3))
	return t
}

func (t *tdExt) msg(w uint64) *api.Message {
	t.mu.Lock()
	defer t.mu.Unlock()
	return t.msgs[w]
}

// stop the timers that can still be reached (end of a history)
func (t *tdExt) close() {
	for ctr := range t.pend {
		if m := t.msg(ctr); m != nil {
			lf := t.appr[fmt.Sprintf("%s/%d", h.EntStr(m.RequestHeader.AddressDestination.Entity), *m.RequestHeader.AddressDestination.Feature)]
			h.Recover(func() { lf.ApproveOrDenyWrite(m, model.ErrorType{ErrorNumber: 7}) })
		}
	}
}

// the remote server features the local client feature subscribes / binds to: on the parent entity [1] and on its
// sub-entity [1,1] of every peer
var tdTargets = []string{"1", "1.1"}

// bits: local client subscribed to / bound to p's server [1]/4, subscribed to / bound to p's server [1,1]/4, node
// management subscribed to p's node management — each looked up by its exact address
func (t *tdExt) chas(p int) string {
	var b []string
	for _, e := range tdTargets {
		a := h.FA(regDev(p), regParseEnt(e), 4)
		b = append(b, strconv.Itoa(h.B2i(t.lc.HasSubscriptionToRemote(a))), strconv.Itoa(h.B2i(t.lc.HasBindingToRemote(a))))
	}
	nm := h.FA(regDev(p), []uint{0}, 0)
	return strings.Join(append(b, strconv.Itoa(h.B2i(t.w.l.NodeManagement().HasSubscriptionToRemote(nm)))), " ")
}

func (t *tdExt) before() {
	for q := 1; q <= t.w.npeers; q++ {
		t.preBits[q] = t.chas(q)
	}
}

type tdRes struct {
	peer int
	ok   bool
	gen  int
}

// results written during the step: counter reference -> (connection, success)
func (t *tdExt) results() map[uint64]tdRes {
	out := map[uint64]tdRes{}
	for _, o := range t.w.out {
		if len(o.d.Payload.Cmd) == 0 || o.d.Payload.Cmd[0].ResultData == nil || o.d.Header.MsgCounterReference == nil {
			continue
		}
		rd := o.d.Payload.Cmd[0].ResultData
		out[uint64(*o.d.Header.MsgCounterReference)] = tdRes{o.peer, rd.ErrorNumber != nil && *rd.ErrorNumber == 0, o.gen}
	}
	return out
}

func (t *tdExt) targets(r *h.Report, done []string, se string, sf uint) string {
	fn, _ := regFunctionOf(regFind(regLocalFeats, se, sf).typ)
	return regList(t.w.notifies(r, done, se, sf, fn))
}

// SPEC (C08) for the third data-change path: an accepted remote write notifies exactly the subscribers
func (t *tdExt) specFanout(r *h.Report, done []string, op string, preS []regEntry, se string, sf uint) {
	var want, got []string
	for _, e := range preS {
		if e.se == se && e.sf == sf {
			want = append(want, fmt.Sprintf("%d:%s/%d", e.peer, e.ce, e.cf))
		}
	}
	for _, o := range t.w.out {
		if o.d.Header.CmdClassifier != nil && *o.d.Header.CmdClassifier == model.CmdClassifierTypeNotify && o.d.Header.AddressDestination != nil {
			got = append(got, fmt.Sprintf("%d:%s/%d", o.peer, h.EntStr(o.d.Header.AddressDestination.Entity), *o.d.Header.AddressDestination.Feature))
		}
	}
	sort.Strings(want)
	sort.Strings(got)
	if strings.Join(want, ",") != strings.Join(got, ",") {
		r.SpecFail("C08/fanout-after-accepted-write", done, fmt.Sprintf("%s: notified %v, subscribed %v", op, got, want))
	}
}

// step executes the ops that only the composed world has.
func (t *tdExt) step(r *h.Report, done []string, f []string, preS, preB []regEntry) (impl, kind string) {
	w := t.w
	op := strings.Join(f, " ")
	atoi := func(i int) int { n, _ := strconv.Atoi(f[i]); return n }
	kind = f[0]
	switch f[0] {
	case "wr": // wr p ce cf se sf w S|L
		p, ce, cf, se, sf, ctr, short := atoi(1), f[2], uint(atoi(3)), f[4], uint(atoi(5)), uint64(atoi(6)), f[7] == "S"
		if t.used[p] == nil {
			t.used[p] = map[uint64]bool{}
		}
		if t.everCtr[p] == nil {
			t.everCtr[p] = map[uint64]bool{}
		}
		if t.used[p][ctr] {
			return "skip", "wr:skipped" // a connection never reuses a counter (a NEW connection of the same SKI does)
		}
		t.used[p][ctr] = true
		if t.everCtr[p][ctr] {
			kind = "reused-counter"
		}
		t.everCtr[p][ctr] = true
		t.mu.Lock()
		delete(t.msgs, ctr)
		t.mu.Unlock()
		typ := 1
		if sv := regFind(regLocalFeats, se, sf); sv != nil {
			typ = sv.typ
		}
		_, mk := regFunctionOf(typ)
		_, cmd := mk(int(ctr))
		if lf := t.appr[fmt.Sprintf("%s/%d", se, sf)]; lf != nil {
			if short {
				lf.SetWriteApprovalTimeout(tdShort)
			} else {
				lf.SetWriteApprovalTimeout(tdLong)
			}
		}
		t.gen.wrAll++
		t.gen.wrOk += h.B2i(regHas(preB, regPair(p, ce, cf, se, sf)) && w.alive[p] && (se == "1" && sf <= 2 || se == "2" && sf == 1))
		wc := model.CmdClassifierTypeWrite
		ack := true
		t0 := time.Now()
		w.inject(p, model.DatagramType{Header: model.HeaderType{AddressSource: h.FA(regDev(p), regParseEnt(ce), cf), AddressDestination: h.FA("HEMS", regParseEnt(se), sf),
			MsgCounter: util.Ptr(model.MsgCounterType(ctr)), CmdClassifier: &wc, AckRequest: &ack}, Payload: model.PayloadType{Cmd: []model.CmdType{cmd}}})
		w.settle()
		w.out = append(w.out, w.log.take()...)
		res, have := t.results()[ctr]
		switch {
		case have && res.ok:
			impl = "applied " + t.targets(r, done, se, sf)
			t.specFanout(r, done, op, preS, se, sf)
		case have:
			impl = "denied"
		case t.msg(ctr) != nil:
			impl = "pending"
			delete(t.why, ctr)
			t.pend[ctr] = &tdPend{peer: p, ce: ce, short: short, need: t.need[fmt.Sprintf("%s/%d", se, sf)]}
			if short {
				t.lastShort = t0
			}
		default:
			impl = "none"
		}
		if kind == "reused-counter" {
			kind = "wr-reused-counter:" + strings.Fields(impl)[0]
		} else {
			kind = "wr:" + strings.Fields(impl)[0]
		}
	case "approve", "deny": // approve p w
		p, ctr := atoi(1), uint64(atoi(2))
		impl = "-"
		t.gen.vAll++
		t.gen.vOk += h.B2i(t.pend[ctr] != nil)
		if m := t.msg(ctr); m != nil {
			e := model.ErrorType{}
			if f[0] == "deny" {
				e = model.ErrorType{ErrorNumber: 7}
			}
			se, sf := h.EntStr(m.RequestHeader.AddressDestination.Entity), uint(*m.RequestHeader.AddressDestination.Feature)
			lf := t.appr[fmt.Sprintf("%s/%d", se, sf)]
			if pan := h.Recover(func() { lf.ApproveOrDenyWrite(m, e) }); pan != nil {
				w.panicky = fmt.Sprint(pan)
			}
			w.settle()
			w.out = append(w.out, w.log.take()...)
			if res, have := t.results()[ctr]; have && res.ok {
				impl = "applied " + t.targets(r, done, se, sf)
				t.specFanout(r, done, op, preS, se, sf)
			} else if have {
				impl = "refused"
			}
		}
		// SPEC (C10): an approval torn down with its device / entity has disappeared — a later verdict has no effect;
		// every other pending approval stays effective; a write is applied iff ALL callbacks approved THIS write (what was
		// approved on an earlier connection of the same SKI does not count)
		sp := t.pend[ctr]
		effective := false
		if sp != nil {
			if f[0] == "approve" {
				sp.approvals++
			}
			effective = f[0] == "deny" || sp.approvals >= sp.need
		}
		switch {
		case sp != nil && impl != "-" && !effective:
			r.SpecFail("C10/write-applied-without-all-approvals", done, fmt.Sprintf("%s took effect (%s) after %d of the %d approvals this write needs (the counter was used on an earlier connection of the same SKI: %v)", op, impl, sp.approvals, sp.need, len(t.w.gen) > 0 && t.w.gen[p] > 0))
			effective = true
		case sp != nil && impl == "-" && effective:
			r.SpecFail("C10/pending-approval-of-untouched-peer-lost", done, fmt.Sprintf("%s had no effect although the write of peer %d is pending, has all its approvals and neither its device nor its entity was removed", op, p))
		case sp == nil && impl != "-" && t.why[ctr] == "drop":
			r.SpecFail("C10/pending-approval-survives-teardown", done, fmt.Sprintf("%s took effect (%s) after the connection of peer %d was removed", op, impl, p))
		case sp == nil && impl != "-" && t.why[ctr] == "entity":
			r.SpecFail("C10/entity-removal-keeps-pending-approval", done, fmt.Sprintf("%s took effect (%s) although the entity the write came from was announced as removed", op, impl))
		case sp == nil && impl != "-":
			r.SpecFail("C10/verdict-on-finished-write-took-effect", done, fmt.Sprintf("%s took effect (%s); the write had left the pending state by %q", op, impl, t.why[ctr]))
		}
		if sp != nil && effective {
			delete(t.pend, ctr)
			t.why[ctr] = "decided"
		}
		kind = f[0] + ":" + strings.Fields(impl)[0]
	case "fire":
		t.gen.fireAll++
		for _, sp := range t.pend {
			if sp.short {
				t.gen.fireOk++
				break
			}
		}
		if !t.lastShort.IsZero() {
			if d := time.Until(t.lastShort.Add(tdShort + tdMargin)); d > 0 {
				time.Sleep(d)
			}
			t.lastShort = time.Time{}
		}
		w.settle()
		w.out = append(w.out, w.log.take()...)
		res := t.results()
		// a Go timer is late on a loaded machine: the verdict "a short write got no result" is only taken once
		// the result of every short write still pending has been waited for with a generous bound (a correct
		// tree answers within milliseconds of the timeout; a tree that lost the timer costs the bound once)
		for deadline := time.Now().Add(6 * time.Second); time.Now().Before(deadline); {
			missing := false
			for c, sp := range t.pend {
				if _, ok := res[c]; sp.short && !ok {
					missing = true
				}
			}
			if !missing {
				break
			}
			time.Sleep(20 * time.Millisecond)
			w.settle()
			w.out = append(w.out, w.log.take()...)
			res = t.results()
		}
		var ctrs []uint64
		for c := range res {
			ctrs = append(ctrs, c)
		}
		sort.Slice(ctrs, func(i, j int) bool { return ctrs[i] < ctrs[j] })
		var parts []string
		for _, c := range ctrs {
			s := fmt.Sprintf("%d:%d", res[c].peer, c)
			stale := !w.alive[res[c].peer] || res[c].gen != w.gen[res[c].peer]
			if stale {
				s += "!"
			}
			parts = append(parts, s)
			// SPEC (C10)
			switch sp := t.pend[c]; {
			case sp != nil && sp.short:
				delete(t.pend, c)
				t.why[c] = "timeout"
			case stale:
				r.SpecFail("C10/timer-write-after-teardown", done, fmt.Sprintf("the approval timer of write %d wrote a result to the removed connection of peer %d", c, res[c].peer))
			case t.why[c] == "entity":
				r.SpecFail("C10/entity-removal-keeps-pending-approval", done, fmt.Sprintf("the approval timer of write %d fired although the entity the write came from was announced as removed", c))
			default:
				r.SpecFail("C10/unexpected-timer-result", done, fmt.Sprintf("result for write %d (left the pending state by %q)", c, t.why[c]))
			}
		}
		for c, sp := range t.pend {
			if sp.short {
				r.SpecFail("C10/approval-timer-of-untouched-peer-lost", done, fmt.Sprintf("write %d of peer %d was pending with a short timeout and got no result", c, sp.peer))
				delete(t.pend, c)
			}
		}
		impl = "."
		if len(parts) > 0 {
			impl = strings.Join(parts, " ")
			kind = "fire:results"
		}
	case "csub", "cbind":
		p := atoi(1)
		a := h.FA(regDev(p), regParseEnt(f[2]), 4)
		var e *model.ErrorType
		if f[0] == "csub" {
			_, e = t.lc.SubscribeToRemote(a)
		} else {
			_, e = t.lc.BindToRemote(a)
		}
		w.out = append(w.out, w.log.take()...)
		impl = map[bool]string{true: "ok", false: "err"}[e == nil]
		if (e == nil) != (w.alive[p] && !w.late[p]) {
			r.SpecFail("C10/client-request-to-peer", done, fmt.Sprintf("%s answered %s, peer connected: %v", op, impl, w.alive[p]))
		}
		kind = f[0] + ":" + impl
	case "chas":
		impl = t.chas(atoi(1))
	case "resolve":
		p := atoi(1)
		bySki := w.l.RemoteDeviceForSki(regSki(p)) != nil
		byAddr := w.l.RemoteDeviceForAddress(model.AddressDeviceType(regDev(p))) != nil
		impl = strconv.Itoa(h.B2i(bySki && byAddr))
		if bySki != w.alive[p] || byAddr != (w.alive[p] && !w.late[p]) {
			key := "C10/device-still-resolvable"
			if w.alive[p] {
				key = "C10/other-device-unresolvable"
			}
			r.SpecFail(key, done, fmt.Sprintf("%s: connected=%v, by ski=%v, by address=%v", op, w.alive[p], bySki, byAddr))
		}
	case "read": // read p: peer p reads the data of the local server [1]/1
		p := atoi(1)
		w.ctr[p]++
		rc := model.CmdClassifierTypeRead
		w.inject(p, model.DatagramType{Header: model.HeaderType{AddressSource: h.FA(regDev(p), []uint{1}, 1), AddressDestination: h.FA("HEMS", []uint{1}, 1),
			MsgCounter: util.Ptr(model.MsgCounterType(w.ctr[p])), CmdClassifier: &rc}, Payload: model.PayloadType{Cmd: []model.CmdType{{LoadControlLimitListData: &model.LoadControlLimitListDataType{}}}}})
		impl = "none"
		for _, o := range w.out {
			if o.peer == p && o.d.Header.CmdClassifier != nil && *o.d.Header.CmdClassifier == model.CmdClassifierTypeReply && o.d.Header.MsgCounterReference != nil && uint64(*o.d.Header.MsgCounterReference) == w.ctr[p] {
				impl = "reply"
			}
		}
		// SPEC (C10): every other peer continues to be served
		if impl != "reply" && !w.gone[p]["1"] && !w.bare[p]["1"] {
			r.SpecFail("C10/other-peer-not-served", done, fmt.Sprintf("%s: a connected peer got no reply", op))
		}
	default:
		panic("bad op " + op)
	}
	// a short timer that fired outside `fire` is a timing flake of the harness, not an observation
	if f[0] != "fire" {
		for c, res := range t.results() {
			// (the step's OWN write is exempt: a verdict for it, or its own denial by the gate; a short timer of ANOTHER write
			// that fires while a `wr` step runs — on a loaded machine — is a timing flake like in any other step: its result
			// lands in this step's outputs and would be missed by the `fire` step)
			cs := strconv.FormatUint(c, 10)
			own := len(f) > 2 && (f[0] == "approve" || f[0] == "deny") && f[2] == cs || len(f) > 6 && f[0] == "wr" && f[6] == cs
			if sp := t.pend[c]; sp != nil && sp.short && !res.ok && !own {
				t.early = true
			}
		}
	}
	return
}

// afterTeardown: SPEC (C10) for the parts only the composed world has.
func (t *tdExt) afterTeardown(r *h.Report, done []string, op string, p int, drop bool, removed []string) {
	gone := map[string]bool{}
	for _, e := range removed {
		gone[e] = true
	}
	for c, sp := range t.pend {
		if sp.peer == p && (drop || gone[sp.ce]) {
			delete(t.pend, c)
			t.why[c] = map[bool]string{true: "drop", false: "entity"}[drop]
		}
	}
	for q := 1; q <= t.w.npeers; q++ {
		now := t.chas(q)
		bits := strings.Fields(t.preBits[q])
		if q == p {
			for i, e := range tdTargets {
				// all and ONLY the bookkeeping for the removed device / for exactly the removed entities disappears
				if drop || gone[e] {
					bits[2*i], bits[2*i+1] = "0", "0"
				}
			}
			if drop {
				bits[len(bits)-1] = "0"
			}
		}
		want := strings.Join(bits, " ")
		if now != want {
			key := "C10/client-bookkeeping-survives-teardown"
			nb := strings.Fields(now)
			for i := range bits {
				if i < len(nb) && bits[i] == "1" && nb[i] == "0" {
					key = "C10/teardown-removes-other-entitys-bookkeeping" // something that does not refer to the removed entity is gone
				}
			}
			if q != p {
				key = "C10/teardown-touches-other-peers-bookkeeping"
			}
			r.SpecFail(key, done, fmt.Sprintf("after %s the local client features' bookkeeping for peer %d is %q, expected %q (subscribed / bound to [1]/4, to [1,1]/4, node management)", op, q, now, want))
		}
	}
}

// ---------------------------------------------------------------- generation

// tdE prints an entity number of the generator: 11 is the sub-entity [1,1]
func tdE(e int) string {
	if e == 11 {
		return "1.1"
	}
	return strconv.Itoa(e)
}

func genTdHistory(rng regRng, n, np int, withShort bool) (ops []string, firstShort int) {
	head := fmt.Sprintf("peers %d", np)
	latePeer := 0
	if !withShort && rng.Intn(4) == 0 {
		latePeer = np // the last peer's discovery reply arrives somewhere in the middle
		head += fmt.Sprintf(" late:%d", latePeer)
	}
	ops = []string{head}
	discoverAt := rng.Intn(n/2 + 1)
	firstShort = -1
	type bound struct{ p, ce, cf, se, sf int }
	var binds, prefix []bound
	var pend []string // "p w"
	ctr := 100000
	valid := [][5]int{{1, 1, 1, 1, 1}, {1, 2, 1, 2, 2}, {2, 1, 1, 1, 1}, {1, 3, 1, 1, 1}, {1, 3, 1, 2, 2}, {1, 1, 2, 1, 1}, {2, 1, 2, 1, 1}, {1, 3, 2, 1, 1},
		{11, 1, 1, 1, 1}, {11, 1, 2, 1, 1}}
	if withShort || rng.Intn(10) < 6 {
		// a prefix that binds one client of each peer to a server of its own, so that writes are accepted
		for p, v := range [][5]int{{1, 1, 1, 1, 1}, {1, 2, 1, 2, 2}, {1, 1, 2, 1, 1}}[:np] {
			ops = append(ops, fmt.Sprintf("bind %d %s %d %d %d %d", p+1, tdE(v[0]), v[1], v[2], v[3], v[4]))
			binds = append(binds, bound{p + 1, v[0], v[1], v[2], v[3]})
		}
		prefix = append(prefix, binds...)
	}
	inPrefix := func(b bound) bool {
		for _, x := range prefix {
			if x == b {
				return true
			}
		}
		return false
	}
	ctrsOf := map[int][]int{}
	for i := 0; i < n; i++ {
		if latePeer != 0 && i == discoverAt {
			ops = append(ops, fmt.Sprintf("discover %d", latePeer))
		}
		if rng.Intn(25) == 0 {
			ops = append(ops, fmt.Sprintf("addent %d %s", 1+rng.Intn(np), []string{"1", "1.1", "2"}[rng.Intn(3)]))
		}
		if rng.Intn(30) == 0 {
			ops = append(ops, fmt.Sprintf("bareent %d %s", 1+rng.Intn(np), []string{"1", "1.1", "2"}[rng.Intn(3)]))
		}
		if rng.Intn(12) == 0 {
			// a removed SKI connects again (skipped while it is connected), binds as before and writes with a counter its
			// earlier connection used, with one approval
			q := 1 + rng.Intn(np)
			ops = append(ops, fmt.Sprintf("reconnect %d", q))
			for _, b := range prefix {
				if b.p == q {
					ops = append(ops, fmt.Sprintf("bind %d %s %d %d %d %d", q, tdE(b.ce), b.cf, b.se, b.sf, map[int]int{1: 1, 2: 2}[b.sf]))
					if cs := ctrsOf[q]; len(cs) > 0 {
						c := cs[rng.Intn(len(cs))]
						ops = append(ops, fmt.Sprintf("wr %d %s %d %d %d %d L", q, tdE(b.ce), b.cf, b.se, b.sf, c), fmt.Sprintf("approve %d %d", q, c))
						pend = append(pend, fmt.Sprintf("%d %d", q, c))
					}
				}
			}
		}
		p := 1 + rng.Intn(np)
		v := valid[rng.Intn(len(valid))]
		switch k := rng.Intn(30); {
		case k < 6:
			ops = append(ops, regDecorate(rng, fmt.Sprintf("bind %d %s %d %d %d %d", p, tdE(v[0]), v[1], v[2], v[3], v[4]), np, true))
			binds = append(binds, bound{p, v[0], v[1], v[2], v[3]})
		case k < 10:
			ops = append(ops, regDecorate(rng, fmt.Sprintf("sub %d %s %d %d %d %d", p, tdE(v[0]), v[1], v[2], v[3], v[4]), np, true))
		case k < 17:
			b := bound{p, v[0], v[1], v[2], v[3]}
			if len(binds) > 0 && rng.Intn(6) > 0 {
				b = binds[rng.Intn(len(binds))]
			}
			ctr++
			ops = append(ops, fmt.Sprintf("wr %d %s %d %d %d %d L", b.p, tdE(b.ce), b.cf, b.se, b.sf, ctr))
			pend = append(pend, fmt.Sprintf("%d %d", b.p, ctr))
			ctrsOf[b.p] = append(ctrsOf[b.p], ctr)
		case k < 19 && len(pend) > 0:
			j := rng.Intn(len(pend))
			ops = append(ops, []string{"approve ", "approve ", "deny "}[rng.Intn(3)]+pend[j])
			if rng.Intn(2) == 0 {
				ops = append(ops, "approve "+pend[j]) // the second callback's answer
			}
			if rng.Intn(3) > 0 {
				pend = append(pend[:j], pend[j+1:]...)
			}
		case k < 21:
			ops = append(ops, fmt.Sprintf("%s %d %s", []string{"csub", "cbind"}[rng.Intn(2)], p, tdTargets[rng.Intn(2)]))
		case k < 22:
			ops = append(ops, fmt.Sprintf("chas %d", p))
		case k < 23:
			ops = append(ops, fmt.Sprintf("read %d", p))
		case k < 24:
			ops = append(ops, fmt.Sprintf("resolve %d", p))
		case k < 26:
			s := [][2]int{{1, 1}, {1, 2}, {2, 1}}[rng.Intn(3)]
			ops = append(ops, fmt.Sprintf("notify %d %d", s[0], s[1]))
		case k < 27 && len(binds) > 0:
			if b := binds[rng.Intn(len(binds))]; !(withShort && inPrefix(b)) {
				ops = append(ops, fmt.Sprintf("unbind %d 0 %s %d %d %d", b.p, tdE(b.ce), b.cf, b.se, b.sf))
			}
		case k < 28:
			ops = append(ops, fmt.Sprintf("unsub %d 0 %s %d %d %d", p, tdE(v[0]), v[1], v[2], v[3]))
		default:
			ops = append(ops, fmt.Sprintf("%s %d", []string{"subs", "binds"}[rng.Intn(2)], p))
		}
	}
	if withShort {
		// the short block: the prefix-bound clients of peers 1 and 2 write to their approval-guarded servers with
		// short timeouts, a few harmless ops in between; the faults go in here
		firstShort = len(ops)
		for _, b := range prefix[:2] {
			for j := 0; j < 1+rng.Intn(2); j++ {
				ctr++
				ops = append(ops, fmt.Sprintf("wr %d %s %d %d %d %d S", b.p, tdE(b.ce), b.cf, b.se, b.sf, ctr))
				ctrsOf[b.p] = append(ctrsOf[b.p], ctr)
				if rng.Intn(2) == 0 {
					ops = append(ops, fmt.Sprintf("approve %d %d", b.p, ctr)) // one of the approvals it needs, before the timeout
				}
			}
			switch rng.Intn(4) {
			case 0:
				ops = append(ops, fmt.Sprintf("read %d", 1+rng.Intn(np)))
			case 1:
				ops = append(ops, fmt.Sprintf("chas %d", 1+rng.Intn(np)))
			case 2:
				ops = append(ops, "notify 1 1")
			}
		}
	}
	return
}

// tdObserve: what is looked at after a history: timers, every pending verdict, bookkeeping, resolution, service, lists, fan-out
func tdObserve(ops []string, np int, withFire bool) []string {
	var tail []string
	if withFire {
		tail = append(tail, "fire")
	}
	decided := map[string]bool{}
	for _, op := range ops {
		f := strings.Fields(op)
		if f[0] == "wr" {
			k := f[1] + " " + f[6]
			if !decided[k] {
				decided[k] = true
				tail = append(tail, "approve "+k, "approve "+k)
			}
		}
	}
	for q := 1; q <= np; q++ {
		tail = append(tail, fmt.Sprintf("chas %d", q), fmt.Sprintf("resolve %d", q), fmt.Sprintf("read %d", q), fmt.Sprintf("csub %d %s", q, tdTargets[q%2]), fmt.Sprintf("chas %d", q))
	}
	return append(tail, regObserve(np)...)
}

var tdWitTimer = []string{"peers 2", "bind 1 1 1 1 1 1", "wr 1 1 1 1 1 100001 S", "drop 1", "fire"}
var tdWitEntityAppr = []string{"peers 2", "bind 1 1 1 1 1 1", "wr 1 1 1 1 1 100001 L", "dropent 1 1", "approve 1 100001"}
var tdWitTally = []string{"peers 2", "bind 1 1 1 1 1 1", "wr 1 1 1 1 1 100001 S", "approve 1 100001", "fire", "drop 1", "reconnect 1", "bind 1 1 1 1 1 1",
	"wr 1 1 1 1 1 100001 L", "approve 1 100001", "chas 1", "approve 1 100001", "read 1"}
var tdWitBinding = []string{"peers 2", "bind 2 1 1 1 1 1", "bind 1 1 1 2 1 1", "csub 1 1", "csub 2 1", "cbind 2 1", "wr 2 1 1 1 1 100001 L", "wr 1 1 1 2 1 100002 L", "drop 1", "binds 2", "chas 1", "chas 2", "approve 2 100001", "read 2", "resolve 1", "resolve 2"}

func TestTeardown(t *testing.T) {
	r := h.NewReport("teardown", "histories in which 2-3 peers with identical numbering subscribe, bind, write to local server features (writes pending application approval with long or short timers, verdicts), are subscribed / bound to by a local client feature, read data; a connection drop or an entity-removed notification inserted at every position (fault enumeration); afterwards the timers fire and every pending verdict, the bookkeeping, device resolution, service to the others, every list and a change of every server feature are observed; compared op by op with Spine.Td (member selected by probing); non-trivial = a history (distinct by op text) that agreed to its end")
	defer r.Write()
	ev := &regEvents{}
	_ = spine.Events.Subscribe(ev)
	defer func() { _ = spine.Events.Unsubscribe(ev) }()
	_ = spine.VerifSubscribeCore(regCore)
	defer func() { _ = spine.VerifUnsubscribeCore(regCore) }()
	d := h.StartDriver("drv_td")
	defer d.Close()
	base := h.Baseline()
	flakes, runs := 0, 0 // histories with a `fire` step: abandoned for timing / all
	st := &regStats{}
	exec := func(q *h.Report, dd *h.Driver, ops []string) bool {
		early := runTdHistory(q, dd, ev, base, ops, st)
		return early
	}
	// probe phase
	probe := func(ops []string, key string) bool {
		q := h.Quiet()
		exec(q, nil, ops)
		return q.HasSpecFail(key)
	}
	flags := probeRegFlags(r, ev, base)
	timers := probe(tdWitTimer, "C10/timer-write-after-teardown")
	entAppr := probe(tdWitEntityAppr, "C10/entity-removal-keeps-pending-approval")
	r.SetFlag("timersSurvive", timers, tdWitTimer, "CleanWriteApprovalCaches forgets the pending approvals without stopping their timers")
	r.SetFlag("entityKeepsApprovals", entAppr, tdWitEntityAppr, "the removal of a remote entity leaves the approvals pending for writes of its features in place")
	tally := probe(tdWitTally, "C10/write-applied-without-all-approvals")
	r.SetFlag("tallySurvivesDrop", tally, tdWitTally, "the approval tallies of a removed connection are inherited by the next connection with the same SKI")
	if a := d.Ask(flags.cfgLine() + fmt.Sprintf(" %d %d %d", h.B2i(timers), h.B2i(entAppr), h.B2i(tally))); a != "cfg" {
		panic("drv_td: " + a)
	}
	run := func(ops []string) {
		before := r.Traces
		for _, op := range ops {
			if op == "fire" {
				runs++
				break
			}
		}
		if exec(r, d, ops) {
			flakes++
		}
		if r.Traces > before {
			r.Case(strings.Join(ops, "; "))
		}
	}
	if ops := h.ReplayOps("teardown"); ops != nil {
		run(ops)
		return
	}
	for _, wit := range [][]string{tdWitTimer, tdWitEntityAppr, tdWitTally, tdWitBinding, regWitDropAny, regWitDropEntAny} {
		run(wit)
	}
	// a removed SKI that connects again starts from scratch: partial approvals, pending writes, registry entries and
	// bookkeeping of its earlier connection do not count, reused counters are new writes, the old writer stays silent
	run([]string{"peers 2", "bind 1 1 1 1 1 1", "sub 1 1 1 1 1 1", "csub 1 1", "cbind 1 1.1", "wr 1 1 1 1 1 100001 L", "approve 1 100001", "wr 1 1 1 1 1 100002 S", "approve 1 100002", "fire",
		"wr 1 1 1 1 1 100003 S", "drop 1", "reconnect 1", "fire", "subs 1", "binds 1", "chas 1", "approve 1 100001", "bind 1 1 1 1 1 1", "wr 1 1 1 1 1 100001 L", "approve 1 100001", "wr 1 1 1 1 1 100002 L", "approve 1 100002",
		"approve 1 100002", "wr 1 1 1 1 1 100003 L", "deny 1 100003", "approve 1 100001", "notify 1 1", "read 1", "drop 1", "reconnect 1", "bind 1 1 1 1 1 1", "wr 1 1 1 1 1 100001 L", "approve 1 100001", "approve 1 100001"})
	run([]string{"peers 2", "bind 2 1 2 1 2 2", "wr 2 1 2 1 2 100001 L", "bind 1 1 1 1 1 1", "wr 1 1 1 1 1 100002 L", "approve 1 100002", "drop 1", "approve 2 100001", "reconnect 1", "bind 1 1 1 1 1 1",
		"wr 1 1 1 1 1 100002 S", "approve 1 100002", "fire", "wr 1 1 1 1 1 100004 L", "approve 1 100004", "approve 1 100004"})
	// an entity announced again without features: stale entries, pending approval and bookkeeping go when it is removed
	run([]string{"peers 2", "csub 1 1", "cbind 1 1", "bind 1 1 1 1 1 1", "sub 1 1 1 1 1 1", "wr 1 1 1 1 1 100001 L", "bareent 1 1", "subs 1", "binds 1", "chas 1", "wr 1 1 1 1 1 100002 L", "dropent 1 1", "subs 1", "binds 1", "chas 1",
		"approve 1 100001", "approve 1 100001", "notify 1 1", "read 2"})
	// a peer that is still before its discovery reply when another connection is removed must be served afterwards
	run([]string{"peers 2 late:2", "bind 1 1 1 1 1 1", "csub 1 1", "drop 1", "chas 2", "discover 2", "chas 2", "csub 2 1", "bind 2 1 1 1 1 1", "wr 2 1 1 1 1 100001 L", "approve 2 100001", "read 2", "dropent 2 1.1", "addent 2 1.1", "sub 2 1.1 1 1 1 1", "subs 2"})
	run([]string{"peers 3 late:3", "sub 1 1 1 1 1 1", "sub 2 1 1 1 1 1", "drop 1", "drop 2", "discover 3", "chas 3", "sub 3 1 1 1 1 1", "notify 1 1"})
	// the device information entity among the removed ones
	for _, l := range []string{"dropent 1 0,1,1.1", "dropent 1 1.1,0,1", "full 1 2", "full 1 0,1"} {
		run([]string{"peers 2", "csub 1 1", "cbind 1 1.1", "csub 2 1", "bind 1 1 1 1 1 1", "sub 1 1.1 1 1 1 1", "sub 2 1 1 1 1 1", "wr 1 1 1 1 1 100001 L", l, "chas 1", "chas 2", "subs 1", "binds 1", "subs 2", "read 2", "notify 1 1", "approve 1 100001"})
	}
	// parent and child entities: the local client is subscribed and bound to servers of [1] and of [1,1] of both peers,
	// both peers have entries from both entities; the child goes while the parent stays, and the other way round
	hier := []string{"peers 2", "csub 1 1", "cbind 1 1", "csub 1 1.1", "cbind 1 1.1", "csub 2 1", "cbind 2 1", "csub 2 1.1", "cbind 2 1.1",
		"sub 1 1 1 1 1 1", "sub 1 1.1 1 1 1 1", "sub 2 1 1 1 1 1", "sub 2 1.1 1 1 1 1", "bind 1 1.1 1 1 1 1", "bind 2 1 2 1 2 2", "wr 1 1.1 1 1 1 100001 L"}
	for _, fault := range []string{"dropent 1 1.1", "dropent 1 1", "dropent 2 1.1", "dropent 2 1", "drop 1"} {
		run(append(append(append([]string{}, hier...), fault), tdObserve(hier, 2, false)...))
		run(append(append(append(append([]string{}, hier...), fault), "dropent 1 1", "dropent 1 1.1"), tdObserve(hier, 2, false)...))
	}
	rng := h.Rng(10)
	insert := func(b []string, pos, np int, withFire bool) []string {
		fault := regFaultOp(rng, 1+rng.Intn(np))
		ops := append(append(append([]string{}, b[:pos]...), fault), b[pos:]...)
		return append(ops, tdObserve(b, np, withFire)...)
	}
	// long timers only: a fault at every position
	for i := 0; i < h.Scale(10, 150); i++ {
		np := 2 + rng.Intn(2)
		b, _ := genTdHistory(rng, 15+rng.Intn(25), np, false)
		for pos := 1; pos <= len(b); pos++ {
			run(insert(b, pos, np, false))
		}
	}
	// short timers: a fault at every position from just before the first short write on; the timers fire afterwards
	for i := 0; i < h.Scale(7, 60); i++ {
		np := 2 + rng.Intn(2)
		b, first := genTdHistory(rng, 10+rng.Intn(15), np, true)
		lo := first - 1
		for pos := lo; pos <= len(b); pos++ {
			run(insert(b, pos, np, true))
		}
	}
	// operations of another peer injected at the event points of a teardown (removal events of every kind, every index)
	eventsOf := func(ops []string) map[string]int {
		cst := &regStats{}
		runRegHistoryTd(h.Quiet(), nil, ev, base, ops, cst, true)
		return cst.lastEvents
	}
	injectAll := func(setup []string, tear string, bops []string, np int) {
		seen := eventsOf(append(append([]string{}, setup...), tear))
		for _, kind := range []string{"entity-", "sub-", "bind-", "device-"} {
			for idx := 0; idx < seen[kind]; idx++ {
				for _, b := range bops {
					ops := append(append([]string{}, setup...), fmt.Sprintf("%s @%s:%d %s", tear, kind, idx, b))
					run(append(ops, regObserve(np)...))
				}
			}
		}
	}
	// peer 1 is torn down: it holds subscriptions from [1], [1,1] and [2] and bindings from [1] and [1,1]; peer 2 has
	// entries of its own with the same numbers
	setupA := []string{"peers 2", "sub 1 1 1 1 1 1", "sub 1 1.1 1 1 1 1", "sub 1 2 1 2 1 1", "bind 1 1 1 1 1 1", "bind 1 1.1 1 2 1 1",
		"sub 2 1 1 1 1 1", "sub 2 1 2 1 2 2", "bind 2 1 2 1 2 2"}
	bops := []string{"sub 2 2 1 1 1 1", "sub 2 1.1 1 2 1 1", "sub 2 1 1 1 1 1", "unsub 2 0 1 1 1 1", "bind 2 2 1 2 1 1", "bind 2 1 1 1 1 1 sd0",
		"unbind 2 0 1 2 1 2", "notify 1 1", "notify 2 1"}
	for _, tear := range []string{"drop 1", "dropent 1 1", "dropent 1 1.1"} {
		injectAll(setupA, tear, bops, 2)
		// peer 1's entity [2] is gone already: a binding of peer 2 from its own entity [2] is out of reach of the
		// known any-peer defect, so its loss would be a lost update
		injectAll(append(append([]string{}, setupA...), "dropent 1 2"), tear, []string{"bind 2 2 1 2 1 1", "sub 2 2 1 2 1 1"}, 2)
	}
	// generated: a random teardown at the end of a generated history, a random operation of another peer at a random event
	for i := 0; i < h.Scale(25, 600); i++ {
		np := 2 + rng.Intn(2)
		b, _ := genTdHistory(rng, 10+rng.Intn(20), np, false)
		p := 1 + rng.Intn(np)
		tear := fmt.Sprintf("drop %d", p)
		if rng.Intn(3) == 0 {
			tear = fmt.Sprintf("dropent %d %s", p, []string{"1", "1.1", "2"}[rng.Intn(3)])
		}
		seen := eventsOf(append(append([]string{}, b...), tear))
		var points []string
		for _, kind := range []string{"entity-", "sub-", "bind-", "device-"} {
			for idx := 0; idx < seen[kind]; idx++ {
				points = append(points, fmt.Sprintf("@%s:%d", kind, idx))
			}
		}
		if len(points) == 0 {
			continue
		}
		q := 1 + (p+rng.Intn(np-1))%np // another peer
		v := regValid[rng.Intn(len(regValid))]
		var bop string
		switch rng.Intn(6) {
		case 0, 1:
			bop = regDecorate(rng, fmt.Sprintf("sub %d %s %d %s %d %d", q, v.ce, v.cf, v.se, v.sf, v.ty), np, true)
		case 2:
			bop = regDecorate(rng, fmt.Sprintf("bind %d %s %d %s %d %d", q, v.ce, v.cf, v.se, v.sf, v.ty), np, true)
		case 3:
			bop = fmt.Sprintf("unsub %d 0 %s %d %s %d", q, v.ce, v.cf, v.se, v.sf)
		case 4:
			bop = fmt.Sprintf("unbind %d 0 %s %d %s %d", q, v.ce, v.cf, v.se, v.sf)
		default:
			s := [][2]int{{1, 1}, {1, 2}, {2, 1}}[rng.Intn(3)]
			bop = fmt.Sprintf("notify %d %d", s[0], s[1])
		}
		ops := append(append([]string{}, b...), tear+" "+points[rng.Intn(len(points))]+" "+bop)
		run(append(ops, tdObserve(b, np, false)...))
	}
	r.Info["operations_injected_into_teardowns"] = st.injected
	r.Info["timing_flakes_abandoned"] = flakes
	r.Info["faults_executed"] = st.faults
	if regClean(r, tdKnownKeys) {
		r.Floor("histories with timers not abandoned for timing", runs-flakes, runs, 0.7)
		r.Floor("writes of a bound client to a writable feature", st.wrOk, st.wrAll, 0.25)
		r.Floor("verdicts on a pending write", st.vOk, st.vAll, 0.08)
		r.Floor("fire steps with a short timer pending", st.fireOk, st.fireAll, 0.2)
	}
	regShrinkReport(r, func(q *h.Report, ops []string) { exec(q, d, ops) }, tdKnownKeys, true)
}

var tdKnownKeys = map[string]bool{"C10/teardown-removes-other-peers-binding": true, "C10/timer-write-after-teardown": true, "C10/entity-removal-keeps-pending-approval": true,
	"C08/delete-by-named-device": true, "C09/delete-by-named-device": true, "C09/unbind-removes-other-binding": true}

// runTdHistory runs one history of the composed world; returns true when it was abandoned for a timing flake.
func runTdHistory(r *h.Report, d *h.Driver, ev *regEvents, base int, ops []string, st *regStats) bool {
	return runRegHistoryTd(r, d, ev, base, ops, st, true)
}
