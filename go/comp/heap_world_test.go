package comp

// C04 / C11 through the composed device: a real DeviceLocal with server features for the three
// flag-carrying list functions (each bound by a remote client feature) and a client feature that
// receives reply / notify datagrams of a remote LoadControl server feature. Writes, notifications
// and replies enter as JSON through DeviceRemote.HandleSpineMesssage (the production entry point);
// the verdict of a write is the result datagram the peer receives; data is read through
// FeatureLocal.DataCopy / FeatureRemote.DataCopy; event payloads are collected by an application
// handler subscribed to spine.Events. Every store has its own model instance (same driver).
//
// Op text:
//   world                                            first op: stores emptied, retained values dropped
//   lset <s> <items>                                 FeatureLocal.SetData                       (s = store 0..2)
//   lupd <s> <items> <fpk> <fps> <fpe> <fdk> <fds> <fde>   FeatureLocal.UpdateData
//   lcopy <s>                                        FeatureLocal.DataCopy, retained
//   write <s> <items> <6 filter tokens>              write datagram of the bound peer, ack requested
//                                                    optional last token <arr>: how the filter LIST of the command is
//                                                    arranged, one letter per entry: p partial filter, d delete filter,
//                                                    b entry with both cmdControl tags (partial data), P / D a further
//                                                    partial / delete filter without data, o entry without cmdControl,
//                                                    e entry with an empty cmdControl (default "dp"); `X|Y` on the final
//                                                    write: the same write with arrangement Y on the same data must get
//                                                    the same verdict and leave the same data (Cmd.ExtractFilter must
//                                                    not depend on the order of the list)
//   alt <k> ...                                      (only before the final write) twin stores, as in heap_run_test.go
//   notify|reply <items> <6 filter tokens>           datagram of the remote server feature (store 3)
//   rupd <persist> <items> <6 filter tokens>         FeatureRemote.UpdateData (what use-case code calls)
//   rcopy                                            FeatureRemote.DataCopy, retained
//   ucadd <k> | ucavail <k> <0|1> | ucrm <k> | uccopy     EntityLocal use-case helpers on NodeManagementUseCaseData and a
//                                                    retained DataCopy of it (monitor only: this function is not a list store)

import (
	"encoding/json"
	"fmt"
	"reflect"
	"strconv"
	"strings"
	"sync"
	"time"

	"github.com/enbility/spine-go/api"
	"github.com/enbility/spine-go/model"
	"github.com/enbility/spine-go/spine"
	"github.com/enbility/spine-go/util"
	"verifharness/h"
)

type hpEvents struct {
	mu sync.Mutex
	ps []api.EventPayload
}

func (e *hpEvents) HandleEvent(p api.EventPayload) {
	if p.EventType != api.EventTypeDataChange || p.Data == nil {
		return
	}
	e.mu.Lock()
	e.ps = append(e.ps, p)
	e.mu.Unlock()
}

func (e *hpEvents) take() []api.EventPayload {
	e.mu.Lock()
	defer e.mu.Unlock()
	p := e.ps
	e.ps = nil
	return p
}

type hpStore struct {
	t      *hpType
	d      *h.Driver
	lf     api.FeatureLocalInterface  // local server feature (stores 0..2) resp. local client feature (store 3)
	rf     api.FeatureRemoteInterface // the peer's feature: writer (0..2) resp. the remote server feature (3)
	hs     []*hpHandle
	remote bool // store 3: data of the remote feature
}

type hpWorld struct {
	local  api.DeviceLocalInterface
	rd     api.DeviceRemoteInterface
	wr     *h.W
	ev     *hpEvents
	st     []*hpStore
	ctr    uint64
	base   int
	drvs   []*h.Driver
	notes  map[string]int
	remDev string
	ent    api.EntityLocalInterface
	ucs    []*hpHandle
}

const hpLocalDev, hpRemoteDev = "d:_i:loc", "d:_i:rem"

func hpNewWorld(x *hpRun) *hpWorld {
	w := &hpWorld{wr: &h.W{}, ev: &hpEvents{}, notes: map[string]int{}, ctr: 100}
	l := spine.NewDeviceLocal("b", "m", "s", "c", hpLocalDev, model.DeviceTypeTypeEnergyManagementSystem, model.NetworkManagementFeatureSetTypeSmart)
	e1 := spine.NewEntityLocal(l, model.EntityTypeTypeCEM, spine.NewAddressEntityType([]uint{1}), 4*time.Second)
	l.AddEntity(e1)
	fts := []model.FeatureTypeType{model.FeatureTypeTypeLoadControl, model.FeatureTypeTypeSetpoint, model.FeatureTypeTypeDeviceConfiguration}
	var srv []api.FeatureLocalInterface
	for i, ft := range fts {
		f := e1.GetOrAddFeature(ft, model.RoleTypeServer)
		f.AddFunctionType(hpFlagTypes[i], true, true)
		srv = append(srv, f)
	}
	cli := e1.GetOrAddFeature(model.FeatureTypeTypeLoadControl, model.RoleTypeClient)
	w.local = l
	w.ent = e1
	l.SetupRemoteDevice("ski-rem", w.wr)
	w.rd = l.RemoteDeviceForSki("ski-rem")
	feat := func(fid uint, ft model.FeatureTypeType, role model.RoleType) model.NodeManagementDetailedDiscoveryFeatureInformationType {
		return model.NodeManagementDetailedDiscoveryFeatureInformationType{Description: &model.NetworkManagementFeatureDescriptionDataType{
			FeatureAddress: h.FA(hpRemoteDev, []uint{1}, fid), FeatureType: &ft, Role: &role}}
	}
	ent := func(e []uint, et model.EntityTypeType) model.NodeManagementDetailedDiscoveryEntityInformationType {
		return model.NodeManagementDetailedDiscoveryEntityInformationType{Description: &model.NetworkManagementEntityDescriptionDataType{
			EntityAddress: &model.EntityAddressType{Device: util.Ptr(model.AddressDeviceType(hpRemoteDev)), Entity: spine.NewAddressEntityType(e)}, EntityType: &et}}
	}
	nm := model.NodeManagementDetailedDiscoveryFeatureInformationType{Description: &model.NetworkManagementFeatureDescriptionDataType{
		FeatureAddress: h.FA(hpRemoteDev, []uint{0}, 0), FeatureType: util.Ptr(model.FeatureTypeTypeNodeManagement), Role: util.Ptr(model.RoleTypeSpecial)}}
	dd := &model.NodeManagementDetailedDiscoveryDataType{
		DeviceInformation: &model.NodeManagementDetailedDiscoveryDeviceInformationType{Description: &model.NetworkManagementDeviceDescriptionDataType{
			DeviceAddress: &model.DeviceAddressType{Device: util.Ptr(model.AddressDeviceType(hpRemoteDev))}}},
		EntityInformation: []model.NodeManagementDetailedDiscoveryEntityInformationType{ent([]uint{0}, model.EntityTypeTypeDeviceInformation), ent([]uint{1}, model.EntityTypeTypeEVSE)},
		FeatureInformation: []model.NodeManagementDetailedDiscoveryFeatureInformationType{nm,
			feat(1, fts[0], model.RoleTypeClient), feat(2, fts[1], model.RoleTypeClient), feat(3, fts[2], model.RoleTypeClient),
			feat(4, model.FeatureTypeTypeLoadControl, model.RoleTypeServer)},
	}
	nmL := h.FA(hpLocalDev, []uint{0}, 0)
	nmR := h.FA(hpRemoteDev, []uint{0}, 0)
	w.send(model.DatagramType{Header: model.HeaderType{AddressSource: nmR, AddressDestination: nmL, MsgCounter: util.Ptr(model.MsgCounterType(1)),
		MsgCounterReference: util.Ptr(model.MsgCounterType(1)), CmdClassifier: util.Ptr(model.CmdClassifierTypeReply)},
		Payload: model.PayloadType{Cmd: []model.CmdType{{NodeManagementDetailedDiscoveryData: dd}}}})
	for i := range fts {
		w.send(model.DatagramType{Header: model.HeaderType{AddressSource: nmR, AddressDestination: nmL, MsgCounter: util.Ptr(model.MsgCounterType(2 + i)),
			CmdClassifier: util.Ptr(model.CmdClassifierTypeCall), AckRequest: util.Ptr(true)},
			Payload: model.PayloadType{Cmd: []model.CmdType{{NodeManagementBindingRequestCall: spine.NewNodeManagementBindingRequestCallType(
				h.FA(hpRemoteDev, []uint{1}, uint(i+1)), srv[i].Address(), fts[i])}}}})
	}
	for i := range fts {
		rf := w.rd.FeatureByAddress(h.FA(hpRemoteDev, []uint{1}, uint(i+1)))
		w.st = append(w.st, &hpStore{t: x.types[hpFlagTypes[i]], lf: srv[i], rf: rf})
	}
	w.st = append(w.st, &hpStore{t: x.types[hpFlagTypes[0]], lf: cli, rf: w.rd.FeatureByAddress(h.FA(hpRemoteDev, []uint{1}, 4)), remote: true})
	for _, s := range w.st {
		s.d = h.StartDriver("drv_heap")
		s.d.Ask(x.cfg)
		s.d.Ask(s.t.shape)
		w.drvs = append(w.drvs, s.d)
	}
	spine.Events.Subscribe(w.ev)
	w.base = h.Baseline()
	w.wr.Take()
	w.ev.take()
	return w
}

func (w *hpWorld) close() {
	spine.Events.Unsubscribe(w.ev)
	for _, d := range w.drvs {
		d.Close()
	}
}

func (w *hpWorld) send(d model.DatagramType) (pan any) {
	b, err := json.Marshal(model.Datagram{Datagram: d})
	if err != nil {
		panic(err)
	}
	return h.Recover(func() { _, _ = w.rd.HandleSpineMesssage(b) })
}

func (w *hpWorld) ok() bool {
	for _, s := range w.st {
		if s.rf == nil || s.lf == nil {
			return false
		}
	}
	return len(w.local.BindingManager().Bindings(w.rd)) == 3
}

// datagram with a list payload and filters, as a peer would send it
// hpArrJudgeable: the SPEC can read the filter list without choosing between entries (at most one partial and one
// delete filter, none with both tags, the write's own filters present)
func hpArrJudgeable(arr string, wr *hpWrite) bool {
	if strings.ContainsAny(arr, "PDb") || strings.Count(arr, "p") > 1 || strings.Count(arr, "d") > 1 {
		return false
	}
	return (wr.fpk == "N" || strings.Contains(arr, "p")) && (wr.fdk == "N" || strings.Contains(arr, "d"))
}

func (w *hpWorld) dataDatagram(s *hpStore, cls model.CmdClassifierType, wr *hpWrite, arr string) (model.DatagramType, uint64) {
	t := s.t
	cmd := model.CmdType{}
	reflect.ValueOf(&cmd).Elem().Field(t.cmdField).Set(reflect.ValueOf(t.encList(wr.items)))
	var fl []model.FilterType
	for _, ch := range arr {
		switch ch {
		case 'p', 'b':
			if f := t.filter(false, wr.fpk, wr.fps, wr.fpe); f != nil {
				if ch == 'b' {
					f.CmdControl.Delete = &model.ElementTagType{}
				}
				fl = append(fl, *f)
			}
		case 'd':
			if f := t.filter(true, wr.fdk, wr.fds, wr.fde); f != nil {
				fl = append(fl, *f)
			}
		case 'P':
			fl = append(fl, model.FilterType{CmdControl: &model.CmdControlType{Partial: &model.ElementTagType{}}})
		case 'D':
			fl = append(fl, model.FilterType{CmdControl: &model.CmdControlType{Delete: &model.ElementTagType{}}})
		case 'o':
			fl = append(fl, model.FilterType{})
		case 'e':
			fl = append(fl, model.FilterType{CmdControl: &model.CmdControlType{}})
		default:
			panic("bad filter arrangement " + arr)
		}
	}
	if len(fl) > 0 {
		cmd.Filter = fl
		cmd.Function = util.Ptr(t.fn)
	}
	w.ctr++
	hd := model.HeaderType{AddressSource: s.rf.Address(), AddressDestination: s.lf.Address(), MsgCounter: util.Ptr(model.MsgCounterType(w.ctr)),
		CmdClassifier: &cls, AckRequest: util.Ptr(true)}
	if cls == model.CmdClassifierTypeReply {
		hd.MsgCounterReference = util.Ptr(model.MsgCounterType(7))
	}
	return model.DatagramType{Header: hd, Payload: model.PayloadType{Cmd: []model.CmdType{cmd}}}, w.ctr
}

// result: the error number of the result datagram that references ctr (-1: none)
func (w *hpWorld) result(ctr uint64) int {
	res := -1
	for _, m := range w.wr.Take() {
		var d model.Datagram
		if json.Unmarshal(m, &d) != nil {
			continue
		}
		hd := d.Datagram.Header
		if hd.CmdClassifier == nil || *hd.CmdClassifier != model.CmdClassifierTypeResult || hd.MsgCounterReference == nil || uint64(*hd.MsgCounterReference) != ctr {
			continue
		}
		if len(d.Datagram.Payload.Cmd) == 1 && d.Datagram.Payload.Cmd[0].ResultData != nil && d.Datagram.Payload.Cmd[0].ResultData.ErrorNumber != nil {
			res = int(*d.Datagram.Payload.Cmd[0].ResultData.ErrorNumber)
		}
	}
	return res
}

func (s *hpStore) read() [][]int {
	if s.remote {
		return s.t.decAny(s.rf.DataCopy(s.t.fn))
	}
	return s.t.decAny(s.lf.DataCopy(s.t.fn))
}

func (w *hpWorld) history(r *h.Report, x *hpRun, ops []string) bool {
	if len(ops) == 0 || ops[0] != "world" || !w.ok() {
		return true
	}
	done := []string{"world"}
	// empty every store (a filter-less update replaces) and restart the models
	for i, s := range w.st {
		empty := &hpWrite{persist: true, fpk: "N", fdk: "N"}
		if s.remote {
			dg, _ := w.dataDatagram(s, model.CmdClassifierTypeNotify, empty, "dp")
			w.send(dg)
		} else {
			s.lf.SetData(s.t.fn, s.t.encList(nil))
		}
		s.d.Ask("reset")
		s.d.Ask(empty.line())
		s.hs = nil
		_ = i
	}
	w.ent.RemoveAllUseCaseSupports()
	w.ucs = nil
	h.Settle(w.base)
	w.wr.Take()
	w.ev.take()
	var alts []int
	changed := 0
	for oi, op := range ops[1:] {
		f := strings.Fields(op)
		if len(f) == 0 || strings.HasPrefix(op, "#") {
			continue
		}
		if f[0] == "alt" {
			alts = nil
			for _, k := range f[1:] {
				n, _ := strconv.Atoi(k)
				alts = append(alts, n)
			}
			done = append(done, op)
			continue
		}
		var s *hpStore
		var wr *hpWrite
		arr, arr2 := "dp", ""
		kind := f[0]
		if strings.HasPrefix(kind, "uc") {
			done = append(done, op)
			w.usecase(r, done, f)
			continue
		}
		switch kind {
		case "lset", "lupd", "lcopy", "write":
			si, _ := strconv.Atoi(f[1])
			s = w.st[si%3]
		case "notify", "reply", "rupd", "rcopy":
			s = w.st[3]
		default:
			panic("bad world op " + op)
		}
		t := s.t
		switch kind {
		case "lset":
			wr = &hpWrite{persist: true, items: hpParseList(f[2]), fpk: "N", fdk: "N"}
		case "lupd", "write":
			if kind == "write" && len(f) == 10 {
				arr, f = f[9], f[:9]
			}
			wr = hpParseWrite(append([]string{"upd", h_itoa(kind == "write"), "1"}, f[2:]...))
		case "notify", "reply":
			if len(f) == 9 {
				arr, f = f[8], f[:8]
			}
			wr = hpParseWrite(append([]string{"upd", "0", "1"}, f[1:]...))
		case "rupd":
			wr = hpParseWrite(append([]string{"upd", "0"}, f[1:]...))
		}
		done = append(done, op)
		reg := func(id, hk string, val any) *hpHandle {
			hd := &hpHandle{id: id, kind: hk, val: val, abs: t.decAny(val), js: hpJSON(val)}
			s.hs = append(s.hs, hd)
			return hd
		}
		if wr == nil { // lcopy / rcopy
			var v any
			if s.remote {
				v = s.rf.DataCopy(t.fn)
			} else {
				v = s.lf.DataCopy(t.fn)
			}
			id := s.d.Ask("copy")
			r.Eval("w:copy", "")
			isNil := v == nil || reflect.ValueOf(v).IsNil()
			if isNil != (id == "nil") {
				r.Mismatch(done, fmt.Sprint("nil=", isNil), id, "world: DataCopy nil-ness")
				return false
			}
			if !isNil {
				reg(id, "copy", v)
			}
			continue
		}
		before := s.read()
		var v hpVerdict = hpOK
		var input, ret any
		notePanic := ""
		switch kind {
		case "lset":
			input = t.encList(wr.items)
			if p := h.Recover(func() { s.lf.SetData(t.fn, input) }); p != nil {
				v = hpPanic
			}
		case "lupd":
			input = t.encList(wr.items)
			var err *model.ErrorType
			if p := h.Recover(func() {
				err = s.lf.UpdateData(t.fn, input, t.filter(false, wr.fpk, wr.fps, wr.fpe), t.filter(true, wr.fdk, wr.fds, wr.fde))
			}); p != nil {
				v = hpPanic
				notePanic = fmt.Sprint(p)
			} else if err != nil {
				v = hpErr
			}
		case "rupd":
			input = t.encList(wr.items)
			var err *model.ErrorType
			if p := h.Recover(func() {
				ret, err = s.rf.UpdateData(wr.persist, t.fn, input, t.filter(false, wr.fpk, wr.fps, wr.fpe), t.filter(true, wr.fdk, wr.fds, wr.fde))
			}); p != nil {
				v = hpPanic
			} else if err != nil {
				v, ret = hpErr, nil
			}
		case "write", "notify", "reply":
			cls := map[string]model.CmdClassifierType{"write": model.CmdClassifierTypeWrite, "notify": model.CmdClassifierTypeNotify, "reply": model.CmdClassifierTypeReply}[kind]
			if i := strings.Index(arr, "|"); i >= 0 {
				arr, arr2 = arr[:i], arr[i+1:]
			}
			dg, ctr := w.dataDatagram(s, cls, wr, arr)
			pan := w.send(dg)
			h.Settle(w.base)
			res := w.result(ctr)
			switch {
			case pan != nil:
				v = hpPanic
			case res == 0:
				v = hpOK
			case res > 0:
				v = hpErr
			default:
				r.Mismatch(done, "no result datagram", "a result (ack was requested)", "world: "+op)
				return false
			}
			for _, p := range w.ev.take() {
				// the payload of this very datagram (guard against a late event of an earlier step)
				if p.Function == t.fn && hpEqList(t.decAny(p.Data), wr.items) {
					input = p.Data
				}
			}
		}
		h.Settle(w.base)
		mline := wr.line()
		if arr != "dp" {
			mline = "updl" + strings.TrimPrefix(mline, "upd")
			mf := strings.Fields(mline)
			mline = strings.Join(append(append(append([]string{}, mf[:4]...), arr), mf[4:]...), " ")
		}
		want := strings.Fields(s.d.Ask(mline))
		judge := hpArrJudgeable(arr, wr)
		r.Eval("w:"+kind+":"+t.shapeName(wr)+":"+hpVerdictS(v), "")
		// a local update whose notification cannot be built panics after the data was updated
		// (NotifyOrWriteCmdType with a delete selector / elements: the finding of C02/C08/C18)
		if kind == "lupd" && v == hpPanic && want[0] == "ok=1" && wr.fdk == "F" {
			w.notes["local update applied, then panic while building the notification: "+notePanic]++
			v = hpOK
		}
		// SPEC monitors first (implementation only)
		var after [][]int
		if v != hpPanic {
			after = s.read()
			for _, hd := range s.hs {
				if hpJSON(hd.val) != hd.js {
					changed++
				}
			}
			if judge {
				t.c11Handles(r, done, wr, s.hs)
				t.c11Store(r, done, wr, before, after, v)
				t.c04(r, done, wr, before, after, v)
				t.c04Lean(s.d, r, done, wr, before, after, v)
			} else {
				// which entries of the list count is the implementation's choice: only the correspondence judges;
				// retained values are re-based so that later steps are attributed to their own op
				for _, hd := range s.hs {
					hd.abs, hd.js = t.decAny(hd.val), hpJSON(hd.val)
				}
			}
			// Cmd.ExtractFilter must not depend on the order of the filter list: the same write, the list arranged
			// differently, on the same data
			if kind == "write" && arr2 != "" && oi == len(ops)-2 && hpArrJudgeable(arr2, wr) {
				s.lf.SetData(t.fn, t.encList(before))
				dg, ctr := w.dataDatagram(s, model.CmdClassifierTypeWrite, wr, arr2)
				pan := w.send(dg)
				h.Settle(w.base)
				res := w.result(ctr)
				w.ev.take()
				v2 := hpOK
				if pan != nil {
					v2 = hpPanic
				} else if res != 0 {
					v2 = hpErr
				}
				after2 := s.read()
				r.Eval("w:order-twin:"+hpVerdictS(v)+"/"+hpVerdictS(v2), "")
				if v2 != v || !hpEqList(after, after2) {
					r.SpecFail("C04/filter-order-dependent", done, fmt.Sprintf("%s: the same write on %s with its filter list arranged %q is answered %s and leaves %s, arranged %q it is answered %s and leaves %s", t.fn, hpListS(before), arr, hpVerdictS(v), hpListS(after), arr2, hpVerdictS(v2), hpListS(after2)))
				}
				// put the world back to the state the model is in
				s.lf.SetData(t.fn, t.encList(after))
				s.d.Ask((&hpWrite{persist: true, items: after, fpk: "N", fdk: "N"}).line())
				s.hs = nil
			}
		}
		if hpVerdictS(v) != want[0] {
			r.Mismatch(done, hpVerdictS(v), strings.Join(want, " "), fmt.Sprintf("world: verdict of %s (%s)", op, t.fn))
			return false
		}
		if v == hpPanic {
			r.Traces++
			return true
		}
		inID, retID := strings.TrimPrefix(want[1], "in="), strings.TrimPrefix(want[2], "ret=")
		if input != nil {
			hk := "input"
			if kind == "write" || kind == "notify" || kind == "reply" {
				hk = "payload"
			}
			reg(inID, hk, input)
		}
		if kind == "rupd" && retID != "nil" && retID != inID && ret != nil {
			reg(retID, "ret", ret)
		}
		// correspondence: every retained value and the store
		parts := strings.Split(s.d.Ask("dump"), "|")
		for _, hd := range s.hs {
			id, _ := strconv.Atoi(hd.id)
			wantS := "?"
			if id < len(parts) {
				wantS = parts[id]
			}
			r.Eval("w:read", "")
			if got := hpListS(t.decAny(hd.val)); got != wantS {
				r.Mismatch(done, got, wantS, fmt.Sprintf("world: retained value %s (%s) of %s after %s", hd.id, hd.kind, t.fn, op))
				return false
			}
		}
		if got, wantS := hpListS(after), s.d.Ask("store"); got != wantS {
			r.Mismatch(done, got, wantS, fmt.Sprintf("world: data of %s after %s", t.fn, op))
			return false
		}
		if kind == "write" && oi == len(ops)-2 {
			for _, k := range alts {
				s2 := t.mutateUnaddressed(wr, before, k)
				if s2 == nil {
					r.Eval("w:twin:none", "")
					continue
				}
				s.lf.SetData(t.fn, t.encList(s2))
				dg, ctr := w.dataDatagram(s, model.CmdClassifierTypeWrite, wr, arr)
				pan := w.send(dg)
				h.Settle(w.base)
				res := w.result(ctr)
				w.ev.take()
				v2 := hpOK
				if pan != nil {
					continue
				} else if res != 0 {
					v2 = hpErr
				}
				after2 := s.read()
				tops := append(append([]string{}, done...), fmt.Sprintf("# twin %d: store %s", k, hpListS(s2)))
				r.Eval("w:twin:"+hpVerdictS(v)+"/"+hpVerdictS(v2), "")
				t.c04(r, tops, wr, s2, after2, v2)
				if v != v2 {
					fn := hpPartialFn(t.partialPart(wr))
					if wr.deletePart() != "" {
						fn = "deleteFilteredData"
					}
					rejecting := before
					if v2 == hpErr {
						rejecting = s2
					}
					key := "C04/unaddressed-influences-verdict:" + fn
					for _, e := range rejecting {
						if !t.addressed(wr, e) && !t.writable(e) {
							key = "C04/unaddressed-unwritable-blocks:" + fn
						}
					}
					r.SpecFail(key, tops, fmt.Sprintf("%s: the same write datagram is answered %s on %s and %s on %s, which differ only in elements it does not address", t.fn, hpVerdictS(v), hpListS(before), hpVerdictS(v2), hpListS(s2)))
				}
			}
		}
		alts = nil
	}
	r.Traces++
	if changed > 0 {
		r.Case(strings.Join(ops, "; "))
	}
	return true
}

// usecase: the helpers of EntityLocal read NodeManagementUseCaseData through DataCopy (one level), modify
// the copy and store it back; a DataCopy the application retained must not change (C11).
func (w *hpWorld) usecase(r *h.Report, done []string, f []string) {
	nm := w.local.NodeManagement()
	names := []model.UseCaseNameType{model.UseCaseNameTypeLimitationOfPowerConsumption, model.UseCaseNameTypeLimitationOfPowerProduction, model.UseCaseNameTypeMonitoringOfPowerConsumption}
	k := 0
	if len(f) > 1 {
		k, _ = strconv.Atoi(f[1])
	}
	name := names[k%len(names)]
	helper := ""
	switch f[0] {
	case "uccopy":
		v := nm.DataCopy(model.FunctionTypeNodeManagementUseCaseData)
		if v != nil && !reflect.ValueOf(v).IsNil() {
			w.ucs = append(w.ucs, &hpHandle{id: strconv.Itoa(len(w.ucs)), kind: "copy", val: v, js: hpJSON(v)})
		}
	case "ucadd":
		helper = "AddUseCaseSupport"
		w.ent.AddUseCaseSupport(model.UseCaseActorTypeCEM, name, model.SpecificationVersionType("1.0.0"), "release", true, []model.UseCaseScenarioSupportType{1, 2})
	case "ucavail":
		helper = "SetUseCaseAvailability"
		w.ent.SetUseCaseAvailability(model.UseCaseActorTypeCEM, name, len(f) > 2 && f[2] == "1")
	case "ucrm":
		helper = "RemoveUseCaseSupport"
		w.ent.RemoveUseCaseSupport(model.UseCaseActorTypeCEM, name)
	default:
		panic("bad world op " + strings.Join(f, " "))
	}
	r.Eval("w:"+f[0], "")
	for _, hd := range w.ucs {
		if js := hpJSON(hd.val); js != hd.js {
			r.SpecFail("C11/usecase-helper-inplace:"+helper, done, fmt.Sprintf("a retained DataCopy of nodeManagementUseCaseData read %s and reads %s after %s", hd.js, js, strings.Join(f, " ")))
			hd.js = js
		}
	}
}

func h_itoa(b bool) string {
	if b {
		return "1"
	}
	return "0"
}

// ---------------------------------------------------------------- corpus, grid sample and random histories of the world

func hpWorldCorpus(x *hpRun) [][]string {
	t := x.types[hpFlagTypes[0]]
	c0, f1, c2 := t.it(0, 1, 1), t.it(1, 0, 2), t.it(2, 1, 0)
	fl := func(items [][]int, fpk string, fps []int, fdk string, fds, fde []int) string {
		return strings.TrimPrefix((&hpWrite{items: items, fpk: fpk, fps: fps, fdk: fdk, fds: fds, fde: fde}).line(), "upd 0 0 ")
	}
	L := func(items ...[]int) [][]int { return items }
	v0 := t.vals[0]
	set := "lset 0 " + hpListS(L(c0, f1))
	return [][]string{
		// C04a: full write datagram replaces the unchangeable limit
		{"world", set, "write 0 " + fl(L(t.it(1, 1, 0)), "N", nil, "N", nil, nil)},
		// C04b: partial write addressing only the changeable limit is answered with an error
		{"world", set, "alt 0 2", "write 0 " + fl(L(t.it(0, -1, 2)), "E", nil, "N", nil, nil)},
		{"world", set, "alt 0 2", "write 0 " + fl(nil, "N", nil, "F", t.selOf(0), nil)},
		// C04c: error result, data changed
		{"world", set, "write 0 " + fl(L(t.it(-1, -1, 2)), "E", nil, "N", nil, nil)},
		{"world", "lset 0 " + hpListS(L(f1, c2)), "write 0 " + fl(L(t.it(-1, -1, 2)), "F", t.selOf(-1), "N", nil, nil)},
		{"world", set, "write 0 " + fl(nil, "N", nil, "F", nil, t.elOf(v0))},
		// success although the element cannot be added; flags altered
		{"world", "lset 0 " + hpListS(L(c0)), "write 0 " + fl(L(t.it(5, -1, 2)), "E", nil, "N", nil, nil)},
		{"world", "lset 0 " + hpListS(L(c0, c2)), "write 0 " + fl(L(t.it(-1, 0)), "E", nil, "N", nil, nil)},
		// C11: snapshot of the local feature changes under a later selector write; event payload of a full
		// write is the stored value and changes under a later partial write
		{"world", set, "lcopy 0", "write 0 " + fl(L(t.it(-1, -1, 2)), "F", t.selOf(0), "N", nil, nil)},
		{"world", "lset 0 " + hpListS(L(c0, c2)), "write 0 " + fl(L(c0, c2), "N", nil, "N", nil, nil), "write 0 " + fl(L(t.it(0, -1, 2)), "E", nil, "N", nil, nil)},
		// C11 on the remote feature: full notify, snapshot, partial notifies of every shape, non-persisting use-case call
		{"world", "notify " + fl(L(c0, f1), "N", nil, "N", nil, nil), "rcopy", "notify " + fl(L(t.it(-1, -1, 2)), "F", t.selOf(0), "N", nil, nil),
			"rcopy", "notify " + fl(L(t.it(-1, -1, 0)), "E", nil, "N", nil, nil), "rcopy", "notify " + fl(nil, "N", nil, "F", nil, t.elOf(v0)),
			"rupd 0 " + fl(L(t.it(-1, -1, 1)), "N", nil, "N", nil, nil), "reply " + fl(L(t.it(2, 1, 2)), "E", nil, "N", nil, nil)},
		// Cmd.ExtractFilter: partial filter BEFORE the delete filter, foreign entries anywhere - same outcome as [delete, partial]
		{"world", "lset 0 " + hpListS(L(c0, t.it(1, 1, 2), c2)), "write 0 " + fl(L(t.it(1, -1, 0)), "E", nil, "F", t.selOf(0), nil) + " pd|dp"},
		{"world", "lset 0 " + hpListS(L(c0, t.it(1, 1, 2), c2)), "write 0 " + fl(L(t.it(-1, -1, 0)), "F", t.selOf(2), "F", t.selOf(0), nil) + " opde|edpo"},
		{"world", "notify " + fl(L(c0, t.it(1, 1, 2), c2), "N", nil, "N", nil, nil), "notify " + fl(L(t.it(1, -1, 0)), "E", nil, "F", t.selOf(0), nil) + " pd",
			"reply " + fl(L(t.it(2, -1, 1)), "E", nil, "F", t.selOf(1), nil) + " pod"},
		// lists with two filters of a kind / an entry with both tags: the model follows the code's choice (the last of a kind; both tags = partial)
		{"world", "lset 0 " + hpListS(L(c0, t.it(1, 1, 2), c2)), "write 0 " + fl(L(t.it(-1, -1, 0)), "F", t.selOf(2), "F", t.selOf(0), nil) + " dpP",
			"write 0 " + fl(L(t.it(-1, -1, 1)), "F", t.selOf(2), "F", t.selOf(1), nil) + " Ddp", "write 0 " + fl(L(t.it(2, -1, 0)), "E", nil, "F", t.selOf(1), nil) + " bd"},
		// C11: a retained copy of the use-case data changes when a use-case helper runs later
		{"world", "ucadd 0", "uccopy", "ucadd 1"},
		{"world", "ucadd 0", "uccopy", "ucavail 0 0"},
		{"world", "ucadd 0", "ucadd 1", "uccopy", "ucrm 1", "ucrm 0", "ucadd 2"},
	}
}

var hpArrs = []string{"pd", "dp", "opd", "dpe", "pod", "epdo", "dop", "dpP", "Ppd", "dDp", "Dpd", "bd", "db", "pdb"}

func hpWorldGen(g *hpGen, types []*hpType, n int) []string {
	rng := g.rng
	ops := []string{"world"}
	arrOf := func() string {
		if rng.Intn(2) == 0 {
			return ""
		}
		if rng.Intn(4) > 0 {
			return " " + hpArrs[rng.Intn(7)]
		}
		return " " + hpArrs[rng.Intn(len(hpArrs))]
	}
	tail := func(w *hpWrite) string {
		return strings.TrimPrefix(w.line(), fmt.Sprintf("upd %d %d ", h.B2i(w.remote), h.B2i(w.persist)))
	}
	for len(ops) < n {
		si := rng.Intn(4)
		if rng.Intn(12) == 0 {
			ops = append(ops, []string{"uccopy", fmt.Sprintf("ucadd %d", rng.Intn(3)), fmt.Sprintf("ucavail %d %d", rng.Intn(3), rng.Intn(2)), fmt.Sprintf("ucrm %d", rng.Intn(3))}[rng.Intn(4)])
			continue
		}
		if si == 3 {
			g.t = types[0]
			switch x := rng.Intn(10); {
			case x < 2:
				ops = append(ops, "rcopy")
			case x < 4:
				ops = append(ops, "notify "+tail(&hpWrite{items: g.list(4, 1, true), fpk: "N", fdk: "N"}))
			case x < 8:
				w := g.write()
				ops = append(ops, []string{"notify ", "reply "}[rng.Intn(2)]+tail(w)+arrOf())
			default:
				w := g.write()
				ops = append(ops, fmt.Sprintf("rupd %d %s", rng.Intn(2), tail(w)))
			}
			continue
		}
		g.t = types[si]
		switch x := rng.Intn(10); {
		case x < 2:
			ops = append(ops, fmt.Sprintf("lcopy %d", si))
		case x < 4:
			ops = append(ops, fmt.Sprintf("lset %d %s", si, hpListS(g.list(4, 1, true))))
		case x < 6:
			ops = append(ops, fmt.Sprintf("lupd %d %s", si, tail(g.write())))
		default:
			ops = append(ops, fmt.Sprintf("write %d %s%s", si, tail(g.write()), arrOf()))
		}
	}
	return ops
}

func hpWorldRun(r *h.Report, x *hpRun) {
	w := hpNewWorld(x)
	defer w.close()
	if !w.ok() {
		r.Mismatch([]string{"world"}, "world setup failed (discovery / bindings)", "three bound server features and a remote server feature", "composed world")
		return
	}
	for _, ops := range hpWorldCorpus(x) {
		w.history(r, x, ops)
	}
	rng := h.Rng(412)
	var ts []*hpType
	for _, fn := range hpFlagTypes {
		ts = append(ts, x.types[fn])
	}
	// sample of the C04 grid through write datagrams
	for si, ty := range ts {
		stores, writes := hpGridStores(ty), hpGridWrites(ty)
		for i := 0; i < h.Scale(150, 3000); i++ {
			s, wr := stores[rng.Intn(len(stores))], writes[rng.Intn(len(writes))]
			tail := strings.TrimPrefix(wr.line(), "upd 1 1 ")
			w.history(r, x, []string{"world", fmt.Sprintf("lset %d %s", si, hpListS(s)), "alt 0 1 2 3", fmt.Sprintf("write %d %s", si, tail)})
		}
	}
	// commands that carry BOTH filters: every such write of the grid x stores x arrangements of the filter list,
	// each compared with the same write arranged the other way round
	pairs := []string{"pd|dp", "dp|pd", "opd|dpo", "pdo|odp", "epod|dope", "pod|dop"}
	for si, ty := range ts {
		stores := hpGridStores(ty)
		for _, wr := range hpGridWrites(ty) {
			if wr.fpk == "N" || wr.fdk == "N" {
				continue
			}
			tail := strings.TrimPrefix(wr.line(), "upd 1 1 ")
			for i := 0; i < h.Scale(12, 120); i++ {
				s := stores[len(stores)-1-rng.Intn(216)] // three elements
				if rng.Intn(2) == 0 {                    // all of them changeable: the write is accepted
					s = [][]int{ty.it(0, 1, rng.Intn(2)), ty.it(1, 1, 1), ty.it(2, 1, rng.Intn(2))}
				}
				w.history(r, x, []string{"world", fmt.Sprintf("lset %d %s", si, hpListS(s)), fmt.Sprintf("write %d %s %s", si, tail, pairs[rng.Intn(len(pairs))])})
			}
		}
	}
	g := &hpGen{rng: rng}
	for i := 0; i < h.Scale(120, 3000); i++ {
		w.history(r, x, hpWorldGen(g, ts, 10+rng.Intn(21)))
	}
	for k, n := range w.notes {
		r.Info["world: "+k] = n
	}
	// minimise the witnesses found in the world (same world, stores are emptied by the leading `world` op)
	for _, sf := range append([]h.SpecFailure{}, r.SpecFailures...) {
		if len(sf.Ops) < 5 || sf.Ops[0] != "world" {
			continue
		}
		key := sf.Key
		small := h.Shrink(hpStripComments(sf.Ops), func(ops []string) bool {
			q := h.Quiet()
			w.history(q, x, ops)
			return q.HasSpecFail(key)
		})
		r.ReplaceSpecFailOps(key, small)
	}
	if len(r.Mismatches) > 0 && len(r.Mismatches[0].Ops) > 0 && r.Mismatches[0].Ops[0] == "world" {
		mm := r.Mismatches[0]
		small := h.Shrink(hpStripComments(mm.Ops), func(ops []string) bool {
			q := h.Quiet()
			w.history(q, x, ops)
			return q.MismatchN > 0
		})
		q := h.Quiet()
		w.history(q, x, small)
		if q.MismatchN > 0 {
			r.ReplaceMismatch(0, small, q.Mismatches[0].Impl, q.Mismatches[0].Model)
		}
	}
}

func hpWorldReplay(r *h.Report, x *hpRun, ops []string) {
	w := hpNewWorld(x)
	defer w.close()
	w.history(r, x, hpStripComments(ops))
}
