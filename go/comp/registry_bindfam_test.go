package comp

// C09, schedule clause inside the registry family — binding requests with the
// REAL lookups, role and type checks (valid, wrong role, wrong type, unknown
// client / server, Generic client, several servers) of 2-4 peers with identical
// numbering, each request a goroutine that parks at the yield point
// "AddBinding.checked" (after the server check, before the client lookup, the
// id draw and the one region of c.mux) and is released in the order of the
// event list, with binding deletes and list reads in between. Compared event by
// event — answers, the registry per peer and the EXACT ids (drawn outside the
// lock, in release order, consumed by a request that is refused afterwards) —
// with the event model Spine.BindSched (driver drv_bindfam), the model of
// C09.c09_linearisable / c09_at_most_one_schedules_family / c09_ids_never_reused.
// SPEC monitor: never two bindings on a server feature, granted = registered,
// ids pairwise distinct and never reused.

import (
	"encoding/json"
	"fmt"
	"strconv"
	"strings"
	"testing"
	"time"

	"github.com/enbility/spine-go/model"
	"github.com/enbility/spine-go/spine"
	"github.com/enbility/spine-go/util"
	"verifharness/h"
)

// runBindFam executes one event list. ops[0] = "peers N"; events: "start k p ce cf se sf typ", "finish k",
// "unbind p cd ce cf se sf", "binds p".
func runBindFam(r *h.Report, d *h.Driver, ev *regEvents, base int, ops []string) {
	np, _, _ := regHeader(ops[0])
	w := newRegWorld(np, ev, base)
	var cur *bschedOp
	spine.VerifYield = func(site string) {
		if site != "AddBinding.checked" || cur == nil {
			return
		}
		o := cur
		o.parked <- struct{}{}
		<-o.release
	}
	all := map[int]*bschedOp{}
	defer func() {
		for _, o := range all {
			if o.isParked {
				close(o.release)
				<-o.done
			}
		}
		spine.VerifYield = nil
		w.close()
	}()
	if d != nil {
		d.Ask("reset")
	}
	result := func(o *bschedOp) string {
		w.out = append(w.out, w.log.take()...)
		return "ret " + w.resultFor(o.peer, o.ctr)
	}
	oks, dels := 0, 0
	seenIds := map[uint64]string{} // every id ever observed in the registry -> the pair it named
	done := []string{ops[0]}
	for _, op := range ops[1:] {
		f := strings.Fields(op)
		if len(f) == 0 {
			continue
		}
		atoi := func(i int) int { n, _ := strconv.Atoi(f[i]); return n }
		var impl, kind string
		done = append(done, op)
		switch f[0] {
		case "start":
			if len(f) != 8 {
				panic("bad op " + op)
			}
			k, p := atoi(1), atoi(2)
			if all[k] != nil || p > np {
				done = done[:len(done)-1]
				continue
			}
			w.ctr[p]++
			o := &bschedOp{peer: p, ctr: w.ctr[p], parked: make(chan struct{}), done: make(chan struct{}), release: make(chan struct{}), started: true}
			all[k] = o
			cc := model.CmdClassifierTypeCall
			ack := true
			b, _ := json.Marshal(model.Datagram{Datagram: model.DatagramType{Header: model.HeaderType{AddressSource: h.FA(regDev(p), []uint{0}, 0), AddressDestination: h.FA("HEMS", []uint{0}, 0),
				MsgCounter: util.Ptr(model.MsgCounterType(o.ctr)), CmdClassifier: &cc, AckRequest: &ack}, Payload: model.PayloadType{Cmd: []model.CmdType{
				regCallCmd([]string{"bind", f[2], f[3], f[4], f[5], f[6], f[7]}, 99, -1)}}}})
			cur = o
			rd := w.rds[p]
			go func() {
				defer close(o.done)
				h.Recover(func() { _, _ = rd.HandleSpineMesssage(b) })
			}()
			select {
			case <-o.parked:
				o.isParked = true
				impl = "parked"
			case <-o.done:
				o.ended = true
				impl = result(o)
			case <-time.After(bschedWait):
				impl = "blocked"
			}
			cur = nil
			kind = "start:" + impl
		case "finish":
			o := all[atoi(1)]
			switch {
			case o == nil || o.ended || !o.isParked:
				impl = "-"
			default:
				o.isParked = false
				close(o.release)
				select {
				case <-o.done:
					o.ended = true
					impl = result(o)
				case <-time.After(bschedWait):
					impl = "blocked"
				}
			}
			kind = "finish:" + impl
		case "unbind":
			if atoi(1) > np {
				done = done[:len(done)-1]
				continue
			}
			w.out = nil
			impl = w.call(atoi(1), regCallCmd(f, 99, -1))
			if impl == "ok" {
				dels++
			}
			kind = "unbind:" + impl
		case "binds":
			if atoi(1) > np {
				done = done[:len(done)-1]
				continue
			}
			impl = regShow(w.bindsOf(atoi(1)))
			kind = "binds"
		default:
			panic("bad op " + op)
		}
		if impl == "ret ok" {
			oks++
		}
		// SPEC (C09), on the implementation's own registry after every event
		_, binds := w.snapshot()
		perServer := map[string]int{}
		ids := map[uint64]bool{}
		for _, e := range binds {
			perServer[fmt.Sprintf("%s/%d", e.se, e.sf)]++
			if ids[e.id] {
				r.SpecFail("C09/binding-id-twice", done, fmt.Sprintf("after %s the id %d occurs twice in the registry", op, e.id))
			}
			ids[e.id] = true
			if was, ok := seenIds[e.id]; ok && was != e.pair() {
				r.SpecFail("C09/binding-id-reused", done, fmt.Sprintf("after %s the id %d names %s, earlier it named %s", op, e.id, e.pair(), was))
			}
			seenIds[e.id] = e.pair()
		}
		for s, n := range perServer {
			if n > 1 {
				r.SpecFail("C09/two-bindings-under-interleaving", done, fmt.Sprintf("after %s the server feature %s has %d bindings", op, s, n))
			}
		}
		if len(binds) != oks-dels {
			r.SpecFail("C09/granted-requests-differ-from-registry", done, fmt.Sprintf("after %s: %d requests granted, %d deletes succeeded, %d bindings registered", op, oks, dels, len(binds)))
		}
		if impl == "blocked" {
			r.Mismatch(done, impl, "", "a request neither reached the yield point nor returned within "+bschedWait.String())
			return
		}
		r.Eval(kind, "")
		if d != nil {
			if want := d.Ask(op); impl != want {
				r.Mismatch(done, impl, want, "event "+op)
				return
			}
		}
	}
	r.Traces++
}

// bfamRequests: the request pool — valid tuples (several of them for the same server feature), wrong type, wrong client
// role, wrong server role, unknown client, unknown server
var bfamFaulty = []regTup{{"1", 1, "1", 1, 2}, {"1", 4, "1", 1, 1}, {"1", 1, "1", 3, 1}, {"1", 9, "1", 1, 1}, {"1", 1, "3", 1, 1}, {"2", 1, "2", 2, 4}, {"1", 2, "1", 1, 1}}

func genBindFam(rng regRng, n int) []string {
	np := 2 + rng.Intn(3)
	ops := []string{fmt.Sprintf("peers %d", np)}
	next := 1
	var parked []int
	req := map[int]string{} // request number -> "p ce cf se sf"
	var finished []int
	for len(ops) < n {
		switch x := rng.Intn(10); {
		case x < 4:
			t := regValid[rng.Intn(len(regValid))]
			if rng.Intn(4) == 0 {
				t = bfamFaulty[rng.Intn(len(bfamFaulty))]
			} else if rng.Intn(2) == 0 {
				// aim at the contended servers
				t = []regTup{{"1", 1, "1", 1, 1}, {"1", 3, "1", 1, 1}, {"2", 1, "1", 1, 1}, {"1", 3, "1", 2, 2}, {"1", 2, "1", 2, 2}}[rng.Intn(5)]
			}
			p := 1 + rng.Intn(np)
			ops = append(ops, fmt.Sprintf("start %d %d %s %d %s %d %d", next, p, t.ce, t.cf, t.se, t.sf, t.ty))
			req[next] = fmt.Sprintf("%d 0 %s %d %s %d", p, t.ce, t.cf, t.se, t.sf)
			parked = append(parked, next)
			next++
		case x < 7 && len(parked) > 0:
			i := rng.Intn(len(parked))
			ops = append(ops, fmt.Sprintf("finish %d", parked[i]))
			finished = append(finished, parked[i])
			parked = append(parked[:i], parked[i+1:]...)
		case x < 9 && len(finished) > 0 && rng.Intn(3) > 0:
			// delete what an earlier request (probably) registered
			ops = append(ops, "unbind "+req[finished[rng.Intn(len(finished))]])
		case x < 9:
			t := regValid[rng.Intn(len(regValid))]
			if rng.Intn(2) == 0 {
				t = []regTup{{"1", 1, "1", 1, 1}, {"1", 3, "1", 1, 1}, {"2", 1, "1", 1, 1}, {"1", 3, "1", 2, 2}, {"1", 2, "1", 2, 2}}[rng.Intn(5)]
			}
			ops = append(ops, fmt.Sprintf("unbind %d 0 %s %d %s %d", 1+rng.Intn(np), t.ce, t.cf, t.se, t.sf))
		default:
			ops = append(ops, fmt.Sprintf("binds %d", 1+rng.Intn(np)))
		}
	}
	for _, k := range parked {
		ops = append(ops, fmt.Sprintf("finish %d", k))
	}
	for p := 1; p <= np; p++ {
		ops = append(ops, fmt.Sprintf("binds %d", p))
	}
	return ops
}

// the schedule of the Lean example (Props/C09.lean `sched`): both requests for 1/1 pass their checks before either
// commits; the one released second is refused although it was started first; ids in release order
var bfamWitness = []string{"peers 2", "start 1 1 1 1 1 1 1", "start 2 2 1 1 1 1 1", "start 3 1 1 3 1 2 2", "start 4 2 1 1 1 2 1",
	"finish 2", "finish 3", "finish 1", "binds 1", "binds 2", "unbind 2 0 1 1 1 1", "start 5 1 1 1 1 1 1", "finish 5", "binds 1", "binds 2"}

func TestBindFamily(t *testing.T) {
	r := h.NewReport("bindfam", "binding requests with the real lookups, role and type checks of 2-4 peers with identical numbering, each a goroutine parked at the yield point AddBinding.checked and released in the order of the event list, interleaved with binding deletes and list reads; all orders of start/finish of 2 and 3 requests over a pool of valid and faulty requests, and seeded event lists; compared event by event (answers, per-peer lists, exact ids) with the event model Spine.BindSched; non-trivial = an event list (distinct by text) that agreed to its end")
	defer r.Write()
	ev := &regEvents{}
	_ = spine.Events.Subscribe(ev)
	defer func() { _ = spine.Events.Unsubscribe(ev) }()
	d := h.StartDriver("drv_bindfam")
	defer d.Close()
	base := h.Baseline()
	// member: as written (two bindings under the witness schedule: no model, SPEC only), yield reached, yield not reached
	flags := probeRegFlags(h.Quiet(), ev, base)
	var drv *h.Driver
	{
		q := h.Quiet()
		runBindSchedule(q, nil, ev, base, bschedWitness)
		switch {
		case q.HasSpecFail("C09/two-bindings-under-interleaving"):
			r.Info["model_member"] = "as written (check and insert in separate critical sections): SPEC monitor only"
		case q.Dist["check:parked"] > 0:
			drv = d
			d.Ask("mode 1")
			r.Info["model_member"] = "repaired, yield point after the server check"
		default:
			drv = d
			d.Ask("mode 2")
			r.Info["model_member"] = "repaired, yield point not reached"
		}
	}
	if a := d.Ask(flags.cfgLine()); a != "cfg" {
		panic("drv_bindfam: " + a)
	}
	run := func(ops []string) {
		before := r.Traces
		runBindFam(r, drv, ev, base, ops)
		if r.Traces > before {
			r.Case(strings.Join(ops, "; "))
		}
	}
	if ops := h.ReplayOps("bindfam"); ops != nil {
		run(ops)
		return
	}
	run(bfamWitness)
	// exhaustive: all orders of start / finish of 2 and 3 requests, over request assignments that mix contended valid
	// requests with faulty ones
	reqs := []string{"1 1 1 1 1 1", "2 1 1 1 1 1", "1 1 3 1 1 1", "2 1 1 1 1 2", "1 1 4 1 1 1", "2 1 9 1 1 1", "1 1 3 1 2 2", "3 2 1 1 1 1"}
	for _, pick := range [][]int{{0, 1}, {0, 2}, {1, 4}, {3, 0}, {5, 1}, {0, 6}} {
		for _, il := range bschedInterleavings(2) {
			ops := []string{"peers 3"}
			for _, e := range il {
				k, _ := strconv.Atoi(e[1:])
				if e[0] == 'c' {
					ops = append(ops, fmt.Sprintf("start %d %s", k, reqs[pick[k-1]]))
				} else {
					ops = append(ops, fmt.Sprintf("finish %d", k), "binds 1", "binds 2")
				}
			}
			run(ops)
		}
	}
	for _, pick := range [][]int{{0, 1, 7}, {0, 4, 1}, {2, 1, 6}} {
		for _, il := range bschedInterleavings(3) {
			ops := []string{"peers 3"}
			for _, e := range il {
				k, _ := strconv.Atoi(e[1:])
				if e[0] == 'c' {
					ops = append(ops, fmt.Sprintf("start %d %s", k, reqs[pick[k-1]]))
				} else {
					ops = append(ops, fmt.Sprintf("finish %d", k))
				}
			}
			run(append(ops, "binds 1", "binds 2", "binds 3"))
		}
	}
	rng := h.Rng(9091)
	for i, n := 0, h.Scale(300, 3000); i < n; i++ {
		run(genBindFam(rng, 12+rng.Intn(30)))
	}
	ev.take()
	tot := r.Dist["finish:ret ok"] + r.Dist["finish:ret err"] + r.Dist["start:ret ok"] + r.Dist["start:ret err"]
	r.Floor("requests granted", r.Dist["finish:ret ok"]+r.Dist["start:ret ok"], tot, 0.15)
	r.Floor("requests refused", r.Dist["finish:ret err"]+r.Dist["start:ret err"], tot, 0.15)
	r.Floor("deletes that removed a binding", r.Dist["unbind:ok"], r.Dist["unbind:ok"]+r.Dist["unbind:err"], 0.05)
}
