package comp

// C12 — write approval: correspondence of Spine.Appr (Lean, flagged family) with the
// approval machinery of spine.FeatureLocal (real datagrams, real time.AfterFunc timers,
// verdict goroutines parked at the `ApproveOrDenyWrite.looked-up` yield point), plus the
// SPEC monitor of the property evaluated on the implementation's own trace.
//
// Timing is classified, never hoped for: a verdict counts as "in time" only if the call
// returned less than the approval timeout after the instant *before* the write was
// injected (a Go timer never fires early), and as "late" only after the timeout's error
// result has been observed on the wire. Anything in between is made late by waiting for
// the timeout (an `expire` op is inserted into the executed op list), or the history is
// abandoned (counted in info) when a stall hit the call itself.

import (
	"encoding/json"
	"fmt"
	"math/rand"
	"os"
	"runtime"
	"sort"
	"strconv"
	"strings"
	"sync"
	"sync/atomic"
	"testing"
	"time"

	"github.com/enbility/spine-go/api"
	"github.com/enbility/spine-go/model"
	"github.com/enbility/spine-go/spine"
	"github.com/enbility/spine-go/util"
	"verifharness/h"
)

const (
	aprTimeout   = 100 * time.Millisecond // approval timeout of the features under test
	aprMargin    = 40 * time.Millisecond  // a call is started as "in time" only this long before the timeout
	aprDeadline  = 4 * time.Second        // the timeout's error result must be on the wire this long after the timeout at the latest
	aprSite      = "ApproveOrDenyWrite.looked-up"
	aprTimeoutTx = "write not approved in time by application"

	aprKeyTally      = "C12/tally-reset-approved-writes-time-out"
	aprKeyRaceT      = "C12/verdict-races-timeout-double-outcome"
	aprKeyRaceV      = "C12/verdict-races-verdict-double-outcome"
	aprKeyStale      = "C12/verdict-racing-disconnect-leaves-approval-for-reused-counter"
	aprKeyOldVerdict = "C12/verdict-of-earlier-connection-taken-for-reused-counter"
	aprDenyNumber    = 7
)

var aprWorldSeq int64

// how long after its timeout instant a write may stay without outcome before the wait is given up; shrinks after
// the first such write
var aprDeadlineNow = int64(aprDeadline)

// how long a write waits for its callbacks (goroutines) to be invoked; shrinks after the first miss
var aprPresentBound = int64(2 * time.Second)

// ---------- recording SHIP writer with arrival times

type aprMsg struct {
	t time.Time
	b []byte
}

type aprWriter struct {
	mu   sync.Mutex
	msgs []aprMsg
}

func (w *aprWriter) WriteShipMessageWithPayload(m []byte) {
	t := time.Now()
	w.mu.Lock()
	w.msgs = append(w.msgs, aprMsg{t, append([]byte{}, m...)})
	w.mu.Unlock()
}

func (w *aprWriter) take() []aprMsg {
	w.mu.Lock()
	defer w.mu.Unlock()
	m := w.msgs
	w.msgs = nil
	return m
}

// ---------- the world: one local device, one server feature per peer

type aprOutcome struct {
	kind string // applied | derr | terr
	step int
	at   time.Duration // since the write's t0
}

type aprVerdict struct {
	cb      int
	approve bool
	// effective tells whether, by the harness's own clock and observations, the verdict was committed while the
	// write had no outcome yet and its timeout had not passed; raceWith names what had resolved the write when a
	// verdict that had looked the write up in time committed too late ("timeout" / "verdict")
	effective bool
	raceWith  string
	step      int
}

type aprWrite struct {
	p          int
	c          uint64
	epoch      int                                 // which connection of the peer carried it (counters restart with every connection)
	shape      string                              // full | pid | psel | pall | dsel | dele
	data       *model.LoadControlLimitListDataType // the payload object the callbacks (and the data change event) see
	digBefore  string                              // digest of the feature's data before the write was injected
	digAt      map[int]string                      // ... inside callback i, when the write was presented
	oldVerdict bool                                // a verdict for the message of an earlier connection with this counter was delivered while this write (or its successor) was there
	gone       bool                                // the connection that carried it has been removed
	dropped    bool                                // ... while the write had no outcome
	afterDrop  []string                            // what was observed for it after that
	ack        bool
	chg        bool // applying the payload is known to change the data (a value no other write carries, an item not yet deleted)
	acksSeen   int  // success results attributed to it (on the connection they were seen on)
	acksRep    int
	dataRep    int // 'applied' outcomes whose data change has been reported
	t0         time.Time
	msgs       map[int]*api.Message // callback index -> the message it was handed
	presented  map[int]int
	outcomes   []aprOutcome
	reported   int
	successes  int // result datagrams with error number 0
	verdicts   []aprVerdict
	timeoutAt  time.Duration // when the timeout's result was seen (0 = not seen)
	expired    bool          // the model has been told about the timeout
	early      bool
}

func (w *aprWrite) resolved() bool { return len(w.outcomes) > 0 }
func (w *aprWrite) name() string {
	return fmt.Sprintf("write %d of peer %d (connection %d, %s)", w.c, w.p, w.epoch, w.shape)
}

// aprConn: one connection of a peer (same SKI, a fresh DeviceRemote, sender and counter space each time)
type aprConn struct {
	p, epoch int
	wr       *aprWriter
	rdev     api.DeviceRemoteInterface
	writes   map[uint64]*aprWrite
	closed   bool
}

type aprWorld struct {
	id      string
	nCb     int
	nPeers  int
	l       *spine.DeviceLocal
	f       [2]api.FeatureLocalInterface
	conn    [2]*aprConn // current connection of each peer (nil: never connected)
	conns   []*aprConn  // all connections ever made
	mu      sync.Mutex
	byData  map[*model.LoadControlLimitListDataType]*aprWrite
	order   []*aprWrite
	step    int
	lastDig [2]string // digest of each feature's data at the last observation
	strange []string  // observations that fit no write
	// the immediate-verdict phase does its own book-keeping: set before any write is injected
	instant   func(p, cb int, m *api.Message)
	onApplied func(p int, d *model.LoadControlLimitListDataType)
}

func (w *aprWorld) HandleEvent(p api.EventPayload) {
	// core level: called synchronously inside Publish, must not publish
	if p.EventType != api.EventTypeDataChange || p.CmdClassifier == nil || *p.CmdClassifier != model.CmdClassifierTypeWrite {
		return
	}
	for i := 0; i < w.nPeers; i++ {
		if p.LocalFeature == w.f[i] {
			// the event carries the payload object of the write that was applied
			d, _ := p.Data.(*model.LoadControlLimitListDataType)
			if w.onApplied != nil {
				w.onApplied(i, d)
				continue
			}
			w.mu.Lock()
			if wr := w.byData[d]; wr != nil && wr.p == i {
				if wr.dropped {
					wr.afterDrop = append(wr.afterDrop, "applied")
				}
				wr.outcomes = append(wr.outcomes, aprOutcome{"applied", w.step, time.Since(wr.t0)})
			} else {
				w.strange = append(w.strange, fmt.Sprintf("data change event on feature %d for a write no callback was shown", i))
			}
			w.mu.Unlock()
		}
	}
}

func aprDev(p int) string { return fmt.Sprintf("dev%d", p) }

// aprBase: the limits every feature starts with (all changeable): 1..3 are written to, 11..22 are there to be deleted
func aprBase() *model.LoadControlLimitListDataType {
	l := &model.LoadControlLimitListDataType{}
	ids := []uint{1, 2, 3}
	for i := uint(11); i <= 22; i++ {
		ids = append(ids, i)
	}
	for _, id := range ids {
		l.LoadControlLimitData = append(l.LoadControlLimitData, model.LoadControlLimitDataType{
			LimitId: util.Ptr(model.LoadControlLimitIdType(id)), IsLimitChangeable: util.Ptr(true), IsLimitActive: util.Ptr(false), Value: model.NewScaledNumberType(float64(id))})
	}
	return l
}

func newAprWorld(nCb, nPeers int) *aprWorld {
	w := &aprWorld{id: fmt.Sprintf("apr%d", atomic.AddInt64(&aprWorldSeq, 1)), nCb: nCb, nPeers: nPeers, byData: map[*model.LoadControlLimitListDataType]*aprWrite{}}
	w.l = spine.NewDeviceLocal("b", "m", "s", "c", "HEMS", model.DeviceTypeTypeEnergyManagementSystem, model.NetworkManagementFeatureSetTypeSmart)
	for p := 0; p < nPeers; p++ {
		p := p
		e := spine.NewEntityLocal(w.l, model.EntityTypeTypeCEM, spine.NewAddressEntityType([]uint{uint(p + 1)}), 10*time.Minute)
		w.l.AddEntity(e)
		f := e.GetOrAddFeature(model.FeatureTypeTypeLoadControl, model.RoleTypeServer)
		f.AddFunctionType(model.FunctionTypeLoadControlLimitListData, true, true)
		f.SetData(model.FunctionTypeLoadControlLimitListData, aprBase())
		f.SetWriteApprovalTimeout(aprTimeout)
		w.f[p] = f
		for i := 0; i < nCb; i++ {
			i := i
			_ = f.AddWriteApprovalCallback(func(m *api.Message) {
				if w.instant != nil {
					w.instant(p, i, m)
					return
				}
				dig := w.digest(p) // the data as the callback finds it
				w.mu.Lock()
				defer w.mu.Unlock()
				var wr *aprWrite
				if m != nil {
					wr = w.byData[m.Cmd.LoadControlLimitListData]
					if wr == nil && m.RequestHeader != nil && m.RequestHeader.MsgCounter != nil {
						// first presentation: the write of that counter on the connection the message came in on
						for _, c := range w.conns {
							if c.rdev == m.DeviceRemote {
								wr = c.writes[uint64(*m.RequestHeader.MsgCounter)]
							}
						}
						if wr != nil && wr.data == nil {
							wr.data = m.Cmd.LoadControlLimitListData
							w.byData[wr.data] = wr
						}
					}
				}
				if wr == nil || wr.p != p {
					w.strange = append(w.strange, fmt.Sprintf("callback %d of feature %d invoked for a message that is no write of this history", i, p))
					return
				}
				wr.presented[i]++
				if wr.msgs[i] == nil {
					wr.msgs[i] = m
					wr.digAt[i] = dig
				}
			})
		}
	}
	_ = spine.VerifSubscribeCore(w)
	for p := 0; p < nPeers; p++ {
		w.connect(p)
		w.lastDig[p] = w.digest(p)
	}
	return w
}

func (w *aprWorld) ski(p int) string { return w.id + "-" + strconv.Itoa(p) }

// connect: the peer (same SKI) connects - again -, announces its load control client and binds it to its feature
func (w *aprWorld) connect(p int) {
	c := &aprConn{p: p, wr: &aprWriter{}, writes: map[uint64]*aprWrite{}}
	w.l.SetupRemoteDevice(w.ski(p), c.wr)
	c.rdev = w.l.RemoteDeviceForSki(w.ski(p))
	w.mu.Lock()
	if w.conn[p] != nil {
		c.epoch = w.conn[p].epoch + 1
	}
	w.conn[p] = c
	w.conns = append(w.conns, c)
	w.mu.Unlock()
	dev := aprDev(p)
	ft, role := model.FeatureTypeTypeLoadControl, model.RoleTypeClient
	nt, nr := model.FeatureTypeTypeNodeManagement, model.RoleTypeSpecial
	dd := &model.NodeManagementDetailedDiscoveryDataType{
		DeviceInformation: &model.NodeManagementDetailedDiscoveryDeviceInformationType{Description: &model.NetworkManagementDeviceDescriptionDataType{DeviceAddress: &model.DeviceAddressType{Device: util.Ptr(model.AddressDeviceType(dev))}}},
		EntityInformation: []model.NodeManagementDetailedDiscoveryEntityInformationType{
			{Description: &model.NetworkManagementEntityDescriptionDataType{EntityAddress: &model.EntityAddressType{Entity: spine.NewAddressEntityType([]uint{0})}, EntityType: util.Ptr(model.EntityTypeTypeDeviceInformation)}},
			{Description: &model.NetworkManagementEntityDescriptionDataType{EntityAddress: &model.EntityAddressType{Entity: spine.NewAddressEntityType([]uint{1})}, EntityType: util.Ptr(model.EntityTypeTypeEVSE)}}},
		FeatureInformation: []model.NodeManagementDetailedDiscoveryFeatureInformationType{
			{Description: &model.NetworkManagementFeatureDescriptionDataType{FeatureAddress: h.FA(dev, []uint{0}, 0), FeatureType: &nt, Role: &nr}},
			{Description: &model.NetworkManagementFeatureDescriptionDataType{FeatureAddress: h.FA(dev, []uint{1}, 1), FeatureType: &ft, Role: &role}}},
	}
	// entities 2..5 never write; the harness announces them as removed while writes of entity 1 are pending
	for e := uint(2); e <= 5; e++ {
		dd.EntityInformation = append(dd.EntityInformation, model.NodeManagementDetailedDiscoveryEntityInformationType{Description: &model.NetworkManagementEntityDescriptionDataType{EntityAddress: &model.EntityAddressType{Entity: spine.NewAddressEntityType([]uint{e})}, EntityType: util.Ptr(model.EntityTypeTypeEVSE)}})
		dd.FeatureInformation = append(dd.FeatureInformation, model.NodeManagementDetailedDiscoveryFeatureInformationType{Description: &model.NetworkManagementFeatureDescriptionDataType{FeatureAddress: h.FA(dev, []uint{e}, 1), FeatureType: &ft, Role: &role}})
	}
	cl := model.CmdClassifierTypeReply
	w.inject(p, model.DatagramType{Header: model.HeaderType{AddressSource: h.FA(dev, []uint{0}, 0), AddressDestination: h.FA("HEMS", []uint{0}, 0), MsgCounter: util.Ptr(model.MsgCounterType(1)), MsgCounterReference: util.Ptr(model.MsgCounterType(1)), CmdClassifier: &cl}, Payload: model.PayloadType{Cmd: []model.CmdType{{NodeManagementDetailedDiscoveryData: dd}}}})
	cc := model.CmdClassifierTypeCall
	w.inject(p, model.DatagramType{Header: model.HeaderType{AddressSource: h.FA(dev, []uint{0}, 0), AddressDestination: h.FA("HEMS", []uint{0}, 0), MsgCounter: util.Ptr(model.MsgCounterType(2)), CmdClassifier: &cc}, Payload: model.PayloadType{Cmd: []model.CmdType{{NodeManagementBindingRequestCall: spine.NewNodeManagementBindingRequestCallType(h.FA(dev, []uint{1}, 1), w.f[p].Address(), model.FeatureTypeTypeLoadControl)}}}})
	c.wr.take()
}

// drop: the connection is removed; what was pending on it is marked (nothing may happen to it any more)
func (w *aprWorld) drop(p int) {
	w.l.RemoveRemoteDeviceConnection(w.ski(p))
	w.mu.Lock()
	defer w.mu.Unlock()
	c := w.conn[p]
	c.closed = true
	for _, wr := range c.writes {
		if !wr.resolved() {
			wr.dropped = true
		}
		wr.gone = true
		wr.expired = true // its timer is gone with the connection: nothing to wait for
	}
}

func (w *aprWorld) inject(p int, d model.DatagramType) {
	b, _ := json.Marshal(model.Datagram{Datagram: d})
	_, _ = w.conn[p].rdev.HandleSpineMesssage(b)
}

func (w *aprWorld) bound(p int) bool {
	return w.l.BindingManager().HasLocalFeatureRemoteBinding(w.f[p].Address(), h.FA(aprDev(p), []uint{1}, 1))
}

// close detaches the world from the global event bus. The connections are deliberately not removed through
// RemoveRemoteDeviceConnection: it deletes from DeviceLocal.remoteDevices without the lock while a publication of
// another world (the bus is one global) reads the map in this device's HandleEvent - with several worlds in one
// process that ends in "fatal error: concurrent map read and map write" (observed once; a C17 matter, not C12).
func (w *aprWorld) close() {
	_ = spine.VerifUnsubscribeCore(w)
	_ = spine.VerifUnsubscribeCore(w.l)
}

// digest: the feature's data as text
func (w *aprWorld) digest(p int) string {
	b, _ := json.Marshal(w.f[p].DataCopy(model.FunctionTypeLoadControlLimitListData))
	return string(b)
}

// digestLocked: the same, callable with w.mu held (the digest does not touch the world's own state)
func (w *aprWorld) digestLocked(p int) string { return w.digest(p) }

// scan attributes the result datagrams written since the last call to their writes.
func (w *aprWorld) scan() {
	w.mu.Lock()
	conns := append([]*aprConn{}, w.conns...)
	w.mu.Unlock()
	for _, cn := range conns {
		p := cn.p
		for _, m := range cn.wr.take() {
			var d model.Datagram
			if err := json.Unmarshal(m.b, &d); err != nil || len(d.Datagram.Payload.Cmd) == 0 {
				continue
			}
			c0 := d.Datagram.Payload.Cmd[0]
			if c0.ResultData == nil || d.Datagram.Header.MsgCounterReference == nil {
				continue
			}
			ref := uint64(*d.Datagram.Header.MsgCounterReference)
			w.mu.Lock()
			wr := cn.writes[ref]
			if wr == nil {
				w.strange = append(w.strange, fmt.Sprintf("result on connection %d of peer %d references %d, which is no write sent on that connection", cn.epoch, p, ref))
				w.mu.Unlock()
				continue
			}
			if wr.dropped {
				wr.afterDrop = append(wr.afterDrop, "result")
			}
			at := m.t.Sub(wr.t0)
			switch {
			case c0.ResultData.ErrorNumber == nil || *c0.ResultData.ErrorNumber == 0:
				wr.successes++
				wr.acksSeen++
			case c0.ResultData.Description != nil && string(*c0.ResultData.Description) == aprTimeoutTx:
				wr.outcomes = append(wr.outcomes, aprOutcome{"terr", w.step, at})
				if wr.timeoutAt == 0 {
					wr.timeoutAt = at
				}
				if at < aprTimeout {
					wr.early = true
				}
			default:
				wr.outcomes = append(wr.outcomes, aprOutcome{"derr", w.step, at})
			}
			w.mu.Unlock()
		}
	}
}

// ---------- one history

type aprResult struct {
	evals     []string
	executed  []string
	mismatch  *h.Mismatch
	spec      []h.SpecFailure
	abandoned string
	agreed    bool
	caseKey   string
	applied   int
	denied    int
	timedOut  int
	nWrites   int
	races     int
	shapes    map[string]int
}

func (res *aprResult) fail(key string, detail string) {
	res.spec = append(res.spec, h.SpecFailure{Key: key, Ops: append([]string{}, res.executed...), Detail: detail})
}

func (res *aprResult) hasKey(key string) bool {
	for _, s := range res.spec {
		if s.Key == key {
			return true
		}
	}
	return false
}

type aprLook struct {
	task    *h.Task
	wr      *aprWrite
	cb      int
	approve bool
	timely  bool // the lookup happened while the write had no outcome and its timeout had not passed
}

type aprRun struct {
	w     *aprWorld
	d     *h.Driver // nil: SPEC only (probe phase)
	res   *aprResult
	looks map[int]*aprLook
	opN   int

	deletes int // delete-with-selector writes so far (each removes another item)
}

func aprTokens(s string) []string {
	var t []string
	for _, x := range strings.FieldsFunc(s, func(r rune) bool { return r == ' ' || r == ',' }) {
		if x != "." {
			t = append(t, x)
		}
	}
	sort.Strings(t)
	return t
}

// observe collects the outcomes to be compared at this step: every outcome not yet reported, except timeouts of
// writes the step is not about (their `expire` step reports them; a timeout commutes with everything else).
func (x *aprRun) observe(about *aprWrite, extra ...string) string {
	x.w.scan()
	x.w.mu.Lock()
	defer x.w.mu.Unlock()
	t := append([]string{}, extra...)
	// the data of every feature now, against what it was at the last observation
	var changed, explained [2]bool
	for p := 0; p < x.w.nPeers; p++ {
		d := x.w.digestLocked(p)
		changed[p] = d != x.w.lastDig[p]
		x.w.lastDig[p] = d
	}
	for _, wr := range x.w.order {
		for wr.reported < len(wr.outcomes) {
			o := wr.outcomes[wr.reported]
			if o.kind == "terr" && wr != about && !wr.expired {
				break
			}
			if o.kind == "terr" {
				wr.expired = true
			}
			t = append(t, fmt.Sprintf("p%d.%d/%d:%s", wr.p, wr.epoch, wr.c, o.kind))
			wr.reported++
			if o.kind == "applied" {
				// the data itself (not only the event): an applied write whose payload must change the data did
				explained[wr.p] = true
				if wr.chg && changed[wr.p] {
					t = append(t, fmt.Sprintf("p%d.%d/%d:data", wr.p, wr.epoch, wr.c))
				}
			}
		}
		// success results, on the connection they were seen on (scan attributes a result to the write of that
		// counter on the connection whose writer received it)
		for wr.acksRep < wr.acksSeen {
			t = append(t, fmt.Sprintf("p%d.%d/%d:ack", wr.p, wr.epoch, wr.c))
			wr.acksRep++
		}
	}
	for p := 0; p < x.w.nPeers; p++ {
		if changed[p] && !explained[p] {
			t = append(t, fmt.Sprintf("p%d:data-changed-without-apply", p))
		}
	}
	sort.Strings(t)
	return strings.Join(t, " ")
}

// compare asks the model the given lines and compares the union of its answers with the observation.
func (x *aprRun) compare(op string, kind string, impl string, lines ...string) bool {
	x.res.evals = append(x.res.evals, kind)
	if os.Getenv("APR_DEBUG") != "" {
		fmt.Printf("APR %s %-28s impl=%q model-lines=%v driver=%v\n", time.Now().Format("05.000"), op, impl, lines, x.d != nil)
	}
	if x.d == nil {
		return true
	}
	var all []string
	for _, l := range lines {
		all = append(all, aprTokens(x.d.Ask(l))...)
	}
	sort.Strings(all)
	want := strings.Join(all, " ")
	if impl != want {
		x.res.mismatch = &h.Mismatch{Ops: append([]string{}, x.res.executed...), Impl: impl, Model: want, Note: "approval op " + op + " as " + strings.Join(lines, "; ")}
		return false
	}
	return true
}

// expire waits until the timeout of wr has produced its result (or wr got another outcome) and reports it.
func (x *aprRun) expire(wr *aprWrite, inserted bool) bool {
	op := fmt.Sprintf("expire %d %d", wr.p, wr.c)
	mline := fmt.Sprintf("expire %d %d %d", wr.p, wr.epoch, wr.c)
	x.res.executed = append(x.res.executed, op)
	x.w.step++
	dead := wr.t0.Add(aprTimeout + time.Duration(atomic.LoadInt64(&aprDeadlineNow)))
	for {
		x.w.scan()
		x.w.mu.Lock()
		seen := wr.timeoutAt != 0 || wr.resolved()
		x.w.mu.Unlock()
		if seen {
			break
		}
		if time.Now().After(dead) && h.Kept(wr.t0.Add(aprTimeout)) > time.Duration(atomic.LoadInt64(&aprDeadlineNow))/2 {
			// a write without any outcome although the process has been running that long since the timeout instant
			// (kept time of the reference goroutine: a stall of the whole process stalls the timer goroutine as
			// well): reported by the monitor (no-outcome); do not wait that long again
			atomic.StoreInt64(&aprDeadlineNow, int64(600*time.Millisecond))
			break
		}
		if rem := time.Until(wr.t0.Add(aprTimeout)); rem > 2*time.Millisecond {
			time.Sleep(rem - time.Millisecond)
		} else {
			time.Sleep(200 * time.Microsecond)
		}
	}
	kind := "expire"
	if inserted {
		kind = "expire:inserted"
	}
	return x.compare(op, kind, x.observe(wr), mline)
}

// sync makes the model catch up with a timeout the harness has already seen for wr.
func (x *aprRun) syncTimeout(wr *aprWrite) bool {
	x.w.scan()
	x.w.mu.Lock()
	need := wr.timeoutAt != 0 && !wr.expired && !wr.gone
	x.w.mu.Unlock()
	if need {
		return x.expire(wr, true)
	}
	return true
}

// timely prepares an operation that looks wr up: true = the call may be started as "in time" (or the write is
// resolved, so that time no longer matters); false after the timeout was waited for. ok=false: mismatch.
func (x *aprRun) timely(wr *aprWrite) (timely bool, ok bool) {
	if !x.syncTimeout(wr) {
		return false, false
	}
	x.w.mu.Lock()
	res := wr.resolved() || wr.gone
	x.w.mu.Unlock()
	if res {
		return false, true
	}
	if time.Since(wr.t0) < aprTimeout-aprMarginNow() {
		return true, true
	}
	return false, x.expire(wr, true)
}

// anotherTimedOut: has the timeout of another write of this history already fired (staggered deadlines)?
func (x *aprRun) anotherTimedOut(wr *aprWrite) bool {
	x.w.mu.Lock()
	defer x.w.mu.Unlock()
	for _, o := range x.w.order {
		if o != wr && o.timeoutAt != 0 && o.t0.Before(wr.t0) {
			return true
		}
	}
	return false
}

// aprCmd: the payload of a write of the given shape (the shapes of C04's quantifier); tag makes the value unique.
//
//	full  the whole list, no filter            pid   partial, item addressed by its identifier
//	psel  partial with a selector              pall  partial, no identifier (all items)
//	dsel  delete with a selector               dele  delete with selector and elements (one field of one item)
func (x *aprRun) aprCmd(shape string, tag int) (model.CmdType, bool) {
	fn := model.FunctionTypeLoadControlLimitListData
	val := model.NewScaledNumberType(float64(1000 + tag))
	part := func() model.FilterType {
		return model.FilterType{CmdControl: &model.CmdControlType{Partial: &model.ElementTagType{}}}
	}
	del := func() model.FilterType {
		return model.FilterType{CmdControl: &model.CmdControlType{Delete: &model.ElementTagType{}}}
	}
	sel := func(id uint) *model.LoadControlLimitListDataSelectorsType {
		return &model.LoadControlLimitListDataSelectorsType{LimitId: util.Ptr(model.LoadControlLimitIdType(id))}
	}
	switch shape {
	case "full":
		l := aprBase()
		l.LoadControlLimitData[0].Value = val
		return model.CmdType{LoadControlLimitListData: l}, true
	case "pid":
		return model.CmdType{Function: &fn, Filter: []model.FilterType{part()}, LoadControlLimitListData: &model.LoadControlLimitListDataType{LoadControlLimitData: []model.LoadControlLimitDataType{{LimitId: util.Ptr(model.LoadControlLimitIdType(2)), Value: val}}}}, true
	case "psel":
		ft := part()
		ft.LoadControlLimitListDataSelectors = sel(2)
		return model.CmdType{Function: &fn, Filter: []model.FilterType{ft}, LoadControlLimitListData: &model.LoadControlLimitListDataType{LoadControlLimitData: []model.LoadControlLimitDataType{{Value: val}}}}, true
	case "pall":
		return model.CmdType{Function: &fn, Filter: []model.FilterType{part()}, LoadControlLimitListData: &model.LoadControlLimitListDataType{LoadControlLimitData: []model.LoadControlLimitDataType{{Value: val}}}}, true
	case "dsel":
		ft := del()
		ft.LoadControlLimitListDataSelectors = sel(uint(11 + x.deletes%12))
		x.deletes++
		return model.CmdType{Function: &fn, Filter: []model.FilterType{ft}, LoadControlLimitListData: &model.LoadControlLimitListDataType{}}, true
	case "dele":
		ft := del()
		ft.LoadControlLimitListDataSelectors = sel(3)
		ft.LoadControlLimitDataElements = &model.LoadControlLimitDataElementsType{IsLimitActive: &model.ElementTagType{}}
		return model.CmdType{Function: &fn, Filter: []model.FilterType{ft}, LoadControlLimitListData: &model.LoadControlLimitListDataType{}}, true
	}
	return model.CmdType{}, false
}

var aprShapes = []string{"full", "pid", "psel", "pall", "dsel", "dele"}

// aprDiff: where two digests differ (short)
func aprDiff(a, b string) string {
	i := 0
	for i < len(a) && i < len(b) && a[i] == b[i] {
		i++
	}
	lo := i - 40
	if lo < 0 {
		lo = 0
	}
	cut := func(s string) string {
		hi := i + 60
		if hi > len(s) {
			hi = len(s)
		}
		if lo > len(s) {
			return ""
		}
		return s[lo:hi]
	}
	return fmt.Sprintf("before ...%s... after ...%s...", cut(a), cut(b))
}

// aprMarginNow: how long before a write's timeout instant a call is still started as "in time": 40 ms on a quiet
// machine, more when the harness's reference goroutine (jitter witness) has just been running late - being careful
// only turns an in-time verdict into a late one (an `expire` is inserted), it never decides a verdict
func aprMarginNow() time.Duration {
	m := aprMargin + 2*h.Lateness(time.Now().Add(-100*time.Millisecond), time.Now())
	if m > 80*time.Millisecond {
		m = 80 * time.Millisecond
	}
	return m
}

// aprMsgFor: the message a verdict is delivered with - the pointer the callback received, or (one verdict in three, a
// function of counter and callback) a struct copy of it: same peer, connection, counter and command, another pointer
func aprMsgFor(m *api.Message, c, cb int) *api.Message {
	if m == nil || (c+cb)%3 != 1 {
		return m
	}
	cp := *m
	if m.RequestHeader != nil {
		hd := *m.RequestHeader // ... header included (the payload objects stay: the data change event carries them)
		cp.RequestHeader = &hd
	}
	return &cp
}

func aprErr(approve bool) model.ErrorType {
	if approve {
		return model.ErrorType{}
	}
	return model.ErrorType{ErrorNumber: aprDenyNumber, Description: util.Ptr(model.DescriptionType("denied by the application"))}
}

// exec runs one op; false = stop the history (mismatch, abandonment or malformed op).
func (x *aprRun) exec(op string) bool {
	f := strings.Fields(op)
	n := func(i int) int {
		if i >= len(f) {
			return 0
		}
		v, _ := strconv.Atoi(f[i])
		return v
	}
	w := x.w
	find := func(p, c int) *aprWrite {
		w.mu.Lock()
		defer w.mu.Unlock()
		if w.conn[p] == nil || w.conn[p].closed {
			return nil
		}
		return w.conn[p].writes[uint64(c)]
	}
	switch f[0] {
	case "drop":
		// the peer's connection is removed (RemoveRemoteDeviceConnection): pending approvals go with it
		p := n(1) % w.nPeers
		if w.conn[p] == nil || w.conn[p].closed {
			return true
		}
		// a timer that fires while the connection is being removed is a race the harness does not decide (C10): every
		// write still pending is either safely before its deadline or its timeout is awaited first
		var waiting []*aprWrite
		for _, wr := range append([]*aprWrite{}, w.order...) {
			if wr.p != p || wr.gone {
				continue
			}
			tm, ok := x.timely(wr)
			if !ok {
				return false
			}
			if tm {
				waiting = append(waiting, wr)
			}
		}
		x.res.executed = append(x.res.executed, fmt.Sprintf("drop %d", p))
		w.step++
		w.scan()
		w.drop(p)
		for _, wr := range waiting {
			// as for a verdict: the removal was started safely before the write's timeout instant; if it returned
			// after that instant (a stall), the timer may have fired first - nothing was decided
			if time.Since(wr.t0) >= aprTimeout {
				x.res.abandoned = "a connection removal started in time returned after the timeout instant of a pending write"
				return false
			}
		}
		return x.compare(op, "drop", x.observe(nil), fmt.Sprintf("drop %d", p))
	case "reconnect":
		// the same peer (same SKI) connects again: a fresh connection, its message counters start over
		p := n(1) % w.nPeers
		if w.conn[p] != nil && !w.conn[p].closed {
			return true
		}
		x.res.executed = append(x.res.executed, fmt.Sprintf("reconnect %d", p))
		w.connect(p)
		if !w.bound(p) {
			x.res.abandoned = "world: binding not established after reconnect"
			return false
		}
		x.res.evals = append(x.res.evals, "reconnect")
		return true
	case "write":
		// write <p> <c> <ack> [shape]
		p, c, ack := n(1)%w.nPeers, n(2), n(3) == 1
		shape := "full"
		if len(f) > 4 {
			shape = f[4]
		}
		if w.conn[p] == nil || w.conn[p].closed || find(p, c) != nil || c == 0 {
			return true // counters are unique per connection (precondition)
		}
		// the value a write carries is unique in the history (counter and connection), so that applying it must
		// change the data; a delete changes it while the item is still there
		delBefore := x.deletes
		cmd, okShape := x.aprCmd(shape, c+100*w.conn[p].epoch)
		if !okShape {
			return true
		}
		chg := shape == "full" || shape == "pid" || shape == "psel" || shape == "pall" || (shape == "dsel" && delBefore < 12)
		x.res.executed = append(x.res.executed, fmt.Sprintf("write %d %d %d %s", p, c, h.B2i(ack), shape))
		w.step++
		wr := &aprWrite{p: p, c: uint64(c), epoch: w.conn[p].epoch, shape: shape, ack: ack, chg: chg, msgs: map[int]*api.Message{}, presented: map[int]int{}, digAt: map[int]string{}}
		before := w.digest(p)
		wr.digBefore = before
		w.mu.Lock()
		w.conn[p].writes[uint64(c)] = wr
		w.order = append(w.order, wr)
		w.mu.Unlock()
		wc := model.CmdClassifierTypeWrite
		hd := model.HeaderType{AddressSource: h.FA(aprDev(p), []uint{1}, 1), AddressDestination: w.f[p].Address(), MsgCounter: util.Ptr(model.MsgCounterType(c)), CmdClassifier: &wc}
		if ack {
			hd.AckRequest = util.Ptr(true)
		}
		wr.t0 = time.Now()
		w.inject(p, model.DatagramType{Header: hd, Payload: model.PayloadType{Cmd: []model.CmdType{cmd}}})
		// the callbacks are goroutines: wait (bounded) until each has been invoked
		bound := time.Duration(atomic.LoadInt64(&aprPresentBound))
		for t0 := time.Now(); ; {
			w.mu.Lock()
			k := len(wr.presented)
			w.mu.Unlock()
			if k >= w.nCb {
				break
			}
			if time.Since(t0) > bound && h.Kept(t0) > bound/2 {
				// a callback was not invoked although the process has been running for that long (kept time of the
				// reference goroutine, not the wall clock: a stall that hit the whole process hit the callback
				// goroutines as well): reported by the monitor; do not wait that long again
				atomic.StoreInt64(&aprPresentBound, int64(30*time.Millisecond))
				break
			}
			time.Sleep(50 * time.Microsecond)
		}
		w.mu.Lock()
		pres := 0
		for _, k := range wr.presented {
			pres += k
		}
		w.mu.Unlock()
		if after := w.digest(p); after != before {
			x.res.fail("C12/data-changed-before-approval", fmt.Sprintf("the data of feature %d changed when %s arrived, before any verdict: %s", p, wr.name(), aprDiff(before, after)))
		}
		x.res.nWrites++
		return x.compare(op, "write", x.observe(wr, fmt.Sprintf("pres=%d", pres)), fmt.Sprintf("arrive %d %d %d %d", p, c, h.B2i(ack), h.B2i(chg)))
	case "verdict", "look", "oldverdict", "oldlook":
		// verdict <p> <c> <cb> <a>   |   look <id> <p> <c> <cb> <a>
		// oldverdict / oldlook: the same for the write that carried counter c on the peer's EARLIER connection (the
		// application answers a message of a connection that is gone; the counter may be in use again)
		o := 0
		if strings.HasSuffix(f[0], "look") {
			o = 1
		}
		old := strings.HasPrefix(f[0], "old")
		p, c, cb, approve := n(1+o)%w.nPeers, n(2+o), n(3+o)%w.nCb, n(4+o) == 1
		wr := find(p, c)
		if old {
			cur := wr
			wr = nil
			w.mu.Lock()
			for _, o := range w.order {
				if o.p == p && o.c == uint64(c) && o.gone {
					wr = o
				}
			}
			w.mu.Unlock()
			if wr == nil {
				return true
			}
			if cur != nil {
				// what the old verdict does to the write that now carries the counter depends on where that write's
				// timer stands: decided by the clock as for any verdict
				if _, ok := x.timely(cur); !ok {
					return false
				}
				w.mu.Lock()
				cur.oldVerdict, wr.oldVerdict = true, true
				w.mu.Unlock()
			}
			f[0] = strings.TrimPrefix(f[0], "old")
		}
		if wr == nil {
			return true
		}
		w.mu.Lock()
		m := wr.msgs[cb]
		for _, v := range wr.verdicts {
			if v.cb == cb {
				m = nil // every callback answers at most once (precondition)
			}
		}
		for _, lk := range x.looks {
			if lk.wr == wr && lk.cb == cb {
				m = nil
			}
		}
		w.mu.Unlock()
		if m == nil {
			return true
		}
		// the API takes any *api.Message naming the write: a share of the verdicts is given with a COPY of the message
		// the callback was handed (an application that queues api.Message by value), decided by the op's own numbers
		m = aprMsgFor(m, c, cb)
		timely, ok := x.timely(wr)
		if !ok {
			return false
		}
		w.step++
		before := w.digest(p)
		if f[0] == "verdict" {
			x.opN++
			id := 1000 + x.opN
			x.res.executed = append(x.res.executed, fmt.Sprintf("%sverdict %d %d %d %d", map[bool]string{true: "old"}[old], p, c, cb, h.B2i(approve)))
			w.f[p].ApproveOrDenyWrite(m, aprErr(approve))
			if timely && time.Since(wr.t0) >= aprTimeout {
				x.res.abandoned = "a verdict started in time returned after the timeout instant"
				return false
			}
			w.mu.Lock()
			v := aprVerdict{cb: cb, approve: approve, effective: timely, step: w.step}
			if wr.gone {
				v.effective, v.raceWith = false, "drop"
			}
			wr.verdicts = append(wr.verdicts, v)
			w.mu.Unlock()
			x.checkData(p, before, wr)
			kind := "verdict:late"
			if timely {
				kind = "verdict:intime"
				if x.anotherTimedOut(wr) {
					x.res.evals = append(x.res.evals, "intime-after-the-timeout-of-another-write")
				}
			}
			return x.compare(op, kind, x.observe(wr), fmt.Sprintf("lookup %d %d %d %d", id, p, wr.epoch, c), fmt.Sprintf("commit %d %d %d", id, p, h.B2i(approve)))
		}
		id := n(1)
		if x.looks[id] != nil {
			return true
		}
		x.res.executed = append(x.res.executed, fmt.Sprintf("%slook %d %d %d %d %d", map[bool]string{true: "old"}[old], id, p, c, cb, h.B2i(approve)))
		t := h.Go(func() { w.f[p].ApproveOrDenyWrite(m, aprErr(approve)) }, aprSite)
		site, done, okw := t.Wait(3 * time.Second)
		if !okw || done || site != aprSite {
			x.res.abandoned = fmt.Sprintf("the verdict goroutine did not reach %s (done=%v)", aprSite, done)
			if done {
				// the yield point is gone: the tree cannot be driven through this schedule
				x.res.abandoned = "no-yield-point"
			}
			return false
		}
		if timely && time.Since(wr.t0) >= aprTimeout {
			x.res.abandoned = "a lookup started in time parked after the timeout instant"
			t.Finish(3 * time.Second)
			return false
		}
		x.looks[id] = &aprLook{task: t, wr: wr, cb: cb, approve: approve, timely: timely}
		return x.compare(op, "look", x.observe(wr), fmt.Sprintf("lookup %d %d %d %d", id, p, wr.epoch, c))
	case "commit":
		id := n(1)
		lk := x.looks[id]
		if lk == nil {
			return true
		}
		wr := lk.wr
		// where does the commit fall?
		if !x.syncTimeout(wr) {
			return false
		}
		w.mu.Lock()
		resolved := wr.resolved()
		raceWith := ""
		if resolved && lk.timely {
			raceWith = "verdict"
			if wr.timeoutAt != 0 {
				raceWith = "timeout"
			}
		}
		if wr.gone {
			// the connection was removed after the lookup: the write is gone, time no longer matters
			resolved = true
			raceWith = "drop"
		}
		w.mu.Unlock()
		if wr.gone {
			if cur := find(wr.p, int(wr.c)); cur != nil && cur != wr {
				if _, ok := x.timely(cur); !ok {
					return false
				}
				w.mu.Lock()
				cur.oldVerdict, wr.oldVerdict = true, true
				w.mu.Unlock()
			}
		}
		intime := false
		if !resolved {
			if time.Since(wr.t0) < aprTimeout-aprMarginNow() {
				intime = true
			} else {
				if !x.expire(wr, true) {
					return false
				}
				if lk.timely {
					raceWith = "timeout"
				}
			}
		}
		delete(x.looks, id)
		x.res.executed = append(x.res.executed, fmt.Sprintf("commit %d", id))
		w.step++
		before := w.digest(wr.p)
		lk.task.Release()
		if _, done, ok := lk.task.Wait(5 * time.Second); !ok || !done {
			x.res.abandoned = "a released verdict did not return"
			return false
		}
		if lk.task.Panic != nil {
			x.res.fail("C12/verdict-panics", fmt.Sprintf("ApproveOrDenyWrite panicked: %v", lk.task.Panic))
		}
		if intime && time.Since(wr.t0) >= aprTimeout {
			x.res.abandoned = "a commit started in time returned after the timeout instant"
			return false
		}
		w.mu.Lock()
		wr.verdicts = append(wr.verdicts, aprVerdict{cb: lk.cb, approve: lk.approve, effective: intime && lk.timely, raceWith: raceWith, step: w.step})
		w.mu.Unlock()
		if raceWith != "" {
			x.res.races++
		}
		x.checkData(wr.p, before, wr)
		kind := "commit:intime"
		if intime && lk.timely && x.anotherTimedOut(wr) {
			x.res.evals = append(x.res.evals, "intime-after-the-timeout-of-another-write")
		}
		if raceWith != "" {
			kind = "commit:raced-" + raceWith
		} else if !intime {
			kind = "commit:late"
		}
		return x.compare(op, kind, x.observe(wr), fmt.Sprintf("commit %d %d %d", id, wr.p, h.B2i(lk.approve)))
	case "expire":
		wr := find(n(1)%w.nPeers, n(2))
		if wr == nil {
			return true
		}
		return x.expire(wr, false)
	case "wait":
		// staggers the arrival of writes, so that one write's timeout falls inside another's approval window
		// (what the verdicts that follow are - in time or late - is still decided by the clock, not by this op)
		ms := n(1)
		if ms < 1 || ms > 95 {
			return true
		}
		x.res.executed = append(x.res.executed, fmt.Sprintf("wait %d", ms))
		x.res.evals = append(x.res.evals, "wait")
		time.Sleep(time.Duration(ms) * time.Millisecond)
		return true
	case "settle":
		// "exactly one outcome" can only be judged once every write's timeout instant has passed: a write resolved by
		// a verdict must not receive the timeout's result on top. (Automatic at the end of a history, not recorded.)
		for _, wr := range append([]*aprWrite{}, w.order...) {
			w.mu.Lock()
			told, dropped := wr.expired, wr.dropped
			w.mu.Unlock()
			if dropped {
				// nothing may happen to it any more: look past the instant at which its timer would have fired
				if rem := time.Until(wr.t0.Add(aprTimeout + 25*time.Millisecond)); rem > 0 {
					time.Sleep(rem)
				}
				continue
			}
			if told {
				continue
			}
			if rem := time.Until(wr.t0.Add(aprTimeout + 25*time.Millisecond)); rem > 0 {
				time.Sleep(rem)
			}
			w.step++
			if !x.compare("settle", "settle", x.observe(wr), fmt.Sprintf("expire %d %d %d", wr.p, wr.epoch, wr.c)) {
				return false
			}
		}
		return true
	case "expireall":
		for _, wr := range append([]*aprWrite{}, w.order...) {
			w.mu.Lock()
			skip := wr.gone || (wr.resolved() && (wr.timeoutAt == 0 || wr.expired))
			w.mu.Unlock()
			if skip {
				continue
			}
			if !x.expire(wr, false) {
				return false
			}
		}
		return true
	}
	return true
}

// checkData: the data of a feature may change only by the application of a write, and then to that write's payload.
func (x *aprRun) checkData(p int, before string, wr *aprWrite) {
	after := x.w.digest(p)
	x.w.mu.Lock()
	defer x.w.mu.Unlock()
	appliedNow := false
	for _, o := range wr.outcomes {
		if o.kind == "applied" && o.step == x.w.step {
			appliedNow = true
		}
	}
	if !appliedNow && after != before {
		x.res.fail("C12/data-changed-without-apply", fmt.Sprintf("the data changed at a step on %s that did not apply it: %s", wr.name(), aprDiff(before, after)))
	}
}

// spec judges every write of the finished history against the property statement (no model involved).
func (x *aprRun) spec() {
	w := x.w
	w.scan()
	w.mu.Lock()
	defer w.mu.Unlock()
	res0 := x.res
	for _, s := range w.strange {
		res0.fail("C12/unattributable-observation", s)
	}
	for _, wr := range w.order {
		// whatever goes wrong for a write while a verdict for the message of an EARLIER connection with the same
		// counter is delivered is the one defect: the verdict was taken for the wrong write instance
		res := &aprKeyed{res0, wr.oldVerdict}
		// presented once to every callback
		for i := 0; i < w.nCb; i++ {
			switch k := wr.presented[i]; {
			case k == 0:
				res.fail("C12/not-presented-to-every-callback", fmt.Sprintf("%s was never presented to callback %d of %d", wr.name(), i, w.nCb))
			case k > 1:
				res.fail("C12/presented-more-than-once", fmt.Sprintf("%s was presented %d times to callback %d", wr.name(), k, i))
			}
			// unchanged until approved by all: what the callback found is what was there before the write came in
			if d, ok := wr.digAt[i]; ok && d != wr.digBefore {
				res.fail("C12/data-changed-before-approval", fmt.Sprintf("when %s was presented to callback %d the data of the feature had already changed: %s", wr.name(), i, aprDiff(wr.digBefore, d)))
			}
		}
		// what the statement demands, from this write's own verdicts and its own timeout only
		expected, approvals := "terr", map[int]bool{}
		interleaved := false
		raceT, raceV := 0, 0
		for _, v := range wr.verdicts {
			switch v.raceWith {
			case "timeout":
				raceT++
			case "verdict":
				raceV++
			}
			if expected != "terr" || !v.effective {
				continue
			}
			if !v.approve {
				expected = "derr"
				continue
			}
			approvals[v.cb] = true
			if len(approvals) == w.nCb {
				expected = "applied"
			}
		}
		staleFromDrop := false
		for _, o := range w.order {
			if o != wr && o.p == wr.p && o.c == wr.c && o.epoch < wr.epoch {
				for _, v := range o.verdicts {
					if v.raceWith == "drop" {
						staleFromDrop = true
					}
				}
			}
		}
		if wr.dropped && expected == "terr" {
			expected = "nothing (connection removed while pending)"
		}
		if expected == "applied" {
			// shape of the tally-reset defect: an approval of another write of the same peer fell between this
			// write's first and last approval
			first, last := 1<<30, -1
			for _, v := range wr.verdicts {
				if v.effective && v.approve {
					if v.step < first {
						first = v.step
					}
					if v.step > last {
						last = v.step
					}
				}
			}
			for _, o := range w.order {
				if o == wr || o.p != wr.p {
					continue
				}
				for _, v := range o.verdicts {
					if v.approve && v.step > first && v.step < last {
						interleaved = true
					}
				}
			}
		}
		var kinds []string
		applied, errs := 0, 0
		for _, o := range wr.outcomes {
			kinds = append(kinds, o.kind)
			if o.kind == "applied" {
				applied++
			} else {
				errs++
			}
		}
		got := strings.Join(kinds, "+")
		what := fmt.Sprintf("%s (%d callbacks, verdicts %s): expected %s, observed [%s], %d success results, ack requested %v", wr.name(), w.nCb, aprVerdictText(wr.verdicts), expected, got, wr.successes, wr.ack)
		switch {
		case wr.dropped:
			// the connection went away while the write was pending: nothing may be applied or answered afterwards
			if len(wr.afterDrop) > 0 {
				res.fail("C12/outcome-after-disconnect", what+fmt.Sprintf("; after the connection was removed: %v", wr.afterDrop))
			}
		case applied+errs == 0:
			res.fail("C12/no-outcome", what)
		case applied+errs > 1:
			// every surplus outcome is explained by a verdict that had looked the write up in time and committed
			// after the write was resolved: the race defect, named after what the verdict raced with
			switch {
			case raceT > 0 && applied+errs-1 <= raceT+raceV && strings.Contains(got, "terr"):
				res.fail(aprKeyRaceT, what)
			case raceV > 0 && applied+errs-1 <= raceT+raceV:
				res.fail(aprKeyRaceV, what)
			default:
				res.fail("C12/two-outcomes", what)
			}
		case expected == "applied" && got == "terr" && interleaved:
			res.fail(aprKeyTally, what)
		case expected == "applied" && got != "applied":
			res.fail("C12/approved-write-not-applied", what)
		case expected == "derr" && got == "applied":
			res.fail("C12/denied-write-applied", what)
		case expected != "applied" && applied == 1 && errs == 0 && staleFromDrop:
			res.fail(aprKeyStale, what+"; on the peer's earlier connection a verdict for the same message counter was committed after the connection had been removed: its approval was counted for this write")
		case expected == "terr" && got == "applied":
			res.fail("C12/applied-without-unanimous-approval-in-time", what)
		case expected == "terr" && got == "derr":
			res.fail("C12/error-without-denial-or-timeout", what)
		}
		// acknowledgement
		switch {
		case applied == 1 && errs == 0 && wr.ack && wr.successes != 1:
			res.fail("C12/applied-write-not-acknowledged-once", what)
		case applied == 1 && !wr.ack && wr.successes != 0:
			res.fail("C12/unrequested-acknowledgement", what)
		case applied == 0 && wr.successes != 0:
			res.fail("C12/success-result-without-apply", what)
		}
		if wr.early {
			res.fail("C12/timeout-early", what+fmt.Sprintf("; the timeout result was written %v after the write was injected (timeout %v)", wr.timeoutAt, aprTimeout))
		}
		// generator statistics come from what the statement demands, not from what the code did
		res.shapes[wr.shape]++
		switch expected {
		case "applied":
			res.applied++
		case "derr":
			res.denied++
		case "terr":
			res.timedOut++
		}
	}
}

// aprKeyed: failures of one write instance, re-keyed when an old-connection verdict was involved
type aprKeyed struct {
	*aprResult
	old bool
}

func (k *aprKeyed) fail(key, detail string) {
	if k.old && key != "C12/data-changed-before-approval" && !strings.HasPrefix(key, "C12/not-presented") && !strings.HasPrefix(key, "C12/presented") {
		k.aprResult.fail(aprKeyOldVerdict, "["+strings.TrimPrefix(key, "C12/")+"] "+detail+"; a verdict for the message that carried this counter on the peer's EARLIER connection was delivered while the counter was in use again")
		return
	}
	k.aprResult.fail(key, detail)
}

func aprVerdictText(vs []aprVerdict) string {
	var s []string
	for _, v := range vs {
		t := fmt.Sprintf("cb%d:%s", v.cb, map[bool]string{true: "approve", false: "deny"}[v.approve])
		switch {
		case v.raceWith != "":
			t += "(looked up in time, committed after the " + v.raceWith + ")"
		case !v.effective:
			t += "(late)"
		}
		s = append(s, t)
	}
	return "[" + strings.Join(s, " ") + "]"
}

// runAprHistory executes one op list in a fresh world. ops[0] is `cfg <nCb> <nPeers>`.
func runAprHistory(d *h.Driver, ops []string) *aprResult {
	res := &aprResult{shapes: map[string]int{}}
	if len(ops) == 0 {
		return res
	}
	f := strings.Fields(ops[0])
	nCb, nPeers := 1, 1
	if len(f) == 3 && f[0] == "cfg" {
		nCb, _ = strconv.Atoi(f[1])
		nPeers, _ = strconv.Atoi(f[2])
	}
	if nCb < 1 || nCb > 3 {
		nCb = 1
	}
	if nPeers < 1 || nPeers > 2 {
		nPeers = 1
	}
	cfg := fmt.Sprintf("cfg %d %d", nCb, nPeers)
	res.executed = []string{cfg}
	res.caseKey = strings.Join(ops, "; ")
	w := newAprWorld(nCb, nPeers)
	defer w.close()
	for p := 0; p < nPeers; p++ {
		if !w.bound(p) {
			res.abandoned = "world: binding not established"
			return res
		}
	}
	x := &aprRun{w: w, d: d, res: res, looks: map[int]*aprLook{}}
	if d != nil {
		d.Ask(fmt.Sprintf("reset %d", nCb))
	}
	// after a mismatch the rest of the history still runs, without the model, so that the SPEC monitor judges the
	// complete history; an abandoned history ends at once
	ok := true
	run := func(op string) bool {
		if x.exec(op) {
			return true
		}
		ok = false
		x.d = nil
		return res.abandoned == ""
	}
	for _, op := range ops[1:] {
		if strings.HasPrefix(op, "cfg") {
			continue
		}
		if !run(op) {
			break
		}
	}
	// let every parked verdict go and every timer fire before the world is closed
	var ids []int
	for id := range x.looks {
		ids = append(ids, id)
	}
	sort.Ints(ids)
	for _, id := range ids {
		if res.abandoned == "" {
			run(fmt.Sprintf("commit %d", id))
		} else {
			x.looks[id].task.Finish(3 * time.Second)
		}
	}
	if res.abandoned == "" {
		run("expireall")
	}
	if res.abandoned == "" {
		run("settle")
	} else {
		time.Sleep(aprTimeout + 20*time.Millisecond)
	}
	if res.abandoned == "" {
		x.spec()
	}
	res.agreed = ok && res.mismatch == nil && res.abandoned == ""
	return res
}

// ---------- generation

type aprEvt struct {
	op    string
	after []int // indices that must come first
}

// genAprHistory: 1..3 callbacks, 1..2 peers, one or two waves of 1..3 concurrently pending writes; per write and
// callback a verdict from {approve, deny, silent}, delivered directly, as look/commit pair (so that verdicts overlap),
// after the timeout (late) or looked up before and committed after the timeout (raced).
func genAprHistory(rng *rand.Rand) []string {
	nCb, nPeers := 1+rng.Intn(3), 1+rng.Intn(2)
	ops := []string{fmt.Sprintf("cfg %d %d", nCb, nPeers)}
	ctr, id := 10, 0
	waves := 1
	if rng.Intn(4) == 0 {
		waves = 2
	}
	pApprove := 70 + rng.Intn(25)
	for wave := 0; wave < waves; wave++ {
		nW := 1 + rng.Intn(3)
		var first, second []aprEvt
		for i := 0; i < nW; i++ {
			ctr++
			p, c := rng.Intn(nPeers), ctr
			wi := len(first)
			first = append(first, aprEvt{op: fmt.Sprintf("write %d %d %d %s", p, c, rng.Intn(2), aprShapes[rng.Intn(len(aprShapes))])})
			if i > 0 && rng.Intn(3) > 0 {
				first[wi].after = []int{wi - 1} // most writes arrive before the verdicts start
			}
			for cb := 0; cb < nCb; cb++ {
				x := rng.Intn(100)
				if x >= pApprove+(100-pApprove)/2 {
					continue // silent
				}
				a := h.B2i(x < pApprove)
				switch m := rng.Intn(20); {
				case m < 9:
					first = append(first, aprEvt{op: fmt.Sprintf("verdict %d %d %d %d", p, c, cb, a), after: []int{wi}})
				case m < 16:
					id++
					first = append(first, aprEvt{op: fmt.Sprintf("look %d %d %d %d %d", id, p, c, cb, a), after: []int{wi}})
					first = append(first, aprEvt{op: fmt.Sprintf("commit %d", id), after: []int{len(first) - 1}})
				case m < 18:
					id++
					first = append(first, aprEvt{op: fmt.Sprintf("look %d %d %d %d %d", id, p, c, cb, a), after: []int{wi}})
					second = append(second, aprEvt{op: fmt.Sprintf("commit %d", id)})
				default:
					second = append(second, aprEvt{op: fmt.Sprintf("verdict %d %d %d %d", p, c, cb, a)})
				}
			}
		}
		ops = append(ops, aprShuffle(rng, first)...)
		ops = append(ops, "expireall")
		ops = append(ops, aprShuffle(rng, second)...)
	}
	return ops
}

// genAprStaggered: writes arrive 40..80 ms apart, so that their deadlines are staggered: each write gets some of its
// verdicts at once and the rest after the timeout of the write before it has fired (but - if the clock allows - before
// its own). A write's outcome must not depend on the timeout of another write of the same or of another peer.
func genAprStaggered(rng *rand.Rand) []string {
	nCb, nPeers := 1+rng.Intn(3), 1+rng.Intn(2)
	if rng.Intn(3) > 0 && nCb == 1 {
		nCb = 2
	}
	ops := []string{fmt.Sprintf("cfg %d %d", nCb, nPeers)}
	nW := 2 + rng.Intn(2)
	pApprove := 75 + rng.Intn(25)
	id := 0
	type wv struct {
		p, c  int
		later []string // verdict ops delivered after the previous write's timeout
	}
	var ws []wv
	for i := 0; i < nW; i++ {
		w := wv{p: rng.Intn(nPeers), c: 11 + i}
		if i > 0 {
			ops = append(ops, fmt.Sprintf("wait %d", 40+rng.Intn(41)))
		}
		ops = append(ops, fmt.Sprintf("write %d %d %d %s", w.p, w.c, rng.Intn(2), aprShapes[rng.Intn(len(aprShapes))]))
		var early []string
		for _, cb := range rng.Perm(nCb) {
			x := rng.Intn(100)
			if x >= pApprove+(100-pApprove)/2 {
				continue // silent
			}
			a := h.B2i(x < pApprove)
			var v []string
			if rng.Intn(3) == 0 {
				id++
				v = []string{fmt.Sprintf("look %d %d %d %d %d", id, w.p, w.c, cb, a), fmt.Sprintf("commit %d", id)}
			} else {
				v = []string{fmt.Sprintf("verdict %d %d %d %d", w.p, w.c, cb, a)}
			}
			if i > 0 && rng.Intn(2) == 0 {
				w.later = append(w.later, v...)
			} else {
				early = append(early, v...)
			}
		}
		ops = append(ops, early...)
		ws = append(ws, w)
	}
	for i, w := range ws {
		ops = append(ops, fmt.Sprintf("expire %d %d", w.p, w.c))
		if i+1 < len(ws) {
			ops = append(ops, ws[i+1].later...)
		}
	}
	return append(ops, "expireall")
}

// genAprReconnect: state across connections. On the first connection writes collect partial approvals; some time
// out, some are still pending, a verdict may be past its lookup when the connection is removed; the peer connects
// again (same SKI), its counters start over, and the SAME counters come again with verdicts of their own (typically
// one approval and one denial, or too few approvals): a write instance must be judged by its own verdicts only.
func genAprReconnect(rng *rand.Rand) []string {
	nCb, nPeers := 2+rng.Intn(2), 1+rng.Intn(2)
	ops := []string{fmt.Sprintf("cfg %d %d", nCb, nPeers)}
	p := rng.Intn(nPeers)
	nW := 1 + rng.Intn(3)
	id := 0
	shape := func() string { return aprShapes[rng.Intn(len(aprShapes))] }
	var inflight []string
	for i := 0; i < nW; i++ {
		c := 11 + i
		ops = append(ops, fmt.Sprintf("write %d %d %d %s", p, c, rng.Intn(2), shape()))
		// some approvals, never all
		k := rng.Intn(nCb)
		for _, cb := range rng.Perm(nCb)[:k] {
			if rng.Intn(4) == 0 {
				id++
				ops = append(ops, fmt.Sprintf("look %d %d %d %d 1", id, p, c, cb))
				inflight = append(inflight, fmt.Sprintf("commit %d", id))
			} else {
				ops = append(ops, fmt.Sprintf("verdict %d %d %d 1", p, c, cb))
			}
		}
	}
	if nPeers == 2 && rng.Intn(2) == 0 {
		// the other peer has a write pending across the first peer's reconnect: it must not notice
		ops = append(ops, fmt.Sprintf("write %d 11 1 %s", 1-p, shape()), fmt.Sprintf("verdict %d 11 0 1", 1-p))
	}
	switch rng.Intn(3) {
	case 0:
		ops = append(ops, "expireall") // everything on the first connection times out first
	case 1:
		ops = append(ops, fmt.Sprintf("expire %d 11", p))
	}
	var late []string
	for _, cm := range inflight {
		if rng.Intn(2) == 0 {
			ops = append(ops, cm)
		} else {
			late = append(late, cm) // committed after the connection is gone
		}
	}
	ops = append(ops, fmt.Sprintf("drop %d", p))
	if rng.Intn(2) == 0 {
		ops = append(ops, late...)
		late = nil
	}
	ops = append(ops, fmt.Sprintf("reconnect %d", p))
	lateAfterReuse := rng.Intn(2) == 0
	if !lateAfterReuse {
		ops = append(ops, late...)
	}
	for i := 0; i < nW; i++ {
		c := 11 + i
		ops = append(ops, fmt.Sprintf("write %d %d %d %s", p, c, rng.Intn(2), shape()))
		order := rng.Perm(nCb)
		switch rng.Intn(4) {
		case 0: // one approval, one denial
			ops = append(ops, fmt.Sprintf("verdict %d %d %d 1", p, c, order[0]), fmt.Sprintf("verdict %d %d %d 0", p, c, order[1]))
		case 1: // one approval short
			for _, cb := range order[:nCb-1] {
				ops = append(ops, fmt.Sprintf("verdict %d %d %d 1", p, c, cb))
			}
		case 2: // unanimous
			for _, cb := range order {
				ops = append(ops, fmt.Sprintf("verdict %d %d %d 1", p, c, cb))
			}
		default: // a single approval
			ops = append(ops, fmt.Sprintf("verdict %d %d %d 1", p, c, order[0]))
		}
		if i == 0 && lateAfterReuse {
			ops = append(ops, late...) // a verdict of the old connection commits after its counter is in use again
		}
		if rng.Intn(3) == 0 {
			// the application answers the OLD message of this counter now
			v := fmt.Sprintf("oldverdict %d %d %d %d", p, c, rng.Intn(nCb), h.B2i(rng.Intn(4) > 0))
			at := len(ops) - rng.Intn(3)
			if at < 0 || at > len(ops) {
				at = len(ops)
			}
			ops = append(ops[:at], append([]string{v}, ops[at:]...)...)
		}
	}
	if nPeers == 2 {
		ops = append(ops, fmt.Sprintf("verdict %d 11 1 1", 1-p))
	}
	return append(ops, "expireall")
}

// aprShuffle: a uniformly chosen enabled event next, until none is left.
func aprShuffle(rng *rand.Rand, evs []aprEvt) []string {
	done := make([]bool, len(evs))
	var out []string
	for len(out) < len(evs) {
		var en []int
		for i, e := range evs {
			if done[i] {
				continue
			}
			ok := true
			for _, a := range e.after {
				if !done[a] {
					ok = false
				}
			}
			if ok {
				en = append(en, i)
			}
		}
		i := en[rng.Intn(len(en))]
		done[i] = true
		out = append(out, evs[i].op)
	}
	return out
}

// aprAllOrders: every order of the given verdict ops after the writes (thorough tier).
func aprPermute(items []string, f func([]string)) {
	var rec func(k int)
	rec = func(k int) {
		if k == len(items) {
			f(append([]string{}, items...))
			return
		}
		for i := k; i < len(items); i++ {
			items[k], items[i] = items[i], items[k]
			rec(k + 1)
			items[k], items[i] = items[i], items[k]
		}
	}
	rec(0)
}

func aprEnumerate(nCb, nW int, onlyApprove bool) [][]string {
	var out [][]string
	slots := nCb * nW
	total := 1
	for i := 0; i < slots; i++ {
		total *= 3
	}
	for code := 0; code < total; code++ {
		var vs []string
		x := code
		skip := false
		for s := 0; s < slots; s++ {
			v := x % 3 // 0 approve, 1 deny, 2 silent
			x /= 3
			if onlyApprove && v != 0 {
				skip = true
			}
			if v == 2 {
				continue
			}
			vs = append(vs, fmt.Sprintf("verdict 0 %d %d %d", 11+s/nCb, s%nCb, h.B2i(v == 0)))
		}
		if skip {
			continue
		}
		aprPermute(vs, func(order []string) {
			ops := []string{fmt.Sprintf("cfg %d 1", nCb)}
			for i := 0; i < nW; i++ {
				ops = append(ops, fmt.Sprintf("write 0 %d %d", 11+i, (code+i)%2))
			}
			ops = append(ops, order...)
			out = append(out, append(ops, "expireall"))
		})
	}
	return out
}

// aprInterleavings: one or two writes; every verdict is a look/commit pair, every write has its timeout; all
// interleavings of the pairs and the timeouts (thorough tier). vals: bit i = verdict of slot i approves.
func aprInterleavings(nCb, nW int, vals int) [][]string {
	var seqs [][]string
	id := 0
	for wi := 0; wi < nW; wi++ {
		for cb := 0; cb < nCb; cb++ {
			id++
			a := vals >> (id - 1) & 1
			seqs = append(seqs, []string{fmt.Sprintf("look %d 0 %d %d %d", id, 11+wi, cb, a), fmt.Sprintf("commit %d", id)})
		}
	}
	var exp []string
	for wi := 0; wi < nW; wi++ {
		exp = append(exp, fmt.Sprintf("expire 0 %d", 11+wi)) // timers fire in arrival order
	}
	seqs = append(seqs, exp)
	var out [][]string
	hbtMerges(seqs, func(m []string) {
		ops := []string{fmt.Sprintf("cfg %d 1", nCb)}
		for wi := 0; wi < nW; wi++ {
			ops = append(ops, fmt.Sprintf("write 0 %d %d", 11+wi, (vals+wi)%2))
		}
		out = append(out, append(ops, m...))
	})
	return out
}

// ---------- corpus: one deterministic witness per known defect, then basic shapes

var (
	aprWitnessTally = []string{"cfg 2 1", "write 0 1 1", "write 0 2 1", "verdict 0 1 0 1", "verdict 0 2 0 1", "verdict 0 1 1 1", "verdict 0 2 1 1", "expireall"}
	aprWitnessRaceT = []string{"cfg 1 1", "write 0 1 1", "look 10 0 1 0 1", "expire 0 1", "commit 10"}
	aprWitnessRaceV = []string{"cfg 2 1", "write 0 1 1", "look 10 0 1 0 0", "look 11 0 1 1 0", "commit 10", "commit 11", "expireall"}
)

// a verdict past its lookup when the connection is removed, committed afterwards; the counter is reused
var aprWitnessStale = []string{"cfg 2 1", "write 0 11 1 pid", "look 1 0 11 0 1", "drop 0", "commit 1", "reconnect 0", "write 0 11 1 pid", "verdict 0 11 1 1", "expireall"}

// the application answers a message of the peer's earlier connection after the counter is in use again
var aprWitnessOld = []string{"cfg 1 1", "write 0 11 1 pid", "drop 0", "reconnect 0", "write 0 11 1 psel", "oldverdict 0 11 0 1", "expireall"}

func aprCorpus() [][]string {
	return [][]string{
		aprWitnessStale, aprWitnessOld,
		// a verdict past its lookup at the disconnect commits after the counter has been reused
		{"cfg 2 1", "write 0 11 1 pid", "look 1 0 11 0 1", "drop 0", "reconnect 0", "write 0 11 1 pid", "commit 1", "verdict 0 11 0 1", "verdict 0 11 1 1", "expireall"},
		{"cfg 2 1", "write 0 11 1 pid", "look 1 0 11 0 0", "drop 0", "reconnect 0", "write 0 11 0 full", "verdict 0 11 1 1", "commit 1", "verdict 0 11 0 1", "expireall"},
		{"cfg 2 1", "write 0 11 1 full", "verdict 0 11 0 1", "expireall", "drop 0", "reconnect 0", "write 0 11 1 dsel", "oldverdict 0 11 1 1", "verdict 0 11 1 0", "expireall"},
		{"cfg 3 2", "write 0 11 1 pall", "write 1 11 0 pid", "drop 0", "reconnect 0", "write 0 11 1 pid", "oldlook 1 0 11 2 1", "verdict 0 11 0 1", "expire 0 11", "commit 1", "verdict 1 11 0 1", "expireall"},
		aprWitnessTally, aprWitnessRaceT, aprWitnessRaceV,
		{"cfg 1 1", "write 0 1 1", "verdict 0 1 0 1"},
		{"cfg 1 1", "write 0 1 0", "verdict 0 1 0 1"},
		{"cfg 1 1", "write 0 1 1", "verdict 0 1 0 0"},
		{"cfg 1 1", "write 0 1 1", "expireall", "verdict 0 1 0 1"},
		{"cfg 3 1", "write 0 1 1", "verdict 0 1 2 1", "verdict 0 1 0 1", "verdict 0 1 1 1"},
		{"cfg 3 1", "write 0 1 1", "verdict 0 1 2 1", "verdict 0 1 0 0", "verdict 0 1 1 1"},
		{"cfg 2 1", "write 0 1 1", "verdict 0 1 0 1", "expireall", "verdict 0 1 1 1"},
		{"cfg 2 2", "write 0 1 1", "write 1 1 1", "verdict 0 1 0 1", "verdict 1 1 0 1", "verdict 0 1 1 1", "verdict 1 1 1 1", "expireall"},
		{"cfg 2 1", "write 0 1 1", "write 0 2 0", "verdict 0 1 0 1", "verdict 0 1 1 1", "verdict 0 2 0 1", "verdict 0 2 1 1", "expireall"},
		{"cfg 2 1", "write 0 1 1", "look 1 0 1 0 1", "look 2 0 1 1 1", "commit 2", "commit 1"},
		{"cfg 2 1", "write 0 1 1", "look 1 0 1 0 1", "look 2 0 1 1 0", "commit 2", "commit 1"},
		{"cfg 1 1", "write 0 1 1", "look 1 0 1 0 0", "expire 0 1", "commit 1"},
		// staggered deadlines: the first write times out while the second holds a partial tally; the second's
		// remaining approval arrives after that timeout and before its own: it must be applied
		{"cfg 2 1", "write 0 1 1", "wait 70", "write 0 2 1", "verdict 0 2 0 1", "expire 0 1", "verdict 0 2 1 1", "expireall"},
		{"cfg 3 2", "write 0 1 0", "verdict 0 1 0 1", "wait 60", "write 1 2 1", "verdict 1 2 2 1", "verdict 1 2 0 1", "expire 0 1", "verdict 1 2 1 1", "expireall"},
		{"cfg 2 1", "write 0 1 1", "verdict 0 1 0 1", "wait 50", "write 0 2 0", "wait 30", "write 0 3 1", "verdict 0 3 1 1", "expire 0 1", "verdict 0 3 0 1", "verdict 0 2 0 0", "expireall"},
		// across connections: write 11 collects one approval and times out; the peer disconnects and connects again
		// and reuses the counter: one approval and one denial must reject the new write
		{"cfg 2 1", "write 0 11 1 pid", "verdict 0 11 0 1", "expireall", "drop 0", "reconnect 0", "write 0 11 1 pid", "verdict 0 11 1 1", "verdict 0 11 0 0", "expireall"},
		{"cfg 3 1", "write 0 11 1 full", "verdict 0 11 0 1", "verdict 0 11 2 1", "drop 0", "reconnect 0", "write 0 11 0 psel", "verdict 0 11 1 1", "expireall"},
		{"cfg 2 2", "write 0 11 1 pall", "write 1 11 1 dsel", "verdict 0 11 0 1", "verdict 1 11 0 1", "drop 0", "reconnect 0", "write 0 11 1 dele", "verdict 1 11 1 1", "verdict 0 11 1 1", "expireall"},
		// every write shape, denied and timed out: the data must be what it was
		{"cfg 1 1", "write 0 11 1 full", "verdict 0 11 0 0", "write 0 12 1 pid", "verdict 0 12 0 0", "write 0 13 1 psel", "verdict 0 13 0 0", "write 0 14 1 pall", "verdict 0 14 0 0", "write 0 15 1 dsel", "verdict 0 15 0 0", "write 0 16 1 dele", "verdict 0 16 0 0"},
		{"cfg 2 1", "write 0 11 0 psel", "write 0 12 1 dele", "write 0 13 1 pall", "verdict 0 11 0 1", "verdict 0 12 1 1", "expireall"},
		// ... and approved: applied
		{"cfg 1 1", "write 0 11 1 full", "verdict 0 11 0 1", "write 0 12 1 pid", "verdict 0 12 0 1", "write 0 13 1 psel", "verdict 0 13 0 1", "write 0 14 1 pall", "verdict 0 14 0 1", "write 0 15 1 dsel", "verdict 0 15 0 1", "write 0 16 1 dele", "verdict 0 16 0 1", "write 0 17 0 dsel", "verdict 0 17 0 1"},
		// a write that timed out leaves its tally behind; the next write must not inherit it
		{"cfg 2 1", "write 0 1 1", "verdict 0 1 0 1", "expireall", "write 0 2 1", "verdict 0 2 0 1", "verdict 0 2 1 1"},
	}
}

// ---------- clean-ups concurrent with verdicts (judged by the SPEC only)

// aprRemovedNotify: the peer announces its entity e as removed (partial notify of the detailed discovery data)
func aprRemovedNotify(p int, e uint, ctr int) model.DatagramType {
	dev := aprDev(p)
	fn := model.FunctionTypeNodeManagementDetailedDiscoveryData
	nc := model.CmdClassifierTypeNotify
	rem := model.NetworkManagementStateChangeTypeRemoved
	dd := &model.NodeManagementDetailedDiscoveryDataType{
		DeviceInformation: &model.NodeManagementDetailedDiscoveryDeviceInformationType{Description: &model.NetworkManagementDeviceDescriptionDataType{DeviceAddress: &model.DeviceAddressType{Device: util.Ptr(model.AddressDeviceType(dev))}}},
		EntityInformation: []model.NodeManagementDetailedDiscoveryEntityInformationType{
			{Description: &model.NetworkManagementEntityDescriptionDataType{EntityAddress: &model.EntityAddressType{Entity: spine.NewAddressEntityType([]uint{e})}, LastStateChange: &rem}}},
	}
	return model.DatagramType{Header: model.HeaderType{AddressSource: h.FA(dev, []uint{0}, 0), AddressDestination: h.FA("HEMS", []uint{0}, 0), MsgCounter: util.Ptr(model.MsgCounterType(ctr)), CmdClassifier: &nc},
		Payload: model.PayloadType{Cmd: []model.CmdType{{Function: &fn, Filter: []model.FilterType{{CmdControl: &model.CmdControlType{Partial: &model.ElementTagType{}}}}, NodeManagementDetailedDiscoveryData: dd}}}}
}

// aprAwait: the task has ended, or it has not although the process has been running for `bound` (kept time)
func aprAwait(t *h.Task, bound time.Duration) bool {
	t0 := time.Now()
	for {
		if _, done, ok := t.Wait(20 * time.Millisecond); ok && done {
			return true
		}
		if time.Since(t0) > bound && h.Kept(t0) > bound/2 {
			return t.IsDone()
		}
	}
}

// aprAwaitAll: one bound for all of them; returns how many have not ended
func aprAwaitAll(ts []*h.Task, bound time.Duration) int {
	t0 := time.Now()
	for {
		left := 0
		for _, t := range ts {
			if !t.IsDone() {
				left++
			}
		}
		if left == 0 || (time.Since(t0) > bound && h.Kept(t0) > bound/2) {
			return left
		}
		time.Sleep(200 * time.Microsecond)
	}
}

func aprSpin(d time.Duration) {
	for t0 := time.Now(); time.Since(t0) < d; {
	}
}

// aprConcurrentCleanups: "every write gets exactly one outcome, regardless of the order in which approvals, denials
// and the timeout interleave" - and whatever else the stack does for the peer meanwhile. Per round: several writes
// pending, the verdict goroutines of two or three callbacks parked past the pending lookup; they are released
// together with a clean-up running on another goroutine: the peer announces an entity as removed (another one than
// the writer's: the writes stay; or the writer's: they go) or its connection is removed. Every call into the stack
// must return (bounded in kept time); with the writer's entity still there, every write then gets exactly one
// outcome - applied if all callbacks approved, the denial's error otherwise - and a fresh write afterwards is still
// served. A feature that no longer answers is reported as C12/write-without-outcome:blocked.
func aprConcurrentCleanups(r *h.Report, rounds int) {
	const key = "C12/write-without-outcome:blocked"
	const bound = 4 * time.Second
	rng := h.Rng(1277)
	w := newAprWorld(3, 1)
	defer w.close()
	w.f[0].SetWriteApprovalTimeout(3 * time.Second) // the timers stay out of it: every write is resolved by verdicts
	if !w.bound(0) {
		r.Info["concurrent_cleanups"] = "world: binding not established"
		return
	}
	call := func(f func()) bool { return aprAwait(h.Go(f), bound) }
	var ops []string
	fail := func(k, detail string) {
		r.SpecFail(k, append([]string{}, ops...), detail)
	}
	hit := map[string]int{}
	ctr := 20
	phaseStart := time.Now()
	// how long the stack takes from the arrival of a removal announcement to its end (no verdicts around): the
	// verdicts are released somewhere inside that span
	var lat []time.Duration
	for e := uint(4); e <= 5; e++ {
		ctr++
		dg := aprRemovedNotify(0, e, ctr)
		t0 := time.Now()
		if !call(func() { w.inject(0, dg) }) {
			fail(key, "an entity removal announcement was not processed (no write pending)")
			return
		}
		lat = append(lat, time.Since(t0))
	}
	span := lat[0]
	if lat[1] < span {
		span = lat[1]
	}
	if span > 3*time.Millisecond {
		span = 3 * time.Millisecond
	}
	if !call(func() { w.drop(0) }) || !call(func() { w.connect(0) }) || !w.bound(0) {
		fail(key, "the peer could not connect again after the calibration")
		return
	}
	ctr = 20
	for round := 0; round < rounds; round++ {
		mode := []string{"other-entity", "writers-entity", "writers-entity", "disconnect"}[round%4]
		ops = []string{"cfg 3 1", fmt.Sprintf("concurrent-cleanup %s round %d", mode, round)}
		res := &aprResult{shapes: map[string]int{}}
		x := &aprRun{w: w, res: res, looks: map[int]*aprLook{}}
		nW := 3 + rng.Intn(4)
		if mode == "writers-entity" {
			nW = 24 + rng.Intn(8) // a longer clean-up loop (one iteration per pending write of the entity) and a longer burst of verdicts
		}
		var wrs []*aprWrite
		for i := 0; i < nW; i++ {
			ctr++
			c := ctr
			if !call(func() { x.exec(fmt.Sprintf("write 0 %d %d pid", c, i%2)) }) {
				fail(key, fmt.Sprintf("round %d (%s): the write datagram %d was not taken within %v: the feature no longer answers", round, mode, c, bound))
				return
			}
			w.mu.Lock()
			wr := w.conn[0].writes[uint64(c)]
			w.mu.Unlock()
			if wr == nil || len(wr.msgs) < w.nCb {
				fail("C12/not-presented-to-every-callback", fmt.Sprintf("round %d: write %d was not presented to all callbacks", round, c))
				return
			}
			wrs = append(wrs, wr)
		}
		// verdict goroutines: callbacks 0 and 1 approve every write, parked past the pending lookup
		var tasks []*h.Task
		for _, wr := range wrs {
			for cb := 0; cb < 2; cb++ {
				m := aprMsgFor(wr.msgs[cb], int(wr.c), cb)
				t := h.Go(func() { w.f[0].ApproveOrDenyWrite(m, aprErr(true)) }, aprSite)
				if site, done, ok := t.Wait(3 * time.Second); !ok || done || site != aprSite {
					r.Info["concurrent_cleanups"] = "a verdict goroutine did not reach the yield point"
					for _, t := range tasks {
						t.Finish(time.Second)
					}
					return
				}
				tasks = append(tasks, t)
			}
		}
		// the clean-up on its own goroutine, the verdicts released around it
		lead := time.Duration(rng.Int63n(int64(span) + 1))
		gap := time.Duration(rng.Int63n(int64(span)/int64(2*len(tasks)) + 1)) // the verdicts spread over up to half the span
		if round%4 == 2 {
			lead = span/2 + time.Duration(rng.Int63n(int64(span)/2+1)) // the clean-up of the approvals comes last in a removal
		}
		if mode == "writers-entity" {
			gap = 0 // releasing ~50 parked goroutines one after the other is spread enough
		}
		var clean *h.Task
		startClean := func() {
			switch mode {
			case "other-entity":
				ctr++
				dg := aprRemovedNotify(0, uint(2+(round/4)%2), ctr)
				clean = h.Go(func() { w.inject(0, dg) })
			case "writers-entity":
				ctr++
				dg := aprRemovedNotify(0, 1, ctr)
				clean = h.Go(func() { w.inject(0, dg) })
			default:
				clean = h.Go(func() { w.drop(0) })
			}
		}
		if round%2 == 0 {
			// the clean-up first, the verdicts somewhere inside the time it takes
			startClean()
			aprSpin(lead)
			for _, t := range tasks {
				t.Release()
				aprSpin(gap)
			}
		} else {
			// the verdicts first, the clean-up somewhere inside their burst (a released goroutine has to wake up:
			// on a busy machine that takes longer than the clean-up)
			at := rng.Intn(len(tasks))
			for i, t := range tasks {
				if i == at {
					startClean()
				}
				t.Release()
			}
		}
		stuck := aprAwaitAll(append(append([]*h.Task{}, tasks...), clean), bound)
		cleanDone := clean.IsDone()
		if !cleanDone {
			stuck--
		}
		if stuck > 0 || !cleanDone {
			fail(key, fmt.Sprintf("round %d: %d writes were pending with two approvals each being committed (ApproveOrDenyWrite, %d goroutines) while the stack processed '%s' for the peer: %d verdict calls and the clean-up (returned: %v) have not returned after %v - the feature is blocked: none of its writes can get an outcome any more, not even by timeout", round, nW, len(tasks), mode, stuck, cleanDone, bound))
			return
		}
		hit[mode]++
		switch mode {
		case "other-entity":
			// the writes are still there: the third callback decides, one write after the other
			for i, wr := range wrs {
				approve := i%2 == 0
				m := wr.msgs[2]
				if !call(func() { w.f[0].ApproveOrDenyWrite(m, aprErr(approve)) }) {
					fail(key, fmt.Sprintf("round %d: the third verdict for write %d did not return within %v", round, wr.c, bound))
					return
				}
				w.scan()
				w.mu.Lock()
				var kinds []string
				for _, o := range wr.outcomes {
					kinds = append(kinds, o.kind)
				}
				w.mu.Unlock()
				want := map[bool]string{true: "applied", false: "derr"}[approve]
				if got := strings.Join(kinds, "+"); got != want {
					k := "C12/two-outcomes"
					if got == "" {
						k = "C12/no-outcome"
					}
					fail(k, fmt.Sprintf("round %d: write %d of the peer (3 callbacks: two approvals committed while the peer's entity %d was announced as removed, then callback 2 %s): expected %s, observed [%s]", round, wr.c, 2+(round/4)%2, map[bool]string{true: "approved", false: "denied"}[approve], want, got))
					return
				}
			}
		default:
			// the writes went with their entity / connection: none may have two outcomes
			w.scan()
			w.mu.Lock()
			for _, wr := range wrs {
				if len(wr.outcomes) > 1 {
					w.mu.Unlock()
					fail("C12/two-outcomes", fmt.Sprintf("round %d (%s): write %d has %d outcomes", round, mode, wr.c, len(wr.outcomes)))
					return
				}
			}
			w.mu.Unlock()
		}
		// a fresh connection for the next round (the entity list, the binding and the counters start over)
		if mode != "disconnect" {
			if !call(func() { w.drop(0) }) {
				fail(key, fmt.Sprintf("round %d (%s): RemoveRemoteDeviceConnection did not return within %v", round, mode, bound))
				return
			}
		}
		if !call(func() { w.connect(0) }) || !w.bound(0) {
			fail(key, fmt.Sprintf("round %d (%s): the peer could not connect and bind again within %v", round, mode, bound))
			return
		}
		ctr = 20
		r.Eval("concurrent-cleanup:"+mode, "")
	}
	r.Info["concurrent_cleanups"] = fmt.Sprintf("%d rounds (verdict goroutines released inside the %v an entity removal takes / around a disconnect): %v, %v", rounds, span, hit, time.Since(phaseStart).Round(time.Millisecond))
}

// aprImmediateVerdicts: "applied iff every callback approves before the timeout ... regardless of the order in which
// verdicts interleave" - with the verdict given as EARLY as an application can give it: synchronously inside the
// callback, before it returns, while the stack is still inside HandleMessage for the write. Other goroutines use the
// same feature's API meanwhile (SetWriteApprovalTimeout with the value it already has, in a loop), so that the
// stack's own steps for the write (registering the pending entry, arming the timer, starting the callbacks) have to
// queue for the feature's mutexes and a verdict can get in between any two of them. Many writes, one after the
// other; every write whose verdicts all returned long before the timeout must be applied (and acknowledged iff
// requested) exactly once; a denied one gets exactly one error result and is not applied.
func aprImmediateVerdicts(r *h.Report, n int) {
	const T = 1500 * time.Millisecond
	const bound = 4 * time.Second
	phaseStart := time.Now()
	w := newAprWorld(2, 1)
	defer w.close()
	if !w.bound(0) {
		r.Info["immediate_verdicts"] = "world: binding not established"
		return
	}
	w.f[0].SetWriteApprovalTimeout(T)
	type iw struct {
		c                         int
		ack, deny                 bool
		t0                        time.Time
		data                      *model.LoadControlLimitListDataType
		presented, verdicts       int
		lastRet                   time.Duration
		applied, succ, derr, terr int
		terrAt                    time.Duration
	}
	var mu sync.Mutex
	cur := map[uint64]*iw{}
	byData := map[*model.LoadControlLimitListDataType]*iw{}
	strange := 0
	w.instant = func(p, cb int, m *api.Message) {
		if m == nil || m.RequestHeader == nil || m.RequestHeader.MsgCounter == nil {
			return
		}
		c := uint64(*m.RequestHeader.MsgCounter)
		mu.Lock()
		x := cur[c]
		if x != nil && x.data == nil {
			x.data = m.Cmd.LoadControlLimitListData
			byData[x.data] = x
		}
		mu.Unlock()
		if x == nil {
			return
		}
		approve := !(x.deny && cb == x.c%2)
		w.f[p].ApproveOrDenyWrite(aprMsgFor(m, x.c, cb), aprErr(approve))
		d := time.Since(x.t0)
		mu.Lock()
		x.presented++
		x.verdicts++
		if d > x.lastRet {
			x.lastRet = d
		}
		mu.Unlock()
	}
	w.onApplied = func(p int, d *model.LoadControlLimitListDataType) {
		mu.Lock()
		if x := byData[d]; x != nil {
			x.applied++
		} else {
			strange++
		}
		mu.Unlock()
	}
	scan := func() {
		for _, m := range w.conn[0].wr.take() {
			var d model.Datagram
			if err := json.Unmarshal(m.b, &d); err != nil || len(d.Datagram.Payload.Cmd) == 0 {
				continue
			}
			c0 := d.Datagram.Payload.Cmd[0]
			if c0.ResultData == nil || d.Datagram.Header.MsgCounterReference == nil {
				continue
			}
			mu.Lock()
			x := cur[uint64(*d.Datagram.Header.MsgCounterReference)]
			switch {
			case x == nil:
				strange++
			case c0.ResultData.ErrorNumber == nil || *c0.ResultData.ErrorNumber == 0:
				x.succ++
			case c0.ResultData.Description != nil && string(*c0.ResultData.Description) == aprTimeoutTx:
				x.terr++
				x.terrAt = m.t.Sub(x.t0)
			default:
				x.derr++
			}
			mu.Unlock()
		}
	}
	// contention on the feature's mutexes from its own public API
	stop := make(chan struct{})
	var wg sync.WaitGroup
	for g := 0; g < 4; g++ {
		wg.Add(1)
		go func() {
			defer wg.Done()
			for {
				select {
				case <-stop:
					return
				default:
				}
				for k := 0; k < 32; k++ {
					w.f[0].SetWriteApprovalTimeout(T)
				}
				runtime.Gosched()
			}
		}()
	}
	defer func() { close(stop); wg.Wait() }()
	ops := []string{"cfg 2 1", fmt.Sprintf("immediate-verdicts %d", n)}
	run := &aprRun{w: w, res: &aprResult{shapes: map[string]int{}}, looks: map[int]*aprLook{}}
	judge := func(x *iw) (key, detail string, indeterminate bool) {
		mu.Lock()
		defer mu.Unlock()
		who := fmt.Sprintf("write %d (ackRequest %v; 2 callbacks, each answering inside the callback; %d verdict calls returned, the last %v after the write was injected; timeout %v; 4 goroutines calling SetWriteApprovalTimeout meanwhile)", x.c, x.ack, x.verdicts, x.lastRet.Round(time.Microsecond), T)
		obs := fmt.Sprintf("observed: applied %d, success results %d, denial errors %d, timeout errors %d", x.applied, x.succ, x.derr, x.terr)
		if x.verdicts < 2 || x.lastRet >= T/2 {
			return "", "", true // a stall: the verdicts were not safely in time, nothing is decided
		}
		nOut := x.applied + x.derr + x.terr
		switch {
		case nOut == 0:
			return "C12/no-outcome", who + ": no outcome. " + obs, false
		case nOut > 1:
			return "C12/two-outcomes", who + ": " + obs, false
		case !x.deny && x.applied != 1:
			return "C12/approved-write-not-applied", who + ": approved by every callback long before the timeout, yet not applied: a verdict given before the stack had registered the pending write is lost. " + obs, false
		case x.deny && x.applied != 0:
			return "C12/denied-write-applied", who + ": " + obs, false
		case x.applied == 1 && x.succ != h.B2i(x.ack):
			return "C12/applied-write-not-acknowledged-once", who + ": " + obs, false
		case x.applied == 0 && x.succ != 0:
			return "C12/success-result-without-apply", who + ": " + obs, false
		}
		return "", "", false
	}
	var all []*iw
	nInd, nApplied, nDenied := 0, 0, 0
	failed := false
	for i := 0; i < n && !failed; i++ {
		c := 21 + i
		x := &iw{c: c, ack: i%2 == 0, deny: i%5 == 4}
		cmd, _ := run.aprCmd("pid", c)
		wc := model.CmdClassifierTypeWrite
		hd := model.HeaderType{AddressSource: h.FA(aprDev(0), []uint{1}, 1), AddressDestination: w.f[0].Address(), MsgCounter: util.Ptr(model.MsgCounterType(c)), CmdClassifier: &wc}
		if x.ack {
			hd.AckRequest = util.Ptr(true)
		}
		mu.Lock()
		cur[uint64(c)] = x
		mu.Unlock()
		all = append(all, x)
		x.t0 = time.Now()
		if !aprAwait(h.Go(func() { w.inject(0, model.DatagramType{Header: hd, Payload: model.PayloadType{Cmd: []model.CmdType{cmd}}}) }), bound) {
			r.SpecFail("C12/write-without-outcome:blocked", ops, fmt.Sprintf("immediate verdicts: the write datagram %d was not taken within %v", c, bound))
			return
		}
		for {
			scan()
			mu.Lock()
			done := ((x.applied > 0 && (!x.ack || x.succ > 0)) || x.derr+x.terr > 0) && x.verdicts >= 2 // ... and both verdict calls have returned
			mu.Unlock()
			if done || (time.Since(x.t0) > T+bound && h.Kept(x.t0) > (T+bound)/2) {
				break
			}
			if time.Since(x.t0) > 2*time.Millisecond {
				time.Sleep(200 * time.Microsecond)
			} else {
				runtime.Gosched()
			}
		}
		key, detail, ind := judge(x)
		if ind {
			nInd++
		}
		if key != "" {
			r.SpecFail(key, ops, detail)
			failed = true
		}
	}
	if !failed {
		// nothing may come after a write's outcome
		time.Sleep(5 * time.Millisecond)
		scan()
		for _, x := range all {
			if key, detail, _ := judge(x); key != "" {
				r.SpecFail(key, ops, detail)
				failed = true
				break
			}
			if x.applied == 1 {
				nApplied++
			} else if x.deny {
				nDenied++
			}
		}
	}
	r.Eval("immediate-verdicts", "")
	r.Info["immediate_verdicts"] = fmt.Sprintf("%d writes answered inside the callbacks under contention on the feature's mutexes: %d applied, %d denied, %d not judged (verdicts not safely in time), %d unattributable observations, %v", len(all), nApplied, nDenied, nInd, strange, time.Since(phaseStart).Round(time.Millisecond))
	if !failed && len(all) > 0 && nInd*2 > len(all) {
		r.Info["immediate_verdicts_indeterminate_under_load"] = fmt.Sprintf("%d of %d writes not judged", nInd, len(all))
	}
}

// ---------- the test

func TestApproval(t *testing.T) {
	r := h.NewReport("approval", "histories of 1..3 approval callbacks x 1..3 concurrently pending writes from 1..2 peers (real write datagrams on bound connections), per write and callback a verdict from {approve, deny, silent} delivered in time, overlapping (two verdicts past the pending lookup), after the timeout, or looked up before and committed after the timeout (goroutines parked at the yield point; real 100 ms timers); each step compared with the member of Spine.Appr selected by the probe phase, and each write judged by the SPEC monitor (presented once per callback; applied(+ack) iff all approved in time; else exactly one error result, data unchanged); non-trivial = distinct histories (by op text) that agreed to the end")
	defer r.Write()
	defer hbtGuard(r, "C12")()
	defer hbtWatchdog("TestApproval", time.Duration(h.Scale(6, 25))*time.Minute)()
	h.JitterStart()
	h.InstallYield()

	var mergeMu sync.Mutex
	merge := func(res *aprResult, countTrace bool) {
		mergeMu.Lock()
		defer mergeMu.Unlock()
		for _, k := range res.evals {
			r.Eval(k, "")
		}
		if res.mismatch != nil {
			r.Mismatch(res.mismatch.Ops, res.mismatch.Impl, res.mismatch.Model, res.mismatch.Note)
		}
		for _, s := range res.spec {
			r.SpecFail(s.Key, s.Ops, s.Detail)
		}
		if res.agreed && countTrace {
			r.Traces++
			r.Case(res.caseKey)
		}
	}
	var infoMu sync.Mutex
	abandoned := map[string]int{}
	var flakes []string
	tot := struct{ writes, applied, denied, timedOut, races int }{}
	// runTwice: a history whose result depends on real timers and disagrees (mismatch, or a spec failure that is
	// not one of the shapes of the known defects) is re-executed once in a fresh world before it counts.
	known := map[string]bool{aprKeyTally: true, aprKeyRaceT: true, aprKeyRaceV: true}
	suspicious := func(res *aprResult) bool {
		if res.mismatch != nil {
			return true
		}
		for _, s := range res.spec {
			if !known[s.Key] {
				return true
			}
		}
		return false
	}
	runTwice := func(d *h.Driver, ops []string) *aprResult {
		res := runAprHistory(d, ops)
		for try := 1; try < 3 && res.abandoned != "" && res.abandoned != "no-yield-point"; try++ {
			// a stall hit a call that had been started in time: nothing was decided; again in a fresh world
			infoMu.Lock()
			abandoned[res.abandoned]++
			infoMu.Unlock()
			res = runAprHistory(d, ops)
		}
		if suspicious(res) {
			again := runAprHistory(d, ops)
			if !suspicious(again) && again.abandoned == "" {
				infoMu.Lock()
				first := "spec " + fmt.Sprint(res.spec)
				if res.mismatch != nil {
					first = "impl=" + res.mismatch.Impl + " model=" + res.mismatch.Model
				}
				flakes = append(flakes, strings.Join(res.executed, "; ")+" => "+first)
				infoMu.Unlock()
				res = again
			}
		}
		infoMu.Lock()
		if res.abandoned != "" {
			abandoned[res.abandoned]++
		} else {
			tot.writes += res.nWrites
			tot.applied += res.applied
			tot.denied += res.denied
			tot.timedOut += res.timedOut
			tot.races += res.races
		}
		infoMu.Unlock()
		return res
	}

	if ops := h.ReplayOps("approval"); ops != nil {
		for _, op := range ops {
			if strings.HasPrefix(op, "immediate-verdicts") {
				aprImmediateVerdicts(r, h.Scale(400, 2500))
				return
			}
			if strings.HasPrefix(op, "concurrent-cleanup") {
				// the failing input is a race: the replay is the phase itself
				aprConcurrentCleanups(r, h.Scale(160, 600))
				return
			}
		}
		flags := aprProbe(r)
		d := h.StartDriver("drv_appr", flags...)
		defer d.Close()
		merge(runTwice(d, ops), true)
		return
	}

	// probe phase: which member of the family is the tree under test?
	flags := aprProbe(r)
	d := h.StartDriver("drv_appr", flags...)
	defer d.Close()
	r.Info["member"] = d.Ask("member")

	// corpus: known-defect witnesses and basic shapes, against the selected member
	for _, ops := range aprCorpus() {
		merge(runTwice(d, ops), true)
	}

	// seeded generation, several worlds in parallel (each with a model process of its own)
	workers := 8
	hist := h.Scale(120, 400) // per worker
	var lists [][][]string
	for wk := 0; wk < workers; wk++ {
		rng := h.Rng(1200 + int64(wk))
		var l [][]string
		for i := 0; i < hist; i++ {
			if i%4 == 3 {
				l = append(l, genAprStaggered(rng))
			} else if i%4 == 1 {
				l = append(l, genAprReconnect(rng))
			} else {
				l = append(l, genAprHistory(rng))
			}
		}
		lists = append(lists, l)
	}
	if h.Tier() == "thorough" {
		// all verdict sets x all delivery orders for the small cases; all orders of unanimous approval for the larger
		var all [][]string
		all = append(all, aprEnumerate(1, 1, false)...)
		all = append(all, aprEnumerate(2, 1, false)...)
		all = append(all, aprEnumerate(1, 2, false)...)
		all = append(all, aprEnumerate(3, 1, false)...)
		all = append(all, aprEnumerate(2, 2, false)...)
		all = append(all, aprEnumerate(3, 2, true)...)
		all = append(all, aprEnumerate(2, 3, true)...)
		// all interleavings of look / commit pairs with the timeouts
		for v := 0; v < 2; v++ {
			all = append(all, aprInterleavings(1, 1, v)...)
		}
		for v := 0; v < 4; v++ {
			all = append(all, aprInterleavings(2, 1, v)...)
			all = append(all, aprInterleavings(1, 2, v)...)
		}
		for _, v := range []int{7, 6, 5, 3} {
			all = append(all, aprInterleavings(3, 1, v)...)
		}
		for i, ops := range all {
			lists[i%workers] = append(lists[i%workers], ops)
		}
		r.Info["enumerated_histories"] = len(all)
	}
	var wg sync.WaitGroup
	for wk := 0; wk < workers; wk++ {
		wg.Add(1)
		go func(l [][]string) {
			defer wg.Done()
			dw := h.StartDriver("drv_appr", flags...)
			defer dw.Close()
			for _, ops := range l {
				merge(runTwice(dw, ops), true)
			}
		}(lists[wk])
	}
	wg.Wait()

	aprConcurrentCleanups(r, h.Scale(160, 600))
	aprImmediateVerdicts(r, h.Scale(400, 2500))

	r.Info["abandoned_histories_by_reason"] = abandoned
	r.Info["timing_dependent_disagreements_not_reproduced"] = flakes
	r.Info["writes"] = map[string]int{"total": tot.writes, "applied": tot.applied, "denied": tot.denied, "timed_out": tot.timedOut, "verdicts_committed_after_resolution": tot.races}
	nAb := 0
	for _, v := range abandoned {
		nAb += v
	}
	if r.MismatchN > 0 || len(r.SpecFailKeys()) > 0 {
		// the run already disagrees with the model or the statement: what the generator reached says nothing (a
		// change that breaks every history at its first write starves every floor) - the disagreement is the result
		r.Info["floors"] = "not evaluated: the run has mismatches / spec failures"
		return
	}
	jp50, jp99, jmax, jn := h.JitterStats()
	r.Info["jitter_witness"] = fmt.Sprintf("reference goroutine with a 2 ms ticker: %d wake-ups, lateness median %v, 99th percentile %v, max %v", jn, jp50, jp99, jmax)
	if jp99 >= aprMargin/4 {
		// the machine did not keep time: histories given up for timing say nothing about the generator
		r.Info["indeterminate_under_load"] = fmt.Sprintf("%d history runs were given up because a stall hit a call started in time (of %d that ended); not judged as a generator floor: reference lateness p99 %v", nAb, r.Traces+r.MismatchN, jp99)
	} else {
		r.Floor("histories not abandoned for timing", r.Traces+r.MismatchN, r.Traces+r.MismatchN+nAb, 0.8)
	}
	r.Floor("writes applied", tot.applied, tot.writes, 0.10)
	r.Floor("writes denied", tot.denied, tot.writes, 0.05)
	r.Floor("writes timed out", tot.timedOut, tot.writes, 0.10)
	r.Floor("verdicts in time after the timeout of an earlier write (staggered deadlines)", r.Dist["intime-after-the-timeout-of-another-write"], r.Dist["verdict:intime"]+r.Dist["commit:intime"], 0.01)
	r.Floor("verdicts in time", r.Dist["verdict:intime"]+r.Dist["commit:intime"], r.Dist["verdict:intime"]+r.Dist["commit:intime"]+r.Dist["verdict:late"]+r.Dist["commit:late"], 0.5)
}

// aprProbe runs the witness of each defect flag on the real code (SPEC monitor only, no model) and returns the
// driver arguments selecting the matching member. A reproduced defect is reported as a spec failure.
func aprProbe(r *h.Report) []string {
	probe := func(ops []string, key string) (on bool, res *aprResult) {
		for try := 0; try < 3; try++ {
			res = runAprHistory(nil, ops)
			if res.abandoned == "" || res.abandoned == "no-yield-point" {
				break
			}
		}
		return res.hasKey(key), res
	}
	tally, rt := probe(aprWitnessTally, aprKeyTally)
	raceT, rr := probe(aprWitnessRaceT, aprKeyRaceT)
	raceV, rv := probe(aprWitnessRaceV, aprKeyRaceV)
	detail := func(res *aprResult) string {
		var s []string
		for _, f := range res.spec {
			s = append(s, f.Key+": "+f.Detail)
		}
		if res.abandoned != "" {
			s = append(s, "abandoned: "+res.abandoned)
		}
		return strings.Join(s, " | ")
	}
	stale, rs := probe(aprWitnessStale, aprKeyStale)
	oldv, ro := probe(aprWitnessOld, aprKeyOldVerdict)
	r.SetFlag("tallyReset", tally, aprWitnessTally, detail(rt))
	r.SetFlag("ignoreStop", raceT || raceV, aprWitnessRaceT, detail(rr)+" || "+detail(rv))
	r.SetFlag("countsWithoutRecheck", stale, aprWitnessStale, detail(rs))
	r.SetFlag("verdictNotBoundToMessage", oldv, aprWitnessOld, detail(ro))
	for _, res := range []*aprResult{rt, rr, rv, rs, ro} {
		for _, s := range res.spec {
			r.SpecFail(s.Key, s.Ops, s.Detail)
		}
	}
	return []string{"tally=" + strconv.Itoa(h.B2i(tally)), "stop=" + strconv.Itoa(h.B2i(raceT || raceV)),
		"recheck=" + strconv.Itoa(h.B2i(!stale)), "msgid=" + strconv.Itoa(h.B2i(!oldv))}
}
