package comp

// C04 / C11 — history runner on spine.FunctionData (through the factory's
// api.FunctionDataInterface, so every registered list type can be driven),
// generators, corpus of deterministic witnesses, TestHeap.
//
// Op text (also the replay format):
//   type <function>                 first op of every history: fresh store of that list function
//   copy                            DataCopy, result retained
//   alt <k> ...                     the next remote upd is also run against twin stores that differ
//                                   from the current one only in elements the write does not address
//                                   (k selects the mutation; metamorphic clause of C04)
//   upd <remote> <persist> <items> <fpk> <fps> <fpe> <fdk> <fds> <fde>      (see lean/Drivers/Heap.lean)

import (
	"fmt"
	"math/rand"
	"sort"
	"strconv"
	"strings"
	"testing"

	"github.com/enbility/spine-go/api"
	"github.com/enbility/spine-go/model"
	"github.com/enbility/spine-go/spine"
	"verifharness/h"
)

type hpRun struct {
	d, d2 *h.Driver
	types map[model.FunctionType]*hpType
	cfg   string
}

func hpNewFD(fn model.FunctionType) api.FunctionDataInterface {
	for _, fd := range spine.CreateFunctionData[api.FunctionDataInterface](model.FeatureTypeTypeGeneric) {
		if fd.FunctionType() == fn {
			return fd
		}
	}
	return nil
}

// hpCall performs one UpdateData on the real store.
func hpCall(t *hpType, fd api.FunctionDataInterface, w *hpWrite, input any) (v hpVerdict, data any) {
	fp := t.filter(false, w.fpk, w.fps, w.fpe)
	fdl := t.filter(true, w.fdk, w.fds, w.fde)
	pan := h.Recover(func() {
		var err *model.ErrorType
		data, err = fd.UpdateDataAny(w.remote, w.persist, input, fp, fdl)
		v = hpOK
		if err != nil {
			v = hpErr
			data = nil
		}
	})
	if pan != nil {
		return hpPanic, nil
	}
	return v, data
}

func hpVerdictS(v hpVerdict) string {
	switch v {
	case hpOK:
		return "ok=1"
	case hpErr:
		return "ok=0"
	}
	return "panic"
}

// mutateUnaddressed derives a twin of cur that differs only in elements w does not address.
func (t *hpType) mutateUnaddressed(w *hpWrite, cur [][]int, k int) [][]int {
	tw := hpCloneList(cur)
	var un []int
	for i, e := range tw {
		if !t.addressed(w, e) {
			un = append(un, i)
		}
	}
	fresh := func(flag int) []int {
		e := make([]int, t.n)
		for i := range e {
			e[i] = -1
		}
		for _, key := range t.keys {
			e[key.idx] = 8
		}
		if t.flag >= 0 {
			e[t.flag] = flag
		}
		for _, c := range tw {
			if t.keyOf(c) == t.keyOf(e) {
				return nil
			}
		}
		if len(t.keys) == 0 || t.addressed(w, e) {
			return nil
		}
		return e
	}
	changed := false
	switch {
	case k == 0 || k == 1: // all unaddressed elements writable / unwritable
		if t.flag < 0 {
			return nil
		}
		for _, i := range un {
			if tw[i][t.flag] != 1-k {
				tw[i][t.flag] = 1 - k
				changed = true
			}
		}
	case k == 2: // unaddressed elements removed
		var keep [][]int
		for _, e := range tw {
			if t.addressed(w, e) {
				keep = append(keep, e)
			}
		}
		changed = len(keep) != len(tw)
		tw = keep
	case k == 3 || k == 4: // a further element the write does not address, unwritable / writable
		if e := fresh(k - 3); e != nil {
			tw = append(tw, e)
			changed = true
		}
	default:
		rng := rand.New(rand.NewSource(int64(k)))
		for _, i := range un {
			switch rng.Intn(4) {
			case 0:
				if t.flag >= 0 {
					nv := []int{-1, 0, 1}[rng.Intn(3)]
					if nv != tw[i][t.flag] {
						tw[i][t.flag] = nv
						changed = true
					}
				}
			case 1:
				if len(t.vals) > 0 {
					j := t.vals[rng.Intn(len(t.vals))]
					nv := rng.Intn(t.dom[j]+1) - 1
					if nv != tw[i][j] {
						tw[i][j] = nv
						changed = true
					}
				}
			}
		}
		if rng.Intn(3) == 0 {
			if e := fresh(rng.Intn(3) - 1); e != nil {
				tw = append(tw, e)
				changed = true
			}
		}
	}
	if !changed {
		return nil
	}
	// the mutation must not have made an unaddressed element addressed or vice versa
	for _, e := range tw {
		was := false
		for _, c := range cur {
			if t.keyOf(c) == t.keyOf(e) && t.addressed(w, c) {
				was = true
			}
		}
		if t.addressed(w, e) != was && !hpContains(cur, e) {
			return nil
		}
	}
	return tw
}

func hpContains(l [][]int, e []int) bool {
	for _, a := range l {
		if hpEqItem(a, e) {
			return true
		}
	}
	return false
}

// history runs one op list on a fresh real store and on the model; returns false after a mismatch.
func (x *hpRun) history(r *h.Report, ops []string) bool {
	if len(ops) == 0 || !strings.HasPrefix(ops[0], "type ") {
		return true
	}
	t := x.types[model.FunctionType(strings.Fields(ops[0])[1])]
	if t == nil {
		return true // a list function the tree under test does not have (replay of a foreign file)
	}
	fd := hpNewFD(t.fn)
	x.d.Ask("reset")
	x.d.Ask(t.shape)
	done := []string{ops[0]}
	var hs []*hpHandle
	byID := map[string]*hpHandle{}
	var alts []int
	changedHandles, remoteOps, inplaceOps := 0, 0, 0
	reg := func(id, kind string, val any) *hpHandle {
		hd := &hpHandle{id: id, kind: kind, val: val, abs: t.decAny(val), js: hpJSON(val)}
		hs = append(hs, hd)
		byID[id] = hd
		return hd
	}
	compareAll := func(after string) bool {
		parts := strings.Split(x.d.Ask("dump"), "|")
		for _, hd := range hs {
			id, _ := strconv.Atoi(hd.id)
			want := "?"
			if id < len(parts) {
				want = parts[id]
			}
			got := hpListS(t.decAny(hd.val))
			r.Eval("read", "")
			if got != want {
				r.Mismatch(done, got, want, fmt.Sprintf("%s: retained value %s (%s) after %s", t.fn, hd.id, hd.kind, after))
				return false
			}
		}
		got, want := hpListS(t.decAny(fd.DataCopyAny())), x.d.Ask("store")
		r.Eval("read", "")
		if got != want {
			r.Mismatch(done, got, want, fmt.Sprintf("%s: stored data after %s", t.fn, after))
			return false
		}
		return true
	}
	for _, op := range ops[1:] {
		f := strings.Fields(op)
		if len(f) == 0 || strings.HasPrefix(op, "#") {
			continue
		}
		switch f[0] {
		case "type":
			return true
		case "copy":
			v := fd.DataCopyAny()
			id := x.d.Ask("copy")
			done = append(done, op)
			isNil := v == nil || t.decAny(v) == nil && hpJSON(v) == "null"
			r.Eval("copy", "")
			if isNil != (id == "nil") {
				r.Mismatch(done, fmt.Sprint("nil=", isNil), id, "DataCopy nil-ness")
				return false
			}
			if !isNil {
				reg(id, "copy", v)
			}
		case "alt":
			alts = nil
			for _, s := range f[1:] {
				k, _ := strconv.Atoi(s)
				alts = append(alts, k)
			}
			done = append(done, op)
		case "upd":
			w := hpParseWrite(f)
			before := t.decAny(fd.DataCopyAny())
			input := t.encList(w.items)
			inJS := hpJSON(input)
			v, data := hpCall(t, fd, w, input)
			want := x.d.Ask(w.line())
			done = append(done, op)
			shape := t.shapeName(w)
			kind := "upd:" + shape + ":" + hpVerdictS(v)
			if w.remote {
				kind = "r" + kind
				remoteOps++
			}
			r.Eval(kind, "")
			// ---- SPEC monitors first (implementation only; they must see the step even if the model disagrees)
			var after [][]int
			if v != hpPanic {
				after = t.decAny(fd.DataCopyAny())
				for _, hd := range hs {
					if hpJSON(hd.val) != hd.js {
						changedHandles++
					}
				}
				if p := t.partialPart(w); t.viaEngine(w) && (p == "selector" || p == "idless" || strings.Contains(w.deletePart(), "el")) {
					inplaceOps++
				}
				t.c11Handles(r, done, w, hs)
				t.c11Store(r, done, w, before, after, v)
				t.c04(r, done, w, before, after, v)
				t.c04Lean(x.d, r, done, w, before, after, v)
			}
			// ---- correspondence
			wf := strings.Fields(want)
			if hpVerdictS(v) != wf[0] {
				r.Mismatch(done, hpVerdictS(v), want, fmt.Sprintf("%s: verdict of %s", t.fn, op))
				return false
			}
			if v == hpPanic {
				// the model does not follow partial in-place effects before a panic: the history ends here
				r.Traces++
				return true
			}
			inID := strings.TrimPrefix(wf[1], "in=")
			retID := strings.TrimPrefix(wf[2], "ret=")
			hin := reg(inID, "input", input)
			if hin.js != inJS {
				r.SpecFail("C11/input-modified-by-call:"+shape, done, fmt.Sprintf("%s: the value handed in read %s before the call and reads %s after it", t.fn, inJS, hin.js))
			}
			if (retID == "nil") != (data == nil) {
				r.Mismatch(done, fmt.Sprint("returned-nil=", data == nil), want, "returned data")
				return false
			}
			if retID != "nil" && retID != inID {
				reg(retID, "ret", data)
			}
			if !compareAll(op) {
				return false
			}
			if w.remote && w.persist {
				for _, k := range alts {
					if !x.twin(r, t, done, w, before, after, v, k) {
						return false
					}
				}
			}
			alts = nil
		default:
			panic("bad op " + op)
		}
	}
	r.Traces++
	if changedHandles > 0 || (remoteOps > 0 && inplaceOps > 0) {
		r.Case(strings.Join(ops, "; "))
	}
	return true
}

// twin: the metamorphic clause of C04 - the same write against a store that differs only in
// elements the write does not address must get the same verdict and treat the addressed
// elements alike.
func (x *hpRun) twin(r *h.Report, t *hpType, done []string, w *hpWrite, before, after [][]int, v hpVerdict, k int) bool {
	s2 := t.mutateUnaddressed(w, before, k)
	if s2 == nil {
		r.Eval("twin:none", "")
		return true
	}
	fd2 := hpNewFD(t.fn)
	setup := &hpWrite{persist: true, items: s2, fpk: "N", fdk: "N"}
	hpCall(t, fd2, setup, t.encList(s2))
	x.d2.Ask("reset")
	x.d2.Ask(t.shape)
	x.d2.Ask(setup.line())
	v2, _ := hpCall(t, fd2, w, t.encList(w.items))
	want := strings.Fields(x.d2.Ask(w.line()))[0]
	ops := append(append([]string{}, done...), fmt.Sprintf("# twin %d: store %s", k, hpListS(s2)))
	r.Eval("twin:"+hpVerdictS(v)+"/"+hpVerdictS(v2), "")
	if hpVerdictS(v2) != want {
		r.Mismatch(ops, hpVerdictS(v2), want, fmt.Sprintf("%s: verdict on the twin store", t.fn))
		return false
	}
	if v2 == hpPanic || v == hpPanic {
		return true
	}
	after2 := t.decAny(fd2.DataCopyAny())
	if got, wantS := hpListS(after2), x.d2.Ask("store"); got != wantS {
		r.Mismatch(ops, got, wantS, fmt.Sprintf("%s: stored data of the twin", t.fn))
		return false
	}
	t.c04(r, ops, w, s2, after2, v2)
	t.c04Lean(x.d2, r, ops, w, s2, after2, v2)
	fn := hpPartialFn(t.partialPart(w))
	if w.deletePart() != "" {
		fn = "deleteFilteredData"
	}
	if v != v2 {
		rejecting := before
		if v2 == hpErr {
			rejecting = s2
		}
		blocked := false
		for _, e := range rejecting {
			if !t.addressed(w, e) && !t.writable(e) {
				blocked = true
			}
		}
		key := "C04/unaddressed-influences-verdict:" + fn
		if blocked {
			key = "C04/unaddressed-unwritable-blocks:" + fn
		}
		r.SpecFail(key, ops, fmt.Sprintf("%s: the same write is answered %s on %s and %s on %s, which differ only in elements it does not address", t.fn, hpVerdictS(v), hpListS(before), hpVerdictS(v2), hpListS(s2)))
	} else if v == hpOK {
		pick := func(l [][]int) string {
			var p []string
			for _, e := range l {
				if t.addressed(w, e) {
					p = append(p, hpItemS(e))
				}
			}
			sort.Strings(p)
			return strings.Join(p, ";")
		}
		if a, b := pick(after), pick(after2); a != b && t.partialPart(w) != "selector" {
			r.SpecFail("C04/unaddressed-influences-result:"+fn, ops, fmt.Sprintf("%s: addressed elements end as %s resp. %s on stores that differ only in unaddressed elements", t.fn, a, b))
		}
	}
	return true
}

// ---------------------------------------------------------------- probes of the defect flags

type hpProbe struct {
	name    string
	ops     []string
	on      bool
	detail  string
	comment string
}

// item builder for the probes / corpus on a flag-carrying single-key type
func (t *hpType) it(id, flag int, vals ...int) []int {
	a := make([]int, t.n)
	for i := range a {
		a[i] = -1
	}
	if len(t.keys) > 0 {
		a[t.keys[0].idx] = id
	}
	if t.flag >= 0 {
		a[t.flag] = flag
	}
	for i, v := range vals {
		if i < len(t.vals) && v >= 0 {
			a[t.vals[i]] = v % t.dom[t.vals[i]]
		}
	}
	return a
}

func (t *hpType) selOf(id int) []int {
	s := make([]int, len(t.selMap))
	for j := range s {
		s[j] = -1
		if id >= 0 && len(t.keys) > 0 && t.selMap[j] == t.keys[0].idx && t.selUse[j] {
			s[j] = id
		}
	}
	return s
}

func (t *hpType) elOf(fields ...int) []int {
	e := make([]int, t.elN)
	for j := range e {
		e[j] = -1
		for _, f := range fields {
			if t.elMap[j] == f {
				e[j] = 0
			}
		}
	}
	return e
}

func hpSet(items ...[]int) string {
	return (&hpWrite{persist: true, items: items, fpk: "N", fdk: "N"}).line()
}

// probeFlags runs the witness of every defect flag on the real code (no model involved).
func hpProbeFlags(t *hpType) []hpProbe {
	tyOp := "type " + string(t.fn)
	run := func(setup [][]int, w *hpWrite) (hpVerdict, [][]int) {
		fd := hpNewFD(t.fn)
		hpCall(t, fd, &hpWrite{persist: true, items: setup, fpk: "N", fdk: "N"}, t.encList(setup))
		v, _ := hpCall(t, fd, w, t.encList(w.items))
		return v, t.decAny(fd.DataCopyAny())
	}
	var ps []hpProbe
	c0, f1 := t.it(0, 1, 1), t.it(1, 0, 2)
	// C04a: a filter-less remote write replaces the data
	w := &hpWrite{remote: true, persist: true, items: [][]int{t.it(1, 1, 0)}, fpk: "N", fdk: "N"}
	_, after := run([][]int{c0, f1}, w)
	ps = append(ps, hpProbe{name: "fastpathRemote", ops: []string{tyOp, hpSet(c0, f1), w.line()}, on: hpEqList(after, w.items),
		detail: "data after a filter-less remote write: " + hpListS(after)})
	// C04b: Merge rejects because of an unaddressed unwritable element
	w = &hpWrite{remote: true, persist: true, items: [][]int{t.it(0, -1, 2)}, fpk: "E", fdk: "N"}
	v, _ := run([][]int{c0, f1}, w)
	ps = append(ps, hpProbe{name: "mergeStrict", ops: []string{tyOp, hpSet(c0, f1), w.line()}, on: v == hpErr,
		detail: "verdict of a partial remote write addressing only the changeable element: " + hpVerdictS(v)})
	// C05 site: SelectorMatch on an element that does not carry the selected field
	noid := t.it(-1, 1, 1)
	w = &hpWrite{persist: true, items: [][]int{t.it(-1, -1, 2)}, fpk: "F", fps: t.selOf(0), fdk: "N"}
	v, _ = run([][]int{noid}, w)
	ps = append(ps, hpProbe{name: "selNilPanics", ops: []string{tyOp, hpSet(noid), w.line()}, on: v == hpPanic,
		detail: "selector update on an element without identifier: " + hpVerdictS(v)})
	// C05 site: selector update with an empty list
	w = &hpWrite{persist: true, fpk: "F", fps: t.selOf(0), fdk: "N"}
	v, _ = run([][]int{c0}, w)
	ps = append(ps, hpProbe{name: "emptySelPanics", ops: []string{tyOp, hpSet(c0), w.line()}, on: v == hpPanic,
		detail: "selector update with an empty list: " + hpVerdictS(v)})
	// C04 clause 1b: the in-place paths copy the flag a remote write carries
	c2 := t.it(2, 1, 0)
	w = &hpWrite{remote: true, persist: true, items: [][]int{t.it(-1, 0)}, fpk: "E", fdk: "N"}
	_, after = run([][]int{c0, c2}, w)
	ps = append(ps, hpProbe{name: "inplaceAltersFlag", ops: []string{tyOp, hpSet(c0, c2), w.line()}, on: len(after) == 2 && after[0][t.flag] != 1,
		detail: "data after an identifier-less remote write that carries a flag: " + hpListS(after)})
	// C04b, delete path: deleteFilteredData rejects because of an unwritable element the selector does not match
	w = &hpWrite{remote: true, persist: true, fpk: "N", fdk: "F", fds: t.selOf(0)}
	v, _ = run([][]int{c0, f1}, w)
	ps = append(ps, hpProbe{name: "deleteStrict", ops: []string{tyOp, hpSet(c0, f1), w.line()}, on: v == hpErr,
		detail: "verdict of a remote delete whose selector matches only the changeable element: " + hpVerdictS(v)})
	// C11b: the fast path stores the caller's pointer (the value handed in sees a later re-assignment of the list)
	{
		fd := hpNewFD(t.fn)
		in := t.encList([][]int{c0, f1})
		hpCall(t, fd, &hpWrite{persist: true, items: [][]int{c0, f1}, fpk: "N", fdk: "N"}, in)
		w = &hpWrite{persist: true, items: [][]int{c2}, fpk: "E", fdk: "N"}
		hpCall(t, fd, w, t.encList(w.items))
		now := t.decAny(in)
		ps = append(ps, hpProbe{name: "fastpathAdopts", ops: []string{tyOp, hpSet(c0, f1), w.line()}, on: len(now) != 2,
			detail: "the value handed to a filter-less update reads, after a later identifier-based partial update: " + hpListS(now)})
	}
	return ps
}

// ---------------------------------------------------------------- corpus: one deterministic witness per known defect

func hpCorpus(t *hpType) [][]string {
	ty := "type " + string(t.fn)
	c0, f1, c2 := t.it(0, 1, 1), t.it(1, 0, 2), t.it(2, 1, 0)
	up := func(remote, persist bool, items [][]int, fpk string, fps []int, fdk string, fds, fde []int) string {
		return (&hpWrite{remote: remote, persist: persist, items: items, fpk: fpk, fps: fps, fdk: fdk, fds: fds, fde: fde}).line()
	}
	v0 := t.vals[0]
	L := func(items ...[]int) [][]int { return items }
	return [][]string{
		// C04a fastpath-full-remote-write: the full remote write replaces the unchangeable element and its flag
		{ty, hpSet(c0, f1), up(true, true, L(t.it(1, 1, 0)), "N", nil, "N", nil, nil)},
		// C04b unaddressed-unwritable-blocks:Merge (twin: the unaddressed element made changeable)
		{ty, hpSet(c0, f1), "alt 0 2", up(true, true, L(t.it(0, -1, 2)), "E", nil, "N", nil, nil)},
		// C04b unaddressed-unwritable-blocks:deleteFilteredData
		{ty, hpSet(c0, f1), "alt 0 2", up(true, true, nil, "N", nil, "F", t.selOf(0), nil)},
		// C04c rejected-but-applied:copyToAllData / C11 failed-modifies-store:copyToAllData
		{ty, hpSet(c0, f1), up(true, true, L(t.it(-1, -1, 2)), "E", nil, "N", nil, nil)},
		// C04c rejected-but-applied:copyToSelectedData (empty selector matches both; the unwritable one is skipped)
		{ty, hpSet(f1, c2), up(true, true, L(t.it(-1, -1, 2)), "F", t.selOf(-1), "N", nil, nil)},
		// C04c rejected-but-applied:deleteFilteredData / C11 failed-modifies-store:RemoveElementFromItem
		{ty, hpSet(c0, f1), up(true, true, nil, "N", nil, "F", nil, t.elOf(v0))},
		// C04 success-but-not-applied:Merge: a remote write cannot add, yet is answered with success
		{ty, hpSet(c0), up(true, true, L(t.it(5, -1, 2)), "E", nil, "N", nil, nil)},
		// C04 flag-altered:copyToAllData / copyToSelectedData / deleteFilteredData
		{ty, hpSet(c0, c2), up(true, true, L(t.it(-1, 0)), "E", nil, "N", nil, nil)},
		{ty, hpSet(c0, c2), up(true, true, L(t.it(-1, 0)), "F", t.selOf(0), "N", nil, nil)},
		{ty, hpSet(c0, c2), up(true, true, nil, "N", nil, "F", t.selOf(0), t.elOf(t.flag))},
		// C11 inplace:copyToSelectedData - a DataCopy snapshot changes under a later local selector update
		{ty, hpSet(c0, f1), "copy", up(false, true, L(t.it(-1, -1, 2)), "F", t.selOf(0), "N", nil, nil)},
		// C11 inplace:copyToAllData
		{ty, hpSet(c0, f1), "copy", up(false, true, L(t.it(-1, -1, 2)), "E", nil, "N", nil, nil)},
		// C11 inplace:RemoveElementFromItem
		{ty, hpSet(c0, f1), "copy", up(false, true, nil, "N", nil, "F", nil, t.elOf(v0))},
		// C11 nonpersist-modifies-store:copyToSelectedData / copyToAllData / RemoveElementFromItem
		{ty, hpSet(c0, f1), up(false, false, L(t.it(-1, -1, 2)), "F", t.selOf(0), "N", nil, nil)},
		{ty, hpSet(c0, f1), up(false, false, L(t.it(-1, -1, 2)), "N", nil, "N", nil, nil)},
		{ty, hpSet(c0, f1), up(false, false, nil, "N", nil, "F", nil, t.elOf(v0))},
		// C11 failed-modifies-store:copyToSelectedData
		{ty, hpSet(f1, c2), up(true, true, L(t.it(-1, -1, 2)), "F", t.selOf(-1), "N", nil, nil)},
		// C11 fastpath-pointer-shared: the value handed to a filter-less update is adopted; a later
		// identifier-based partial update (merge path, writes nothing in place) re-assigns its list
		{ty, hpSet(c0, f1), up(false, true, L(t.it(2, 1, 2)), "E", nil, "N", nil, nil)},
		// stable cases (must stay silent): snapshot across replace and merge-path updates, delete with selector
		{ty, hpSet(c0, f1), "copy", up(false, true, L(t.it(0, -1, 2)), "E", nil, "N", nil, nil), "copy", hpSet(c2), "copy",
			up(false, true, nil, "N", nil, "F", t.selOf(2), nil), up(false, false, L(t.it(1, -1, 0)), "N", nil, "N", nil, nil)},
	}
}

// ---------------------------------------------------------------- the C04 grid (exhaustive in the thorough tier)

func hpGridStores(t *hpType) [][][]int {
	var items [3][][]int
	for id := 0; id < 3; id++ {
		for _, fl := range []int{-1, 0, 1} {
			for _, v := range []int{-1, 1} {
				items[id] = append(items[id], t.it(id, fl, v))
			}
		}
	}
	stores := [][][]int{nil}
	for _, a := range items[0] {
		stores = append(stores, [][]int{a})
		for _, b := range items[1] {
			stores = append(stores, [][]int{a, b})
			for _, c := range items[2] {
				stores = append(stores, [][]int{a, b, c})
			}
		}
	}
	return stores
}

func hpGridWrites(t *hpType) []*hpWrite {
	var ws []*hpWrite
	add := func(items [][]int, fpk string, fps []int, fdk string, fds, fde []int) {
		ws = append(ws, &hpWrite{remote: true, persist: true, items: items, fpk: fpk, fps: fps, fdk: fdk, fds: fds, fde: fde})
	}
	v0 := t.vals[0]
	var its [][]int
	for _, id := range []int{0, 1, 7} {
		for _, fl := range []int{-1, 0, 1} {
			its = append(its, t.it(id, fl, 2))
		}
	}
	pairs := [][][]int{{t.it(0, -1, 2), t.it(1, -1, 2)}, {t.it(1, -1, 2), t.it(7, -1, 0)}, {t.it(0, 1, 2), t.it(2, 0, 2)}}
	// full writes
	add(nil, "N", nil, "N", nil, nil)
	for _, a := range its {
		add([][]int{a}, "N", nil, "N", nil, nil)
	}
	for _, p := range pairs {
		add(p, "N", nil, "N", nil, nil)
	}
	// partial writes with identifiers
	add(nil, "E", nil, "N", nil, nil)
	for _, a := range its {
		add([][]int{a}, "E", nil, "N", nil, nil)
	}
	for _, p := range pairs {
		add(p, "E", nil, "N", nil, nil)
	}
	// partial writes without identifiers
	for _, fl := range []int{-1, 0, 1} {
		for _, v := range []int{-1, 2} {
			add([][]int{t.it(-1, fl, v)}, "E", nil, "N", nil, nil)
		}
	}
	if t.selT != nil {
		sels := [][]int{t.selOf(0), t.selOf(1), t.selOf(7), t.selOf(-1)}
		// selector writes
		for _, s := range sels {
			add([][]int{t.it(-1, -1, 2)}, "F", s, "N", nil, nil)
			add([][]int{t.it(-1, 0, 2)}, "F", s, "N", nil, nil)
		}
		// delete with selector
		for _, s := range sels {
			add(nil, "N", nil, "F", s, nil)
		}
		if t.elT != nil {
			for _, s := range sels {
				add(nil, "N", nil, "F", s, t.elOf(v0))
				add(nil, "N", nil, "F", s, t.elOf(v0, t.flag))
			}
		}
		// combinations
		add([][]int{t.it(1, -1, 2)}, "N", nil, "F", t.selOf(0), nil)
		add([][]int{t.it(0, -1, 2)}, "N", nil, "F", t.selOf(0), nil)
		add([][]int{t.it(-1, -1, 2)}, "N", nil, "F", t.selOf(1), nil)
		add([][]int{t.it(-1, -1, 2)}, "F", t.selOf(1), "F", t.selOf(0), nil)
		if t.elT != nil {
			add([][]int{t.it(-1, -1, 2)}, "F", t.selOf(0), "F", nil, t.elOf(v0))
			add([][]int{t.it(1, -1, 2)}, "E", nil, "F", t.selOf(1), t.elOf(v0))
		}
		// both filters in one command (partial filter without data + delete filter; selector + delete)
		add([][]int{t.it(1, -1, 2)}, "E", nil, "F", t.selOf(0), nil)
		add([][]int{t.it(-1, -1, 2)}, "E", nil, "F", t.selOf(1), nil)
		add([][]int{t.it(-1, -1, 2)}, "F", t.selOf(2), "F", t.selOf(0), nil)
	}
	if t.elT != nil {
		add(nil, "N", nil, "F", nil, t.elOf(v0))
		add(nil, "N", nil, "F", nil, t.elOf(t.flag))
		add(nil, "N", nil, "F", nil, t.elOf(v0, t.flag))
	}
	return ws
}

// ---------------------------------------------------------------- random histories

type hpGen struct {
	rng *rand.Rand
	t   *hpType
}

func (g *hpGen) item(keyP float64, ids int) []int {
	t := g.t
	a := make([]int, t.n)
	for i := range a {
		a[i] = -1
	}
	for _, k := range t.keys {
		if g.rng.Float64() < keyP {
			a[k.idx] = g.rng.Intn(ids)
		}
	}
	if t.flag >= 0 {
		a[t.flag] = []int{-1, 0, 1, 1}[g.rng.Intn(4)]
	}
	for _, j := range t.vals {
		if g.rng.Intn(2) == 0 {
			a[j] = g.rng.Intn(t.dom[j])
		}
	}
	return a
}

func (g *hpGen) list(max int, keyP float64, distinct bool) [][]int {
	var l [][]int
	n := g.rng.Intn(max + 1)
	seen := map[string]bool{}
	for i := 0; i < n; i++ {
		a := g.item(keyP, 3)
		if distinct && len(g.t.keys) > 0 {
			k := g.t.keyOf(a)
			if seen[k] {
				continue
			}
			seen[k] = true
		}
		l = append(l, a)
	}
	return l
}

func (g *hpGen) sel() []int {
	t := g.t
	if t.selT == nil {
		return nil
	}
	s := make([]int, len(t.selMap))
	any := false
	for j := range s {
		s[j] = -1
		if !t.selUse[j] {
			continue
		}
		any = true
		isKey := false
		for _, k := range t.keys {
			if k.idx == t.selMap[j] {
				isKey = true
			}
		}
		p := 4
		if !isKey {
			p = 1
		}
		if g.rng.Intn(6) < p {
			d := t.selDom[j]
			if d < 1 {
				d = 1
			}
			s[j] = g.rng.Intn(d)
		}
	}
	if !any && g.rng.Intn(2) == 0 {
		return nil
	}
	return s
}

func (g *hpGen) el() []int {
	t := g.t
	if t.elT == nil {
		return nil
	}
	e := make([]int, t.elN)
	for j := range e {
		e[j] = -1
	}
	for c := g.rng.Intn(3); c > 0; c-- {
		j := g.rng.Intn(t.elN)
		if g.rng.Intn(4) > 0 && len(t.vals) > 0 {
			// prefer value fields
			want := t.vals[g.rng.Intn(len(t.vals))]
			for jj, m := range t.elMap {
				if m == want {
					j = jj
				}
			}
		}
		e[j] = 0
	}
	return e
}

func (g *hpGen) write() *hpWrite {
	rng := g.rng
	w := &hpWrite{remote: rng.Intn(3) == 0, persist: rng.Intn(4) != 0, fpk: "N", fdk: "N"}
	if w.remote && !w.persist && rng.Intn(4) > 0 {
		w.persist = true // a peer's write always persists; the other combination only for the correspondence
	}
	idless := func() [][]int { return [][]int{g.item(0, 3)} }
	merge := func() [][]int { return g.list(2, 1, true) }
	del := func() {
		switch rng.Intn(3) {
		case 0:
			w.fds = g.sel()
		case 1:
			w.fde = g.el()
		default:
			w.fds, w.fde = g.sel(), g.el()
		}
		if w.fds != nil || w.fde != nil {
			w.fdk = "F"
		} else {
			w.fdk = "E"
		}
	}
	partial := func() {
		switch x := rng.Intn(10); {
		case x < 4:
			w.fpk, w.items = "E", merge()
		case x < 6:
			w.fpk, w.items = "E", idless()
		case x < 9:
			if s := g.sel(); s != nil {
				w.fpk, w.fps = "F", s
				w.items = [][]int{g.item(0.2, 3)}
				if rng.Intn(12) == 0 {
					w.items = nil
				}
			} else {
				w.fpk, w.items = "E", merge()
			}
		default:
			if e := g.el(); e != nil {
				w.fpk, w.fpe, w.items = "F", e, idless()
			} else {
				w.fpk, w.items = "E", idless()
			}
		}
	}
	switch x := rng.Intn(100); {
	case x < 14: // full (replace) resp. non-persisting merge
		w.items = g.list(4, 1, rng.Intn(5) > 0)
		if rng.Intn(8) == 0 {
			w.items = g.list(3, 0.7, false)
		}
	case x < 62:
		partial()
	case x < 84:
		del()
	default:
		del()
		if rng.Intn(3) == 0 {
			w.fpk = "N"
			if rng.Intn(2) == 0 {
				w.items = merge()
			} else {
				w.items = idless()
			}
		} else {
			partial()
		}
	}
	return w
}

func (g *hpGen) history(n int) []string {
	ops := []string{"type " + string(g.t.fn)}
	ops = append(ops, (&hpWrite{persist: true, items: g.list(4, 1, g.rng.Intn(6) > 0), fpk: "N", fdk: "N"}).line())
	for len(ops) < n {
		switch x := g.rng.Intn(10); {
		case x < 3:
			ops = append(ops, "copy")
		default:
			w := g.write()
			if w.remote && g.rng.Intn(2) == 0 {
				ops = append(ops, fmt.Sprintf("alt %d %d", g.rng.Intn(5), 1000+g.rng.Intn(100000)))
			}
			ops = append(ops, w.line())
		}
	}
	return ops
}

// ---------------------------------------------------------------- the test

var hpFlagTypes = []model.FunctionType{
	model.FunctionTypeLoadControlLimitListData, model.FunctionTypeSetpointListData, model.FunctionTypeDeviceConfigurationKeyValueListData,
}

var hpRepresentative = []model.FunctionType{
	model.FunctionTypeMeasurementListData, model.FunctionTypeMeasurementDescriptionListData,
	model.FunctionTypeElectricalConnectionPermittedValueSetListData, model.FunctionTypeElectricalConnectionParameterDescriptionListData,
	model.FunctionTypeElectricalConnectionDescriptionListData, model.FunctionTypeDeviceConfigurationKeyValueDescriptionListData,
	model.FunctionTypeLoadControlLimitDescriptionListData, model.FunctionTypeTimeSeriesListData,
	model.FunctionTypeIncentiveTableDescriptionData, model.FunctionTypeHvacOverrunListData,
	model.FunctionTypeBillListData, model.FunctionTypeTariffListData, model.FunctionTypeAlarmListData,
	model.FunctionTypeSubscriptionManagementEntryListData, model.FunctionTypeThresholdListData,
}

const hpComponent = "heap"

func TestHeap(t *testing.T) {
	r := h.NewReport(hpComponent, "op histories (filter-less, partial with / without identifiers, selector, delete with selector and / or elements, combinations; local and remote-write; persisting and not) on real spine.FunctionData stores of the registered list functions, every value ever handed in or out retained and re-read after every op, compared op by op with Spine.Heap (verdict, returned-data handle, content of every retained value and of the store); the C04 grid (stores <= 3 elements mixing changeable / unchangeable / flag-less x write shapes x twin stores differing in unaddressed elements) on the three flag-carrying list functions; the same monitors through real write / notify / reply datagrams in a composed device; non-trivial = a history in which a retained value changed or a remote write met an in-place path (distinct by op text)")
	defer r.Write()
	types, skipped := hpDiscover()
	x := &hpRun{types: types}
	var names []string
	for fn := range types {
		names = append(names, string(fn))
	}
	sort.Strings(names)
	r.Info["list_functions_covered"] = len(names)
	r.Info["list_functions_skipped"] = skipped
	for _, fn := range hpFlagTypes {
		if types[fn] == nil || types[fn].flag < 0 || len(types[fn].keys) != 1 || len(types[fn].vals) < 1 || types[fn].selT == nil || types[fn].elT == nil {
			t.Fatalf("flag-carrying list function %s not found in the shape the harness expects (%v)", fn, skipped[string(fn)])
		}
	}
	x.d = h.StartDriver("drv_heap")
	defer x.d.Close()
	x.d2 = h.StartDriver("drv_heap")
	defer x.d2.Close()

	// ---- probe phase: which member of the model family is the tree under test (DESIGN §4.7)
	lc := types[model.FunctionTypeLoadControlLimitListData]
	cfg := []string{"cfg"}
	for _, p := range hpProbeFlags(lc) {
		r.SetFlag(p.name, p.on, p.ops, p.detail)
		cfg = append(cfg, strconv.Itoa(h.B2i(p.on)))
		if p.name == "fastpathRemote" {
			for _, ty := range types {
				ty.remoteFullViaEngine = !p.on
			}
		}
	}
	x.cfg = strings.Join(cfg, " ")
	if a := x.d.Ask(x.cfg); a != "ok" {
		t.Fatalf("driver refused %q: %s", x.cfg, a)
	}
	x.d2.Ask(x.cfg)

	if ops := h.ReplayOps(hpComponent); ops != nil {
		if len(ops) > 0 && strings.HasPrefix(ops[0], "world") {
			hpWorldReplay(r, x, ops)
		} else {
			x.history(r, ops)
		}
		return
	}

	// ---- corpus: every known finding is reproduced on every run
	for _, fn := range hpFlagTypes {
		for _, ops := range hpCorpus(types[fn]) {
			x.history(r, ops)
		}
	}
	// ---- the C04 grid
	rng := h.Rng(411)
	for _, fn := range hpFlagTypes {
		ty := types[fn]
		stores, writes := hpGridStores(ty), hpGridWrites(ty)
		r.Info["grid:"+string(fn)] = fmt.Sprintf("%d stores x %d writes", len(stores), len(writes))
		run := func(s [][]int, w *hpWrite) {
			x.history(r, []string{"type " + string(fn), hpSet(s...), "alt 0 1 2 3", w.line()})
		}
		if h.Tier() == "thorough" {
			for _, s := range stores {
				for _, w := range writes {
					run(s, w)
				}
			}
		} else {
			for i := 0; i < 1500; i++ {
				run(stores[rng.Intn(len(stores))], writes[rng.Intn(len(writes))])
			}
		}
	}
	r.Exhaustive = false
	// ---- random histories
	var pool []model.FunctionType
	pool = append(pool, hpFlagTypes...)
	for _, fn := range hpRepresentative {
		if types[fn] != nil {
			pool = append(pool, fn)
		}
	}
	var rest []model.FunctionType
	for _, n := range names {
		in := false
		for _, p := range pool {
			if string(p) == n {
				in = true
			}
		}
		if !in {
			rest = append(rest, model.FunctionType(n))
		}
	}
	r.Info["representative_pool"] = len(pool)
	per := h.Scale(40, 500)
	for _, fn := range pool {
		g := &hpGen{rng: rng, t: types[fn]}
		for i := 0; i < per; i++ {
			if !x.history(r, g.history(10+rng.Intn(21))) && r.MismatchN > 20 {
				break
			}
		}
	}
	perRest := h.Scale(4, 150)
	for _, fn := range rest {
		g := &hpGen{rng: rng, t: types[fn]}
		for i := 0; i < perRest; i++ {
			x.history(r, g.history(10+rng.Intn(21)))
		}
	}
	// ---- the composed device: real datagrams
	hpWorldRun(r, x)

	// ---- minimise witnesses
	for _, sf := range append([]h.SpecFailure{}, r.SpecFailures...) {
		if len(sf.Ops) < 5 || strings.HasPrefix(sf.Ops[0], "world") {
			continue
		}
		key := sf.Key
		small := h.Shrink(sf.Ops, func(ops []string) bool {
			q := h.Quiet()
			x.history(q, hpStripComments(ops))
			return q.HasSpecFail(key)
		})
		r.ReplaceSpecFailOps(key, small)
	}
	if len(r.Mismatches) > 0 && !strings.HasPrefix(r.Mismatches[0].Ops[0], "world") {
		mm := r.Mismatches[0]
		small := h.Shrink(hpStripComments(mm.Ops), func(ops []string) bool {
			q := h.Quiet()
			x.history(q, ops)
			return q.MismatchN > 0
		})
		q := h.Quiet()
		x.history(q, small)
		if q.MismatchN > 0 {
			r.ReplaceMismatch(0, small, q.Mismatches[0].Impl, q.Mismatches[0].Model)
		}
	}
	// ---- generator floors
	tot, okN, errN, rem, inpl, del := 0, 0, 0, 0, 0, 0
	for k, n := range r.Dist {
		if !strings.Contains(k, "upd:") {
			continue
		}
		tot += n
		if strings.HasSuffix(k, "ok=1") {
			okN += n
		}
		if strings.HasSuffix(k, "ok=0") {
			errN += n
		}
		if strings.HasPrefix(k, "r") {
			rem += n
		}
		if strings.Contains(k, "selector") || strings.Contains(k, "idless") || strings.Contains(k, "-el") {
			inpl += n
		}
		if strings.Contains(k, "del-") {
			del += n
		}
	}
	r.Floor("updates that succeed", okN, tot, 0.40)
	r.Floor("updates that are rejected", errN, tot, 0.03)
	r.Floor("remote writes", rem, tot, 0.15)
	r.Floor("updates through an in-place path", inpl, tot, 0.15)
	r.Floor("updates with a delete filter", del, tot, 0.08)
	tw, twDiff := 0, 0
	for k, n := range r.Dist {
		if strings.HasPrefix(k, "twin:") && k != "twin:none" {
			tw += n
			p := strings.Split(strings.TrimPrefix(k, "twin:"), "/")
			if p[0] != p[1] {
				twDiff += n
			}
		}
	}
	r.Info["twin_runs"] = tw
	r.Info["twin_runs_with_different_verdict"] = twDiff
	r.Floor("twin stores actually built", tw, tw+r.Dist["twin:none"], 0.10)
}

func hpStripComments(ops []string) []string {
	var o []string
	for _, op := range ops {
		if !strings.HasPrefix(op, "#") {
			o = append(o, op)
		}
	}
	return o
}
