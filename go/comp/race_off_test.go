//go:build !race

package comp

// evbRaceEnabled: the test binary was built with -race.
const evbRaceEnabled = false
