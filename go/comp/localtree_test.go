package comp

// C07 — correspondence of Spine.LTree and Spine.Feat (Lean) with the local device
// tree of spine.DeviceLocal / EntityLocal / FeatureLocal, plus the SPEC monitor of the
// property evaluated on the implementation's own trace (reply and notify datagrams).
//
// Op language (one line per op; also the replay format). Slots stand for entity addresses
// (0=[0] device information, 1=[1], 2=[2], 3=[1,1], 4=[3]); peers are 0..2.
//   world ABC         (first op only) one digit per peer: 1 = the peer's connection cannot be written to
//                     (SetupRemoteDevice with a nil writer: every send to it returns an error); default 000
//   renew K ET        NewEntityLocal for slot K with entity type index ET (a fresh object)
//   attach K          DeviceLocal.AddEntity        detach K   DeviceLocal.RemoveEntity
//   feat K T R        GetOrAddFeature(type T, role R) on slot K      next K   NextFeatureId
//   fn K FID FN R W   AddFunctionType(FN, read R, write W) on FeatureOfAddress(FID)
//   descr K FID D     SetDescriptionString("custom-D")
//   adduc K           AddUseCaseSupport on slot K (makes RemoveEntity emit a use-case notify as well)
//   sub P / unsub P   peer P subscribes to / unsubscribes from node management (real call datagrams)
//   read P            peer P reads nodeManagementDetailedDiscoveryData (real datagram, real reply)
//   readheld P K attach J | readheld P K detach J
//                     peer P's read is held while it renders entity K (a gate in K's Information()); meanwhile
//                     AddEntity / RemoveEntity of slot J runs; then the read is released
//   rhold P K         peer P's read starts and is held when it is about to render entity K (gate in K's Information(),
//                     i.e. after every entity before K was rendered with its features, before K's Features() is taken);
//                     if K is not part of the device the read runs to its end. While a read is held every op except
//                     renew / readheld / rhold runs as usual (model: events of Spine/LocalTreeRead.lean)
//   rmove K           the held read goes on and is held again when it is about to render K (or runs to its end)
//   rrelease          the held read runs to its end; the reply is compared with the model's and judged by the
//                     sandwich monitor (entities of the start; every feature between its state at the start and now)
// Concurrent feature creation (second part, model Spine.Feat):
//   get OP T R        GetOrAddFeature nothing overlaps     nextid   NextFeatureId
//   lookup OP T R     start GetOrAddFeature in goroutine OP and let it run to the yield point after the missed lookup
//   create OP         release goroutine OP (creation under the lock) and wait for it

import (
	"encoding/json"
	"fmt"
	"math/rand"
	"sort"
	"strconv"
	"strings"
	"sync"
	"sync/atomic"
	"testing"
	"time"

	"github.com/enbility/spine-go/api"
	"github.com/enbility/spine-go/model"
	"github.com/enbility/spine-go/spine"
	"github.com/enbility/spine-go/util"
	"verifharness/h"
)

const ltrDoubleKey = "C07/get-or-add-double-creation"

var (
	ltrTypes = []model.FeatureTypeType{model.FeatureTypeTypeLoadControl, model.FeatureTypeTypeSetpoint, model.FeatureTypeTypeDeviceDiagnosis, model.FeatureTypeTypeMeasurement, model.FeatureTypeTypeGeneric}
	ltrRoles = []model.RoleType{model.RoleTypeClient, model.RoleTypeServer, model.RoleTypeSpecial}
	ltrFns   = []model.FunctionType{model.FunctionTypeLoadControlLimitListData, model.FunctionTypeLoadControlLimitDescriptionListData, model.FunctionTypeSetpointListData,
		model.FunctionTypeDeviceDiagnosisStateData, model.FunctionTypeMeasurementListData, model.FunctionTypeMeasurementDescriptionListData,
		model.FunctionTypeDeviceDiagnosisHeartbeatData}
	ltrNmFns = []model.FunctionType{model.FunctionTypeNodeManagementDetailedDiscoveryData, model.FunctionTypeNodeManagementUseCaseData, model.FunctionTypeNodeManagementSubscriptionData,
		model.FunctionTypeNodeManagementSubscriptionRequestCall, model.FunctionTypeNodeManagementSubscriptionDeleteCall, model.FunctionTypeNodeManagementBindingData,
		model.FunctionTypeNodeManagementBindingRequestCall, model.FunctionTypeNodeManagementBindingDeleteCall, model.FunctionTypeNodeManagementDestinationListData,
		model.FunctionTypeDeviceClassificationManufacturerData}
	ltrETypes = []model.EntityTypeType{model.EntityTypeTypeDeviceInformation, model.EntityTypeTypeCEM, model.EntityTypeTypeEVSE, model.EntityTypeTypeEV, model.EntityTypeTypeGeneric}
	ltrSlots  = [][]uint{{0}, {1}, {2}, {1, 1}, {3}}
	ltrDTypes = []model.DeviceTypeType{model.DeviceTypeTypeEnergyManagementSystem, model.DeviceTypeTypeGeneric, model.DeviceTypeTypeDishwasher}
	ltrFSets  = []model.NetworkManagementFeatureSetType{"", model.NetworkManagementFeatureSetTypeGateway, model.NetworkManagementFeatureSetTypeRouter, model.NetworkManagementFeatureSetTypeSmart, model.NetworkManagementFeatureSetTypeSimple}
)

// ltrSendNames tells the model driver the names behind the harness's feature-type and function indices (the driver
// looks the partial-update capability up in the regenerated factory table by name).
func ltrSendNames(d *h.Driver) {
	ask := func(l string) {
		if a := d.Ask(l); a != "ok" {
			panic("driver: " + l + " -> " + a)
		}
	}
	for i, t := range ltrTypes {
		ask(fmt.Sprintf("name t %d %s", i, t))
	}
	ask("name t 90 " + string(model.FeatureTypeTypeNodeManagement))
	ask("name t 91 " + string(model.FeatureTypeTypeDeviceClassification))
	for i, f := range ltrFns {
		ask(fmt.Sprintf("name f %d %s", i, f))
	}
	for i, f := range ltrNmFns {
		ask(fmt.Sprintf("name f %d %s", 100+i, f))
	}
}

func ltrTypeCode(t model.FeatureTypeType) int {
	for i, x := range ltrTypes {
		if x == t {
			return i
		}
	}
	switch t {
	case model.FeatureTypeTypeNodeManagement:
		return 90
	case model.FeatureTypeTypeDeviceClassification:
		return 91
	}
	return -1
}

func ltrRoleCode(r model.RoleType) int {
	for i, x := range ltrRoles {
		if x == r {
			return i
		}
	}
	return -1
}

func ltrFnCode(f model.FunctionType) int {
	for i, x := range ltrFns {
		if x == f {
			return i
		}
	}
	for i, x := range ltrNmFns {
		if x == f {
			return 100 + i
		}
	}
	return -1
}

func ltrETypeCode(t model.EntityTypeType) int {
	for i, x := range ltrETypes {
		if x == t {
			return i
		}
	}
	return -1
}

func ltrSlotOf(e []model.AddressEntityType) int {
	s := h.EntStr(e)
	for i, a := range ltrSlots {
		if h.EntU(a) == s {
			return i
		}
	}
	return -1
}

// the description GetOrAddFeature documents: "<type> Client" / "<type> Server" / "<type>"
func ltrDefaultDescr(t, r int) string {
	d := string(ltrTypes[t])
	switch ltrRoles[r] {
	case model.RoleTypeClient:
		d += " Client"
	case model.RoleTypeServer:
		d += " Server"
	}
	return d
}

// description text -> model code (0 = none, 1+3*type+role = default, 1000+d = custom-d)
func ltrDescrCode(d *model.DescriptionType) int {
	if d == nil {
		return 0
	}
	s := string(*d)
	for t := range ltrTypes {
		for r := range ltrRoles {
			if s == ltrDefaultDescr(t, r) {
				return 1 + 3*t + r
			}
		}
	}
	if strings.HasPrefix(s, "custom-") {
		if n, err := strconv.Atoi(s[7:]); err == nil {
			return 1000 + n
		}
	}
	return -1
}

// ltrDevStr renders a device description as the model does: address:deviceType:featureSet (indices; -1 = unknown,
// feature set 0 = none announced)
func ltrDevStr(d *model.NetworkManagementDeviceDescriptionDataType) string {
	a, dt, fs := -1, -1, 0
	if d != nil {
		if d.DeviceAddress != nil && d.DeviceAddress.Device != nil && string(*d.DeviceAddress.Device) == "HEMS" {
			a = 0
		}
		if d.DeviceType != nil {
			for i, x := range ltrDTypes {
				if x == *d.DeviceType {
					dt = i
				}
			}
		}
		if d.NetworkFeatureSet != nil {
			fs = -1
			for i, x := range ltrFSets {
				if i > 0 && x == *d.NetworkFeatureSet {
					fs = i
				}
			}
		}
	}
	return fmt.Sprintf("%d:%d:%d", a, dt, fs)
}

// ---- canonical view of one announced feature (from a datagram)

type ltrFeatView struct {
	slot, id, typ, role int
	descr               string // text as announced ("" = none)
	descrCode           int
	fns                 map[int][2]bool // read, write
	part                map[int][2]bool // read.partial, write.partial
	addr                *model.FeatureAddressType
}

func ltrViewOf(fi model.NodeManagementDetailedDiscoveryFeatureInformationType) ltrFeatView {
	v := ltrFeatView{slot: -1, id: -1, typ: -1, role: -1, fns: map[int][2]bool{}, part: map[int][2]bool{}}
	d := fi.Description
	if d == nil {
		return v
	}
	if d.FeatureAddress != nil {
		v.addr = d.FeatureAddress
		v.slot = ltrSlotOf(d.FeatureAddress.Entity)
		if d.FeatureAddress.Feature != nil {
			v.id = int(*d.FeatureAddress.Feature)
		}
	}
	if d.FeatureType != nil {
		v.typ = ltrTypeCode(*d.FeatureType)
	}
	if d.Role != nil {
		v.role = ltrRoleCode(*d.Role)
	}
	v.descrCode = ltrDescrCode(d.Description)
	if d.Description != nil {
		v.descr = string(*d.Description)
	}
	for _, sf := range d.SupportedFunction {
		c := -1
		if sf.Function != nil {
			c = ltrFnCode(*sf.Function)
		}
		var rw, pp [2]bool
		if po := sf.PossibleOperations; po != nil {
			rw[0] = po.Read != nil
			rw[1] = po.Write != nil
			pp[0] = po.Read != nil && po.Read.Partial != nil
			pp[1] = po.Write != nil && po.Write.Partial != nil
		}
		if _, dup := v.fns[c]; dup {
			c = -2 // a function announced twice
		}
		v.fns[c] = rw
		v.part[c] = pp
	}
	return v
}

// fnStr: SPEC format fn/read/write; model format fn/read/read.partial/write/write.partial
func (v ltrFeatView) fnStr(full bool) string {
	var ks []int
	for k := range v.fns {
		ks = append(ks, k)
	}
	sort.Ints(ks)
	var p []string
	for _, k := range ks {
		if full {
			p = append(p, fmt.Sprintf("%d/%d/%d/%d/%d", k, h.B2i(v.fns[k][0]), h.B2i(v.part[k][0]), h.B2i(v.fns[k][1]), h.B2i(v.part[k][1])))
		} else {
			p = append(p, fmt.Sprintf("%d/%d/%d", k, h.B2i(v.fns[k][0]), h.B2i(v.fns[k][1])))
		}
	}
	return "[" + strings.Join(p, ",") + "]"
}

// partialOK: the SPEC side of the partial flags that needs no table — a partial read is never announced
// ("partial reads are currently not supported"), a partial write only together with write
func (v ltrFeatView) partialOK() string {
	for k, pp := range v.part {
		if pp[0] {
			return fmt.Sprintf("function %d announces a partial read", k)
		}
		if pp[1] && !v.fns[k][1] {
			return fmt.Sprintf("function %d announces a partial write without write", k)
		}
	}
	return ""
}

// model format: id:typ:role:descr:[fn/r/rp/w/wp,...]
func (v ltrFeatView) modelStr() string {
	return fmt.Sprintf("%d:%d:%d:%d:%s", v.id, v.typ, v.role, v.descrCode, v.fnStr(true))
}

// SPEC format: the description is compared as text
func (v ltrFeatView) specStr() string {
	return fmt.Sprintf("%d:%d:%d:%q:%s", v.id, v.typ, v.role, v.descr, v.fnStr(false))
}

// ---- the harness's own bookkeeping (SPEC side; does not consult the model)

type ltrBkFeat struct {
	id, typ, role int
	descr         string
	fns           map[int][2]bool
	obj           api.FeatureLocalInterface
}

func (f *ltrBkFeat) specStr() string {
	return ltrFeatView{id: f.id, typ: f.typ, role: f.role, descr: f.descr, fns: f.fns}.specStr()
}

type ltrBkEnt struct {
	etype int
	feats []*ltrBkFeat
	maxID int // highest feature number handed out by this entity object so far
}

type ltrBk struct {
	pool     map[int]*ltrBkEnt
	attached []int
	subs     map[int]bool
}

// snapshot: a deep copy of what was declared (objects shared)
func (b *ltrBk) snapshot() *ltrBk {
	c := &ltrBk{pool: map[int]*ltrBkEnt{}, attached: append([]int{}, b.attached...), subs: map[int]bool{}}
	for k, e := range b.pool {
		ce := &ltrBkEnt{etype: e.etype, maxID: e.maxID}
		for _, f := range e.feats {
			cf := &ltrBkFeat{id: f.id, typ: f.typ, role: f.role, descr: f.descr, fns: map[int][2]bool{}, obj: f.obj}
			for fn, rw := range f.fns {
				cf.fns[fn] = rw
			}
			ce.feats = append(ce.feats, cf)
		}
		c.pool[k] = ce
	}
	return c
}

// ltrOvl: a detailed-discovery read that is held in the middle of its walk while the application goes on adding
// features, functions and descriptions (SPEC side: what was declared when the read started, and every description a
// feature carried since).
type ltrOvl struct {
	p        int
	ctr      uint64 // message counter of the read datagram
	start    *ltrBk
	descrs   map[string][]string // slot/feature number -> descriptions set or given since the read started
	release  chan struct{}       // closing it lets the read go on
	readDone chan any
}

func (o *ltrOvl) sawDescr(k, id int, d string) {
	key := fmt.Sprintf("%d/%d", k, id)
	o.descrs[key] = append(o.descrs[key], d)
}

// judge: the SPEC of a reply whose read overlapped additions, without the model. The read takes the entity list
// once, at its start; every entity's feature list and every feature's functions and description are taken at some
// moment between the start of the read and its end; features and functions are only ever added and a function
// keeps the operations of its first addition. So: the entities are those of the start (with their types); every
// feature declared at the start is listed, with every function it had then; every listed feature is declared by
// now, with its type and role, with no function that is not declared by now and every function with the declared
// operations; its description is one the feature carried at some moment since the start.
func (o *ltrOvl) judge(r *h.Report, end *ltrBk, gotE []string, views []ltrFeatView, done []string) {
	fail := func(key, detail string) { r.SpecFail("C07/"+key, done, detail) }
	var wantE []string
	for _, k := range o.start.attached {
		wantE = append(wantE, fmt.Sprintf("%d:%d", k, o.start.pool[k].etype))
	}
	ge := append([]string{}, gotE...)
	sort.Strings(ge)
	sort.Strings(wantE)
	if strings.Join(ge, ",") != strings.Join(wantE, ",") {
		fail("overlapped-read-entities-differ", fmt.Sprintf("reply lists entities {%s}, the device had {%s} when the read started", strings.Join(ge, ","), strings.Join(wantE, ",")))
		return
	}
	find := func(b *ltrBk, k, id int) *ltrBkFeat {
		if e := b.pool[k]; e != nil {
			for _, x := range e.feats {
				if x.id == id {
					return x
				}
			}
		}
		return nil
	}
	got := map[string]ltrFeatView{}
	for _, v := range views {
		got[fmt.Sprintf("%d/%d", v.slot, v.id)] = v
	}
	for _, k := range o.start.attached {
		for _, sf := range o.start.pool[k].feats {
			v, ok := got[fmt.Sprintf("%d/%d", k, sf.id)]
			if !ok {
				fail("overlapped-read-misses-earlier-feature", fmt.Sprintf("feature %d/%d existed when the read started and is not in the reply", k, sf.id))
				continue
			}
			for fn, rw := range sf.fns {
				if g, has := v.fns[fn]; !has || g != rw {
					fail("overlapped-read-misses-earlier-function", fmt.Sprintf("feature %d/%d had function %d when the read started; the reply does not list it with those operations", k, sf.id, fn))
				}
			}
		}
	}
	sameStart, sameEnd := true, true
	for key, v := range got {
		ef := find(end, v.slot, v.id)
		if ef == nil || ef.typ != v.typ || ef.role != v.role {
			fail("overlapped-read-shows-undeclared-feature", fmt.Sprintf("reply lists feature %s (type %d role %d) that was not declared so", key, v.typ, v.role))
			continue
		}
		for fn, rw := range v.fns {
			if d, has := ef.fns[fn]; !has || d != rw {
				fail("overlapped-read-shows-undeclared-function", fmt.Sprintf("reply lists function %d on feature %s with operations that were not declared", fn, key))
			}
		}
		okD := v.descr == ef.descr
		sf := find(o.start, v.slot, v.id)
		if sf != nil && sf.descr == v.descr {
			okD = true
		}
		for _, x := range o.descrs[key] {
			if x == v.descr {
				okD = true
			}
		}
		if !okD {
			fail("overlapped-read-description-never-set", fmt.Sprintf("reply describes feature %s as %q, which it never carried since the read started", key, v.descr))
		}
		if sf == nil || sf.specStr() != v.specStr() {
			sameStart = false
		}
		if ef.specStr() != v.specStr() {
			sameEnd = false
		}
	}
	nStart, nEnd := 0, 0
	for _, k := range o.start.attached {
		nStart += len(o.start.pool[k].feats)
		nEnd += len(end.pool[k].feats)
	}
	sameStart = sameStart && nStart == len(got)
	sameEnd = sameEnd && nEnd == len(got)
	cls := "mixture" // observation, not judged: a read is not one critical section; with two or more overlapping
	// additions the reply can be a mixture no single moment had (Spine.Props.C07 c07_overlapped_read_not_atomic)
	switch {
	case sameStart && sameEnd:
		cls = "nothing-visible-changed"
	case sameStart:
		cls = "is-the-start"
	case sameEnd:
		cls = "is-the-end"
	}
	r.Dist["overlap-reply:"+cls]++
}

func (b *ltrBk) isAttached(k int) bool {
	for _, x := range b.attached {
		if x == k {
			return true
		}
	}
	return false
}

func (b *ltrBk) featStrs(k int) []string {
	var out []string
	for _, f := range b.pool[k].feats {
		out = append(out, f.specStr())
	}
	sort.Strings(out)
	return out
}

// ---- world

type ltrPeer struct {
	w   *h.W
	rw  *ltrReactW
	rd  api.DeviceRemoteInterface
	dev string
	ctr uint64
}

// ltrReact is one read a peer issued from INSIDE the write of a node-management notification (round 6): the peer
// is told "entity k added / removed" and asks for the tree at once; the sender writes synchronously, so the read
// is served while AddEntity / RemoveEntity is still running.
type ltrReact struct {
	state string // "added" / "removed" as announced
	k     int    // slot of the announced entity
	ctr   uint64 // message counter of the read
	reply *model.DatagramType
	stuck bool // the read did not come back within the bound
}

// ltrReactW is the connection writer of a peer: it records like h.W; in a world with the `r` flag it answers every
// partial detailed-discovery notification with a detailed-discovery read through the real datagram path, from
// inside the write, and keeps the reply to that read apart from the ordinary observations.
type ltrReactW struct {
	w    *h.W
	lw   *ltrWorld
	p    int
	mu   sync.Mutex
	busy bool
	got  []ltrReact
}

func (w *ltrReactW) WriteShipMessageWithPayload(m []byte) {
	if w.lw == nil || !w.lw.react {
		w.w.WriteShipMessageWithPayload(m)
		return
	}
	var d model.Datagram
	if err := json.Unmarshal(m, &d); err != nil || d.Datagram.Header.CmdClassifier == nil || len(d.Datagram.Payload.Cmd) != 1 {
		w.w.WriteShipMessageWithPayload(m)
		return
	}
	cl, c := *d.Datagram.Header.CmdClassifier, d.Datagram.Payload.Cmd[0]
	w.mu.Lock()
	if w.busy && cl == model.CmdClassifierTypeReply && c.NodeManagementDetailedDiscoveryData != nil && len(w.got) > 0 && w.got[len(w.got)-1].reply == nil {
		dg := d.Datagram
		w.got[len(w.got)-1].reply = &dg
		w.mu.Unlock()
		return
	}
	react := !w.busy && cl == model.CmdClassifierTypeNotify && c.NodeManagementDetailedDiscoveryData != nil
	if react {
		_, k, state, _, _ := ltrNotifyStr(w.p, c)
		w.busy = true
		w.got = append(w.got, ltrReact{state: state, k: k})
	}
	w.mu.Unlock()
	w.w.WriteShipMessageWithPayload(m)
	if !react {
		return
	}
	// the read is issued on a goroutine of its own and awaited here, inside the write: the same moment for the
	// device under test, and a device that cannot serve a read at this moment is reported instead of hanging the run
	doneC := make(chan uint64, 1)
	go func() {
		doneC <- w.lw.send(w.p, model.CmdClassifierTypeRead, nil, false, model.CmdType{NodeManagementDetailedDiscoveryData: &model.NodeManagementDetailedDiscoveryDataType{}})
	}()
	w.mu.Lock()
	i := len(w.got) - 1
	w.mu.Unlock()
	select {
	case ctr := <-doneC:
		w.mu.Lock()
		w.got[i].ctr = ctr
		w.busy = false
		w.mu.Unlock()
	case <-time.After(10 * time.Second):
		w.mu.Lock()
		w.got[i].stuck = true
		w.busy = false
		w.mu.Unlock()
	}
}

func (w *ltrReactW) takeReacts() []ltrReact {
	w.mu.Lock()
	defer w.mu.Unlock()
	g := w.got
	w.got = nil
	return g
}

// ltrGate is an entity whose Information() can be made to pause once, so that a discovery read can be held in
// the middle of its walk over the entities (AddEntity accepts any api.EntityLocalInterface).
type ltrGate struct {
	*spine.EntityLocal
	armed    atomic.Bool
	entered  chan struct{}
	release  chan struct{}
	skipKind atomic.Int32  // 'I' / 'F': the half of the visit that passes without a hold (0 = none)
	skipGo   atomic.Uint64 // … for this goroutine only
}

// hold pauses the caller once if the gate is armed. A visit of the walk asks the entity for Information() and for
// Features(), in either order: the read is held at whichever comes first — "about to render the entity" does not
// depend on the order in which the walk takes the two — and the other half of the same visit (same goroutine, the
// other kind, directly after the hold) passes even if the harness has re-armed this very gate in the meantime.
func (g *ltrGate) hold(kind byte) {
	if g.skipKind.Load() == int32(kind) && g.skipGo.Load() == h.GoID() {
		g.skipKind.Store(0)
		return
	}
	if g.armed.CompareAndSwap(true, false) {
		// take the release channel BEFORE announcing the entry: the harness may re-arm this very gate (rmove to the
		// entity the read is held at) as soon as it has seen the entry
		rel := g.release
		g.skipGo.Store(h.GoID())
		g.skipKind.Store(int32('I' + 'F' - kind))
		close(g.entered)
		<-rel
	}
}

func (g *ltrGate) Information() *model.NodeManagementDetailedDiscoveryEntityInformationType {
	g.hold('I')
	return g.EntityLocal.Information()
}

func (g *ltrGate) Features() []api.FeatureLocalInterface {
	g.hold('F')
	return g.EntityLocal.Features()
}

type ltrWorld struct {
	l          *spine.DeviceLocal
	es         map[int]*spine.EntityLocal
	gs         map[int]*ltrGate
	peers      []*ltrPeer
	fails      []bool // per peer: its connection cannot be written to
	srcFeature uint   // feature number used as the source of the next datagram (0 = node management)
	dt         int    // device type index (ltrDTypes)
	fs         int    // feature set index (ltrFSets; 0 = none given)
	react      bool   // world flag r: the peers answer a node-management notification with a read from inside the write
	same       bool   // world flag s: all peers announce one and the same device address (and entity / feature numbering)
}

// ent is the object handed to AddEntity / RemoveEntity for a slot
func (lw *ltrWorld) ent(k int) api.EntityLocalInterface {
	if g := lw.gs[k]; g != nil {
		return g
	}
	return lw.es[k]
}

func (lw *ltrWorld) newEnt(k int, et model.EntityTypeType) {
	lw.es[k] = spine.NewEntityLocal(lw.l, et, spine.NewAddressEntityType(ltrSlots[k]), 4*time.Second)
	lw.gs[k] = &ltrGate{EntityLocal: lw.es[k]}
}

func newLtrWorld(fails []bool, dt, fs int, flags string) *ltrWorld {
	l := spine.NewDeviceLocal("b", "m", "s", "c", "HEMS", ltrDTypes[dt], ltrFSets[fs])
	lw := &ltrWorld{l: l, es: map[int]*spine.EntityLocal{}, gs: map[int]*ltrGate{}, fails: fails, dt: dt, fs: fs,
		react: strings.Contains(flags, "r"), same: strings.Contains(flags, "s")}
	lw.es[0] = l.Entity(spine.NewAddressEntityType([]uint{0})).(*spine.EntityLocal)
	for k := 1; k < len(ltrSlots); k++ {
		lw.newEnt(k, ltrETypes[0])
	}
	for p := 0; p < 3; p++ {
		pe := &ltrPeer{w: &h.W{}, dev: fmt.Sprintf("dev%d", p), ctr: 10}
		if lw.same {
			pe.dev = "dev0" // two connections (SKIs), one SPINE device address: the peers are told apart by connection only
		}
		pe.rw = &ltrReactW{w: pe.w, p: p}
		ski := fmt.Sprintf("ski%d", p)
		if p < len(fails) && fails[p] {
			l.SetupRemoteDevice(ski, nil) // no writer: the Sender of this connection returns an error for every message
		} else {
			l.SetupRemoteDevice(ski, pe.rw)
		}
		pe.rd = l.RemoteDeviceForSki(ski)
		lw.peers = append(lw.peers, pe)
		nm := h.FA(pe.dev, []uint{0}, 0)
		dd := &model.NodeManagementDetailedDiscoveryDataType{
			DeviceInformation: &model.NodeManagementDetailedDiscoveryDeviceInformationType{Description: &model.NetworkManagementDeviceDescriptionDataType{DeviceAddress: &model.DeviceAddressType{Device: util.Ptr(model.AddressDeviceType(pe.dev))}}},
			EntityInformation: []model.NodeManagementDetailedDiscoveryEntityInformationType{
				{Description: &model.NetworkManagementEntityDescriptionDataType{EntityAddress: &model.EntityAddressType{Device: util.Ptr(model.AddressDeviceType(pe.dev)), Entity: spine.NewAddressEntityType([]uint{0})}, EntityType: util.Ptr(model.EntityTypeTypeDeviceInformation)}}},
			FeatureInformation: []model.NodeManagementDetailedDiscoveryFeatureInformationType{
				{Description: &model.NetworkManagementFeatureDescriptionDataType{FeatureAddress: nm, FeatureType: util.Ptr(model.FeatureTypeTypeNodeManagement), Role: util.Ptr(model.RoleTypeSpecial)}}},
		}
		lw.send(p, model.CmdClassifierTypeReply, util.Ptr(model.MsgCounterType(1)), false, model.CmdType{NodeManagementDetailedDiscoveryData: dd})
		pe.w.Take()
	}
	for _, pe := range lw.peers {
		pe.rw.lw = lw // reactions start with the history, not with the set-up
	}
	return lw
}

func (lw *ltrWorld) close() { spine.VerifUnsubscribeCore(lw.l) }

func (lw *ltrWorld) send(p int, cl model.CmdClassifierType, ref *model.MsgCounterType, ack bool, c model.CmdType) uint64 {
	pe := lw.peers[p]
	pe.ctr++
	hd := model.HeaderType{AddressSource: h.FA(pe.dev, []uint{0}, lw.srcFeature), AddressDestination: h.FA("HEMS", []uint{0}, 0),
		MsgCounter: util.Ptr(model.MsgCounterType(pe.ctr)), MsgCounterReference: ref, CmdClassifier: &cl}
	if ack {
		hd.AckRequest = &ack
	}
	b, _ := json.Marshal(model.Datagram{Datagram: model.DatagramType{Header: hd, Payload: model.PayloadType{Cmd: []model.CmdType{c}}}})
	pe.rd.HandleSpineMesssage(b)
	return pe.ctr
}

// what one peer received in one step
type ltrRecv struct {
	notifies []model.CmdType // partial detailed-discovery notifies
	other    []string        // everything else, described
	ucN      int             // use-case notifies
	replies  []model.DatagramType
	dests    []model.DatagramType // destination-list replies
}

func (lw *ltrWorld) take(p int) ltrRecv {
	var rc ltrRecv
	for _, m := range lw.peers[p].w.Take() {
		var d model.Datagram
		if err := json.Unmarshal(m, &d); err != nil || d.Datagram.Header.CmdClassifier == nil || len(d.Datagram.Payload.Cmd) != 1 {
			rc.other = append(rc.other, "undecodable")
			continue
		}
		cl, c := *d.Datagram.Header.CmdClassifier, d.Datagram.Payload.Cmd[0]
		switch {
		case cl == model.CmdClassifierTypeNotify && c.NodeManagementDetailedDiscoveryData != nil:
			rc.notifies = append(rc.notifies, c)
		case cl == model.CmdClassifierTypeNotify && c.NodeManagementUseCaseData != nil:
			rc.ucN++
		case cl == model.CmdClassifierTypeReply && c.NodeManagementDetailedDiscoveryData != nil:
			rc.replies = append(rc.replies, d.Datagram)
		case cl == model.CmdClassifierTypeReply && c.NodeManagementDestinationListData != nil:
			rc.dests = append(rc.dests, d.Datagram)
		case cl == model.CmdClassifierTypeResult:
			// acknowledgement of a subscription call: not part of the observation
		default:
			rc.other = append(rc.other, string(cl)+" "+c.DataName())
		}
	}
	return rc
}

// notify datagram -> model format "N p added k etype [feats]" and its parts
func ltrNotifyStr(p int, c model.CmdType) (string, int, string, []ltrFeatView, bool) {
	dd := c.NodeManagementDetailedDiscoveryData
	partial := len(c.Filter) == 1 && c.Filter[0].CmdControl != nil && c.Filter[0].CmdControl.Partial != nil
	if len(dd.EntityInformation) != 1 || dd.EntityInformation[0].Description == nil || dd.EntityInformation[0].Description.EntityAddress == nil {
		return fmt.Sprintf("N %d malformed", p), -1, "", nil, partial
	}
	ed := dd.EntityInformation[0].Description
	state := ""
	if ed.LastStateChange != nil {
		state = string(*ed.LastStateChange)
	}
	et := -1
	if ed.EntityType != nil {
		et = ltrETypeCode(*ed.EntityType)
	}
	k := ltrSlotOf(ed.EntityAddress.Entity)
	var fs []string
	var views []ltrFeatView
	for _, fi := range dd.FeatureInformation {
		v := ltrViewOf(fi)
		if v.slot != k {
			v.id = -100 - v.id // a feature of another entity inside the notification
		}
		views = append(views, v)
		fs = append(fs, v.modelStr())
	}
	added := map[string]string{"added": "1", "removed": "0"}[state]
	if added == "" {
		added = "?" + state
	}
	return fmt.Sprintf("N %d %s %d %d [%s]", p, added, k, et, strings.Join(fs, ";")), k, state, views, partial
}

func ltrSortJoin(xs []string) string {
	if len(xs) == 0 {
		return "-"
	}
	sort.Strings(xs)
	return strings.Join(xs, " ; ")
}

func ltrAtoi(f []string) []int {
	var out []int
	for _, x := range f {
		v, err := strconv.Atoi(x)
		if err != nil {
			panic("bad number in op: " + strings.Join(f, " "))
		}
		out = append(out, v)
	}
	return out
}

// runLtrHistory executes one history of the tree part on a fresh world.
func runLtrHistory(r *h.Report, d *h.Driver, ops []string) {
	fails := make([]bool, 3)
	devT, devF := 0, 3 // default device: energy management system, feature set smart
	wflags := ""       // r: peers read from inside a notification; s: all peers announce the same device address
	if len(ops) > 0 && strings.HasPrefix(ops[0], "world ") {
		fl := strings.Fields(ops[0])
		if (len(fl) != 2 && len(fl) != 4 && len(fl) != 5) || len(fl[1]) != 3 || strings.Trim(fl[1], "01") != "" || (len(fl) == 5 && (fl[4] == "" || strings.Trim(fl[4], "rs") != "")) {
			panic("bad op " + ops[0])
		}
		if len(fl) == 5 {
			wflags = fl[4]
		}
		for i, c := range fl[1] {
			fails[i] = c == '1'
		}
		if len(fl) >= 4 {
			c := ltrAtoi(fl[2:4])
			if c[0] < 0 || c[0] >= len(ltrDTypes) || c[1] < 0 || c[1] >= len(ltrFSets) {
				panic("bad op " + ops[0])
			}
			devT, devF = c[0], c[1]
		}
	}
	lw := newLtrWorld(fails, devT, devF, wflags)
	defer lw.close()
	d.Ask("reset")
	ucData := false // SPEC side: use-case data exists (set by the first AddUseCaseSupport)
	d.Mark()
	bk := &ltrBk{pool: map[int]*ltrBkEnt{}, attached: []int{0}, subs: map[int]bool{}}
	{
		nm := lw.l.NodeManagement()
		e0 := &ltrBkEnt{etype: 0, maxID: 1}
		f0 := &ltrBkFeat{id: 0, typ: 90, role: 2, fns: map[int][2]bool{}, obj: nm}
		for i := 0; i < 9; i++ {
			if i == 8 && (devF == 0 || devF == 4) {
				continue // the destination list is announced only with a feature set other than simple
			}
			f0.fns[100+i] = [2]bool{i != 3 && i != 4 && i != 6 && i != 7, false}
		}
		f1 := &ltrBkFeat{id: 1, typ: 91, role: 1, fns: map[int][2]bool{109: {true, false}}, obj: lw.es[0].FeatureOfAddress(util.Ptr(model.AddressFeatureType(1)))}
		e0.feats = []*ltrBkFeat{f0, f1}
		bk.pool[0] = e0
		for k := 1; k < len(ltrSlots); k++ {
			bk.pool[k] = &ltrBkEnt{etype: 0, maxID: 0}
		}
	}
	monitor := true
	var done []string
	// ---- a read held in the middle of its walk (rhold / rmove / rrelease)
	var ov *ltrOvl
	defer func() {
		if ov != nil && ov.release != nil { // history ended (or was abandoned) with the read still held: let it finish
			close(ov.release)
			select {
			case <-ov.readDone:
			case <-time.After(5 * time.Second):
			}
		}
	}()
	arm := func(k int) *ltrGate {
		g := lw.gs[k]
		g.entered, g.release = make(chan struct{}), make(chan struct{})
		g.armed.Store(true)
		return g
	}
	// overlapStep performs rhold / rmove / rrelease; false = stop this history
	overlapStep := func(op string, f []string) bool {
		for p := range lw.peers {
			lw.peers[p].w.Take()
		}
		kind := f[0]
		var g *ltrGate
		switch {
		case f[0] == "rhold" && len(f) == 3 && ov == nil:
			pk := ltrAtoi(f[1:])
			if pk[0] < 0 || pk[0] >= len(lw.peers) || pk[1] < 1 || pk[1] >= len(ltrSlots) {
				panic("bad op " + op)
			}
			g = arm(pk[1])
			ov = &ltrOvl{p: pk[0], ctr: lw.peers[pk[0]].ctr + 1, start: bk.snapshot(), descrs: map[string][]string{}, readDone: make(chan any, 1)}
			o := ov
			go func() {
				o.readDone <- h.Recover(func() {
					lw.send(o.p, model.CmdClassifierTypeRead, nil, false, model.CmdType{NodeManagementDetailedDiscoveryData: &model.NodeManagementDetailedDiscoveryDataType{}})
				})
			}()
		case f[0] == "rmove" && len(f) == 2 && ov != nil:
			k := ltrAtoi(f[1:])[0]
			if k < 1 || k >= len(ltrSlots) {
				panic("bad op " + op)
			}
			old := ov.release
			g = arm(k)
			ov.release = nil
			close(old)
		case f[0] == "rrelease" && len(f) == 1 && ov != nil:
			old := ov.release
			ov.release = nil
			close(old)
		default:
			// not applicable here (a shrunk or hand-written history): not executed, not sent to the model
			r.Eval(f[0]+":ignored", "")
			return true
		}
		done = append(done, op)
		finished := false
		var pan any
		var entered chan struct{}
		if g != nil {
			entered = g.entered
		}
		select {
		case <-entered:
			ov.release = g.release
			kind += ":held"
		case pan = <-ov.readDone:
			finished = true
			if g != nil {
				g.armed.Store(false)
				kind += ":finished"
			}
		case <-time.After(5 * time.Second):
			panic(op + ": the read neither reached the gate nor finished")
		}
		if pan != nil {
			ov = nil
			r.SpecFail("C07/panic", done, fmt.Sprintf("%s panicked: %v", op, pan))
			return false
		}
		var obs []string
		for p := range lw.peers {
			rc := lw.take(p)
			for _, o := range rc.other {
				obs = append(obs, fmt.Sprintf("X %d %s", p, o))
			}
			for i := 0; i < rc.ucN; i++ {
				obs = append(obs, fmt.Sprintf("U %d", p))
			}
			for _, c := range rc.notifies {
				s, _, _, _, _ := ltrNotifyStr(p, c)
				obs = append(obs, s)
			}
			for range rc.dests {
				obs = append(obs, fmt.Sprintf("L %d unexpected", p))
			}
			wantReplies := 0
			if finished && p == ov.p && !fails[p] {
				wantReplies = 1
			}
			if monitor && len(rc.replies) != wantReplies {
				r.SpecFail("C07/discovery-reply-count", done, fmt.Sprintf("after %s peer %d received %d discovery replies", op, p, len(rc.replies)))
			}
			for _, dg := range rc.replies {
				obs = append(obs, ltrReply(r, lw, bk, p, dg, monitor, done, nil, ov))
			}
		}
		if finished {
			ov = nil
		}
		impl := ltrSortJoin(obs)
		want := d.Ask(op)
		if want != "-" {
			want = ltrSortJoin(strings.Split(want, " ; "))
		}
		r.Eval(kind, "")
		if impl != want {
			r.Mismatch(done, impl, want, "tree op "+op)
			return false
		}
		return true
	}
	for i, op := range ops {
		f := strings.Fields(op)
		if len(f) == 0 {
			continue
		}
		if f[0] == "rhold" || f[0] == "rmove" || f[0] == "rrelease" {
			if !overlapStep(op, f) {
				return
			}
			continue
		}
		if ov != nil && f[0] == "readheld" && len(f) == 5 {
			// a second held read while a read is held: only its AddEntity / RemoveEntity is performed
			f = f[3:]
			op = strings.Join(f, " ")
		}
		if ov != nil && f[0] == "renew" {
			// a fresh object for a slot while a read is held: outside the model of the overlapped read (the read
			// keeps the objects it has taken); not executed, not sent to the model
			r.Eval(f[0]+":ignored-during-read", "")
			continue
		}
		if f[0] == "world" {
			if i != 0 {
				panic("world must be the first op")
			}
			done = append(done, op)
			mop := op
			if len(f) == 5 {
				mop = strings.Join(f[:4], " ") // the model knows peers by index; addresses and reactions are the harness's
				r.Eval("worldflags:"+f[4], "")
			}
			if a := d.Ask(mop); a != "ok" {
				panic("driver: " + a)
			}
			r.Eval("world:"+f[1], "")
			if len(f) >= 4 {
				r.Eval("device:"+f[2]+"/"+f[3], "")
			}
			continue
		}
		held, heldP, heldK := false, -1, -1
		var before []int
		if f[0] == "readheld" {
			if len(f) != 5 || (f[3] != "attach" && f[3] != "detach") {
				panic("bad op " + op)
			}
			pk := ltrAtoi(f[1:3])
			held, heldP, heldK = true, pk[0], pk[1]
			if heldP < 0 || heldP >= len(lw.peers) || heldK < 1 || heldK >= len(ltrSlots) {
				panic("bad op " + op)
			}
			before = append([]int{}, bk.attached...)
			f = f[3:]
		}
		a := ltrAtoi(f[1:])
		need := map[string]int{"renew": 2, "attach": 1, "detach": 1, "feat": 3, "next": 1, "fn": 5, "descr": 3, "adduc": 1, "sub": 1, "unsub": 1, "read": 1, "dread": 2}
		if n, ok := need[f[0]]; !ok || n != len(a) {
			panic("bad op " + op)
		}
		switch f[0] {
		case "sub", "unsub", "read", "dread":
			if a[0] < 0 || a[0] >= len(lw.peers) {
				panic("bad peer in " + op)
			}
		default:
			if a[0] < 0 || a[0] >= len(ltrSlots) {
				panic("bad slot in " + op)
			}
		}
		for p := range lw.peers {
			lw.peers[p].w.Take()
		}
		kind := f[0]
		var ret string
		fail := func(key, detail string) { r.SpecFail("C07/"+key, done, detail) }
		var pan any
		done = append(done, op)
		// runAct performs AddEntity / RemoveEntity, for readheld while peer heldP's read is held at entity heldK
		runAct := func(act func()) any {
			if !held {
				return h.Recover(act)
			}
			kind = "readheld:" + f[0]
			g := lw.gs[heldK]
			g.entered, g.release = make(chan struct{}), make(chan struct{})
			g.armed.Store(true)
			readDone := make(chan any, 1)
			go func() {
				readDone <- h.Recover(func() {
					lw.send(heldP, model.CmdClassifierTypeRead, nil, false, model.CmdType{NodeManagementDetailedDiscoveryData: &model.NodeManagementDetailedDiscoveryDataType{}})
				})
			}()
			select {
			case <-g.entered:
			case p := <-readDone:
				// entity heldK is not part of the device: the read was not held, the operation follows it
				g.armed.Store(false)
				kind += ":not-held"
				if p != nil {
					return p
				}
				return h.Recover(act)
			case <-time.After(5 * time.Second):
				panic("readheld: the read neither reached the gate nor finished")
			}
			p1 := h.Recover(act)
			close(g.release)
			select {
			case p2 := <-readDone:
				if p1 == nil {
					p1 = p2
				}
			case <-time.After(5 * time.Second):
				panic("readheld: the released read did not finish")
			}
			return p1
		}
		switch f[0] {
		case "renew":
			k := a[0]
			if k == 0 || a[1] < 0 || a[1] >= len(ltrETypes) {
				panic("bad op " + op)
			}
			if bk.isAttached(k) {
				monitor = false // outside the domain: two objects with one address
			}
			lw.newEnt(k, ltrETypes[a[1]])
			bk.pool[k] = &ltrBkEnt{etype: a[1], maxID: 0}
		case "attach":
			k := a[0]
			if bk.isAttached(k) {
				monitor = false // outside the domain: duplicate entity address in the device
				kind = "attach:dup"
			}
			pan = runAct(func() { lw.l.AddEntity(lw.ent(k)) })
			bk.attached = append(bk.attached, k)
		case "detach":
			k := a[0]
			if !bk.isAttached(k) {
				kind = "detach:absent"
			}
			if k == 0 {
				monitor = false // removing the device-information entity: not a use of the API the property is about
			}
			pan = runAct(func() { lw.l.RemoveEntity(lw.ent(k)) })
			var na []int
			for _, x := range bk.attached {
				if x != k {
					na = append(na, x)
				}
			}
			bk.attached = na
		case "feat":
			k, t, ro := a[0], a[1], a[2]
			if t < 0 || t >= len(ltrTypes) || ro < 0 || ro >= len(ltrRoles) {
				panic("bad op " + op)
			}
			var fo api.FeatureLocalInterface
			pan = h.Recover(func() { fo = lw.es[k].GetOrAddFeature(ltrTypes[t], ltrRoles[ro]) })
			if pan == nil {
				id := -1
				if fo != nil && fo.Address() != nil && fo.Address().Feature != nil {
					id = int(*fo.Address().Feature)
				}
				ret = strconv.Itoa(id)
				be := bk.pool[k]
				var ex *ltrBkFeat
				for _, x := range be.feats {
					if x.typ == t && x.role == ro {
						ex = x
					}
				}
				if ex != nil {
					kind = "feat:existing"
					if monitor && ex.obj != fo {
						fail("get-or-add-not-the-same-feature", fmt.Sprintf("GetOrAddFeature(%s,%s) returned feature %d, earlier it returned feature %d", ltrTypes[t], ltrRoles[ro], id, ex.id))
					}
				} else {
					kind = "feat:new"
					if monitor {
						if id <= be.maxID {
							fail("feature-number-not-fresh", fmt.Sprintf("new feature got number %d, numbers up to %d were handed out before", id, be.maxID))
						}
						if fo == nil || fo.Type() != ltrTypes[t] || fo.Role() != ltrRoles[ro] {
							fail("get-or-add-wrong-feature", "returned feature has another type or role")
						}
					}
					if id > be.maxID {
						be.maxID = id
					}
					be.feats = append(be.feats, &ltrBkFeat{id: id, typ: t, role: ro, descr: ltrDefaultDescr(t, ro), fns: map[int][2]bool{}, obj: fo})
					if ov != nil {
						ov.sawDescr(k, id, ltrDefaultDescr(t, ro))
					}
				}
			}
		case "next":
			k := a[0]
			id := int(lw.es[k].NextFeatureId())
			ret = strconv.Itoa(id)
			if monitor && id <= bk.pool[k].maxID {
				fail("feature-number-not-fresh", fmt.Sprintf("NextFeatureId returned %d, numbers up to %d were handed out before", id, bk.pool[k].maxID))
			}
			if id > bk.pool[k].maxID {
				bk.pool[k].maxID = id
			}
		case "fn", "descr":
			k, fid := a[0], a[1]
			fo := lw.es[k].FeatureOfAddress(util.Ptr(model.AddressFeatureType(fid)))
			var bf *ltrBkFeat
			for _, x := range bk.pool[k].feats {
				if x.id == fid && bf == nil {
					bf = x
				}
			}
			if monitor && ((fo == nil) != (bf == nil) || (bf != nil && bf.obj != fo)) {
				fail("feature-of-address-wrong", fmt.Sprintf("FeatureOfAddress(%d) on slot %d does not return the feature that was handed out with that number", fid, k))
			}
			if fo == nil {
				kind = f[0] + ":no-such-feature"
				break
			}
			if f[0] == "descr" {
				fo.SetDescriptionString(fmt.Sprintf("custom-%d", a[2]))
				if bf != nil {
					bf.descr = fmt.Sprintf("custom-%d", a[2])
				}
				if ov != nil {
					ov.sawDescr(k, fid, fmt.Sprintf("custom-%d", a[2]))
				}
				break
			}
			fn := a[2]
			if fn < 0 || fn >= len(ltrFns) {
				panic("bad op " + op)
			}
			pan = h.Recover(func() { fo.AddFunctionType(ltrFns[fn], a[3] == 1, a[4] == 1) })
			if bf != nil {
				// documented behaviour: functions are added to server and special features only; the
				// operations of a function are those given when it was added (a second add does not change them)
				if _, has := bf.fns[fn]; bf.role != 0 && !has {
					bf.fns[fn] = [2]bool{a[3] == 1, a[4] == 1}
					kind = "fn:added"
				} else if bf.role == 0 {
					kind = "fn:client"
				} else {
					kind = "fn:again"
					if bf.fns[fn] != [2]bool{a[3] == 1, a[4] == 1} {
						// observation, not judged: the guard in AddFunctionType keeps the flags of the first addition
						kind = "fn:again-other-flags-ignored"
					}
				}
			}
		case "adduc":
			lw.es[a[0]].AddUseCaseSupport(model.UseCaseActorTypeCEM, model.UseCaseNameTypeLimitationOfPowerConsumption, "1.0.0", "", true, nil)
		case "sub":
			p := a[0]
			nm := h.FA(lw.peers[p].dev, []uint{0}, 0)
			lw.send(p, model.CmdClassifierTypeCall, nil, true, model.CmdType{NodeManagementSubscriptionRequestCall: spine.NewNodeManagementSubscriptionRequestCallType(nm, h.FA("HEMS", []uint{0}, 0), model.FeatureTypeTypeNodeManagement)})
			if bk.subs[p] {
				kind = "sub:again"
			}
			bk.subs[p] = true
		case "unsub":
			p := a[0]
			nm := h.FA(lw.peers[p].dev, []uint{0}, 0)
			lw.send(p, model.CmdClassifierTypeCall, nil, true, model.CmdType{NodeManagementSubscriptionDeleteCall: spine.NewNodeManagementSubscriptionDeleteCallType(nm, h.FA("HEMS", []uint{0}, 0))})
			if !bk.subs[p] {
				kind = "unsub:absent"
			}
			delete(bk.subs, p)
		case "read":
			lw.send(a[0], model.CmdClassifierTypeRead, nil, false, model.CmdType{NodeManagementDetailedDiscoveryData: &model.NodeManagementDetailedDiscoveryDataType{}})
		case "dread":
			// destination-list read: 0 plain, 1 with a partial filter, 2 with a selector filter, 3 from a feature the peer never announced
			c := model.CmdType{NodeManagementDestinationListData: &model.NodeManagementDestinationListDataType{}}
			switch a[1] {
			case 1:
				c.Function = util.Ptr(model.FunctionTypeNodeManagementDestinationListData)
				c.Filter = []model.FilterType{*model.NewFilterTypePartial()}
			case 2:
				c.Function = util.Ptr(model.FunctionTypeNodeManagementDestinationListData)
				fl := model.NewFilterTypePartial()
				fl.NodeManagementDestinationListDataSelectors = &model.NodeManagementDestinationListDataSelectorsType{}
				c.Filter = []model.FilterType{*fl}
			case 3:
				lw.srcFeature = 7
			}
			kind = fmt.Sprintf("dread:%d", a[1])
			pan = h.Recover(func() { lw.send(a[0], model.CmdClassifierTypeRead, nil, false, c) })
			lw.srcFeature = 0
		}
		if pan != nil {
			key := "panic"
			if f[0] == "fn" && a[0] == 0 && a[2] == 6 {
				// AddFunctionType(deviceDiagnosisHeartbeatData) on a DeviceDiagnosis server feature of entity [0]:
				// that entity has no heartbeat manager
				key = "heartbeat-function-on-device-information-entity-panics"
			}
			fail(key, fmt.Sprintf("%s panicked: %v", op, pan))
			return
		}

		// ---- what the peers received: canonical observation + SPEC monitor
		var obs []string
		var reactCmp [][3]string // peer, announced state, reply to the read issued from inside the notification
		if ret != "" {
			obs = append(obs, ret)
		}
		for p := range lw.peers {
			rc := lw.take(p)
			for _, o := range rc.other {
				obs = append(obs, fmt.Sprintf("X %d %s", p, o))
			}
			for i := 0; i < rc.ucN; i++ {
				obs = append(obs, fmt.Sprintf("U %d", p))
			}
			nAdded, nRemoved := 0, 0
			for _, c := range rc.notifies {
				s, k, state, views, partial := ltrNotifyStr(p, c)
				obs = append(obs, s)
				if !monitor {
					continue
				}
				if di := c.NodeManagementDetailedDiscoveryData.DeviceInformation; di == nil || ltrDevStr(di.Description) != fmt.Sprintf("0:%d:%d", lw.dt, lw.fs) {
					fail("notification-device-description-differs", fmt.Sprintf("peer %d: the notification after %s does not describe the device as constructed", p, op))
				}
				for _, v := range views {
					if bad := v.partialOK(); bad != "" {
						fail("partial-flag-without-operation", fmt.Sprintf("notification to peer %d: %s", p, bad))
					}
				}
				switch {
				case f[0] == "attach" && state == "added" && k == a[0]:
					nAdded++
					var got []string
					for _, v := range views {
						got = append(got, v.specStr())
					}
					sort.Strings(got)
					if want := bk.featStrs(k); strings.Join(got, ";") != strings.Join(want, ";") {
						fail("add-entity-notification-features", fmt.Sprintf("peer %d notified of entity %s with features {%s}, the entity has {%s}", p, h.EntU(ltrSlots[k]), strings.Join(got, ";"), strings.Join(want, ";")))
					}
					if !strings.Contains(s, fmt.Sprintf(" %d [", bk.pool[k].etype)) {
						fail("add-entity-notification-entity", fmt.Sprintf("peer %d: %s, entity type index should be %d", p, s, bk.pool[k].etype))
					}
				case f[0] == "detach" && state == "removed" && k == a[0]:
					nRemoved++
					if len(views) != 0 {
						fail("remove-entity-notification-lists-features", fmt.Sprintf("peer %d: %s", p, s))
					}
				default:
					fail("unexpected-discovery-notification", fmt.Sprintf("after %s peer %d received %s", op, p, s))
				}
				if !partial {
					fail("entity-notification-not-partial", fmt.Sprintf("after %s peer %d received a discovery notify without the partial filter", op, p))
				}
			}
			if monitor {
				// a peer whose connection fails can receive nothing; every other subscriber must be served
				// regardless of the failures of the peers before or after it in the subscription order
				want, wantUc := 0, 0
				if bk.subs[p] && !fails[p] {
					want = 1
					if f[0] == "adduc" || (f[0] == "detach" && ucData) {
						wantUc = 1
					}
				}
				if rc.ucN != wantUc && (bk.subs[p] || fails[p]) {
					fail("use-case-notification-count", fmt.Sprintf("after %s peer %d (subscribed=%v, connection fails=%v) received %d use-case notifications, expected %d", op, p, bk.subs[p], fails[p], rc.ucN, wantUc))
				}
				if f[0] == "attach" && nAdded != want {
					fail("add-entity-notification-count", fmt.Sprintf("AddEntity(%s): peer %d (subscribed=%v) received %d 'added' notifications", h.EntU(ltrSlots[a[0]]), p, bk.subs[p], nAdded))
				}
				if f[0] == "detach" && nRemoved != want {
					fail("remove-entity-notification-count", fmt.Sprintf("RemoveEntity(%s): peer %d (subscribed=%v) received %d 'removed' notifications", h.EntU(ltrSlots[a[0]]), p, bk.subs[p], nRemoved))
				}
				if !bk.subs[p] && (rc.ucN > 0 || len(rc.notifies) > 0) {
					fail("notification-to-unsubscribed-peer", fmt.Sprintf("after %s peer %d, not subscribed to node management, received %d discovery and %d use-case notifications", op, p, len(rc.notifies), rc.ucN))
				}
				wantReplies := 0
				if ((f[0] == "read" && p == a[0]) || (held && p == heldP)) && !fails[p] {
					wantReplies = 1
				}
				if len(rc.replies) != wantReplies {
					fail("discovery-reply-count", fmt.Sprintf("after %s peer %d received %d discovery replies", op, p, len(rc.replies)))
				}
			}
			wantDests := 0
			if f[0] == "dread" && p == a[0] && a[1] != 3 && !fails[p] {
				wantDests = 1
			}
			if monitor && len(rc.dests) != wantDests {
				fail("destination-list-reply-count", fmt.Sprintf("after %s peer %d received %d destination-list replies, expected %d", op, p, len(rc.dests), wantDests))
			}
			for _, dg := range rc.dests {
				var es []string
				for _, e := range dg.Payload.Cmd[0].NodeManagementDestinationListData.NodeManagementDestinationData {
					es = append(es, ltrDevStr(e.DeviceDescription))
				}
				obs = append(obs, fmt.Sprintf("L %d %s", p, strings.Join(es, ",")))
				if want := fmt.Sprintf("0:%d:%d", lw.dt, lw.fs); monitor && strings.Join(es, ",") != want {
					fail("destination-list-contents-differ", fmt.Sprintf("destination list [%s] (address:type:featureSet per entry), expected the one entry %s of the local device", strings.Join(es, ","), want))
				}
				if hd := dg.Header; monitor && (hd.MsgCounterReference == nil || uint64(*hd.MsgCounterReference) != lw.peers[p].ctr) {
					fail("reply-wrong-reference", "destination-list reply does not reference the read")
				}
			}
			for _, dg := range rc.replies {
				var alts [][]int // entity lists the reply may show: a held read may show the tree before or after the operation
				if held {
					alts = [][]int{before}
				}
				obs = append(obs, ltrReply(r, lw, bk, p, dg, monitor, done, alts, nil))
			}
			// ---- reads issued from inside the write of a notification (world flag r). SPEC, model-free: a peer that
			// has been told "entity k removed" does not find k in the reply to a read it issues at that very moment, a
			// peer told "added" finds it; and the reply is the tree as it is after the operation (the bookkeeping was
			// updated above). Differential: the same reply is what the model answers to a read after the operation.
			reacts := lw.peers[p].rw.takeReacts()
			if lw.react && monitor && len(reacts) != len(rc.notifies) {
				fail("read-inside-notification-count", fmt.Sprintf("after %s peer %d received %d discovery notifications and issued %d reads from inside them", op, p, len(rc.notifies), len(reacts)))
			}
			for _, rr := range reacts {
				r.Eval("react:"+rr.state, "")
				if rr.stuck || rr.reply == nil {
					if monitor {
						fail("read-inside-notification-unanswered", fmt.Sprintf("peer %d was told entity %s %s and issued a detailed-discovery read from inside that write: no reply (read returned=%v)", p, h.EntU(ltrSlots[max(rr.k, 0)]), rr.state, !rr.stuck))
					}
					continue
				}
				listed := false
				for _, ei := range rr.reply.Payload.Cmd[0].NodeManagementDetailedDiscoveryData.EntityInformation {
					if ei.Description != nil && ei.Description.EntityAddress != nil && ltrSlotOf(ei.Description.EntityAddress.Entity) == rr.k {
						listed = true
					}
				}
				if monitor && rr.state == "removed" && listed {
					fail("entity-announced-removed-still-in-reply", fmt.Sprintf("peer %d was told entity %s is removed; the reply to the read it issued at that moment still lists it", p, h.EntU(ltrSlots[max(rr.k, 0)])))
				}
				if monitor && rr.state == "added" && !listed {
					fail("entity-announced-added-not-in-reply", fmt.Sprintf("peer %d was told entity %s is added; the reply to the read it issued at that moment does not list it", p, h.EntU(ltrSlots[max(rr.k, 0)])))
				}
				got := ltrReply(r, lw, bk, p, *rr.reply, monitor, done, nil, nil)
				reactCmp = append(reactCmp, [3]string{strconv.Itoa(p), rr.state, got})
			}
		}
		if f[0] == "adduc" {
			ucData = true
		}
		impl := ltrSortJoin(obs)
		line := op
		if f[0] == "descr" {
			line = fmt.Sprintf("descr %d %d %d", a[0], a[1], 1000+a[2]) // the model carries the description's code
		}
		if f[0] == "dread" {
			line = fmt.Sprintf("dread %d %d", a[0], h.B2i(a[1] != 3)) // the model only distinguishes a known from an unknown source
		}
		want := d.Ask(line)
		if want != "-" {
			want = ltrSortJoin(strings.Split(want, " ; "))
		}
		nt := ""
		if f[0] == "read" {
			nt = impl
		}
		r.Eval(kind, nt)
		if ov != nil {
			ltrOvlOps++
		}
		if impl != want {
			r.Mismatch(done, impl, want, "tree op "+op)
			return
		}
		for _, c := range reactCmp {
			if want := d.Ask("read " + c[0]); c[2] != want {
				r.Mismatch(done, c[2], want, fmt.Sprintf("read of peer %s from inside the '%s' notification of %s (model: a read after the operation)", c[0], c[1], op))
				return
			}
		}
	}
	r.Traces++
}

// ltrReply renders a discovery reply in the model's format and lets the monitor compare it with the bookkeeping.
func ltrReply(r *h.Report, lw *ltrWorld, bk *ltrBk, p int, dg model.DatagramType, monitor bool, done []string, alts [][]int, ov *ltrOvl) string {
	dd := dg.Payload.Cmd[0].NodeManagementDetailedDiscoveryData
	fail := func(key, detail string) {
		if monitor {
			r.SpecFail("C07/"+key, done, detail)
		}
	}
	devS := "-1:-1:0"
	if dd.DeviceInformation != nil {
		devS = ltrDevStr(dd.DeviceInformation.Description)
	}
	if want := fmt.Sprintf("0:%d:%d", lw.dt, lw.fs); devS != want {
		fail("reply-device-description-differs", fmt.Sprintf("the reply describes the device as %s (address:type:featureSet), it was constructed as %s", devS, want))
	}
	var es, fs, gotE, gotF []string
	for _, ei := range dd.EntityInformation {
		k, et := -1, -1
		if ei.Description != nil && ei.Description.EntityAddress != nil {
			k = ltrSlotOf(ei.Description.EntityAddress.Entity)
		}
		if ei.Description != nil && ei.Description.EntityType != nil {
			et = ltrETypeCode(*ei.Description.EntityType)
		}
		es = append(es, fmt.Sprintf("%d:%d", k, et))
		gotE = append(gotE, fmt.Sprintf("%d:%d", k, et))
		if ei.Description != nil && ei.Description.LastStateChange != nil {
			fail("reply-carries-state-change", "entity entry of a reply with lastStateChange")
		}
	}
	seen := map[string]bool{}
	var views []ltrFeatView
	for _, fi := range dd.FeatureInformation {
		v := ltrViewOf(fi)
		views = append(views, v)
		fs = append(fs, fmt.Sprintf("%d/%s", v.slot, v.modelStr()))
		gotF = append(gotF, fmt.Sprintf("%d/%s", v.slot, v.specStr()))
		if bad := v.partialOK(); bad != "" {
			fail("partial-flag-without-operation", fmt.Sprintf("feature %d/%d: %s", v.slot, v.id, bad))
		}
		key := fmt.Sprintf("%d/%d", v.slot, v.id)
		if seen[key] {
			fail("feature-address-announced-twice", "address "+key+" appears twice in the reply")
		}
		seen[key] = true
		// every announced address resolves back to that feature (for an entity that is part of the device now)
		if monitor && v.addr != nil && ((alts == nil && ov == nil) || bk.isAttached(v.slot)) {
			fo := lw.l.FeatureByAddress(v.addr)
			var bf *ltrBkFeat
			if be := bk.pool[v.slot]; v.slot >= 0 && be != nil {
				for _, x := range be.feats {
					if x.id == v.id && bf == nil {
						bf = x
					}
				}
			}
			if fo == nil || bf == nil || fo != bf.obj || fo.Type() != ltrTypeOf(v.typ) || ltrRoleCode(fo.Role()) != v.role {
				fail("announced-address-does-not-resolve", fmt.Sprintf("address %s announced as type %d role %d does not resolve to that feature (resolved: %v)", key, v.typ, v.role, fo != nil))
			}
		}
	}
	if monitor && ov != nil {
		ov.judge(r, bk, gotE, views, done)
		hd := dg.Header
		if hd.MsgCounterReference == nil || uint64(*hd.MsgCounterReference) != ov.ctr {
			fail("reply-wrong-reference", "discovery reply does not reference the read")
		}
	} else if monitor {
		sort.Strings(gotE)
		sort.Strings(gotF)
		okE, okF := false, false
		var descE, descF []string
		for _, att := range append([][]int{bk.attached}, alts...) {
			var wantE, wantF []string
			for _, k := range att {
				wantE = append(wantE, fmt.Sprintf("%d:%d", k, bk.pool[k].etype))
				for _, x := range bk.pool[k].feats {
					wantF = append(wantF, fmt.Sprintf("%d/%s", k, x.specStr()))
				}
			}
			sort.Strings(wantE)
			sort.Strings(wantF)
			// entities and features must both match the same moment
			if strings.Join(gotE, ",") == strings.Join(wantE, ",") {
				okE = true
				if strings.Join(gotF, ";") == strings.Join(wantF, ";") {
					okF = true
				}
			}
			descE = append(descE, "{"+strings.Join(wantE, ",")+"}")
			descF = append(descF, "{"+strings.Join(wantF, ";")+"}")
		}
		if !okE {
			fail("reply-entities-differ", fmt.Sprintf("reply lists entities {%s}, the device has %s", strings.Join(gotE, ","), strings.Join(descE, " or (before the overlapping operation) ")))
		} else if !okF {
			fail("reply-features-differ", fmt.Sprintf("reply lists features {%s}, added were %s", strings.Join(gotF, ";"), strings.Join(descF, " or ")))
		}
		hd := dg.Header
		if hd.MsgCounterReference == nil || uint64(*hd.MsgCounterReference) != lw.peers[p].ctr {
			fail("reply-wrong-reference", "discovery reply does not reference the read")
		}
	}
	return fmt.Sprintf("R %d D %s E %s | F %s", p, devS, strings.Join(es, ","), strings.Join(fs, ";"))
}

func ltrTypeOf(code int) model.FeatureTypeType {
	switch {
	case code >= 0 && code < len(ltrTypes):
		return ltrTypes[code]
	case code == 90:
		return model.FeatureTypeTypeNodeManagement
	case code == 91:
		return model.FeatureTypeTypeDeviceClassification
	}
	return ""
}

// ---- generator for the tree part: a random configuration is built by the history itself

func ltrGenHistory(rng *rand.Rand, n int) []string {
	var ops []string
	attached := map[int]bool{}
	nextID := map[int]int{0: 2}
	feats := map[int][]int{0: {0, 1}} // slot -> feature numbers handed out to features
	subs := map[int]bool{}
	nEnt := 1 + rng.Intn(4)
	emit := func(s string) { ops = append(ops, s) }
	for k := 1; k <= nEnt; k++ {
		emit(fmt.Sprintf("renew %d %d", k, 1+rng.Intn(4)))
		nextID[k] = 1
		feats[k] = nil
	}
	// writer faults as a dimension: in half of the histories one or two peers have a connection that cannot be
	// written to; the subscription order is permuted so that a failing peer comes first, in the middle or last
	{
		fl := []byte("000")
		if rng.Intn(2) == 0 {
			fl[rng.Intn(3)] = '1'
			if rng.Intn(3) == 0 {
				fl[rng.Intn(3)] = '1'
			}
		}
		// the device's constructor arguments as a dimension: device type, feature set (none, gateway, router, smart, simple)
		w := "world " + string(fl)
		if rng.Intn(3) > 0 {
			w += fmt.Sprintf(" %d %d", rng.Intn(len(ltrDTypes)), rng.Intn(len(ltrFSets)))
		}
		if w != "world 000" {
			ops = append([]string{w}, ops...)
		}
	}
	perm := rng.Perm(3)
	nsub := 1 + rng.Intn(3)
	if rng.Intn(3) > 0 && nsub < 2 {
		nsub = 2
	}
	for _, p := range perm[:nsub] {
		emit(fmt.Sprintf("sub %d", p))
		subs[p] = true
	}
	pickFeat := func(k int) int {
		if len(feats[k]) == 0 || rng.Intn(12) == 0 {
			return rng.Intn(4) // possibly no such feature
		}
		return feats[k][rng.Intn(len(feats[k]))]
	}
	seenTR := map[string]bool{}
	for i := 0; i < n; i++ {
		k := 1 + rng.Intn(nEnt)
		if rng.Intn(25) == 0 {
			k = 0
		}
		x := rng.Intn(100)
		if x >= 25 && x < 55 && len(feats[k]) == 0 {
			x = 0 // nothing to add a function to yet: create a feature instead
		}
		switch {
		case x < 22:
			t, ro := rng.Intn(len(ltrTypes)), rng.Intn(3)
			if ro == 2 && rng.Intn(3) > 0 {
				ro = 1
			}
			if rng.Intn(10) < 3 {
				// ask again for a feature that exists
				var ks []string
				for key := range seenTR {
					if strings.HasPrefix(key, fmt.Sprintf("%d/", k)) {
						ks = append(ks, key)
					}
				}
				if len(ks) > 0 {
					sort.Strings(ks)
					fmt.Sscanf(ks[rng.Intn(len(ks))], "%d/%d/%d", &k, &t, &ro)
				}
			}
			if len(feats[k]) >= 5 && !seenTR[fmt.Sprintf("%d/%d/%d", k, t, ro)] && rng.Intn(4) > 0 {
				continue // at most about five features per entity
			}
			emit(fmt.Sprintf("feat %d %d %d", k, t, ro))
			if key := fmt.Sprintf("%d/%d/%d", k, t, ro); !seenTR[key] {
				seenTR[key] = true
				feats[k] = append(feats[k], nextID[k])
				nextID[k]++
			}
		case x < 25:
			emit(fmt.Sprintf("next %d", k))
			nextID[k]++
		case x < 50:
			fn := rng.Intn(len(ltrFns))
			if k == 0 && fn == 6 {
				fn = 0 // the heartbeat function on the device-information entity is probed separately (it panics)
			}
			fid := pickFeat(k)
			emit(fmt.Sprintf("fn %d %d %d %d %d", k, fid, fn, rng.Intn(2), rng.Intn(2)))
			if rng.Intn(4) == 0 {
				emit(fmt.Sprintf("fn %d %d %d %d %d", k, fid, fn, rng.Intn(2), rng.Intn(2))) // the same function again, possibly with other flags
			}
		case x < 55:
			emit(fmt.Sprintf("descr %d %d %d", k, pickFeat(k), rng.Intn(3)))
		case x < 67:
			if k == 0 {
				continue
			}
			pre := ""
			if rng.Intn(3) == 0 {
				// let the operation overlap a read that is held at some entity of the device
				var ks []int
				for j := 1; j <= nEnt; j++ {
					if attached[j] {
						ks = append(ks, j)
					}
				}
				if len(ks) > 0 {
					pre = fmt.Sprintf("readheld %d %d ", rng.Intn(3), ks[rng.Intn(len(ks))])
				}
			}
			if attached[k] && rng.Intn(10) > 0 {
				emit(fmt.Sprintf("%sdetach %d", pre, k))
				attached[k] = false
			} else if !attached[k] {
				emit(fmt.Sprintf("%sattach %d", pre, k))
				attached[k] = true
			}
		case x < 70:
			if k == 0 {
				continue
			}
			if !attached[k] {
				if rng.Intn(3) == 0 {
					emit(fmt.Sprintf("detach %d", k)) // removing an entity that is not part of the device
				} else {
					emit(fmt.Sprintf("renew %d %d", k, 1+rng.Intn(4)))
					nextID[k] = 1
					feats[k] = nil
					for key := range seenTR {
						if strings.HasPrefix(key, fmt.Sprintf("%d/", k)) {
							delete(seenTR, key)
						}
					}
				}
			}
		case x < 73:
			if k > 0 {
				emit(fmt.Sprintf("adduc %d", k))
			}
		case x < 79:
			p := rng.Intn(3)
			if subs[p] && rng.Intn(8) > 0 {
				emit(fmt.Sprintf("unsub %d", p))
				subs[p] = false
			} else if !subs[p] && (p != 1 || rng.Intn(3) == 0) {
				emit(fmt.Sprintf("sub %d", p))
				subs[p] = true
			} else if rng.Intn(4) == 0 {
				emit(fmt.Sprintf("sub %d", p)) // subscribing twice
			}
		default:
			if rng.Intn(5) == 0 {
				emit(fmt.Sprintf("dread %d %d", rng.Intn(3), rng.Intn(4)))
			} else {
				emit(fmt.Sprintf("read %d", rng.Intn(3)))
			}
		}
	}
	emit(fmt.Sprintf("dread %d %d", rng.Intn(3), rng.Intn(3)))
	emit("read 1")
	emit("read 0")
	return ops
}

// ---- reads overlapping additions

// ltrGenFlagged: a history of the ordinary generator in a world with flags (r: peers read from inside a notification;
// s: one device address for all peers). With r the held reads are left out (their operation is performed plainly): a
// held read and a read from inside a notification of one peer at the same time would not be told apart.
func ltrGenFlagged(rng *rand.Rand, n int, flags string) []string {
	ops := ltrGenHistory(rng, n)
	w := "world 000"
	if len(ops) > 0 && strings.HasPrefix(ops[0], "world ") {
		w, ops = ops[0], ops[1:]
	}
	if len(strings.Fields(w)) == 2 {
		w += " 0 3"
	}
	out := []string{w + " " + flags}
	for _, op := range ops {
		if f := strings.Fields(op); strings.Contains(flags, "r") && len(f) == 5 && f[0] == "readheld" {
			op = strings.Join(f[3:], " ")
		}
		out = append(out, op)
	}
	return out
}

var ltrOvlOps int // ops performed while a read was held (generator floor)

// ltrOverlapBlock: corpus, an exhaustive grid and random histories in which a detailed-discovery read is held at an
// entity boundary (once or twice) while the application adds features, functions, descriptions and entities.
func ltrOverlapBlock(r *h.Report, d *h.Driver) {
	ltrOvlOps = 0
	base := []string{"sub 0", "renew 1 1", "renew 2 2", "renew 4 3", "feat 1 0 1", "fn 1 1 0 1 1", "feat 2 1 1", "fn 2 1 2 1 0", "attach 1", "attach 2"}
	with := func(xs ...string) []string { return append(append([]string{}, base...), xs...) }
	corpus := [][]string{
		// the mixture: the read has rendered [1], then [1] and [2] each get a feature; the reply shows the later one only
		with("rhold 1 2", "feat 1 2 1", "feat 2 3 1", "rrelease", "read 1"),
		// one addition: the reply is the tree before or after it
		with("rhold 1 2", "feat 1 2 1", "rrelease", "rhold 1 2", "fn 2 1 2 1 1", "fn 2 1 0 0 1", "rrelease", "rhold 0 1", "descr 1 1 2", "rrelease", "read 2"),
		// held twice; the second hold point lies behind / before the first; entity not part of the device
		with("rhold 2 1", "fn 2 1 3 1 1", "rmove 2", "fn 1 1 1 1 1", "feat 2 0 0", "rrelease", "rhold 2 2", "rmove 1", "rhold 0 4", "read 0"),
		// entities added and removed while the read is held: the entity list is the one of the start
		with("rhold 1 1", "detach 2", "attach 4", "feat 4 0 1", "rmove 2", "feat 2 3 1", "rrelease", "read 1", "rhold 1 4", "detach 4", "feat 4 2 1", "rrelease", "read 1"),
		// a held read of a peer whose connection fails; ops that are not applicable are ignored
		append([]string{"world 010"}, with("rhold 1 2", "feat 2 3 1", "rrelease", "rrelease", "rmove 1", "rhold 0 1", "rhold 2 1", "renew 1 2", "readheld 1 1 detach 2", "rrelease", "read 0")...),
		// a history that ends with the read still held
		with("rhold 1 2", "feat 2 3 1"),
	}
	for _, c := range corpus {
		runLtrHistory(r, d, c)
	}
	// exhaustive: hold point x (first addition, second addition) over additions that touch entity [1] / [2], an
	// existing feature / a new one, functions / descriptions / the entity list; held once or moved on in between
	adds := []string{"feat 1 2 1", "feat 2 3 1", "fn 1 1 1 1 1", "fn 2 1 3 0 1", "descr 1 1 1", "descr 2 1 2", "attach 4", "detach 1", "next 2"}
	for _, hold := range []string{"rhold 1 1", "rhold 1 2"} {
		for _, mv := range []string{"", "rmove 2"} {
			for _, a := range adds {
				for _, b := range adds {
					ops := with(hold, a)
					if mv != "" {
						ops = append(ops, mv)
					}
					ops = append(ops, b, "rrelease", "read 1")
					runLtrHistory(r, d, ops)
				}
			}
		}
	}
	// random: a generated history with a held read inserted
	rng := h.Rng(71)
	nHist := h.Scale(250, 2500)
	for i := 0; i < nHist; i++ {
		src := ltrGenHistory(rng, 15+rng.Intn(35))
		at := len(src)/3 + rng.Intn(len(src)/2+1)
		attached := map[int]bool{}
		var ops []string
		left, moves := -1, 0
		for j, o := range src {
			f := strings.Fields(o)
			if f[0] == "readheld" {
				f = f[3:]
			}
			if len(f) == 2 && f[0] == "attach" {
				attached[ltrAtoi(f[1:])[0]] = true
			}
			if len(f) == 2 && f[0] == "detach" {
				delete(attached, ltrAtoi(f[1:])[0])
			}
			if j == at {
				var ks []int
				for k := 1; k < len(ltrSlots); k++ {
					if attached[k] {
						ks = append(ks, k)
					}
				}
				k := 1 + rng.Intn(len(ltrSlots)-1)
				if len(ks) > 0 && rng.Intn(8) > 0 {
					k = ks[rng.Intn(len(ks))]
				}
				ops = append(ops, fmt.Sprintf("rhold %d %d", rng.Intn(3), k))
				left, moves = 1+rng.Intn(5), rng.Intn(3)
			}
			if left == 0 {
				if moves > 0 {
					ops = append(ops, fmt.Sprintf("rmove %d", 1+rng.Intn(len(ltrSlots)-1)))
					left, moves = 1+rng.Intn(3), moves-1
				} else {
					ops = append(ops, "rrelease")
					left = -1
				}
			}
			ops = append(ops, o)
			if left > 0 {
				left--
			}
		}
		if rng.Intn(10) > 0 {
			ops = append(ops, "rrelease") // ignored when no read is held any more
		}
		ops = append(ops, "read 2")
		runLtrHistory(r, d, ops)
	}
	if r.MismatchN == 0 {
		r.Floor("overlapped reads that were held at an entity", r.Dist["rhold:held"], r.Dist["rhold:held"]+r.Dist["rhold:finished"], 0.5)
		r.Floor("ops performed while a read was held, per held read", ltrOvlOps, r.Dist["rhold:held"], 1.0)
		nr := r.Dist["overlap-reply:mixture"] + r.Dist["overlap-reply:is-the-start"] + r.Dist["overlap-reply:is-the-end"] + r.Dist["overlap-reply:nothing-visible-changed"]
		r.Floor("overlapped replies that differ from the tree at the start of the read", r.Dist["overlap-reply:mixture"]+r.Dist["overlap-reply:is-the-end"], nr, 0.15)
		r.Floor("overlapped replies that are the tree of no single moment", r.Dist["overlap-reply:mixture"], nr, 0.03)
	}
}

// ---- concurrent feature creation on one entity (model Spine.Feat)

type ltrFeatCfg struct {
	recheck    bool // the creation looks up again under the lock (defect repaired)
	serialised bool // overlapping calls cannot both be between lookup and creation
}

var ltrS = h.NewSched("GetOrAddFeature.miss")

func runLtrFeatHistory(r *h.Report, d *h.Driver, cfg ltrFeatCfg, ops []string) {
	l := spine.NewDeviceLocal("b", "m", "s", "c", "HEMS", model.DeviceTypeTypeEnergyManagementSystem, model.NetworkManagementFeatureSetTypeSmart)
	e := spine.NewEntityLocal(l, model.EntityTypeTypeCEM, spine.NewAddressEntityType([]uint{1}), 4*time.Second)
	l.AddEntity(e)
	d.Ask("reset")
	d.Mark()
	type call struct {
		t, ro int
		g     *h.G
		res   api.FeatureLocalInterface
	}
	inflight := map[string]*call{}
	defer func() {
		for _, c := range inflight {
			select {
			case c.g.Release <- struct{}{}:
			default:
			}
		}
		for _, c := range inflight {
			select {
			case <-c.g.Done:
			case <-time.After(5 * time.Second):
			}
		}
	}()
	results := map[string][]api.FeatureLocalInterface{} // "t/r" -> what the calls returned
	maxID := 0
	var done []string
	// the implementation's own record of the two observers of Spine/FeatureMore.lean: the numbers handed out by the
	// generator in the order of time (NextFeatureId directly, or the number of a feature nobody was handed before),
	// and the completed calls as op:type-asked:role-asked:number-handed-back
	var implDrawn, implAns []string
	curOp := ""
	overlapped := false
	parkWait := 5 * time.Second
	if cfg.serialised {
		parkWait = 150 * time.Millisecond
	}
	idOf := func(f api.FeatureLocalInterface) string {
		if f == nil || f.Address() == nil || f.Address().Feature == nil {
			return "nil"
		}
		return strconv.Itoa(int(*f.Address().Feature))
	}
	// SPEC at a quiescent point: one feature per type and role, one and the same feature for every call, numbers unique
	check := func() {
		if len(inflight) > 0 {
			return
		}
		cnt := map[string]int{}
		ids := map[uint]bool{}
		for _, f := range e.Features() {
			cnt[fmt.Sprintf("%d/%d", ltrTypeCode(f.Type()), ltrRoleCode(f.Role()))]++
			id := uint(*f.Address().Feature)
			if ids[id] {
				r.SpecFail("C07/feature-number-duplicated", done, fmt.Sprintf("two features carry number %d", id))
			}
			ids[id] = true
		}
		for k, n := range cnt {
			if n > 1 {
				key := "C07/two-features-of-one-type-and-role"
				if overlapped {
					key = ltrDoubleKey
				}
				r.SpecFail(key, done, fmt.Sprintf("%d features of type/role %s on one entity", n, k))
			}
		}
		for k, fs := range results {
			for _, f := range fs {
				if f != fs[0] {
					key := "C07/get-or-add-not-the-same-feature"
					if overlapped {
						key = ltrDoubleKey
					}
					r.SpecFail(key, done, fmt.Sprintf("calls for type/role %s were handed features %s and %s", k, idOf(fs[0]), idOf(f)))
					break
				}
			}
		}
	}
	fresh := func(f api.FeatureLocalInterface, isNew bool) {
		if f == nil {
			return
		}
		id := int(*f.Address().Feature)
		if isNew {
			implDrawn = append(implDrawn, strconv.Itoa(id))
		}
		if isNew && id <= maxID {
			r.SpecFail("C07/feature-number-not-fresh", done, fmt.Sprintf("new feature got number %d, numbers up to %d were handed out before", id, maxID))
		}
		if id > maxID {
			maxID = id
		}
	}
	asked := func(f api.FeatureLocalInterface, t, ro int) {
		implAns = append(implAns, fmt.Sprintf("%s:%d:%d:%s", curOp, t, ro, idOf(f)))
		if f == nil || f.Type() != ltrTypes[t] || f.Role() != ltrRoles[ro] {
			r.SpecFail("C07/get-or-add-wrong-feature", done, fmt.Sprintf("GetOrAddFeature(%s,%s) returned feature %s of another type or role", ltrTypes[t], ltrRoles[ro], idOf(f)))
		}
	}
	known := func(f api.FeatureLocalInterface) bool {
		for _, fs := range results {
			for _, x := range fs {
				if x == f {
					return true
				}
			}
		}
		return false
	}
	for _, op := range ops {
		f := strings.Fields(op)
		if len(f) == 0 {
			continue
		}
		var impl, line, kind string
		if len(f) > 1 {
			curOp = f[1]
		}
		switch f[0] {
		case "get":
			a := ltrAtoi(f[1:])
			if len(a) != 3 {
				panic("bad op " + op)
			}
			if len(inflight) > 0 {
				overlapped = true
			}
			fo := e.GetOrAddFeature(ltrTypes[a[1]], ltrRoles[a[2]])
			done = append(done, op)
			fresh(fo, !known(fo))
			asked(fo, a[1], a[2])
			results[fmt.Sprintf("%d/%d", a[1], a[2])] = append(results[fmt.Sprintf("%d/%d", a[1], a[2])], fo)
			impl, line, kind = idOf(fo), op, "get"
		case "nextid":
			id := int(e.NextFeatureId())
			done = append(done, op)
			if id <= maxID {
				r.SpecFail("C07/feature-number-not-fresh", done, fmt.Sprintf("NextFeatureId returned %d, numbers up to %d were handed out before", id, maxID))
			} else {
				maxID = id
			}
			implDrawn = append(implDrawn, strconv.Itoa(id))
			impl, line, kind = strconv.Itoa(id), "next", "nextid"
		case "lookup":
			a := ltrAtoi(f[1:])
			if len(a) != 3 {
				panic("bad op " + op)
			}
			if _, dup := inflight[f[1]]; dup {
				continue
			}
			if len(inflight) > 0 {
				overlapped = true
			}
			c := &call{t: a[1], ro: a[2]}
			c.g = ltrS.Start(func() { c.res = e.GetOrAddFeature(ltrTypes[a[1]], ltrRoles[a[2]]) }, f)
			done = append(done, op)
			line = op
			select {
			case <-c.g.Parked:
				inflight[f[1]] = c
				impl, kind = "miss", "lookup:miss"
			case <-c.g.Done:
				fresh(c.res, false)
				asked(c.res, c.t, c.ro)
				results[fmt.Sprintf("%d/%d", c.t, c.ro)] = append(results[fmt.Sprintf("%d/%d", c.t, c.ro)], c.res)
				impl, kind = idOf(c.res), "lookup:hit"
			case <-time.After(parkWait):
				if !cfg.serialised {
					r.Mismatch(done, "goroutine neither parked at GetOrAddFeature.miss nor finished", "parked or finished", "schedule driver")
					return
				}
				// blocked behind another call: it will look up when that one is through
				c.g.State = "blocked"
				inflight[f[1]] = c
				r.Eval("lookup:blocked", "")
				continue
			}
		case "create":
			c := inflight[f[1]]
			if c == nil {
				continue
			}
			if c.g.State == "blocked" {
				select {
				case <-c.g.Parked:
					if want := d.Ask(fmt.Sprintf("lookup %s %d %d", f[1], c.t, c.ro)); want != "miss" {
						r.Mismatch(append(done, op), "miss", want, "deferred lookup")
						return
					}
				case <-c.g.Done:
					delete(inflight, f[1])
					done = append(done, op)
					fresh(c.res, false)
					asked(c.res, c.t, c.ro)
					results[fmt.Sprintf("%d/%d", c.t, c.ro)] = append(results[fmt.Sprintf("%d/%d", c.t, c.ro)], c.res)
					impl, line, kind = idOf(c.res), fmt.Sprintf("lookup %s %d %d", f[1], c.t, c.ro), "lookup:hit"
				case <-time.After(5 * time.Second):
					r.Mismatch(append(done, op), "blocked goroutine never got through", "parked or finished", "schedule driver")
					return
				}
			}
			if kind == "" {
				c.g.Release <- struct{}{}
				select {
				case <-c.g.Done:
				case <-time.After(5 * time.Second):
					r.Mismatch(append(done, op), "released goroutine did not finish", "finished", "schedule driver")
					return
				}
				delete(inflight, f[1])
				done = append(done, op)
				fresh(c.res, !known(c.res))
				asked(c.res, c.t, c.ro)
				results[fmt.Sprintf("%d/%d", c.t, c.ro)] = append(results[fmt.Sprintf("%d/%d", c.t, c.ro)], c.res)
				impl, line, kind = idOf(c.res), op, "create"
			}
		default:
			panic("bad op " + op)
		}
		check()
		want := d.Ask(line)
		r.Eval(kind, "")
		if impl != want {
			r.Mismatch(done, impl, want, "feature op "+op+" as "+line)
			return
		}
	}
	if len(inflight) == 0 {
		var ss []string
		for _, f := range e.Features() {
			ss = append(ss, fmt.Sprintf("%d:%d:%d", *f.Address().Feature, ltrTypeCode(f.Type()), ltrRoleCode(f.Role())))
		}
		impl := "."
		if len(ss) > 0 {
			impl = strings.Join(ss, ",")
		}
		if want := d.Ask("feats"); impl != want {
			r.Mismatch(append(done, "feats"), impl, want, "feature list at the end")
			return
		}
		r.Eval("feats", "")
		// the observers the schedule theorems are stated with (c07_numbers_never_reused, c07_same_feature_asked,
		// c07_handed_what_was_asked): the model's lists against the implementation's own record
		join := func(l []string) string {
			if len(l) == 0 {
				return "."
			}
			return strings.Join(l, ",")
		}
		if want := d.Ask("drawn"); join(implDrawn) != want {
			r.Mismatch(append(done, "drawn"), join(implDrawn), want, "numbers handed out by the generator, in the order of time")
			return
		}
		r.Eval("drawn", "")
		if want := d.Ask("answers"); join(implAns) != want {
			r.Mismatch(append(done, "answers"), join(implAns), want, "completed calls: op:type asked:role asked:number handed back")
			return
		}
		r.Eval("answers", "")
	}
	r.Traces++
}

var ltrFeatWitness = []string{"lookup 1 0 1", "lookup 2 0 1", "create 1", "create 2"}

// ltrFeatProbe runs the double-creation witness schedule on the real code without the model.
func ltrFeatProbe() (cfg ltrFeatCfg, detail string) {
	l := spine.NewDeviceLocal("b", "m", "s", "c", "HEMS", model.DeviceTypeTypeEnergyManagementSystem, model.NetworkManagementFeatureSetTypeSmart)
	e := spine.NewEntityLocal(l, model.EntityTypeTypeCEM, spine.NewAddressEntityType([]uint{1}), 4*time.Second)
	var r1, r2 api.FeatureLocalInterface
	g1 := ltrS.Start(func() { r1 = e.GetOrAddFeature(ltrTypes[0], ltrRoles[1]) }, nil)
	select {
	case <-g1.Parked:
	case <-g1.Done:
		return ltrFeatCfg{recheck: true, serialised: true}, "first call returned without reaching the yield point"
	case <-time.After(5 * time.Second):
		panic("feature probe: first goroutine neither parked nor finished")
	}
	g2 := ltrS.Start(func() { r2 = e.GetOrAddFeature(ltrTypes[0], ltrRoles[1]) }, nil)
	select {
	case <-g2.Parked:
	case <-g2.Done:
	case <-time.After(400 * time.Millisecond):
		cfg.serialised = true
	}
	g1.Release <- struct{}{}
	<-g1.Done
	if cfg.serialised {
		select {
		case <-g2.Parked:
		case <-g2.Done:
		case <-time.After(5 * time.Second):
			panic("feature probe: second goroutine stuck")
		}
	}
	select {
	case g2.Release <- struct{}{}:
	default:
	}
	<-g2.Done
	n := len(e.Features())
	cfg.recheck = n == 1 && r1 == r2
	return cfg, fmt.Sprintf("witness schedule on the real code: %d feature(s) of one type and role, both calls handed the same feature = %v, second call reached the yield point while the first was parked = %v", n, r1 == r2, !cfg.serialised)
}

func ltrFeatInterleavings(k int, serialised bool) [][]string {
	if serialised {
		return ucsPermsGeneric(k)
	}
	var out [][]string
	var rec func(cur []string, a, b []bool)
	rec = func(cur []string, a, b []bool) {
		if len(cur) == 2*k {
			out = append(out, append([]string{}, cur...))
			return
		}
		for i := 0; i < k; i++ {
			if !a[i] {
				a[i] = true
				rec(append(cur, fmt.Sprintf("l%d", i)), a, b)
				a[i] = false
			} else if !b[i] {
				b[i] = true
				rec(append(cur, fmt.Sprintf("c%d", i)), a, b)
				b[i] = false
			}
		}
	}
	rec(nil, make([]bool, k), make([]bool, k))
	return out
}

func ucsPermsGeneric(k int) [][]string {
	var out [][]string
	var rec func(cur []int, used []bool)
	rec = func(cur []int, used []bool) {
		if len(cur) == k {
			var ev []string
			for _, i := range cur {
				ev = append(ev, fmt.Sprintf("l%d", i), fmt.Sprintf("c%d", i))
			}
			out = append(out, ev)
			return
		}
		for i := 0; i < k; i++ {
			if !used[i] {
				used[i] = true
				rec(append(cur, i), used)
				used[i] = false
			}
		}
	}
	rec(nil, make([]bool, k))
	return out
}

func TestLocalTree(t *testing.T) {
	r := h.NewReport("localtree", "part 1: random configurations (<= 4 entities x about 5 features x 6 functions with read/write flags) built by histories of NewEntityLocal / AddEntity / RemoveEntity / GetOrAddFeature / NextFeatureId / AddFunctionType / SetDescriptionString / AddUseCaseSupport interleaved with node-management (un)subscriptions and detailed-discovery reads from three peers (real datagrams), compared op by op with Spine.LTree; SPEC monitor on reply and notify datagrams against the harness's own bookkeeping. part 2: GetOrAddFeature / NextFeatureId on one entity, sequential histories and all interleavings of the lookup/create events of two (thorough: three) overlapping calls driven through the yield hook, compared with Spine.Feat; non-trivial = distinct discovery reply text")
	defer r.Write()
	if ops := h.ReplayOps("localtree"); ops != nil {
		if len(ops) > 0 && (strings.HasPrefix(ops[0], "lookup") || strings.HasPrefix(ops[0], "get") || strings.HasPrefix(ops[0], "create") || strings.HasPrefix(ops[0], "nextid")) {
			spine.VerifYield = ltrS.Hook
			defer func() { spine.VerifYield = nil }()
			cfg, _ := ltrFeatProbe()
			d := h.StartDriver("drv_feat")
			defer d.Close()
			d.Ask("cfg recheck " + strconv.Itoa(h.B2i(cfg.recheck)))
			runLtrFeatHistory(r, d, cfg, ops)
			return
		}
		d := h.StartDriver("drv_ltree")
		defer d.Close()
		ltrSendNames(d)
		runLtrHistory(r, d, ops)
		return
	}

	// ================= part 1: the tree
	d := h.StartDriver("drv_ltree")
	ltrSendNames(d)
	corpus := [][]string{
		// the probe of DESIGN section 8: one subscriber, one bystander
		{"sub 0", "renew 1 1", "feat 1 0 1", "fn 1 1 0 1 1", "attach 1", "adduc 1", "detach 1", "read 0", "read 1"},
		// functions: client features take none, a second add does not change the operations, all four flag combinations
		{"renew 1 2", "feat 1 0 0", "fn 1 1 0 1 1", "feat 1 0 1", "fn 1 2 0 1 0", "fn 1 2 0 0 1", "fn 1 2 1 0 0", "fn 1 2 2 0 1", "fn 1 2 3 1 1", "feat 1 4 2", "fn 1 3 5 1 1", "attach 1", "read 1"},
		// numbering: NextFeatureId consumes numbers, a fresh object starts again, entity [0] continues at 2
		{"renew 1 1", "next 1", "feat 1 1 1", "next 1", "feat 1 2 1", "feat 1 1 1", "attach 1", "read 0", "detach 1", "renew 1 3", "feat 1 3 1", "attach 1", "read 0", "feat 0 4 1", "fn 0 2 0 1 0", "fn 0 0 1 1 1", "read 2"},
		// subscribe, unsubscribe, subscribe twice; removing an entity that is not part of the device
		{"sub 0", "sub 2", "sub 0", "renew 1 1", "renew 2 2", "feat 2 0 1", "attach 1", "unsub 0", "attach 2", "sub 0", "detach 1", "detach 1", "unsub 2", "unsub 2", "detach 2", "read 2"},
		// sub-entity [1,1] next to [1]; descriptions
		{"sub 0", "renew 1 1", "renew 3 3", "feat 1 0 1", "feat 3 0 1", "descr 3 1 2", "attach 3", "attach 1", "read 1", "detach 1", "read 1", "fn 3 1 0 1 1", "descr 1 7 0", "fn 1 7 0 1 1", "read 1"},
	}
	// a read held while it renders entity [1]; meanwhile [2] is removed / [3] is added / [1] itself is removed
	corpus = append(corpus,
		[]string{"sub 0", "renew 1 1", "renew 2 2", "renew 4 3", "feat 1 2 0", "feat 2 3 0", "feat 4 0 0", "attach 1", "attach 2", "attach 4", "read 1", "readheld 1 1 detach 2", "read 1", "readheld 2 4 attach 2", "read 0", "readheld 0 1 detach 1", "read 1"},
		[]string{"renew 1 1", "renew 2 2", "renew 3 3", "attach 3", "attach 2", "attach 1", "readheld 1 3 detach 3", "readheld 1 2 detach 1", "readheld 1 2 attach 3", "readheld 0 1 attach 1", "read 1"})
	// announced contents: every device type x feature set, destination-list reads plain / with filters / from an unknown
	// feature, a feature of every role with and without functions, functions whose data does and does not support
	// partial updates (LoadControl limits on a LoadControl feature: yes; on a Setpoint feature: foreign, no; device
	// diagnosis state: not a list, no), all four flag combinations, re-adds with other flags, the heartbeat function
	for dt := range ltrDTypes {
		for fs := range ltrFSets {
			corpus = append(corpus, []string{fmt.Sprintf("world 000 %d %d", dt, fs), "dread 0 0", "dread 1 1", "dread 2 2", "dread 0 3", "sub 1", "renew 1 1",
				"feat 1 0 1", "fn 1 1 0 1 1", "fn 1 1 0 1 0", "fn 1 1 1 0 1", "fn 1 1 2 1 1", "fn 1 1 3 0 0",
				"feat 1 1 1", "fn 1 2 0 1 1", "fn 1 2 2 0 1", "fn 1 2 2 1 1",
				"feat 1 2 1", "fn 1 3 3 1 1", "fn 1 3 6 1 0", "feat 1 2 0", "fn 1 4 3 1 1", "feat 1 4 2", "fn 1 5 4 1 1", "fn 1 5 3 0 1", "feat 1 3 1",
				"attach 1", "read 0", "dread 1 0", "fn 0 0 0 1 1", "fn 0 1 0 0 1", "read 2"})
		}
	}
	// probe: the heartbeat function on a DeviceDiagnosis server feature of the device-information entity (a valid
	// configuration; the monitor reports a panic, the model announces the function like any other)
	corpus = append(corpus, []string{"feat 0 2 1", "fn 0 2 3 1 0", "fn 0 2 6 1 0", "read 0", "renew 1 1", "feat 1 2 1", "fn 1 1 6 1 0", "attach 1", "read 0"})
	// a failing connection first / in the middle / last among three subscribers: the others are served all the same
	for _, w := range [][]string{{"world 100", "sub 0", "sub 1", "sub 2"}, {"world 010", "sub 0", "sub 1", "sub 2"}, {"world 001", "sub 0", "sub 1", "sub 2"},
		{"world 110", "sub 1", "sub 2", "sub 0"}, {"world 011", "sub 2", "sub 0", "sub 1"}} {
		corpus = append(corpus, append(append([]string{}, w...), "renew 1 1", "feat 1 0 1", "fn 1 1 0 1 1", "attach 1", "adduc 1", "read 0", "read 1", "read 2", "detach 1", "renew 2 2", "attach 2", "readheld 2 2 detach 2"))
	}
	for _, c := range corpus {
		runLtrHistory(r, d, c)
	}
	rng := h.Rng(7)
	for i, n := 0, h.Scale(1500, 15000); i < n; i++ {
		runLtrHistory(r, d, ltrGenHistory(rng, 20+rng.Intn(50)))
	}
	// round 6: worlds in which the peers answer a node-management notification with a detailed-discovery read from
	// INSIDE the write (flag r: the read is served while AddEntity / RemoveEntity is still running) and worlds in
	// which all three connections announce one and the same device address (flag s: peers are told apart by
	// connection only); same generator, same model, same monitor
	for _, c := range [][]string{
		{"world 000 0 3 r", "sub 0", "sub 2", "renew 1 1", "renew 2 2", "feat 1 0 1", "fn 1 1 0 1 1", "feat 2 3 0", "attach 1", "attach 2", "read 1", "detach 1", "read 0", "adduc 2", "detach 2", "attach 1", "detach 1"},
		{"world 000 0 3 s", "sub 0", "sub 1", "sub 2", "renew 1 1", "feat 1 0 1", "attach 1", "adduc 1", "read 0", "read 1", "unsub 1", "detach 1", "attach 1", "sub 1", "unsub 0", "detach 1", "read 2"},
		{"world 010 1 2 rs", "sub 2", "sub 1", "sub 0", "renew 3 3", "feat 3 1 1", "attach 3", "detach 3", "unsub 2", "attach 3", "detach 3"},
	} {
		runLtrHistory(r, d, c)
	}
	for i, n := 0, h.Scale(400, 4000); i < n; i++ {
		runLtrHistory(r, d, ltrGenFlagged(rng, 20+rng.Intn(40), []string{"r", "s", "rs", "r"}[i%4]))
	}
	d.Close()
	if r.MismatchN == 0 {
		r.Floor("reads issued from inside an 'added' / 'removed' notification", min(r.Dist["react:added"], r.Dist["react:removed"]), h.Scale(400, 4000), 0.5)
	}
	// floors describe the generator on complete histories; histories cut short by a disagreement distort them
	// (and the disagreement is reported anyway)
	if r.MismatchN == 0 {
		r.Floor("GetOrAddFeature calls that created a feature", r.Dist["feat:new"], r.Dist["feat:new"]+r.Dist["feat:existing"], 0.30)
		r.Floor("GetOrAddFeature calls that found the feature", r.Dist["feat:existing"], r.Dist["feat:new"]+r.Dist["feat:existing"], 0.15)
		fnAll := r.Dist["fn:added"] + r.Dist["fn:client"] + r.Dist["fn:again"] + r.Dist["fn:again-other-flags-ignored"] + r.Dist["fn:no-such-feature"]
		r.Floor("AddFunctionType calls that added a function", r.Dist["fn:added"], fnAll, 0.30)
		r.Floor("entity additions and removals among the ops", r.Dist["attach"]+r.Dist["detach"]+r.Dist["readheld:attach"]+r.Dist["readheld:detach"], r.Evaluations, 0.04)
		nw := 0
		for k, v := range r.Dist {
			if strings.HasPrefix(k, "world:") && k != "world:000" {
				nw += v
			}
		}
		r.Floor("histories with a peer whose connection fails", nw, h.Scale(1500, 15000), 0.30)
		r.Floor("entity additions and removals overlapping a held read", r.Dist["readheld:attach"]+r.Dist["readheld:detach"], r.Dist["attach"]+r.Dist["detach"]+r.Dist["readheld:attach"]+r.Dist["readheld:detach"], 0.08)
	}

	// ================= part 1b: reads that overlap feature / function / description additions (Spine/LocalTreeRead.lean)
	d = h.StartDriver("drv_ltree")
	ltrSendNames(d)
	ltrOverlapBlock(r, d)
	d.Close()

	// ================= part 2: feature creation on one entity, schedules
	spine.VerifYield = ltrS.Hook
	defer func() { spine.VerifYield = nil }()
	cfg, detail := ltrFeatProbe()
	r.SetFlag("getOrAddCreatesWithoutRecheck", !cfg.recheck, ltrFeatWitness, detail)
	df := h.StartDriver("drv_feat")
	defer df.Close()
	df.Ask("cfg recheck " + strconv.Itoa(h.B2i(cfg.recheck)))
	// corpus: the double-creation witness (reported by the monitor while the defect exists), plus variations
	runLtrFeatHistory(r, df, cfg, ltrFeatWitness)
	if !cfg.serialised {
		runLtrFeatHistory(r, df, cfg, []string{"get 9 1 1", "lookup 1 0 1", "nextid", "lookup 2 0 1", "get 3 0 0", "create 2", "lookup 4 0 1", "create 1", "get 5 0 1", "nextid"})
	}
	// sequential differential (as in the design prototype)
	for i, n := 0, h.Scale(300, 3000); i < n; i++ {
		var ops []string
		for j, m := 0, 10+rng.Intn(30); j < m; j++ {
			if rng.Intn(5) == 0 {
				ops = append(ops, "nextid")
			} else {
				ops = append(ops, fmt.Sprintf("get %d %d %d", 100+j, rng.Intn(len(ltrTypes)), rng.Intn(3)))
			}
		}
		runLtrFeatHistory(r, df, cfg, ops)
	}
	type blk struct{ k, n int }
	blocks := []blk{{2, h.Scale(60, 300)}, {3, h.Scale(6, 60)}}
	for _, b := range blocks {
		scheds := ltrFeatInterleavings(b.k, cfg.serialised)
		for i := 0; i < b.n; i++ {
			var prefix []string
			for j, m := 0, rng.Intn(4); j < m; j++ {
				if rng.Intn(4) == 0 {
					prefix = append(prefix, "nextid")
				} else {
					prefix = append(prefix, fmt.Sprintf("get %d %d %d", 50+j, rng.Intn(2), rng.Intn(2)))
				}
			}
			var calls [][2]int
			for j := 0; j < b.k; j++ {
				calls = append(calls, [2]int{rng.Intn(2), rng.Intn(2)})
			}
			if i%2 == 0 {
				calls[1] = calls[0] // at least two calls for the same type and role
			}
			for _, evs := range scheds {
				ops := append([]string{}, prefix...)
				for _, ev := range evs {
					j, _ := strconv.Atoi(ev[1:])
					if ev[0] == 'l' {
						ops = append(ops, fmt.Sprintf("lookup %d %d %d", j+1, calls[j][0], calls[j][1]))
					} else {
						ops = append(ops, fmt.Sprintf("create %d", j+1))
					}
				}
				ops = append(ops, "get 99 0 1", "nextid")
				runLtrFeatHistory(r, df, cfg, ops)
				r.Eval(fmt.Sprintf("schedule:%d-calls", b.k), "")
			}
		}
	}

	// random schedules of four to six overlapping calls (the exhaustive blocks above stop at three): a random
	// interleaving of their lookup / create events, most calls for one and the same type and role, NextFeatureId calls
	// and calls nothing overlaps in between
	for i, n := 0, h.Scale(120, 1200); i < n; i++ {
		k := 4 + rng.Intn(3)
		var calls [][2]int
		hot := [2]int{rng.Intn(2), rng.Intn(2)}
		for j := 0; j < k; j++ {
			if rng.Intn(3) > 0 {
				calls = append(calls, hot)
			} else {
				calls = append(calls, [2]int{rng.Intn(3), rng.Intn(3)})
			}
		}
		var ops []string
		if rng.Intn(3) == 0 {
			ops = append(ops, fmt.Sprintf("get 50 %d %d", rng.Intn(2), rng.Intn(2)))
		}
		if cfg.serialised {
			for _, j := range rng.Perm(k) {
				ops = append(ops, fmt.Sprintf("lookup %d %d %d", j+1, calls[j][0], calls[j][1]), fmt.Sprintf("create %d", j+1))
			}
		} else {
			looked, created := make([]bool, k), make([]bool, k)
			for left := 2 * k; left > 0; {
				switch x := rng.Intn(10); {
				case x == 0:
					ops = append(ops, "nextid")
					continue
				case x == 1:
					ops = append(ops, fmt.Sprintf("get %d %d %d", 60+left, hot[0], hot[1]))
					continue
				}
				j := rng.Intn(k)
				if !looked[j] {
					looked[j] = true
					ops = append(ops, fmt.Sprintf("lookup %d %d %d", j+1, calls[j][0], calls[j][1]))
					left--
				} else if !created[j] {
					created[j] = true
					ops = append(ops, fmt.Sprintf("create %d", j+1))
					left--
				}
			}
		}
		ops = append(ops, fmt.Sprintf("get 99 %d %d", hot[0], hot[1]), "nextid")
		runLtrFeatHistory(r, df, cfg, ops)
		r.Eval(fmt.Sprintf("schedule:%d-calls-random", k), "")
	}

	// ---- minimise witnesses of unlisted spec failures and of the first mismatch
	isFeat := func(ops []string) bool {
		for _, o := range ops {
			if strings.HasPrefix(o, "lookup") || strings.HasPrefix(o, "get ") || strings.HasPrefix(o, "create") || o == "nextid" {
				return true
			}
		}
		return false
	}
	d = h.StartDriver("drv_ltree")
	defer d.Close()
	ltrSendNames(d)
	rerun := func(q *h.Report, ops []string) {
		if isFeat(ops) {
			runLtrFeatHistory(q, df, cfg, ops)
		} else {
			runLtrHistory(q, d, ops)
		}
	}
	for _, sf := range append([]h.SpecFailure{}, r.SpecFailures...) {
		if sf.Key == ltrDoubleKey || len(sf.Ops) < 3 {
			continue
		}
		key := sf.Key
		small := h.Shrink(sf.Ops, func(ops []string) bool {
			q := h.Quiet()
			rerun(q, ops)
			return q.HasSpecFail(key)
		})
		r.ReplaceSpecFailOps(key, small)
	}
	if len(r.Mismatches) > 0 {
		mm := r.Mismatches[0]
		small := h.Shrink(mm.Ops, func(ops []string) bool {
			q := h.Quiet()
			rerun(q, ops)
			return q.MismatchN > 0
		})
		q := h.Quiet()
		rerun(q, small)
		if q.MismatchN > 0 {
			r.ReplaceMismatch(0, small, q.Mismatches[0].Impl, q.Mismatches[0].Model)
		}
	}
}
