package comp

// Helpers shared by the two timer-dependent harnesses (approval_test.go, heartbeat_test.go).

import (
	"fmt"
	"runtime"
	"time"

	"verifharness/h"
)

// hbtMerges: every interleaving of the given op sequences (each sequence keeps its order).
func hbtMerges(seqs [][]string, f func([]string)) {
	idx := make([]int, len(seqs))
	total := 0
	for _, q := range seqs {
		total += len(q)
	}
	cur := make([]string, 0, total)
	var rec func()
	rec = func() {
		if len(cur) == total {
			f(append([]string{}, cur...))
			return
		}
		for i, q := range seqs {
			if idx[i] < len(q) {
				cur = append(cur, q[idx[i]])
				idx[i]++
				rec()
				idx[i]--
				cur = cur[:len(cur)-1]
			}
		}
	}
	rec()
}

// hbtWatchdog ends the process when a test hangs (a blocked call into the stack), long before go test's own timeout.
func hbtWatchdog(name string, d time.Duration) func() {
	t := time.AfterFunc(d, func() {
		buf := make([]byte, 1<<20)
		buf = buf[:runtime.Stack(buf, true)]
		panic(fmt.Sprintf("%s did not finish within %v (a call into the stack blocks?)\n%s", name, d, buf))
	})
	return func() { t.Stop() }
}

// hbtGuard turns a panic that reaches the test goroutine (a call into the stack made directly by the harness) into
// a reported spec failure; the report is still written. (The check script does not look at go test's exit code.)
func hbtGuard(r *h.Report, prop string) func() {
	return func() {
		if p := recover(); p != nil {
			buf := make([]byte, 1<<14)
			buf = buf[:runtime.Stack(buf, false)]
			r.SpecFail(prop+"/panic-on-the-harness-goroutine", []string{"see detail"}, fmt.Sprintf("a call into the stack panicked: %v\n%s", p, buf))
		}
	}
}
