package comp

// C08 — duplicate check with object identity: correspondence of Spine.RegObj
// with AddSubscription under repeated `added` announcements and cached client
// data, plus the SPEC monitor (a registered pair is never granted again, one
// notification per pair).

import (
	"encoding/json"
	"fmt"
	"sort"
	"strconv"
	"strings"
	"testing"
	"time"

	"github.com/enbility/spine-go/api"
	"github.com/enbility/spine-go/model"
	"github.com/enbility/spine-go/spine"
	"github.com/enbility/spine-go/util"
	"verifharness/h"
)

type regoWorld struct {
	l    *spine.DeviceLocal
	rd   api.DeviceRemoteInterface
	log  *regLog
	ctr  uint64
	out  []regOut
	pan  string
	dd   *model.NodeManagementDetailedDiscoveryDataType
	feat map[uint][]model.NodeManagementDetailedDiscoveryFeatureInformationType
}

var regoEtype = map[uint]model.EntityTypeType{0: model.EntityTypeTypeDeviceInformation, 1: model.EntityTypeTypeEVSE, 2: model.EntityTypeTypeEV}

func regoEnt(dev string, e uint, st *model.NetworkManagementStateChangeType) model.NodeManagementDetailedDiscoveryEntityInformationType {
	et := regoEtype[e]
	return model.NodeManagementDetailedDiscoveryEntityInformationType{Description: &model.NetworkManagementEntityDescriptionDataType{
		EntityAddress: &model.EntityAddressType{Device: util.Ptr(model.AddressDeviceType(dev)), Entity: spine.NewAddressEntityType([]uint{e})}, EntityType: &et, LastStateChange: st}}
}

func newRegoWorld() *regoWorld {
	w := &regoWorld{log: &regLog{}, ctr: 100}
	l := spine.NewDeviceLocal("b", "m", "s", "c", "HEMS", model.DeviceTypeTypeEnergyManagementSystem, model.NetworkManagementFeatureSetTypeSmart)
	e1 := spine.NewEntityLocal(l, model.EntityTypeTypeCEM, spine.NewAddressEntityType([]uint{1}), time.Second*4)
	l.AddEntity(e1)
	f := e1.GetOrAddFeature(model.FeatureTypeTypeLoadControl, model.RoleTypeServer)
	f.AddFunctionType(model.FunctionTypeLoadControlLimitListData, true, true)
	f = e1.GetOrAddFeature(model.FeatureTypeTypeSetpoint, model.RoleTypeServer)
	f.AddFunctionType(model.FunctionTypeSetpointListData, true, true)
	e1.GetOrAddFeature(model.FeatureTypeTypeLoadControl, model.RoleTypeClient) // 3
	e1.GetOrAddFeature(model.FeatureTypeTypeSetpoint, model.RoleTypeClient)    // 4
	w.l = l
	dev := "dev1"
	l.SetupRemoteDevice("ski1", &regW{1, w.log, 0})
	w.rd = l.RemoteDeviceForSki("ski1")
	feat := func(ent []uint, fid uint, ft model.FeatureTypeType, role model.RoleType) model.NodeManagementDetailedDiscoveryFeatureInformationType {
		return model.NodeManagementDetailedDiscoveryFeatureInformationType{Description: &model.NetworkManagementFeatureDescriptionDataType{FeatureAddress: h.FA(dev, ent, fid), FeatureType: &ft, Role: &role}}
	}
	w.feat = map[uint][]model.NodeManagementDetailedDiscoveryFeatureInformationType{
		0: {feat([]uint{0}, 0, model.FeatureTypeTypeNodeManagement, model.RoleTypeSpecial)},
		1: {feat([]uint{1}, 1, model.FeatureTypeTypeLoadControl, model.RoleTypeClient), feat([]uint{1}, 2, model.FeatureTypeTypeSetpoint, model.RoleTypeClient)},
		2: {feat([]uint{2}, 1, model.FeatureTypeTypeLoadControl, model.RoleTypeClient)},
	}
	w.dd = &model.NodeManagementDetailedDiscoveryDataType{
		DeviceInformation: &model.NodeManagementDetailedDiscoveryDeviceInformationType{Description: &model.NetworkManagementDeviceDescriptionDataType{DeviceAddress: &model.DeviceAddressType{Device: util.Ptr(model.AddressDeviceType(dev))}}},
		EntityInformation: []model.NodeManagementDetailedDiscoveryEntityInformationType{regoEnt(dev, 0, nil), regoEnt(dev, 1, nil), regoEnt(dev, 2, nil)},
	}
	for i := uint(0); i < 3; i++ {
		w.dd.FeatureInformation = append(w.dd.FeatureInformation, w.feat[i]...)
	}
	cl := model.CmdClassifierTypeReply
	w.send(model.DatagramType{Header: model.HeaderType{AddressSource: h.FA(dev, []uint{0}, 0), AddressDestination: h.FA("HEMS", []uint{0}, 0), MsgCounter: util.Ptr(model.MsgCounterType(1)),
		MsgCounterReference: util.Ptr(model.MsgCounterType(1)), CmdClassifier: &cl}, Payload: model.PayloadType{Cmd: []model.CmdType{{NodeManagementDetailedDiscoveryData: w.dd}}}})
	w.out = nil
	return w
}

func (w *regoWorld) send(d model.DatagramType) {
	b, _ := json.Marshal(model.Datagram{Datagram: d})
	if pan := h.Recover(func() { _, _ = w.rd.HandleSpineMesssage(b) }); pan != nil {
		w.pan = fmt.Sprint(pan)
	}
	w.out = append(w.out, w.log.take()...)
}

func (w *regoWorld) call(c model.CmdType) string {
	w.ctr++
	cc := model.CmdClassifierTypeCall
	ack := true
	w.send(model.DatagramType{Header: model.HeaderType{AddressSource: h.FA("dev1", []uint{0}, 0), AddressDestination: h.FA("HEMS", []uint{0}, 0), MsgCounter: util.Ptr(model.MsgCounterType(w.ctr)),
		CmdClassifier: &cc, AckRequest: &ack}, Payload: model.PayloadType{Cmd: []model.CmdType{c}}})
	res := "none"
	for _, o := range w.out {
		if len(o.d.Payload.Cmd) == 0 {
			continue
		}
		c0 := o.d.Payload.Cmd[0]
		if c0.ResultData != nil && c0.ResultData.ErrorNumber != nil && o.d.Header.MsgCounterReference != nil && uint64(*o.d.Header.MsgCounterReference) == w.ctr {
			res = map[bool]string{true: "ok", false: "err"}[*c0.ResultData.ErrorNumber == 0]
		}
	}
	return res
}

// registry: "id:se/sf<-ce/cf" in registry order
func (w *regoWorld) registry() []string {
	var parts []string
	for _, e := range w.l.SubscriptionManager().Subscriptions(w.rd) {
		parts = append(parts, fmt.Sprintf("%d:%s/%d<-%s/%d", e.Id, h.EntStr(e.ServerFeature.Address().Entity), *e.ServerFeature.Address().Feature,
			h.EntStr(e.ClientFeature.Address().Entity), *e.ClientFeature.Address().Feature))
	}
	return parts
}

func regoPairs(reg []string) map[string]int {
	m := map[string]int{}
	for _, e := range reg {
		m[e[strings.Index(e, ":")+1:]]++
	}
	return m
}

func regoJoin(l []string) string {
	if len(l) == 0 {
		return "."
	}
	return strings.Join(l, ",")
}

type regoStats struct{ subOk, subAll, dbl, fanNon, fanAll, reann int }

func runRegObjHistory(r *h.Report, d *h.Driver, ops []string, st *regoStats) {
	w := newRegoWorld()
	defer w.l.RemoveRemoteDeviceConnection("ski1")
	if d != nil {
		d.Ask("reset")
	}
	typeOf := map[string]int{"1/1": 1, "1/2": 2, "2/1": 1}
	reann := map[string]bool{} // SPEC bookkeeping: the client entity of a registered pair was announced again since
	var done []string
	for _, op := range ops {
		f := strings.Fields(op)
		if len(f) == 0 {
			continue
		}
		u := func(i int) uint { n, _ := strconv.Atoi(f[i]); return uint(n) }
		pre := w.registry()
		w.out, w.pan = nil, ""
		var impl, kind string
		done = append(done, op)
		switch f[0] {
		case "sub", "unsub":
			ce, cf, se, sf := u(1), u(2), u(3), u(4)
			pair := fmt.Sprintf("%d/%d<-%d/%d", se, sf, ce, cf)
			if f[0] == "sub" {
				impl = w.call(model.CmdType{NodeManagementSubscriptionRequestCall: spine.NewNodeManagementSubscriptionRequestCallType(h.FA("dev1", []uint{ce}, cf), h.FA("HEMS", []uint{se}, sf),
					regTypeNames[typeOf[fmt.Sprintf("%d/%d", ce, cf)]])})
			} else {
				impl = w.call(model.CmdType{NodeManagementSubscriptionDeleteCall: spine.NewNodeManagementSubscriptionDeleteCallType(h.FA("dev1", []uint{ce}, cf), h.FA("HEMS", []uint{se}, sf))})
			}
			post := w.registry()
			had := regoPairs(pre)[pair]
			// SPEC (C08); every request of this harness meets the role / type / existence conditions
			if f[0] == "sub" {
				switch {
				case impl == "ok" && had > 0 && reann[pair]:
					r.SpecFail("C08/registered-pair-granted-again-after-reannouncement", done, fmt.Sprintf("%s granted although the pair is subscribed already (its client entity was announced again in between): %s", op, regoJoin(pre)))
				case impl == "ok" && had > 0:
					r.SpecFail("C08/registered-pair-granted-again", done, fmt.Sprintf("%s granted although the pair is subscribed already: %s", op, regoJoin(pre)))
				case impl != "ok" && had == 0:
					r.SpecFail("C08/subscribe-refused-wrongly", done, fmt.Sprintf("%s answered %s although the pair is not subscribed: %s", op, impl, regoJoin(pre)))
				}
				if len(post) != len(pre)+h.B2i(impl == "ok") || regoPairs(post)[pair] != had+h.B2i(impl == "ok") {
					r.SpecFail("C08/subscribe-registry-effect", done, fmt.Sprintf("%s answered %s: %s -> %s", op, impl, regoJoin(pre), regoJoin(post)))
				}
				st.subAll++
				st.subOk += h.B2i(had == 0) // floors measure the generator: what the SPEC says should happen
				if impl == "ok" && had == 0 {
					reann[pair] = false
				}
			} else {
				if (impl == "ok") != (had > 0) {
					r.SpecFail("C08/delete-result", done, fmt.Sprintf("%s answered %s: %s", op, impl, regoJoin(pre)))
				}
				if regoPairs(post)[pair] != 0 || len(post) != len(pre)-had {
					r.SpecFail("C08/delete-did-not-remove", done, fmt.Sprintf("%s: %s -> %s", op, regoJoin(pre), regoJoin(post)))
				}
			}
			ids := map[string]bool{}
			for _, e := range post {
				id := e[:strings.Index(e, ":")]
				if ids[id] {
					r.SpecFail("C08/id-reused", done, regoJoin(post))
				}
				ids[id] = true
			}
			kind = f[0] + ":" + impl
		case "data":
			ce, cf, val := u(1), u(2), u(3)
			w.ctr++
			nc := model.CmdClassifierTypeNotify
			var c model.CmdType
			dst := uint(3)
			if typeOf[fmt.Sprintf("%d/%d", ce, cf)] == 1 {
				c = model.CmdType{LoadControlLimitListData: &model.LoadControlLimitListDataType{LoadControlLimitData: []model.LoadControlLimitDataType{{LimitId: util.Ptr(model.LoadControlLimitIdType(1)), Value: model.NewScaledNumberType(float64(val))}}}}
			} else {
				dst = 4
				c = model.CmdType{SetpointListData: &model.SetpointListDataType{SetpointData: []model.SetpointDataType{{SetpointId: util.Ptr(model.SetpointIdType(1)), Value: model.NewScaledNumberType(float64(val))}}}}
			}
			w.send(model.DatagramType{Header: model.HeaderType{AddressSource: h.FA("dev1", []uint{ce}, cf), AddressDestination: h.FA("HEMS", []uint{1}, dst), MsgCounter: util.Ptr(model.MsgCounterType(w.ctr)), CmdClassifier: &nc},
				Payload: model.PayloadType{Cmd: []model.CmdType{c}}})
			impl, kind = "done", "data"
			if strings.Join(w.registry(), ",") != strings.Join(pre, ",") {
				r.SpecFail("C08/registry-changed-by-data", done, op)
			}
		case "reannounce":
			e := u(1)
			w.ctr++
			nc := model.CmdClassifierTypeNotify
			added := model.NetworkManagementStateChangeTypeAdded
			d2 := &model.NodeManagementDetailedDiscoveryDataType{DeviceInformation: w.dd.DeviceInformation,
				EntityInformation: []model.NodeManagementDetailedDiscoveryEntityInformationType{regoEnt("dev1", e, &added)}, FeatureInformation: w.feat[e]}
			w.send(model.DatagramType{Header: model.HeaderType{AddressSource: h.FA("dev1", []uint{0}, 0), AddressDestination: h.FA("HEMS", []uint{0}, 0), MsgCounter: util.Ptr(model.MsgCounterType(w.ctr)), CmdClassifier: &nc},
				Payload: model.PayloadType{Cmd: []model.CmdType{{Function: util.Ptr(model.FunctionTypeNodeManagementDetailedDiscoveryData), Filter: []model.FilterType{*model.NewFilterTypePartial()}, NodeManagementDetailedDiscoveryData: d2}}}})
			impl, kind = "done", "reannounce"
			st.reann++
			for pr := range regoPairs(pre) {
				if strings.HasPrefix(pr[strings.Index(pr, "<-")+2:], fmt.Sprintf("%d/", e)) {
					reann[pr] = true
				}
			}
			if strings.Join(w.registry(), ",") != strings.Join(pre, ",") {
				r.SpecFail("C08/registry-changed-by-announcement", done, op)
			}
		case "subs":
			impl, kind = regoJoin(pre), "subs"
		case "notify":
			se, sf := u(1), u(2)
			lf := w.l.FeatureByAddress(h.FA("HEMS", []uint{se}, sf))
			if sf == 1 {
				lf.SetData(model.FunctionTypeLoadControlLimitListData, &model.LoadControlLimitListDataType{})
			} else {
				lf.SetData(model.FunctionTypeSetpointListData, &model.SetpointListDataType{})
			}
			w.out = append(w.out, w.log.take()...)
			var ts []string
			for _, o := range w.out {
				if o.d.Header.CmdClassifier != nil && *o.d.Header.CmdClassifier == model.CmdClassifierTypeNotify {
					ts = append(ts, fmt.Sprintf("%s/%d", h.EntStr(o.d.Header.AddressDestination.Entity), *o.d.Header.AddressDestination.Feature))
				}
			}
			impl = regoJoin(ts)
			// SPEC: one notification to each remote feature subscribed to that feature and to nobody else
			want := map[string]int{}
			twice := false
			for pr, n := range regoPairs(pre) {
				if strings.HasPrefix(pr, fmt.Sprintf("%d/%d<-", se, sf)) {
					want[pr[strings.Index(pr, "<-")+2:]] = 1
					twice = twice || n > 1
				}
			}
			got := map[string]int{}
			for _, t := range ts {
				got[t]++
			}
			var keys []string
			for k := range want {
				keys = append(keys, k)
			}
			for k := range got {
				if want[k] == 0 {
					keys = append(keys, k)
				}
			}
			sort.Strings(keys)
			for _, k := range keys {
				switch {
				case got[k] > want[k] && want[k] == 1 && twice:
					r.SpecFail("C08/twice-registered-pair-notified-twice", done, fmt.Sprintf("%s: %d notifications to %s; registry %s", op, got[k], k, regoJoin(pre)))
					st.dbl++
				case got[k] > want[k] && want[k] == 1:
					r.SpecFail("C08/fanout-duplicate", done, fmt.Sprintf("%s: %d notifications to %s; registry %s", op, got[k], k, regoJoin(pre)))
				case got[k] > want[k]:
					r.SpecFail("C08/fanout-extra", done, fmt.Sprintf("%s: notification to %s, which is not subscribed; registry %s", op, k, regoJoin(pre)))
				case got[k] < want[k]:
					r.SpecFail("C08/fanout-missing", done, fmt.Sprintf("%s: no notification to %s; registry %s", op, k, regoJoin(pre)))
				}
			}
			st.fanAll++
			st.fanNon += h.B2i(len(want) > 0)
			kind = "notify"
			if len(ts) > 0 {
				kind = "notify:fanout"
			}
		default:
			panic("bad op " + op)
		}
		if w.pan != "" {
			impl = "panic " + w.pan
		}
		r.Eval(kind, "")
		if d != nil {
			if want := d.Ask(op); impl != want {
				r.Mismatch(done, impl, want, "regobj op "+op)
				return
			}
		}
	}
	r.Traces++
}

var regoWitness = []string{"sub 1 1 1 1", "data 1 1 5", "reannounce 1", "sub 1 1 1 1", "notify 1 1"}

func genRegObjHistory(rng regRng, n int) []string {
	valid := [][3]uint{{1, 1, 1}, {1, 2, 2}, {2, 1, 1}}
	var ops []string
	for i := 0; i < n; i++ {
		v := valid[rng.Intn(3)]
		switch k := rng.Intn(20); {
		case k < 6:
			ops = append(ops, fmt.Sprintf("sub %d %d 1 %d", v[0], v[1], v[2]))
		case k < 8:
			ops = append(ops, fmt.Sprintf("unsub %d %d 1 %d", v[0], v[1], v[2]))
		case k < 12:
			ops = append(ops, fmt.Sprintf("data %d %d %d", v[0], v[1], 1+rng.Intn(3)))
		case k < 15:
			ops = append(ops, fmt.Sprintf("reannounce %d", 1+rng.Intn(2)))
		case k < 17:
			ops = append(ops, "subs")
		default:
			ops = append(ops, fmt.Sprintf("notify 1 %d", 1+rng.Intn(2)))
		}
	}
	return ops
}

func TestRegObj(t *testing.T) {
	r := h.NewReport("regobj", "histories of well-formed subscription requests and deletions, data sent by the client features (cached on their objects), repeated `added` announcements of the client entities, reads of the registry and data changes, one peer, real datagrams; compared op by op with Spine.RegObj (member selected by probing); non-trivial = a history (distinct by op text) with at least one re-announcement that agreed to its end")
	defer r.Write()
	d := h.StartDriver("drv_regobj")
	defer d.Close()
	// probe: is the duplicate check still by object?
	q := h.Quiet()
	runRegObjHistory(q, nil, regoWitness, &regoStats{})
	byObject := q.HasSpecFail("C08/registered-pair-granted-again-after-reannouncement")
	r.SetFlag("dupCheckByObject", byObject, regoWitness, "AddSubscription compares the feature objects with reflect.DeepEqual")
	if a := d.Ask(fmt.Sprintf("cfg %d", h.B2i(byObject))); a != "cfg" {
		panic("drv_regobj: " + a)
	}
	st := &regoStats{}
	run := func(ops []string) {
		before, re := r.Traces, st.reann
		runRegObjHistory(r, d, ops, st)
		if r.Traces > before && st.reann > re {
			r.Case(strings.Join(ops, "; "))
		}
	}
	if ops := h.ReplayOps("regobj"); ops != nil {
		run(ops)
		return
	}
	run(regoWitness)
	run([]string{"sub 1 1 1 1", "reannounce 1", "sub 1 1 1 1", "notify 1 1"})                                         // no cached data: harmless
	run([]string{"sub 1 1 1 1", "data 1 1 2", "reannounce 1", "data 1 1 2", "sub 1 1 1 1", "notify 1 1"})             // same data again: recognised
	run([]string{"sub 1 1 1 1", "data 1 1 2", "reannounce 1", "sub 1 1 1 1", "unsub 1 1 1 1", "subs", "notify 1 1"}) // delete removes both
	rng := h.Rng(24)
	hist := h.Scale(500, 5000)
	for i := 0; i < hist; i++ {
		run(genRegObjHistory(rng, 20+rng.Intn(20)))
	}
	if regClean(r, map[string]bool{"C08/registered-pair-granted-again-after-reannouncement": true, "C08/twice-registered-pair-notified-twice": true}) {
		r.Floor("subscription requests the SPEC grants", st.subOk, st.subAll, 0.15)
		r.Floor("data changes with subscribers", st.fanNon, st.fanAll, 0.30)
	}
	r.Info["double_notification_steps"] = st.dbl
	regShrinkReport(r, func(q *h.Report, ops []string) { runRegObjHistory(q, d, ops, &regoStats{}) },
		map[string]bool{"C08/registered-pair-granted-again-after-reannouncement": true, "C08/twice-registered-pair-notified-twice": true}, false)
}
