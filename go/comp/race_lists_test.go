package comp

// C17 — lists handed out by getters (seeded class C17-r4-1).
//
// Several getters of the public API return the stack's own slice without copying it (Entities(),
// Features(), …). Whoever holds such a list walks its backing array without any lock, so the stack
// must never modify a cell of an array it handed out (copy-on-write; Lean: Spine.SliceCow, static
// face: the container tables of go/lockgraph/containers.go). Two searches for a failing input:
//
//   - racSnapshotMonitor (deterministic, in the coordinator): every zero-argument getter of the
//     stack's objects that returns a slice or a map is found by reflection and called before and
//     after every operation of a script (remote entity removed / re-added through discovery
//     notifications, local entities and features added / removed, subscriptions, bindings, use
//     cases, function types, reconnect); a value handed out EARLIER whose cells differ afterwards was
//     written in place by the operation: a goroutine walking it at that moment (connection removal,
//     discovery diff, application) reads what the operation writes — key
//     race:handed-out-list-modified:<Type.Getter>;
//   - the workloads of racListWorkloads: the same operations concurrent with goroutines that walk
//     lists obtained earlier, element by element, for the remote and the local tree, peers with many
//     entities, under the race detector.

import (
	"fmt"
	"math/rand"
	"reflect"
	"sort"

	"github.com/enbility/spine-go/api"
	"github.com/enbility/spine-go/model"
	"github.com/enbility/spine-go/spine"
	"github.com/enbility/spine-go/util"
	"verifharness/h"
)

// partial discovery notification announcing / withdrawing entity [ent] of the peer (one feature)
func (w *racWorld) inDiscoveryNotifyEnt(p *racPeer, ent uint, added bool) {
	st := model.NetworkManagementStateChangeTypeRemoved
	dd := &model.NodeManagementDetailedDiscoveryDataType{DeviceInformation: racDevInfo(p.dev)}
	if added {
		st = model.NetworkManagementStateChangeTypeAdded
		dd.FeatureInformation = []model.NodeManagementDetailedDiscoveryFeatureInformationType{racFeatInfo(p.dev, []uint{ent}, 1, model.FeatureTypeTypeLoadControl, model.RoleTypeClient)}
	}
	dd.EntityInformation = []model.NodeManagementDetailedDiscoveryEntityInformationType{racEntInfo(p.dev, []uint{ent}, model.EntityTypeTypeEV, &st)}
	w.send(p, w.nm(p.dev), w.nm(racLocal), model.CmdClassifierTypeNotify, false, nil,
		model.CmdType{Function: util.Ptr(model.FunctionTypeNodeManagementDetailedDiscoveryData), Filter: []model.FilterType{*model.NewFilterTypePartial()}, NodeManagementDetailedDiscoveryData: dd})
}

const racManyFirst, racManyLast = 3, 12 // additional entities of a peer "with many entities"

func (w *racWorld) manyRemoteEntities(p *racPeer) {
	for e := uint(racManyFirst); e <= racManyLast; e++ {
		w.inDiscoveryNotifyEnt(p, e, true)
	}
}

// racWalkRemote reads every cell of an entity list obtained earlier and of the feature lists below it
func racWalkRemote(l []api.EntityRemoteInterface) {
	n := 0
	for _, e := range l {
		if e == nil {
			n += 1000
			continue
		}
		if a := e.Address(); a != nil {
			n += len(a.Entity)
		}
		for _, f := range e.Features() {
			if f != nil && f.Address() != nil {
				n++
			}
		}
	}
	racSink.Add(int64(n))
}

func racWalkLocal(l []api.EntityLocalInterface) {
	n := 0
	for _, e := range l {
		if e == nil {
			n += 1000
			continue
		}
		if a := e.Address(); a != nil {
			n += len(a.Entity)
		}
		for _, f := range e.Features() {
			if f != nil && f.Address() != nil {
				n++
			}
		}
	}
	racSink.Add(int64(n))
}

func racListWorkloads() []racWorkload {
	return []racWorkload{
		// a peer with many entities withdraws and re-announces entities in the middle of its list while
		// other goroutines walk entity lists they obtained earlier, ask for the peer's use cases, and the
		// peer's connection is removed (RemoveRemoteDevice walks Entities() for the registries)
		{"remote-entity-churn-vs-list-walkers", "quantifier", 2, func(w *racWorld) []racActor {
			p1 := w.peers[0]
			w.manyRemoteEntities(p1)
			w.inSub(p1, 1)
			w.inBind(p1)
			return []racActor{
				{"peer1 entity remove / re-add (discovery notify)", 1, 700, func(g, i int, rng *rand.Rand) {
					e := uint(racManyFirst + rng.Intn(racManyLast-racManyFirst-1))
					w.inDiscoveryNotifyEnt(p1, e, false)
					w.inDiscoveryNotifyEnt(p1, e, true)
				}},
				{"walk a list obtained earlier", 2, 500, func(g, i int, rng *rand.Rand) {
					rd := w.rd(p1)
					if rd == nil {
						return
					}
					l := rd.Entities()
					for k := 0; k < 4; k++ {
						racWalkRemote(l)
					}
				}},
				{"UseCases + registries of the peer", 1, 500, func(g, i int, rng *rand.Rand) {
					if rd := w.rd(p1); rd != nil {
						_ = rd.UseCases()
						_ = w.dev.SubscriptionManager().Subscriptions(rd)
						_ = w.dev.BindingManager().Bindings(rd)
					}
				}},
				{"remove the peer's connection, set it up again", 1, 60, func(g, i int, rng *rand.Rand) {
					w.dev.RemoveRemoteDeviceConnection(p1.ski)
					w.setup(p1)
					w.manyRemoteEntities(p1)
					w.inSub(p1, 1)
				}},
			}
		}},
		// the local tree: entities and features added / removed while goroutines walk lists obtained
		// earlier and peers read the detailed discovery data
		{"local-entity-churn-vs-list-walkers", "quantifier", 1, func(w *racWorld) []racActor {
			p1 := w.peers[0]
			var extra []*spine.EntityLocal
			for e := uint(racManyFirst); e <= racManyLast; e++ {
				en := spine.NewEntityLocal(w.dev, model.EntityTypeTypeEV, spine.NewAddressEntityType([]uint{e}), 0)
				en.GetOrAddFeature(model.FeatureTypeTypeLoadControl, model.RoleTypeClient)
				w.dev.AddEntity(en)
				extra = append(extra, en)
			}
			types := []model.FeatureTypeType{model.FeatureTypeTypeMeasurement, model.FeatureTypeTypeElectricalConnection, model.FeatureTypeTypeSetpoint, model.FeatureTypeTypeTimeSeries,
				model.FeatureTypeTypeDeviceConfiguration, model.FeatureTypeTypeIdentification, model.FeatureTypeTypeIncentiveTable, model.FeatureTypeTypeBill, model.FeatureTypeTypeAlarm, model.FeatureTypeTypeHvac}
			return []racActor{
				{"local entity remove / re-add", 1, 500, func(g, i int, rng *rand.Rand) {
					k := rng.Intn(len(extra) - 1)
					w.dev.RemoveEntity(extra[k])
					w.dev.AddEntity(extra[k])
				}},
				{"GetOrAddFeature", 1, 2 * len(types), func(g, i int, rng *rand.Rand) {
					_ = w.e2.GetOrAddFeature(types[i%len(types)], []model.RoleType{model.RoleTypeClient, model.RoleTypeServer}[(i/len(types))%2])
				}},
				{"walk a list obtained earlier", 2, 500, func(g, i int, rng *rand.Rand) {
					l := w.dev.Entities()
					for k := 0; k < 4; k++ {
						racWalkLocal(l)
					}
				}},
				{"inbound discovery read", 1, 120, func(g, i int, rng *rand.Rand) { w.inDiscoveryRead(p1) }},
			}
		}},
	}
}

func init() {
	racTouches["remote-entity-churn-vs-list-walkers"] = []string{"DeviceRemote.Entities", "DeviceRemote.AddEntity", "DeviceRemote.RemoveEntityByAddress", "EntityRemote.Features", "EntityRemote.AddFeature", "EntityRemote.RemoveAllFeatures", "DeviceRemote.UseCases",
		"DeviceLocal.RemoveRemoteDevice", "SubscriptionManager.RemoveSubscriptionsForDevice", "BindingManager.RemoveBindingsForDevice", "NodeManagement.processNotifyDetailedDiscoveryData"}
	racTouches["local-entity-churn-vs-list-walkers"] = []string{"DeviceLocal.Entities", "DeviceLocal.AddEntity", "DeviceLocal.RemoveEntity", "EntityLocal.Features", "EntityLocal.AddFeature", "EntityLocal.GetOrAddFeature", "NodeManagement.processReadDetailedDiscoveryData"}
}

// racListWorkloadsFor: the list-walker workloads that run a function named in the analyser's
// container-conflict sites (an escaping header whose store is written in place): the search is
// directed there when the static obligation c17_escaped_containers_copy_on_write breaks
func racListWorkloadNames() []string {
	var out []string
	for _, wl := range racListWorkloads() {
		out = append(out, wl.name)
	}
	return out
}

// ---------------------------------------------------------------- snapshot monitor

type racSnap struct {
	getter string
	val    reflect.Value // what the getter handed out
	saved  reflect.Value // shallow copy of its cells at that moment
	after  int           // number of operations executed before it was taken
}

func racShallowCopy(v reflect.Value) reflect.Value {
	switch v.Kind() {
	case reflect.Slice:
		c := reflect.MakeSlice(v.Type(), v.Len(), v.Len())
		reflect.Copy(c, v)
		return c
	case reflect.Map:
		c := reflect.MakeMapWithSize(v.Type(), v.Len())
		it := v.MapRange()
		for it.Next() {
			c.SetMapIndex(it.Key(), it.Value())
		}
		return c
	}
	return v
}

func racCellEq(a, b reflect.Value) bool {
	if a.Type().Comparable() {
		defer func() { _ = recover() }() // interface holding an uncomparable value
		return a.Interface() == b.Interface()
	}
	// struct cell with slices inside: the saved copy shares every pointer with the original, so this
	// compares the cell itself
	return reflect.DeepEqual(a.Interface(), b.Interface())
}

// racSnapChanged: "" or a description of the first cell of the handed-out value that differs from the copy
func racSnapChanged(s racSnap) string {
	switch s.val.Kind() {
	case reflect.Slice:
		for i := 0; i < s.saved.Len(); i++ {
			if !racCellEq(s.val.Index(i), s.saved.Index(i)) {
				cur := "nil"
				if c := s.val.Index(i); !(c.Kind() == reflect.Interface || c.Kind() == reflect.Ptr) || !c.IsNil() {
					cur = "another element"
				}
				return fmt.Sprintf("cell %d of %d now holds %s", i, s.saved.Len(), cur)
			}
		}
	case reflect.Map:
		if s.val.Len() != s.saved.Len() {
			return fmt.Sprintf("map had %d keys, now has %d", s.saved.Len(), s.val.Len())
		}
		it := s.saved.MapRange()
		for it.Next() {
			c := s.val.MapIndex(it.Key())
			if !c.IsValid() || !racCellEq(c, it.Value()) {
				return fmt.Sprintf("map value of key %v changed", it.Key())
			}
		}
	}
	return ""
}

type racObj struct {
	name string
	obj  any
}

// racListGetters calls every exported zero-argument method of the objects that returns one slice or map
func racListGetters(objs []racObj, after int) []racSnap {
	var out []racSnap
	for _, o := range objs {
		if o.obj == nil || reflect.ValueOf(o.obj).Kind() == reflect.Ptr && reflect.ValueOf(o.obj).IsNil() {
			continue
		}
		v := reflect.ValueOf(o.obj)
		t := v.Type()
		for i := 0; i < t.NumMethod(); i++ {
			m := t.Method(i)
			if m.Type.NumIn() != 1 || m.Type.NumOut() != 1 {
				continue
			}
			if k := m.Type.Out(0).Kind(); k != reflect.Slice && k != reflect.Map {
				continue
			}
			func() {
				defer func() { _ = recover() }()
				res := v.Method(i).Call(nil)[0]
				if res.IsNil() || res.Len() == 0 {
					return
				}
				out = append(out, racSnap{getter: o.name + "." + m.Name, val: res, saved: racShallowCopy(res), after: after})
			}()
		}
	}
	return out
}

type racSnapOp struct {
	name string
	run  func()
}

// racSnapshotMonitor: see the head of the file. script == nil: the fixed script followed by seeded
// random operations; else exactly the named operations (replay).
func racSnapshotMonitor(r *h.Report, script []string) {
	w := racNewWorld(1)
	p := w.peers[0]
	w.manyRemoteEntities(p)
	var extra []*spine.EntityLocal
	for e := uint(racManyFirst); e <= 8; e++ {
		en := spine.NewEntityLocal(w.dev, model.EntityTypeTypeEV, spine.NewAddressEntityType([]uint{e}), 0)
		en.GetOrAddFeature(model.FeatureTypeTypeLoadControl, model.RoleTypeClient)
		w.dev.AddEntity(en)
		extra = append(extra, en)
	}
	defer w.guard("stop", func() { w.e1.HeartbeatManager().StopHeartbeat() })
	fns := racGenericFunctions()
	ftypes := []model.FeatureTypeType{model.FeatureTypeTypeMeasurement, model.FeatureTypeTypeElectricalConnection, model.FeatureTypeTypeSetpoint, model.FeatureTypeTypeTimeSeries}
	var ops []racSnapOp
	add := func(name string, f func()) { ops = append(ops, racSnapOp{name, f}) }
	for _, e := range []uint{5, racManyFirst, racManyLast, 7} {
		e := e
		add(fmt.Sprintf("remote-entity-remove-%d", e), func() { w.inDiscoveryNotifyEnt(p, e, false) })
		add(fmt.Sprintf("remote-entity-add-%d", e), func() { w.inDiscoveryNotifyEnt(p, e, true) })
	}
	for k := range extra {
		k := k
		add(fmt.Sprintf("local-entity-remove-%d", k), func() { w.dev.RemoveEntity(extra[k]) })
		add(fmt.Sprintf("local-entity-add-%d", k), func() { w.dev.AddEntity(extra[k]) })
	}
	for k, ft := range ftypes {
		ft := ft
		add(fmt.Sprintf("local-feature-add-%d", k), func() { _ = w.e2.GetOrAddFeature(ft, model.RoleTypeClient) })
	}
	for k := 0; k < 4 && k < len(fns); k++ {
		k := k
		add(fmt.Sprintf("add-function-type-%d", k), func() { w.gen.AddFunctionType(fns[k], true, false) })
	}
	add("in-subscribe", func() { w.inSub(p, 1) })
	add("in-subscribe-2", func() { w.inSub(p, 2) })
	add("in-unsubscribe", func() { w.inSubDel(p, 1) })
	add("in-bind", func() { w.inBind(p) })
	add("in-unbind", func() { w.inBindDel(p) })
	add("subscribe-to-remote", func() { _, _ = w.lcCli.SubscribeToRemote(w.srvAddr(p)) })
	add("remove-remote-subscription", func() { _, _ = w.lcCli.RemoveRemoteSubscription(w.srvAddr(p)) })
	add("bind-to-remote", func() { _, _ = w.lcCli.BindToRemote(w.srvAddr(p)) })
	add("remove-remote-binding", func() { _, _ = w.lcCli.RemoveRemoteBinding(w.srvAddr(p)) })
	add("usecase-add", func() { w.useCase(w.e1, 0) })
	add("usecase-add-2", func() { w.useCase(w.e1, 1) })
	add("usecase-remove", func() { w.useCase(w.e1, 4) })
	add("in-usecase-reply", func() { w.inUseCaseReply(p) })
	add("in-discovery-reply", func() { w.inDiscoveryReply(p) })
	add("remote-reconnect", func() { w.dev.RemoveRemoteDeviceConnection(p.ski); w.setup(p); w.manyRemoteEntities(p) })
	byName := map[string]racSnapOp{}
	for _, o := range ops {
		byName[o.name] = o
	}
	var seq []racSnapOp
	if script != nil {
		for _, n := range script {
			o, ok := byName[n]
			if !ok {
				panic("replay names unknown snapshot operation " + n)
			}
			seq = append(seq, o)
		}
	} else {
		seq = append(seq, ops...)
		rng := h.Rng(1717)
		for i := 0; i < h.Scale(60, 400); i++ {
			seq = append(seq, ops[rng.Intn(len(ops))])
		}
	}
	objects := func() []racObj {
		objs := []racObj{{"DeviceLocal", w.dev}, {"EntityLocal", w.e1}, {"EntityLocal", w.e2}, {"FeatureLocal", w.lcSrv}, {"FeatureLocal", w.lcCli}, {"FeatureLocal", w.gen},
			{"BindingManager", w.dev.BindingManager()}, {"SubscriptionManager", w.dev.SubscriptionManager()}, {"HeartbeatManager", w.e1.HeartbeatManager()}}
		for _, e := range extra {
			objs = append(objs, racObj{"EntityLocal", e})
		}
		if rd := w.rd(p); rd != nil {
			objs = append(objs, racObj{"DeviceRemote", rd})
			for _, e := range rd.Entities() {
				if e == nil {
					continue
				}
				objs = append(objs, racObj{"EntityRemote", e})
				for _, f := range e.Features() {
					if f != nil {
						objs = append(objs, racObj{"FeatureRemote", f})
					}
				}
			}
		}
		return objs
	}
	var snaps []racSnap
	var done []string
	reported := map[string]bool{}
	getters := map[string]bool{}
	take := func() {
		latest := map[string]racSnap{}
		for _, s := range snaps {
			latest[fmt.Sprintf("%s/%x/%d", s.getter, s.val.Pointer(), s.val.Len())] = s
		}
		for _, s := range racListGetters(objects(), len(done)) {
			getters[s.getter] = true
			if _, dup := latest[fmt.Sprintf("%s/%x/%d", s.getter, s.val.Pointer(), s.val.Len())]; dup {
				continue
			}
			snaps = append(snaps, s)
		}
		if len(snaps) > 4000 {
			snaps = snaps[len(snaps)-3000:]
		}
	}
	take()
	for _, o := range seq {
		w.guard("snapshot:"+o.name, o.run)
		done = append(done, "snapshot "+o.name)
		r.Eval("snapshot-step", "")
		kept := snaps[:0]
		for _, s := range snaps {
			if d := racSnapChanged(s); d != "" {
				key := "C17/race:handed-out-list-modified:" + s.getter
				if !reported[key] {
					reported[key] = true
					r.Case(key)
					r.SpecFail(key, append([]string{}, done[s.after:]...), fmt.Sprintf("the value %s() returned (after %d operations of the script) was modified IN PLACE by a later operation (last: %s): %s. The getter hands out the stack's own backing store without a copy, its holder reads it without any lock (RemoveSubscriptionsForDevice / RemoveBindingsForDevice during connection removal, the discovery diff, applications), the operation writes it under the object's mutex: unordered conflicting accesses, a data race whenever the two overlap",
						s.getter, s.after, o.name, d))
				}
				continue
			}
			kept = append(kept, s)
		}
		snaps = kept
		take()
	}
	r.Traces++
	var gs []string
	for g := range getters {
		gs = append(gs, g)
	}
	sort.Strings(gs)
	r.Info["snapshot monitor: list/map getters found by reflection and watched"] = gs
	r.Info["snapshot monitor: operations executed"] = len(seq)
	if script == nil {
		r.Floor("snapshot monitor watches at least six getters that hand out a non-empty list or map", min(len(gs), 6), 6, 1.0)
	}
}
