package comp

// C10, "… including while messages of other peers are being processed": operations of ANOTHER peer injected at the
// event points of a teardown. A core-level event handler (spine.VerifSubscribeCore; it runs synchronously inside
// Events.Publish) lets, on the i-th removal event of a chosen kind published by the teardown of peer A, another
// goroutine perform one operation of peer B and waits for it for a bounded time. If a lock the operation needs is held
// across the event, the operation simply completes after that part of the teardown — both orders are legal, the wait
// running out is not a failure. Syntax of the op:  <teardown op> @<kind>:<index> <operation of another peer>
// e.g. "drop 1 @sub-:0 sub 2 2 1 1 1 1". The SPEC monitor then demands that A is gone, that every operation of B that
// was answered with success is in the registry (and nothing else of B changed); the model is asked for both orders.

import (
	"encoding/json"
	"fmt"
	"sort"
	"strconv"
	"strings"
	"sync"
	"time"

	"github.com/enbility/spine-go/api"
	"github.com/enbility/spine-go/model"
	"github.com/enbility/spine-go/util"
	"verifharness/h"
)

const regInjectWait = 12 * time.Millisecond // bounded wait at the event point
const regJoinWait = 5 * time.Second         // the injected operation must finish once the teardown has returned

// regCoreHandler counts the removal events of a teardown and fires the injected operation at the chosen one.
type regCoreHandler struct {
	mu    sync.Mutex
	armed bool
	kind  string
	idx   int
	seen  map[string]int
	fire  func()
	fired bool
}

var regCore = &regCoreHandler{}

func regEventKind(p api.EventPayload) string {
	if p.ChangeType != api.ElementChangeRemove {
		return ""
	}
	switch p.EventType {
	case api.EventTypeSubscriptionChange:
		return "sub-"
	case api.EventTypeBindingChange:
		return "bind-"
	case api.EventTypeEntityChange:
		return "entity-"
	case api.EventTypeDeviceChange:
		return "device-"
	}
	return ""
}

func (c *regCoreHandler) HandleEvent(p api.EventPayload) {
	kind := regEventKind(p)
	if kind == "" {
		return
	}
	c.mu.Lock()
	if !c.armed {
		c.mu.Unlock()
		return
	}
	n := c.seen[kind]
	c.seen[kind]++
	hit := !c.fired && c.fire != nil && kind == c.kind && n == c.idx
	if hit {
		c.fired = true
	}
	fire := c.fire
	c.mu.Unlock()
	if hit {
		fire()
	}
}

func (c *regCoreHandler) arm(kind string, idx int, fire func()) {
	c.mu.Lock()
	c.armed, c.kind, c.idx, c.fire, c.fired, c.seen = true, kind, idx, fire, false, map[string]int{}
	c.mu.Unlock()
}

func (c *regCoreHandler) disarm() (seen map[string]int, fired bool) {
	c.mu.Lock()
	defer c.mu.Unlock()
	c.armed = false
	return c.seen, c.fired
}

// regBop is an operation of another peer, prepared on the main goroutine and run by the event handler.
type regBop struct {
	f      []string // the op, decorations stripped
	line   string   // the op as sent to the model
	peer   int
	ctr    uint64
	run    func()
	done   chan struct{}
	se     string // notify / write: the changed server feature
	sf     uint
	fn     model.FunctionType
	answer string
}

func (w *regWorld) prepareB(inj []string) *regBop {
	f, sd, cd := regDecor(inj)
	b := &regBop{f: f, line: strings.Join(inj, " "), done: make(chan struct{})}
	atoi := func(i int) int { n, _ := strconv.Atoi(f[i]); return n }
	switch f[0] {
	case "sub", "bind", "unsub", "unbind":
		p := atoi(1)
		w.ctr[p]++
		b.peer, b.ctr = p, w.ctr[p]
		cc := model.CmdClassifierTypeCall
		ack := true
		bytes, _ := json.Marshal(model.Datagram{Datagram: model.DatagramType{Header: model.HeaderType{AddressSource: h.FA(regDev(p), []uint{0}, 0), AddressDestination: h.FA("HEMS", []uint{0}, 0),
			MsgCounter: util.Ptr(model.MsgCounterType(b.ctr)), CmdClassifier: &cc, AckRequest: &ack}, Payload: model.PayloadType{Cmd: []model.CmdType{regCallCmd(f, sd, cd)}}}})
		rd := w.rds[p]
		b.run = func() { h.Recover(func() { _, _ = rd.HandleSpineMesssage(bytes) }) }
	case "notify":
		b.se, b.sf = f[1], uint(atoi(2))
		sv := regFind(regLocalFeats, b.se, b.sf)
		fn, mk := regFunctionOf(sv.typ)
		w.val++
		data, _ := mk(w.val)
		b.fn = fn
		lf := w.l.FeatureByAddress(h.FA("HEMS", regParseEnt(b.se), b.sf))
		b.run = func() { h.Recover(func() { lf.SetData(fn, data) }) }
	default:
		panic("cannot inject " + b.line)
	}
	return b
}

// fire: called by the core handler inside the teardown
func (b *regBop) fire() {
	go func() {
		defer close(b.done)
		b.run()
	}()
	select {
	case <-b.done:
	case <-time.After(regInjectWait):
	}
}

func (b *regBop) join() bool {
	select {
	case <-b.done:
		return true
	case <-time.After(regJoinWait):
		return false
	}
}

func regDrop(es []regEntry, pair string) []regEntry {
	var out []regEntry
	dropped := false
	for _, e := range es {
		if !dropped && e.pair() == pair {
			dropped = true
			continue
		}
		out = append(out, e)
	}
	return out
}

// judge: SPEC for the injected operation. refers tells which entries the teardown is entitled to remove. It returns the
// diff lists with the legitimate effects of the injected operation taken out, for the teardown's own clauses.
func (b *regBop) judge(r *h.Report, done []string, op string, w *regWorld, refers func(regEntry) bool, preS, preB, remS, remB, addS, addB []regEntry, anyPeerEnts map[string]bool) (rs, rb, as, ab []regEntry) {
	rs, rb, as, ab = remS, remB, addS, addB
	f := b.f
	atoi := func(i int) int { n, _ := strconv.Atoi(f[i]); return n }
	switch f[0] {
	case "sub", "bind":
		p, ce, cf, se, sf, ty := atoi(1), f[2], uint(atoi(3)), f[4], uint(atoi(5)), atoi(6)
		b.answer = w.resultFor(p, b.ctr)
		pair := regPair(p, ce, cf, se, sf)
		reqOk := w.specRequestOk(p, ce, cf, se, sf, ty)
		if f[0] == "sub" {
			// the teardown of another peer never touches this peer's pairs: the answer does not depend on the order
			exp := reqOk && !regHas(preS, pair)
			switch {
			case b.answer == "ok" && !exp:
				r.SpecFail("C08/subscribe-granted-wrongly", done, fmt.Sprintf("%s (during %s) granted; request conditions met: %v, pair subscribed before: %v", b.line, op, reqOk, regHas(preS, pair)))
			case b.answer != "ok" && exp:
				r.SpecFail("C08/subscribe-refused-wrongly", done, fmt.Sprintf("%s (during %s) answered %s although all conditions are met and the pair is not subscribed", b.line, op, b.answer))
			}
			if b.answer == "ok" {
				if !regHas(addS, pair) {
					r.SpecFail("C10/operation-of-other-peer-lost-during-teardown", done, fmt.Sprintf("%s was answered with success while %s was in progress, but the pair is not in the registry afterwards", b.line, op))
				}
				as = regDrop(as, pair)
			}
		} else {
			byOthers, byTorn := false, false
			for _, e := range preB {
				if e.se == se && e.sf == sf {
					if refers(e) {
						byTorn = true
					} else {
						byOthers = true
					}
				}
			}
			switch {
			case b.answer == "ok" && (!reqOk || byOthers):
				r.SpecFail("C09/bind-granted-wrongly", done, fmt.Sprintf("%s (during %s) granted; request conditions met: %v, server feature bound by a peer that is not torn down: %v", b.line, op, reqOk, byOthers))
			case b.answer != "ok" && reqOk && !byOthers && !byTorn:
				r.SpecFail("C09/bind-refused-wrongly", done, fmt.Sprintf("%s (during %s) answered %s although all conditions are met and the server feature has no binding", b.line, op, b.answer))
			}
			if b.answer == "ok" {
				if !regHas(addB, pair) {
					key := "C10/operation-of-other-peer-lost-during-teardown"
					if anyPeerEnts[ce] {
						// indistinguishable from the teardown deleting another peer's binding of an equally numbered entity
						key = "C10/teardown-removes-other-peers-binding"
					}
					r.SpecFail(key, done, fmt.Sprintf("%s was answered with success while %s was in progress, but the binding is not in the registry afterwards", b.line, op))
				}
				ab = regDrop(ab, pair)
			}
		}
	case "unsub", "unbind":
		p, cd, ce, cf, se, sf := atoi(1), atoi(2), f[3], uint(atoi(4)), f[5], uint(atoi(6))
		b.answer = w.resultFor(p, b.ctr)
		pair := regPair(p, ce, cf, se, sf)
		pre, rem, prop := preS, &rs, "C08"
		if f[0] == "unbind" {
			pre, rem, prop = preB, &rb, "C09"
		}
		exists := (cd == 0 || cd == p) && regHas(pre, pair)
		if (b.answer == "ok") != exists && !(f[0] == "unbind" && anyPeerEnts[ce]) {
			r.SpecFail(prop+"/delete-result", done, fmt.Sprintf("%s (during %s) answered %s; addressed entry exists: %v", b.line, op, b.answer, exists))
		}
		if b.answer == "ok" && exists {
			if !regHas(*rem, pair) {
				r.SpecFail(prop+"/delete-did-not-remove", done, fmt.Sprintf("%s (during %s) answered ok and left %s in place", b.line, op, pair))
			}
			*rem = regDrop(*rem, pair)
		}
	case "notify":
		// every subscriber that is not torn down is notified exactly once, a torn-down one at most once, nobody else
		got := map[string]int{}
		for _, o := range w.out {
			if o.d.Header.CmdClassifier != nil && *o.d.Header.CmdClassifier == model.CmdClassifierTypeNotify && o.d.Header.AddressDestination != nil &&
				o.d.Header.AddressSource != nil && h.EntStr(o.d.Header.AddressSource.Entity) == b.se && uint(*o.d.Header.AddressSource.Feature) == b.sf {
				got[fmt.Sprintf("%d:%s/%d", o.peer, h.EntStr(o.d.Header.AddressDestination.Entity), *o.d.Header.AddressDestination.Feature)]++
			}
		}
		var keys []string
		for _, e := range preS {
			if e.se != b.se || e.sf != b.sf {
				continue
			}
			k := fmt.Sprintf("%d:%s/%d", e.peer, e.ce, e.cf)
			n := got[k]
			delete(got, k)
			if !refers(e) && n != 1 || n > 1 {
				r.SpecFail("C10/other-peer-not-served-during-teardown", done, fmt.Sprintf("data change of %s/%d while %s was in progress: %d notifications to the subscriber %s", b.se, b.sf, op, n, k))
			}
			keys = append(keys, fmt.Sprintf("%s=%d", k, n))
		}
		for k, n := range got {
			r.SpecFail("C08/fanout-extra", done, fmt.Sprintf("data change of %s/%d while %s was in progress: %d notifications to %s, which is not subscribed", b.se, b.sf, op, n, k))
		}
		sort.Strings(keys)
		b.answer = strings.Join(keys, ",")
	}
	return
}

// regPairsOnly strips the ids of a list "id:pair,id:pair"
func regPairsOnly(list string) string {
	if list == "." || list == "" {
		return list
	}
	parts := strings.Split(list, ",")
	for i, e := range parts {
		parts[i] = e[strings.Index(e, ":")+1:]
	}
	return strings.Join(parts, ",")
}

// regModelAllPositions: a teardown is a sequence of passes (one critical section each: per entity a subscription
// pass, then per entity a binding pass — Reg.dropPeer_eq_passes), and the injected operation may land between any two
// of them. The model is asked for every position; the driver is left in the state of a position the implementation
// matches. Returns false when no position matches.
func regModelBothOrders(r *h.Report, d *h.Driver, done []string, w *regWorld, tearLine string, b *regBop, passes []string) bool {
	observe := func(ask func(string) string) string {
		var parts []string
		for q := 1; q <= w.npeers; q++ {
			parts = append(parts, regPairsOnly(ask(fmt.Sprintf("subs %d", q))), regPairsOnly(ask(fmt.Sprintf("binds %d", q))))
		}
		return strings.Join(parts, " | ")
	}
	implObs := observe(func(l string) string {
		f := strings.Fields(l)
		q, _ := strconv.Atoi(f[1])
		if f[0] == "subs" {
			return regShow(w.subsOf(q))
		}
		return regShow(w.bindsOf(q))
	})
	answered := b.f[0] != "notify" // the fan-out during a teardown is judged by the monitor only
	var tried []string
	seq := append(append([]string{}, passes...), tearLine) // the last step does whatever the passes left (and the rest of the teardown)
	d.Ask("save")
	for k := 0; k <= len(seq); k++ {
		if k > 0 {
			d.Ask("restore")
		}
		for _, l := range seq[:k] {
			d.Ask(l)
		}
		ans := d.Ask(b.line)
		for _, l := range seq[k:] {
			d.Ask(l)
		}
		obs := observe(d.Ask)
		if (!answered || ans == b.answer) && obs == implObs {
			return true
		}
		tried = append(tried, fmt.Sprintf("[%d] %s ; %s", k, ans, obs))
	}
	r.Mismatch(done, b.answer+" ; "+implObs, strings.Join(tried, "  ||  "),
		"operation of another peer injected into a teardown: the implementation matches no position of the operation among the model's passes")
	return false
}
