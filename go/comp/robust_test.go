package comp

// C05 — no inbound byte sequence can crash or wedge the stack.
//
// Three layers, one report each:
//
//  TestRobHeader   exhaustive grid of absent header parts (10 080 datagrams), outcome class predicted by the
//                  Lean model Spine.Hdr (driver drv_hdr, member selected by probing the tree under test);
//                  impl != model is a mismatch; every panic / unanswered discovery read is a spec failure.
//  TestRobMutator  the property's own quantifier: valid messages of every kind, built from the repo's model
//                  types, decoded to a generic JSON tree; every single position removed / nulled / emptied /
//                  replaced (finite grid, enumerated) in three connection states, then seeded random
//                  histories of 1-3-position mutants and valid messages in random order. Monitor only.
//  TestRobBytes    byte-level stream (random bytes, truncation, bit flips, wrong types, deep nesting, huge
//                  numbers, invalid UTF-8, period strings). Monitor only.
//
// The SPEC monitor does not consult any model: a delivery must return (watchdog), must not panic (recover),
// and afterwards a valid detailed-discovery read from the sending peer and from the other connected peer
// must be answered with exactly one reply each.
//
// Spec-failure keys: panic:<file>:<function> (first frame inside spine-go of the recovered stack, no line
// numbers), hang:<kind>, wedge:device-information-removed, wedge:node-management-feature-removed,
// wedge:<kind of the last message>.

import (
	_ "embed"
	"encoding/hex"
	"encoding/json"
	"fmt"
	"math/rand"
	"os"
	"path/filepath"
	"reflect"
	"regexp"
	"runtime"
	"runtime/debug"
	"sort"
	"strings"
	"testing"
	"time"

	"github.com/enbility/spine-go/api"
	"github.com/enbility/spine-go/model"
	"github.com/enbility/spine-go/spine"
	"github.com/enbility/spine-go/util"
	"verifharness/h"
)

const robLocalDev = "HEMS"

// ---------------------------------------------------------------- world

type robPeer struct {
	name string // "A", "B"
	dev  string // device address the peer announces
	w    *h.W
	rd   api.DeviceRemoteInterface
}

type robWorld struct {
	local *spine.DeviceLocal
	peers []*robPeer
	ctr   uint64
}

// robResetEvents replaces the global event bus by a fresh one: a panic inside a core event handler
// leaves its handling mutex locked (Publish does not defer the unlock), and every world subscribes
// its local device on the core level.
func robResetEvents() {
	v := reflect.ValueOf(&spine.Events).Elem()
	v.Set(reflect.Zero(v.Type()))
}

func robLimits() *model.LoadControlLimitListDataType {
	item := func(id uint, v int64, changeable bool) model.LoadControlLimitDataType {
		return model.LoadControlLimitDataType{
			LimitId:           util.Ptr(model.LoadControlLimitIdType(id)),
			IsLimitChangeable: util.Ptr(changeable),
			IsLimitActive:     util.Ptr(id%2 == 1),
			TimePeriod:        &model.TimePeriodType{EndTime: model.NewAbsoluteOrRelativeTimeType("PT2H")},
			Value:             &model.ScaledNumberType{Number: util.Ptr(model.NumberType(v)), Scale: util.Ptr(model.ScaleType(0))},
		}
	}
	return &model.LoadControlLimitListDataType{LoadControlLimitData: []model.LoadControlLimitDataType{item(1, 16, true), item(2, 32, true), item(3, 6, false)}}
}

func (w *robWorld) peer(name string) *robPeer {
	for _, p := range w.peers {
		if p.name == name {
			return p
		}
	}
	return nil
}

var robStates = []string{"fresh", "disc", "bound"}

// robNewWorld builds a local device with two connected peers in the named connection state:
//
//	fresh  both peers connected, nothing received yet
//	disc   both peers have answered the discovery read
//	bound  disc + both peers subscribed to the local server feature, A bound to it, use cases and
//	       limit data of both peers received
//
// Setup messages are the unmutated templates; a failure during setup is returned (key, detail).
func robNewWorld(state string) (*robWorld, string, string) {
	robResetEvents()
	l := spine.NewDeviceLocal("b", "m", "s", "c", robLocalDev, model.DeviceTypeTypeEnergyManagementSystem, model.NetworkManagementFeatureSetTypeSmart)
	e1 := spine.NewEntityLocal(l, model.EntityTypeTypeCEM, spine.NewAddressEntityType([]uint{1}), 4*time.Second)
	l.AddEntity(e1)
	srv := e1.GetOrAddFeature(model.FeatureTypeTypeLoadControl, model.RoleTypeServer) // 1
	srv.AddFunctionType(model.FunctionTypeLoadControlLimitListData, true, true)
	srv.AddFunctionType(model.FunctionTypeLoadControlLimitDescriptionListData, true, false)
	e1.GetOrAddFeature(model.FeatureTypeTypeLoadControl, model.RoleTypeClient) // 2
	e1.GetOrAddFeature(model.FeatureTypeTypeMeasurement, model.RoleTypeClient) // 3
	w := &robWorld{local: l, ctr: 1000000}
	for _, n := range []string{"A", "B"} {
		p := &robPeer{name: n, dev: "dev" + n, w: &h.W{}}
		l.SetupRemoteDevice("ski"+n, p.w)
		p.rd = l.RemoteDeviceForSki("ski" + n)
		w.peers = append(w.peers, p)
	}
	srv.SetData(model.FunctionTypeLoadControlLimitListData, robLimits())
	var setup []string
	switch state {
	case "fresh":
	case "disc":
		setup = []string{"disc-reply"}
	case "bound":
		setup = []string{"disc-reply", "sub-request", "bind-request", "usecase-reply", "notify-full", "meas-notify-full"}
	default:
		panic("unknown state " + state)
	}
	for _, p := range w.peers {
		for _, k := range setup {
			t := robTemplate(p.dev, k)
			if key, detail := robDeliver(p.rd, t.msg); key != "" {
				return w, key, "valid " + k + " during setup: " + detail
			}
		}
	}
	return w, "", ""
}

// ---------------------------------------------------------------- valid messages of every kind

type robTpl struct {
	kind string
	msg  []byte
	tree any
}

var robTplCache = map[string][]robTpl{}

func robDatagram(src, dst *model.FeatureAddressType, cls model.CmdClassifierType, ctr uint64, ref *uint64, ack bool, cmd model.CmdType) []byte {
	hd := model.HeaderType{
		SpecificationVersion: util.Ptr(model.SpecificationVersionType("1.3.0")),
		AddressSource:        src, AddressDestination: dst,
		MsgCounter: util.Ptr(model.MsgCounterType(ctr)), CmdClassifier: &cls,
	}
	if ref != nil {
		hd.MsgCounterReference = util.Ptr(model.MsgCounterType(*ref))
	}
	if ack {
		hd.AckRequest = util.Ptr(true)
	}
	b, err := json.Marshal(model.Datagram{Datagram: model.DatagramType{Header: hd, Payload: model.PayloadType{Cmd: []model.CmdType{cmd}}}})
	if err != nil {
		panic(err)
	}
	return b
}

func robTemplates(dev string) []robTpl {
	if t, ok := robTplCache[dev]; ok {
		return t
	}
	rNM, lNM := h.FA(dev, []uint{0}, 0), h.FA(robLocalDev, []uint{0}, 0)
	rCli, rSrv, rMeas := h.FA(dev, []uint{1}, 1), h.FA(dev, []uint{1}, 2), h.FA(dev, []uint{1}, 3)
	lSrv, lCli, lMeas := h.FA(robLocalDev, []uint{1}, 1), h.FA(robLocalDev, []uint{1}, 2), h.FA(robLocalDev, []uint{1}, 3)
	ref := util.Ptr(uint64(1))
	fn := func(f model.FunctionType, read, write bool) model.FunctionPropertyType {
		po := &model.PossibleOperationsType{}
		if read {
			po.Read = &model.PossibleOperationsReadType{Partial: &model.ElementTagType{}}
		}
		if write {
			po.Write = &model.PossibleOperationsWriteType{Partial: &model.ElementTagType{}}
		}
		return model.FunctionPropertyType{Function: util.Ptr(f), PossibleOperations: po}
	}
	feat := func(ent []uint, fid uint, ft model.FeatureTypeType, role model.RoleType, desc string, fns ...model.FunctionPropertyType) model.NodeManagementDetailedDiscoveryFeatureInformationType {
		return model.NodeManagementDetailedDiscoveryFeatureInformationType{Description: &model.NetworkManagementFeatureDescriptionDataType{
			FeatureAddress: h.FA(dev, ent, fid), FeatureType: &ft, Role: &role, SupportedFunction: fns,
			Description: util.Ptr(model.DescriptionType(desc)), MaxResponseDelay: util.Ptr(model.MaxResponseDelayType("PT10S"))}}
	}
	ent := func(e []uint, et model.EntityTypeType, chg *model.NetworkManagementStateChangeType) model.NodeManagementDetailedDiscoveryEntityInformationType {
		return model.NodeManagementDetailedDiscoveryEntityInformationType{Description: &model.NetworkManagementEntityDescriptionDataType{
			EntityAddress: &model.EntityAddressType{Device: util.Ptr(model.AddressDeviceType(dev)), Entity: spine.NewAddressEntityType(e)},
			EntityType:    &et, LastStateChange: chg, Description: util.Ptr(model.DescriptionType("entity"))}}
	}
	devInfo := &model.NodeManagementDetailedDiscoveryDeviceInformationType{Description: &model.NetworkManagementDeviceDescriptionDataType{
		DeviceAddress:     &model.DeviceAddressType{Device: util.Ptr(model.AddressDeviceType(dev))},
		DeviceType:        util.Ptr(model.DeviceTypeTypeChargingStation),
		NetworkFeatureSet: util.Ptr(model.NetworkManagementFeatureSetTypeSmart)}}
	nmFeat := feat([]uint{0}, 0, model.FeatureTypeTypeNodeManagement, model.RoleTypeSpecial, "nm",
		fn(model.FunctionTypeNodeManagementDetailedDiscoveryData, true, false), fn(model.FunctionTypeNodeManagementUseCaseData, true, false))
	e1Feats := []model.NodeManagementDetailedDiscoveryFeatureInformationType{
		feat([]uint{1}, 1, model.FeatureTypeTypeLoadControl, model.RoleTypeClient, "lc client"),
		feat([]uint{1}, 2, model.FeatureTypeTypeLoadControl, model.RoleTypeServer, "lc server", fn(model.FunctionTypeLoadControlLimitListData, true, true), fn(model.FunctionTypeLoadControlLimitDescriptionListData, true, false)),
		feat([]uint{1}, 3, model.FeatureTypeTypeMeasurement, model.RoleTypeServer, "meas server", fn(model.FunctionTypeMeasurementListData, true, false)),
	}
	e2Feats := []model.NodeManagementDetailedDiscoveryFeatureInformationType{
		feat([]uint{2}, 1, model.FeatureTypeTypeLoadControl, model.RoleTypeServer, "lc server 2", fn(model.FunctionTypeLoadControlLimitListData, true, true)),
	}
	added, removed := util.Ptr(model.NetworkManagementStateChangeTypeAdded), util.Ptr(model.NetworkManagementStateChangeTypeRemoved)
	versions := &model.NodeManagementSpecificationVersionListType{SpecificationVersion: []model.SpecificationVersionDataType{"1.3.0"}}
	ddFull := &model.NodeManagementDetailedDiscoveryDataType{SpecificationVersionList: versions, DeviceInformation: devInfo,
		EntityInformation:  []model.NodeManagementDetailedDiscoveryEntityInformationType{ent([]uint{0}, model.EntityTypeTypeDeviceInformation, nil), ent([]uint{1}, model.EntityTypeTypeEVSE, nil)},
		FeatureInformation: append([]model.NodeManagementDetailedDiscoveryFeatureInformationType{nmFeat}, e1Feats...)}
	ddFull2 := &model.NodeManagementDetailedDiscoveryDataType{SpecificationVersionList: versions, DeviceInformation: devInfo,
		EntityInformation:  []model.NodeManagementDetailedDiscoveryEntityInformationType{ent([]uint{0}, model.EntityTypeTypeDeviceInformation, nil), ent([]uint{2}, model.EntityTypeTypeEV, nil)},
		FeatureInformation: append([]model.NodeManagementDetailedDiscoveryFeatureInformationType{nmFeat}, e2Feats...)}
	ddAdd := &model.NodeManagementDetailedDiscoveryDataType{DeviceInformation: devInfo,
		EntityInformation:  []model.NodeManagementDetailedDiscoveryEntityInformationType{ent([]uint{2}, model.EntityTypeTypeEV, added)},
		FeatureInformation: e2Feats}
	ddRem := &model.NodeManagementDetailedDiscoveryDataType{DeviceInformation: devInfo,
		EntityInformation: []model.NodeManagementDetailedDiscoveryEntityInformationType{ent([]uint{1}, model.EntityTypeTypeEVSE, removed)}}
	ddMixed := &model.NodeManagementDetailedDiscoveryDataType{DeviceInformation: devInfo,
		EntityInformation:  []model.NodeManagementDetailedDiscoveryEntityInformationType{ent([]uint{2}, model.EntityTypeTypeEV, added), ent([]uint{1}, model.EntityTypeTypeEVSE, removed)},
		FeatureInformation: e2Feats}
	fDisc := util.Ptr(model.FunctionTypeNodeManagementDetailedDiscoveryData)
	fLim := util.Ptr(model.FunctionTypeLoadControlLimitListData)
	fMeas := util.Ptr(model.FunctionTypeMeasurementListData)
	partial := func() model.FilterType {
		return model.FilterType{CmdControl: &model.CmdControlType{Partial: &model.ElementTagType{}}}
	}
	del := func() model.FilterType {
		return model.FilterType{CmdControl: &model.CmdControlType{Delete: &model.ElementTagType{}}}
	}
	limSel := func(f model.FilterType, id uint) model.FilterType {
		f.LoadControlLimitListDataSelectors = &model.LoadControlLimitListDataSelectorsType{LimitId: util.Ptr(model.LoadControlLimitIdType(id))}
		return f
	}
	limElem := func(f model.FilterType) model.FilterType {
		f.LoadControlLimitDataElements = &model.LoadControlLimitDataElementsType{Value: &model.ScaledNumberElementsType{}, IsLimitActive: &model.ElementTagType{}}
		return f
	}
	limits := robLimits()
	one := &model.LoadControlLimitListDataType{LoadControlLimitData: []model.LoadControlLimitDataType{{
		LimitId: util.Ptr(model.LoadControlLimitIdType(1)), IsLimitActive: util.Ptr(true),
		Value: &model.ScaledNumberType{Number: util.Ptr(model.NumberType(10)), Scale: util.Ptr(model.ScaleType(0))}}}}
	noIdent := &model.LoadControlLimitListDataType{LoadControlLimitData: []model.LoadControlLimitDataType{{IsLimitActive: util.Ptr(false)}}}
	meas := &model.MeasurementListDataType{MeasurementData: []model.MeasurementDataType{
		{MeasurementId: util.Ptr(model.MeasurementIdType(1)), ValueType: util.Ptr(model.MeasurementValueTypeTypeValue), Timestamp: model.NewAbsoluteOrRelativeTimeType("2024-01-01T00:00:00Z"),
			Value: &model.ScaledNumberType{Number: util.Ptr(model.NumberType(230)), Scale: util.Ptr(model.ScaleType(0))}, ValueSource: util.Ptr(model.MeasurementValueSourceTypeMeasuredValue)},
		{MeasurementId: util.Ptr(model.MeasurementIdType(2)), ValueType: util.Ptr(model.MeasurementValueTypeTypeValue),
			Value: &model.ScaledNumberType{Number: util.Ptr(model.NumberType(5)), Scale: util.Ptr(model.ScaleType(-1))}}}}
	measSel := partial()
	measSel.MeasurementListDataSelectors = &model.MeasurementListDataSelectorsType{MeasurementId: util.Ptr(model.MeasurementIdType(1)), ValueType: util.Ptr(model.MeasurementValueTypeTypeValue),
		TimestampInterval: &model.TimestampIntervalType{StartTime: model.NewAbsoluteOrRelativeTimeType("2024-01-01T00:00:00Z"), EndTime: model.NewAbsoluteOrRelativeTimeType("PT1H")}}
	measOne := &model.MeasurementListDataType{MeasurementData: []model.MeasurementDataType{{MeasurementId: util.Ptr(model.MeasurementIdType(1)), ValueType: util.Ptr(model.MeasurementValueTypeTypeValue),
		Value: &model.ScaledNumberType{Number: util.Ptr(model.NumberType(231)), Scale: util.Ptr(model.ScaleType(0))}}}}
	uc := &model.NodeManagementUseCaseDataType{UseCaseInformation: []model.UseCaseInformationDataType{{
		Address: h.FA(dev, []uint{1}, 0), Actor: util.Ptr(model.UseCaseActorTypeEVSE),
		UseCaseSupport: []model.UseCaseSupportType{{UseCaseName: util.Ptr(model.UseCaseNameTypeLimitationOfPowerConsumption), UseCaseVersion: util.Ptr(model.SpecificationVersionType("1.0.0")),
			UseCaseAvailable: util.Ptr(true), ScenarioSupport: []model.UseCaseScenarioSupportType{1, 2, 3}, UseCaseDocumentSubRevision: util.Ptr("release")}}}}}
	uc.UseCaseInformation[0].Address.Feature = nil
	dest := &model.NodeManagementDestinationListDataType{NodeManagementDestinationData: []model.NodeManagementDestinationDataType{{DeviceDescription: devInfo.Description}}}
	const (
		read, reply, notify, write, call, result = model.CmdClassifierTypeRead, model.CmdClassifierTypeReply, model.CmdClassifierTypeNotify, model.CmdClassifierTypeWrite, model.CmdClassifierTypeCall, model.CmdClassifierTypeResult
	)
	var out []robTpl
	ctr := uint64(100)
	add := func(kind string, src, dst *model.FeatureAddressType, cls model.CmdClassifierType, r *uint64, ack bool, cmd model.CmdType) {
		ctr++
		b := robDatagram(src, dst, cls, ctr, r, ack, cmd)
		out = append(out, robTpl{kind: kind, msg: b, tree: robParse(b)})
	}
	// detailed discovery
	add("disc-reply", rNM, lNM, reply, ref, false, model.CmdType{NodeManagementDetailedDiscoveryData: ddFull})
	add("disc-read", rNM, lNM, read, nil, false, model.CmdType{NodeManagementDetailedDiscoveryData: &model.NodeManagementDetailedDiscoveryDataType{}})
	add("disc-notify-add", rNM, lNM, notify, nil, false, model.CmdType{Function: fDisc, Filter: []model.FilterType{partial()}, NodeManagementDetailedDiscoveryData: ddAdd})
	add("disc-notify-remove", rNM, lNM, notify, nil, false, model.CmdType{Function: fDisc, Filter: []model.FilterType{partial()}, NodeManagementDetailedDiscoveryData: ddRem})
	add("disc-notify-mixed", rNM, lNM, notify, nil, true, model.CmdType{Function: fDisc, Filter: []model.FilterType{partial()}, NodeManagementDetailedDiscoveryData: ddMixed})
	add("disc-notify-full", rNM, lNM, notify, nil, false, model.CmdType{NodeManagementDetailedDiscoveryData: ddFull2})
	// subscription and binding management
	add("sub-request", rNM, lNM, call, nil, true, model.CmdType{NodeManagementSubscriptionRequestCall: spine.NewNodeManagementSubscriptionRequestCallType(rCli, lSrv, model.FeatureTypeTypeLoadControl)})
	add("sub-delete", rNM, lNM, call, nil, true, model.CmdType{NodeManagementSubscriptionDeleteCall: spine.NewNodeManagementSubscriptionDeleteCallType(rCli, lSrv)})
	add("bind-request", rNM, lNM, call, nil, true, model.CmdType{NodeManagementBindingRequestCall: spine.NewNodeManagementBindingRequestCallType(rCli, lSrv, model.FeatureTypeTypeLoadControl)})
	add("bind-delete", rNM, lNM, call, nil, true, model.CmdType{NodeManagementBindingDeleteCall: spine.NewNodeManagementBindingDeleteCallType(rCli, lSrv)})
	add("sub-data-call", rNM, lNM, call, nil, false, model.CmdType{NodeManagementSubscriptionData: &model.NodeManagementSubscriptionDataType{}})
	add("bind-data-call", rNM, lNM, call, nil, false, model.CmdType{NodeManagementBindingData: &model.NodeManagementBindingDataType{}})
	// read
	add("read", rCli, lSrv, read, nil, false, model.CmdType{LoadControlLimitListData: &model.LoadControlLimitListDataType{}})
	add("read-partial", rCli, lSrv, read, nil, false, model.CmdType{Function: fLim, Filter: []model.FilterType{limElem(limSel(partial(), 1))}, LoadControlLimitListData: &model.LoadControlLimitListDataType{}})
	// reply
	add("reply", rSrv, lCli, reply, ref, false, model.CmdType{LoadControlLimitListData: limits})
	add("reply-partial", rSrv, lCli, reply, ref, true, model.CmdType{Function: fLim, Filter: []model.FilterType{limSel(partial(), 1)}, LoadControlLimitListData: one})
	// notify
	add("notify-full", rSrv, lCli, notify, nil, false, model.CmdType{LoadControlLimitListData: limits})
	add("notify-partial", rSrv, lCli, notify, nil, false, model.CmdType{Function: fLim, Filter: []model.FilterType{partial()}, LoadControlLimitListData: one})
	add("notify-partial-selector", rSrv, lCli, notify, nil, true, model.CmdType{Function: fLim, Filter: []model.FilterType{limSel(partial(), 1)}, LoadControlLimitListData: one})
	add("notify-partial-noident", rSrv, lCli, notify, nil, false, model.CmdType{Function: fLim, Filter: []model.FilterType{partial()}, LoadControlLimitListData: noIdent})
	add("notify-delete-selector", rSrv, lCli, notify, nil, false, model.CmdType{Function: fLim, Filter: []model.FilterType{limSel(del(), 2)}, LoadControlLimitListData: &model.LoadControlLimitListDataType{}})
	add("notify-delete-elements", rSrv, lCli, notify, nil, false, model.CmdType{Function: fLim, Filter: []model.FilterType{limElem(limSel(del(), 2))}, LoadControlLimitListData: &model.LoadControlLimitListDataType{}})
	add("notify-delete-partial", rSrv, lCli, notify, nil, false, model.CmdType{Function: fLim, Filter: []model.FilterType{limSel(del(), 2), limSel(partial(), 1)}, LoadControlLimitListData: one})
	add("meas-notify-full", rMeas, lMeas, notify, nil, false, model.CmdType{MeasurementListData: meas})
	add("meas-notify-selector", rMeas, lMeas, notify, nil, false, model.CmdType{Function: fMeas, Filter: []model.FilterType{measSel}, MeasurementListData: measOne})
	// write
	add("write-full", rCli, lSrv, write, nil, true, model.CmdType{LoadControlLimitListData: limits})
	add("write-partial", rCli, lSrv, write, nil, true, model.CmdType{Function: fLim, Filter: []model.FilterType{partial()}, LoadControlLimitListData: one})
	add("write-partial-selector", rCli, lSrv, write, nil, true, model.CmdType{Function: fLim, Filter: []model.FilterType{limSel(partial(), 1)}, LoadControlLimitListData: one})
	add("write-delete-selector", rCli, lSrv, write, nil, false, model.CmdType{Function: fLim, Filter: []model.FilterType{limSel(del(), 2)}, LoadControlLimitListData: &model.LoadControlLimitListDataType{}})
	add("write-delete-elements", rCli, lSrv, write, nil, true, model.CmdType{Function: fLim, Filter: []model.FilterType{limElem(limSel(del(), 2))}, LoadControlLimitListData: &model.LoadControlLimitListDataType{}})
	add("write-delete-partial", rCli, lSrv, write, nil, true, model.CmdType{Function: fLim, Filter: []model.FilterType{limElem(del()), limSel(partial(), 1)}, LoadControlLimitListData: one})
	// result
	add("result", rSrv, lCli, result, ref, false, model.CmdType{ResultData: &model.ResultDataType{ErrorNumber: util.Ptr(model.ErrorNumberType(0))}})
	add("result-error", rNM, lNM, result, ref, false, model.CmdType{ResultData: &model.ResultDataType{ErrorNumber: util.Ptr(model.ErrorNumberType(7)), Description: util.Ptr(model.DescriptionType("rejected"))}})
	// use-case data, destination list
	add("usecase-reply", rNM, lNM, reply, ref, false, model.CmdType{NodeManagementUseCaseData: uc})
	add("usecase-notify", rNM, lNM, notify, nil, true, model.CmdType{NodeManagementUseCaseData: uc})
	add("usecase-read", rNM, lNM, read, nil, false, model.CmdType{NodeManagementUseCaseData: &model.NodeManagementUseCaseDataType{}})
	add("destlist-read", rNM, lNM, read, nil, false, model.CmdType{NodeManagementDestinationListData: &model.NodeManagementDestinationListDataType{}})
	add("destlist-reply", rNM, lNM, reply, ref, false, model.CmdType{NodeManagementDestinationListData: dest})
	robTplCache[dev] = out
	return out
}

func robTemplate(dev, kind string) robTpl {
	for _, t := range robTemplates(dev) {
		if t.kind == kind {
			return t
		}
	}
	panic("no template " + kind)
}

// ---------------------------------------------------------------- delivery under recover + watchdog

var robWatchdog = 20 * time.Second

func robStripBrackets(s string) string {
	var b strings.Builder
	depth := 0
	for _, c := range s {
		switch {
		case c == '[':
			depth++
		case c == ']':
			if depth > 0 {
				depth--
			}
		case depth == 0:
			b.WriteRune(c)
		}
	}
	return b.String()
}

var robClosureRe = regexp.MustCompile(`^(func\d+|\d+|gowrap\d+)$`)

// robPanicSite extracts file and function of the first frame inside spine-go below the panic.
func robPanicSite(stack string) (site string, frames []string) {
	const prefix = "github.com/enbility/spine-go/"
	lines := strings.Split(stack, "\n")
	start := 0
	for i, l := range lines {
		if strings.HasPrefix(l, "panic(") {
			start = i
			break
		}
	}
	for i := start; i+1 < len(lines); i++ {
		l := lines[i]
		if !strings.HasPrefix(l, prefix) {
			continue
		}
		fn := robStripBrackets(l[len(prefix):])
		if j := strings.LastIndex(fn, "("); j > 0 {
			fn = fn[:j]
		}
		name := ""
		for k, part := range strings.Split(fn, ".") {
			if k == 0 || strings.HasPrefix(part, "(") || strings.HasSuffix(part, ")") || robClosureRe.MatchString(part) || part == "" {
				continue
			}
			name = part
		}
		loc := strings.TrimSpace(lines[i+1])
		if j := strings.Index(loc, " "); j > 0 {
			loc = loc[:j]
		}
		file := loc
		if j := strings.LastIndex(file, ":"); j > 0 {
			file = file[:j]
		}
		if site == "" {
			site = filepath.Base(file) + ":" + name
		}
		if len(frames) < 4 {
			frames = append(frames, name+"@"+filepath.Base(loc))
		}
	}
	if site == "" {
		site = "outside-spine-go"
	}
	return site, frames
}

type robRes struct{ key, detail string }

type robJob struct {
	rd  api.DeviceRemoteInterface
	msg []byte
	out chan robRes
}

// deliveries run on one long-lived goroutine (its stack stays grown); a hang abandons it
var robWorker chan robJob

func robWork(in chan robJob) {
	for j := range in {
		j.out <- robCall(j.rd, j.msg)
	}
}

func robCall(rd api.DeviceRemoteInterface, msg []byte) (res robRes) {
	defer func() {
		if p := recover(); p != nil {
			site, frames := robPanicSite(string(debug.Stack()))
			txt := fmt.Sprint(p)
			if len(txt) > 160 {
				txt = txt[:160]
			}
			res = robRes{"panic:" + site, txt + " @ " + strings.Join(frames, " < ")}
		}
	}()
	_, _ = rd.HandleSpineMesssage(msg)
	return robRes{}
}

// robDeliver hands one payload to the production entry point of the connection. It returns "" when the
// call returned, "panic:<file>:<function>" when it panicked, "hang" when it did not return in time.
func robDeliver(rd api.DeviceRemoteInterface, msg []byte) (key, detail string) {
	if robWorker == nil {
		robWorker = make(chan robJob)
		go robWork(robWorker)
	}
	out := make(chan robRes, 1)
	robWorker <- robJob{rd, msg, out}
	t := time.NewTimer(robWatchdog)
	defer t.Stop()
	select {
	case r := <-out:
		return r.key, r.detail
	case <-t.C:
		robWorker = nil // the goroutine is stuck inside the stack; leave it
		buf := make([]byte, 1<<16)
		n := runtime.Stack(buf, true)
		var hold []string
		for _, l := range strings.Split(string(buf[:n]), "\n") {
			if strings.HasPrefix(l, "github.com/enbility/spine-go/") && len(hold) < 12 {
				hold = append(hold, l)
			}
		}
		return "hang", "HandleSpineMesssage did not return within " + robWatchdog.String() + "; spine-go frames alive: " + strings.Join(hold, " | ")
	}
}

// robServes is the second half of the property: a valid detailed-discovery read from peer p is
// answered with exactly one reply on p's connection (and nothing is written to another connection).
func (w *robWorld) robServes(p *robPeer) (ok bool, panicKey, detail string) {
	for _, q := range w.peers {
		q.w.Take()
	}
	w.ctr++
	ctr := w.ctr
	src, dst := h.FA(p.dev, []uint{0}, 0), h.FA(robLocalDev, []uint{0}, 0)
	msg := robDatagram(src, dst, model.CmdClassifierTypeRead, ctr, nil, false, model.CmdType{NodeManagementDetailedDiscoveryData: &model.NodeManagementDetailedDiscoveryDataType{}})
	if key, d := robDeliver(p.rd, msg); key != "" {
		return false, key, "valid discovery read from " + p.name + ": " + d
	}
	for _, q := range w.peers {
		out := q.w.Take()
		if q != p {
			if len(out) != 0 {
				return false, "", fmt.Sprintf("discovery read from %s wrote %d message(s) to the connection of %s", p.name, len(out), q.name)
			}
			continue
		}
		if len(out) != 1 {
			return false, "", fmt.Sprintf("discovery read from %s answered with %d messages", p.name, len(out))
		}
		var d model.Datagram
		if err := json.Unmarshal(out[0], &d); err != nil {
			return false, "", "answer is not a datagram: " + err.Error()
		}
		hd := d.Datagram.Header
		if hd.CmdClassifier == nil || *hd.CmdClassifier != model.CmdClassifierTypeReply || hd.MsgCounterReference == nil || uint64(*hd.MsgCounterReference) != ctr ||
			len(d.Datagram.Payload.Cmd) != 1 || d.Datagram.Payload.Cmd[0].NodeManagementDetailedDiscoveryData == nil ||
			len(d.Datagram.Payload.Cmd[0].NodeManagementDetailedDiscoveryData.EntityInformation) == 0 ||
			hd.AddressDestination == nil || !reflect.DeepEqual(hd.AddressDestination, src) {
			s := string(out[0])
			if len(s) > 300 {
				s = s[:300]
			}
			return false, "", "answer to the discovery read of " + p.name + " is not the detailed-discovery reply addressed to it: " + s
		}
	}
	return true, "", ""
}

// robWedgeKey names the class of an unanswered discovery read. The verdict (unanswered) is the
// monitor's; the public tree accessors are consulted only to tell the known causes apart.
func robWedgeKey(p *robPeer, lastKind string) string {
	e0 := p.rd.Entity(spine.DeviceInformationAddressEntity)
	if e0 == nil {
		return "wedge:device-information-removed"
	}
	if e0.FeatureOfAddress(util.Ptr(model.AddressFeatureType(0))) == nil {
		return "wedge:node-management-feature-removed"
	}
	return "wedge:" + lastKind
}

// ---------------------------------------------------------------- generic JSON trees and mutations

func robParse(b []byte) any {
	dec := json.NewDecoder(strings.NewReader(string(b)))
	dec.UseNumber()
	var v any
	if err := dec.Decode(&v); err != nil {
		panic(err)
	}
	return v
}

func robEncode(t any) []byte {
	b, err := json.Marshal(t)
	if err != nil {
		panic(err)
	}
	return b
}

// robPaths lists every position of the tree below the root (object members in key order).
func robPaths(t any) [][]any {
	var out [][]any
	var walk func(n any, path []any)
	walk = func(n any, path []any) {
		switch c := n.(type) {
		case map[string]any:
			keys := make([]string, 0, len(c))
			for k := range c {
				keys = append(keys, k)
			}
			sort.Strings(keys)
			for _, k := range keys {
				p := append(append([]any{}, path...), k)
				out = append(out, p)
				walk(c[k], p)
			}
		case []any:
			for i := range c {
				p := append(append([]any{}, path...), i)
				out = append(out, p)
				walk(c[i], p)
			}
		}
	}
	walk(t, nil)
	return out
}

func robGet(t any, path []any) any {
	for _, s := range path {
		switch c := t.(type) {
		case map[string]any:
			t = c[s.(string)]
		case []any:
			t = c[s.(int)]
		}
	}
	return t
}

// robSet returns a copy of t (shared below the path) whose node at path is removed (rm) or replaced by v.
func robSet(t any, path []any, rm bool, v any) any {
	switch c := t.(type) {
	case map[string]any:
		k := path[0].(string)
		out := make(map[string]any, len(c))
		for kk, vv := range c {
			out[kk] = vv
		}
		if len(path) == 1 {
			if rm {
				delete(out, k)
			} else {
				out[k] = v
			}
		} else {
			out[k] = robSet(c[k], path[1:], rm, v)
		}
		return out
	case []any:
		i := path[0].(int)
		out := append([]any{}, c...)
		if len(path) == 1 {
			if rm {
				out = append(out[:i], out[i+1:]...)
			} else {
				out[i] = v
			}
		} else {
			out[i] = robSet(c[i], path[1:], rm, v)
		}
		return out
	}
	panic("robSet: path into a leaf")
}

var robStrings = []string{"Bogus", "x", "nodeManagementDetailedDiscoveryData", "loadControlLimitListData", "measurementListData", "LoadControl", "Measurement", "Generic", "NodeManagement",
	"server", "client", "special", "devA", "devB", "HEMS", "read", "write", "call", "reply", "notify", "result", "added", "removed", "modified",
	"PT1S", "P1Y2M3DT4H5M6S", "-PT5M", "2024-01-01T00:00:00Z", "DeviceInformation", "EV", "EVSE", "1.3.0"}
var robNumbers = []string{"0", "1", "2", "3", "7", "9", "255", "-1", "1.5", "4294967296", "18446744073709551615", "18446744073709551616", "1e400"}

// robEmpty is the empty value of the node's own JSON type.
func robEmpty(old any) any {
	switch old.(type) {
	case map[string]any:
		return map[string]any{}
	case []any:
		return []any{}
	case string:
		return ""
	case json.Number:
		return json.Number("0")
	case bool:
		return false
	}
	return nil
}

// robReplace yields an unknown or inconsistent value of the same JSON type (rng nil: the canonical one).
func robReplace(old any, rng *rand.Rand) any {
	pick := func(n int) int {
		if rng == nil {
			return 0
		}
		return rng.Intn(n)
	}
	switch c := old.(type) {
	case map[string]any:
		if pick(2) == 0 {
			return map[string]any{"bogusKey": map[string]any{}}
		}
		out := map[string]any{"bogusKey": json.Number("1")}
		for k, v := range c {
			out[k] = v
		}
		return out
	case []any:
		switch pick(3) {
		case 0:
			return append(append([]any{}, c...), c...) // every element twice
		case 1:
			return []any{json.Number("9")}
		}
		return []any{map[string]any{}}
	case string:
		return robStrings[pick(len(robStrings))]
	case json.Number:
		if rng == nil {
			return json.Number("7")
		}
		return json.Number(robNumbers[pick(len(robNumbers))])
	case bool:
		return !c
	}
	return json.Number("7")
}

var robMutKinds = []string{"remove", "null", "empty", "replace"}

func robMutate(t any, path []any, kind string, rng *rand.Rand) any {
	switch kind {
	case "remove":
		return robSet(t, path, true, nil)
	case "null":
		return robSet(t, path, false, nil)
	case "empty":
		return robSet(t, path, false, robEmpty(robGet(t, path)))
	case "replace":
		return robSet(t, path, false, robReplace(robGet(t, path), rng))
	}
	panic("mutation kind " + kind)
}

func robPathStr(p []any) string {
	var s []string
	for _, x := range p {
		s = append(s, fmt.Sprint(x))
	}
	return strings.Join(s, "/")
}

// ---------------------------------------------------------------- running op lists (also the replay format)
//
//	state <name>               first op: build the world in that connection state
//	rx <peer> <kind> <json>    deliver the JSON text on the peer's connection
//	rxhex <peer> <kind> <hex>  deliver raw bytes
//
// After every delivery the monitor requires a discovery read of the sender and of the other peer to be
// answered. The run stops at the first failure and returns its key.

type robStats struct {
	delivered, accepted int
}

func robRun(r *h.Report, ops []string, st *robStats) string {
	key, _ := robRunFrom(r, ops, st, 0)
	return key
}

// robRunFrom: as robRun; the still-serves reads are issued only for ops with index >= checkFrom (a
// prefix that was checked by an earlier run of the same ops need not be checked again: a discovery
// read changes nothing but the outgoing message counter). Returns the key and index of the failing op.
func robRunFrom(r *h.Report, ops []string, st *robStats, checkFrom int) (string, int) {
	if len(ops) == 0 || !strings.HasPrefix(ops[0], "state ") {
		panic("op list must start with a state op")
	}
	w, key, detail := robNewWorld(strings.TrimPrefix(ops[0], "state "))
	if key != "" {
		r.SpecFail(key, ops[:1], detail)
		return key, 0
	}
	for i, op := range ops[1:] {
		f := strings.SplitN(op, " ", 4)
		if len(f) != 4 || (f[0] != "rx" && f[0] != "rxhex") {
			panic("bad op " + op)
		}
		p := w.peer(f[1])
		kind := f[2]
		msg := []byte(f[3])
		if f[0] == "rxhex" {
			var err error
			if msg, err = hex.DecodeString(f[3]); err != nil {
				panic(err)
			}
		}
		done := ops[:i+2]
		for _, q := range w.peers {
			q.w.Take()
		}
		key, detail := robDeliver(p.rd, msg)
		if st != nil {
			st.delivered++
		}
		if key == "hang" {
			key = "hang:" + kind
		}
		if key != "" {
			r.SpecFail(key, done, detail)
			return key, i + 1
		}
		if st != nil {
			for _, q := range w.peers {
				q.w.Mu.Lock()
				n := len(q.w.Msgs)
				q.w.Mu.Unlock()
				if n > 0 {
					st.accepted++
					break
				}
			}
		}
		if i+1 < checkFrom {
			continue
		}
		// still serves: the sender first, then every other connected peer
		order := []*robPeer{p}
		for _, q := range w.peers {
			if q != p {
				order = append(order, q)
			}
		}
		for _, q := range order {
			ok, pk, d := w.robServes(q)
			if ok {
				continue
			}
			key := pk
			if key == "hang" {
				key = "hang:disc-read-after-" + kind
			}
			if key == "" {
				key = robWedgeKey(q, kind)
			}
			r.SpecFail(key, done, d)
			return key, i + 1
		}
	}
	return "", -1
}

// robRunSkipping runs a history; an op that fails is reported, dropped, and the history is run again
// (from a fresh world) so that later ops are explored in states reached without any failure.
func robRunSkipping(r *h.Report, ops []string, st *robStats, maxSkips int) (failures int) {
	checkFrom := 0
	for {
		key, idx := robRunFrom(r, ops, st, checkFrom)
		if key == "" {
			return failures
		}
		failures++
		if idx <= 0 || failures > maxSkips {
			return failures
		}
		ops = append(append([]string{}, ops[:idx]...), ops[idx+1:]...)
		checkFrom = idx
	}
}

func robOp(peer, kind string, msg []byte) string {
	return "rx " + peer + " " + kind + " " + string(msg)
}

// robShrinkLast minimises the JSON text of the last rx op: removes positions as long as the same key
// is reproduced.
func robShrinkLast(ops []string, key string) []string {
	protected := func(p []any) bool { // the header keeps whatever the mutation left of it
		return p[0] == "datagram" && (len(p) == 1 || p[1] == "header")
	}
	last := ops[len(ops)-1]
	f := strings.SplitN(last, " ", 4)
	if f[0] != "rx" {
		return ops
	}
	var tree any
	dec := json.NewDecoder(strings.NewReader(f[3]))
	dec.UseNumber()
	if err := dec.Decode(&tree); err != nil {
		return ops
	}
	fails := func(t any) bool {
		cand := append(append([]string{}, ops[:len(ops)-1]...), f[0]+" "+f[1]+" "+f[2]+" "+string(robEncode(t)))
		return robRun(h.Quiet(), cand, nil) == key
	}
	if !fails(tree) {
		return ops
	}
	for budget := 600; budget > 0; {
		reduced := false
		paths := robPaths(tree)
		// larger subtrees first: positions in reverse depth order are tried top-down
		for _, p := range paths {
			if protected(p) {
				continue
			}
			budget--
			cand := robSet(tree, p, true, nil)
			if fails(cand) {
				tree = cand
				reduced = true
				break
			}
		}
		if !reduced {
			break
		}
	}
	return append(append([]string{}, ops[:len(ops)-1]...), f[0]+" "+f[1]+" "+f[2]+" "+string(robEncode(tree)))
}

// robMinimise shrinks the witnesses of spec failures that are not in the corpus (op list first, then
// the text of the last message).
func robMinimise(r *h.Report, corpus map[string]bool) {
	for _, sf := range append([]h.SpecFailure{}, r.SpecFailures...) {
		if corpus[sf.Key] || len(sf.Ops) < 2 {
			continue
		}
		key := sf.Key
		ops := sf.Ops
		if len(ops) > 2 {
			small := h.Shrink(ops[1:], func(c []string) bool {
				return robRun(h.Quiet(), append([]string{ops[0]}, c...), nil) == key
			})
			cand := append([]string{ops[0]}, small...)
			if robRun(h.Quiet(), cand, nil) == key {
				ops = cand
			}
		}
		ops = robShrinkLast(ops, key)
		robReplaceOps(r, key, ops)
	}
}

func robReplaceOps(r *h.Report, key string, ops []string) {
	for i := range r.SpecFailures {
		if r.SpecFailures[i].Key == key {
			r.SpecFailures[i].Ops = append([]string{}, ops...)
		}
	}
}

// ---------------------------------------------------------------- corpus: one witness per known site

type robWitness struct {
	Key string   `json:"key"`
	Ops []string `json:"ops"`
}

//go:embed rob_corpus.json
var robCorpusJSON []byte

func robCorpus() []robWitness {
	var c []robWitness
	if err := json.Unmarshal(robCorpusJSON, &c); err != nil {
		panic("rob_corpus.json: " + err.Error())
	}
	return c
}

func robRunCorpus(r *h.Report, only func(robWitness) bool) map[string]bool {
	seen := map[string]bool{}
	for _, c := range robCorpus() {
		seen[c.Key] = true
		if only != nil && !only(c) {
			continue
		}
		got := robRun(r, c.Ops, nil)
		r.Eval("corpus:"+map[bool]string{true: "reproduced", false: "not-reproduced"}[got == c.Key], "")
		r.Traces++
	}
	return seen
}

// ---------------------------------------------------------------- layer 2: structured mutator

func TestRobMutator(t *testing.T) {
	r := h.NewReport("rob-mutator", "valid messages of every kind (templates from the repo's model types), every single position removed / nulled / emptied / replaced in connection states fresh, disc, bound (finite grid, enumerated, fresh world per point), then seeded random histories of valid messages and 1-3-position mutants from two peers; after every delivery both peers' discovery reads must be answered; non-trivial = a distinct mutated datagram text per state")
	defer r.Write()
	if ops := h.ReplayOps("rob-mutator"); ops != nil {
		robRun(r, ops, nil)
		return
	}
	t0 := time.Now()
	corpus := robRunCorpus(r, nil)
	tpls := robTemplates("devA")
	// valid messages alone must be served in every state
	for _, st := range robStates {
		for _, tp := range tpls {
			key := robRun(r, []string{"state " + st, robOp("A", tp.kind, tp.msg)}, nil)
			r.Eval("valid:"+robClass(key), "")
		}
	}
	// the finite grid
	seenText := map[string]bool{}
	grid, positions := 0, 0
	var stats robStats
	firstSeen := map[string]bool{} // survey: the first single-position witness per key and state
	var firstWit []robWitness
	for _, tp := range tpls {
		paths := robPaths(tp.tree)
		positions += len(paths)
		for _, p := range paths {
			for _, mk := range robMutKinds {
				msg := robEncode(robMutate(tp.tree, p, mk, nil))
				if string(msg) == string(tp.msg) || seenText[string(msg)] {
					continue
				}
				seenText[string(msg)] = true
				for _, st := range robStates {
					ops := []string{"state " + st, robOp("A", tp.kind, msg)}
					key := robRun(r, ops, &stats)
					grid++
					r.Eval("grid:"+mk+":"+robClass(key), st+" "+string(msg))
					if key != "" && !firstSeen[key+" "+st] {
						firstSeen[key+" "+st] = true
						firstWit = append(firstWit, robWitness{Key: key, Ops: ops})
					}
				}
			}
		}
	}
	r.Traces += grid
	r.Info["templates"] = len(tpls)
	r.Info["positions"] = positions
	r.Info["single_position_grid_points"] = grid
	r.Info["single_position_grid_exhaustive"] = true
	r.Info["grid_wall_s"] = time.Since(t0).Seconds()
	// random histories
	rng := h.Rng(505)
	hist := h.Scale(600, 12000)
	mutants, dropped := 0, 0
	for i := 0; i < hist; i++ {
		ops := robGenHistory(rng, 8+rng.Intn(28), &mutants)
		n := robRunSkipping(r, ops, &stats, 16)
		dropped += n
		r.Eval(fmt.Sprintf("history:failing-ops=%d", min(n, 9)), "")
		r.Case(ops[len(ops)-1])
		r.Traces++
	}
	r.Info["random_history_ops_dropped_after_failure"] = dropped
	r.Info["random_histories"] = hist
	r.Info["random_mutants_generated"] = mutants
	r.Info["deliveries"] = stats.delivered
	r.Floor("deliveries that made the stack answer or send", stats.accepted, stats.delivered, 0.15)
	robWriteSurvey(r, "mutator", firstWit...)
	robMinimise(r, corpus)
}

func robClass(key string) string {
	switch {
	case key == "":
		return "ok"
	case strings.HasPrefix(key, "panic:"):
		return "panic"
	case strings.HasPrefix(key, "wedge:"):
		return "wedge"
	}
	return "hang"
}

// robGenHistory: a start state and n deliveries from both peers, a quarter of them valid (so that the
// connection state keeps moving), the rest with 1-3 mutated positions.
func robGenHistory(rng *rand.Rand, n int, mutants *int) []string {
	ops := []string{"state " + robStates[rng.Intn(len(robStates))]}
	for i := 0; i < n; i++ {
		peer := "A"
		if rng.Intn(5) == 0 {
			peer = "B"
		}
		tpls := robTemplates("dev" + peer)
		tp := tpls[rng.Intn(len(tpls))]
		if rng.Intn(4) == 0 {
			ops = append(ops, robOp(peer, tp.kind, tp.msg))
			continue
		}
		tree := tp.tree
		for k := 1 + rng.Intn(3); k > 0; k-- {
			paths := robPaths(tree)
			if len(paths) == 0 {
				break
			}
			tree = robMutate(tree, paths[rng.Intn(len(paths))], robMutKinds[rng.Intn(len(robMutKinds))], rng)
		}
		*mutants++
		ops = append(ops, robOp(peer, tp.kind, robEncode(tree)))
	}
	return ops
}

// robWriteSurvey dumps the spec failures of this run (minimised) when VERIF_C05_SURVEY names a
// directory; used to (re)generate rob_corpus.json and known_findings.d/C05.json.
func robWriteSurvey(r *h.Report, layer string, extra ...robWitness) {
	dir := os.Getenv("VERIF_C05_SURVEY")
	if dir == "" {
		return
	}
	out := append([]robWitness{}, extra...)
	// the probe witnesses of the header layer: one absent part each, everything else valid
	var flags []string
	for n := range r.Flags {
		flags = append(flags, n)
	}
	sort.Strings(flags)
	for _, n := range flags {
		if ops := r.Flags[n].Witness; len(ops) > 1 {
			if key := robRun(h.Quiet(), ops, nil); key != "" {
				out = append(out, robWitness{Key: key, Ops: ops})
			}
		}
	}
	for _, sf := range r.SpecFailures {
		ops := sf.Ops
		if len(ops) > 2 {
			key := sf.Key
			small := h.Shrink(ops[1:], func(c []string) bool {
				return robRun(h.Quiet(), append([]string{ops[0]}, c...), nil) == key
			})
			if cand := append([]string{ops[0]}, small...); robRun(h.Quiet(), cand, nil) == key {
				ops = cand
			}
		}
		out = append(out, robWitness{Key: sf.Key, Ops: ops})
		if small := robShrinkLast(ops, sf.Key); len(ops) >= 2 && strings.Join(small, "\n") != strings.Join(ops, "\n") {
			out = append(out, robWitness{Key: sf.Key, Ops: small})
		}
		fmt.Printf("SURVEY %s count=%d detail=%s\n", sf.Key, r.SpecFailN[sf.Key], sf.Detail)
	}
	sort.SliceStable(out, func(i, j int) bool { return out[i].Key < out[j].Key })
	b, _ := json.MarshalIndent(out, "", " ")
	_ = os.WriteFile(filepath.Join(dir, "survey-"+layer+".json"), b, 0o644)
}

// ---------------------------------------------------------------- layer 1: exhaustive header grid, model-predicted

var robHdrClasses = []string{"none", "read", "reply", "notify", "write", "call", "result"}

// robHdrMsg builds the datagram of one grid point.
//
//	sv, dv  source / destination address: 0 absent, 1 known, 2 unknown feature, 3 entity absent, 4 feature absent, 5 device absent
//	ci      classifier (0 absent), ref msgCounterReference present, mc msgCounter present, cmds number of cmd elements
//	fv      0 no filter, 1 filter with cmdControl, 2 filter without cmdControl
//	rv      0 limit list payload, 1 resultData without errorNumber, 2 resultData with errorNumber
func robHdrMsg(sv, dv, ci, ref, mc, cmds, fv, rv int, ctr uint64) []byte {
	mkAddr := func(v int, devName string) *model.FeatureAddressType {
		a := h.FA(devName, []uint{1}, 1)
		switch v {
		case 0:
			return nil
		case 2:
			return h.FA(devName, []uint{1}, 9)
		case 3:
			a.Entity = nil
		case 4:
			a.Feature = nil
		case 5:
			a.Device = nil
		}
		return a
	}
	// remote client 1/1 talks to the local server 1/1
	hd := model.HeaderType{AddressSource: mkAddr(sv, "devA"), AddressDestination: mkAddr(dv, robLocalDev)}
	if ci > 0 {
		hd.CmdClassifier = util.Ptr(model.CmdClassifierType(robHdrClasses[ci]))
	}
	if ref == 1 {
		hd.MsgCounterReference = util.Ptr(model.MsgCounterType(7))
	}
	if mc == 1 {
		hd.MsgCounter = util.Ptr(model.MsgCounterType(ctr))
	}
	var cs []model.CmdType
	if cmds == 1 {
		c := model.CmdType{}
		if rv == 0 {
			c.LoadControlLimitListData = &model.LoadControlLimitListDataType{}
		} else {
			c.ResultData = &model.ResultDataType{}
			if rv == 2 {
				c.ResultData.ErrorNumber = util.Ptr(model.ErrorNumberType(0))
			}
		}
		if fv == 1 {
			c.Function = util.Ptr(model.FunctionTypeLoadControlLimitListData)
			c.Filter = []model.FilterType{{CmdControl: &model.CmdControlType{Partial: &model.ElementTagType{}}}}
		} else if fv == 2 {
			c.Function = util.Ptr(model.FunctionTypeLoadControlLimitListData)
			c.Filter = []model.FilterType{{}}
		}
		cs = []model.CmdType{c}
	}
	b, err := json.Marshal(model.Datagram{Datagram: model.DatagramType{Header: hd, Payload: model.PayloadType{Cmd: cs}}})
	if err != nil {
		panic(err)
	}
	return b
}

type robHdr struct {
	r *h.Report
	w *robWorld
}

// point delivers one grid datagram and returns the outcome class the model predicts
// (panic:<function> / nothing / error-result / other). Panics and unanswered discovery reads are
// reported to the monitor with a replayable op list.
func (g *robHdr) point(msg []byte) string {
	if g.w == nil {
		w, key, detail := robNewWorld("disc")
		if key != "" {
			g.r.SpecFail(key, []string{"state disc"}, detail)
			return "setup-failed"
		}
		g.w = w
	}
	a := g.w.peer("A")
	for _, q := range g.w.peers {
		q.w.Take()
	}
	ops := []string{"state disc", robOp("A", "hdr-grid", msg)}
	key, detail := robDeliver(a.rd, msg)
	if key != "" {
		if key == "hang" {
			key = "hang:hdr-grid"
		}
		g.r.SpecFail(key, ops, detail)
		g.w = nil
		return key[:6] + key[strings.LastIndex(key, ":")+1:] // panic:<function>
	}
	got := "nothing"
	for _, m := range a.w.Take() {
		var d model.Datagram
		_ = json.Unmarshal(m, &d)
		got = "other"
		if len(d.Datagram.Payload.Cmd) > 0 {
			if c0 := d.Datagram.Payload.Cmd[0]; c0.ResultData != nil && c0.ResultData.ErrorNumber != nil && *c0.ResultData.ErrorNumber != 0 {
				got = "error-result"
			}
		}
	}
	for _, q := range g.w.peers {
		if ok, pk, d := g.w.robServes(q); !ok {
			k := pk
			if k == "" {
				k = robWedgeKey(q, "hdr-grid")
			}
			g.r.SpecFail(k, ops, d)
			g.w = nil
			break
		}
	}
	return got
}

func TestRobHeader(t *testing.T) {
	r := h.NewReport("rob-header", "exhaustive grid over the header layer of ProcessCmd: source x destination address variants (absent, known, unknown, entity / feature / device part absent) x classifier (absent + 6) x msgCounterReference x msgCounter x cmd list (empty, one) x filter (none, with, without cmdControl) x payload (data, resultData without / with errorNumber); outcome class (panic site / nothing / error result / other) compared with Spine.Hdr.pre for the member probed on this tree; monitor: no panic, discovery reads of both peers answered afterwards")
	defer r.Write()
	g := &robHdr{r: r}
	// probe phase: which repairs does the tree under test contain?
	probe := func(name string, defect func(got string) bool, sv, dv, ci, ref, mc, cmds, fv, rv int) bool {
		q := &robHdr{r: h.Quiet()}
		msg := robHdrMsg(sv, dv, ci, ref, mc, cmds, fv, rv, 4242)
		got := q.point(msg)
		on := defect(got)
		r.SetFlag(name, on, []string{"state disc", robOp("A", "hdr-grid", msg)}, "outcome: "+got)
		return on
	}
	isPanic := func(got string) bool { return strings.HasPrefix(got, "panic") }
	var args []string
	noSrc := probe("hdr:no-source-check", isPanic, 0, 1, 1, 0, 1, 1, 0, 0)
	noDst := probe("hdr:no-destination-check", isPanic, 1, 0, 1, 0, 1, 1, 0, 0)
	if !noSrc && !noDst {
		args = append(args, "addr")
	}
	if !probe("hdr:filter-without-cmdcontrol", isPanic, 1, 1, 1, 0, 1, 1, 2, 0) {
		args = append(args, "filter")
	}
	pmoIn := probe("hdr:overview-nil-reference", isPanic, 1, 1, 2, 0, 1, 1, 0, 0)
	pmoRes := probe("hdr:overview-nil-result-data", isPanic, 1, 1, 6, 1, 1, 1, 0, 1)
	pmoOut := probe("hdr:overview-nil-reference-outgoing", isPanic, 1, 2, 1, 0, 0, 1, 0, 0)
	if !pmoIn && !pmoRes && !pmoOut {
		args = append(args, "pmo")
	}
	if !probe("hdr:result-answered-with-result", func(got string) bool { return got == "error-result" }, 1, 2, 6, 1, 1, 1, 0, 2) {
		args = append(args, "noresonres")
	}
	d := h.StartDriver("drv_hdr", args...)
	defer d.Close()
	r.Info["model_member"] = d.Ask("cfg")

	runPoint := func(sv, dv, ci, ref, mc, cmds, fv, rv int, ctr uint64, responds map[string]bool) {
		got := g.point(robHdrMsg(sv, dv, ci, ref, mc, cmds, fv, rv, ctr))
		twin := fmt.Sprintf("%d %d %d %d %d %d %d", sv, dv, ci, ref, cmds, fv, rv)
		if mc == 1 {
			// whether the feature layer answers is an input of the header model (B.12 predicts it)
			responds[twin] = got == "other" || got == "error-result"
		}
		line := fmt.Sprintf("pre %d %d %s %d %d %d %d %d %d", sv, dv, robHdrClasses[ci], ref, mc, cmds, fv, rv, h.B2i(responds[twin]))
		want := d.Ask(line)
		r.Eval(got, line)
		if !(got == want || (want == "proceed" && !strings.HasPrefix(got, "panic") && got != "setup-failed")) {
			r.Mismatch([]string{fmt.Sprintf("hdr %d %d %d %d %d %d %d %d", sv, dv, ci, ref, mc, cmds, fv, rv)}, got, want, line)
		}
	}
	if ops := h.ReplayOps("rob-header"); ops != nil {
		for _, op := range ops {
			if strings.HasPrefix(op, "hdr ") {
				var sv, dv, ci, ref, mc, cmds, fv, rv int
				fmt.Sscanf(op, "hdr %d %d %d %d %d %d %d %d", &sv, &dv, &ci, &ref, &mc, &cmds, &fv, &rv)
				responds := map[string]bool{}
				if mc == 0 {
					runPoint(sv, dv, ci, ref, 1, cmds, fv, rv, 4242, responds)
				}
				runPoint(sv, dv, ci, ref, mc, cmds, fv, rv, 4243, responds)
				return
			}
		}
		robRun(r, ops, nil)
		return
	}
	corpus := robRunCorpus(r, func(c robWitness) bool { return len(c.Ops) == 2 && strings.Contains(c.Ops[1], " hdr-grid ") })
	total := 0
	responds := map[string]bool{}
	ctr := uint64(1000)
	for sv := 0; sv < 6; sv++ {
		for dv := 0; dv < 6; dv++ {
			for ci := range robHdrClasses {
				for ref := 0; ref < 2; ref++ {
					for mc := 1; mc >= 0; mc-- {
						for cmds := 0; cmds < 2; cmds++ {
							for fv := 0; fv < 3; fv++ {
								for rv := 0; rv < 3; rv++ {
									if cmds == 0 && (fv > 0 || rv > 0) {
										continue
									}
									ctr++
									total++
									runPoint(sv, dv, ci, ref, mc, cmds, fv, rv, ctr, responds)
								}
							}
						}
					}
				}
			}
		}
	}
	r.Traces += total
	r.Exhaustive = true
	r.Info["grid_points"] = total
	r.Info["grid"] = "6 source x 6 destination x 7 classifier x 2 reference x 2 msgCounter x (1 + 3 filter x 3 payload) = 10080, every point delivered"
	_ = corpus
	robWriteSurvey(r, "header")
}

// ---------------------------------------------------------------- layer 3: byte-level stream

var robPeriods = []string{"P", "PT", "P1Y", "PT1.5S", "P-1D", "-P1D", "PT999999999999999999999H", "P1W", "P1Y2M3W4DT5H6M7.5S", "PT0S", "", "T1H", "P1H",
	"P1.5Y", "P0.5M", "PT1H1H", "P1Y1Y", "pt1s", "PT1,5S", "P99999999999999999999Y", "PT-5M", "P1DT", "PT1S ", " PT1S", "P١D", "2024-13-45T99:99:99Z",
	"0000-00-00T00:00:00", "2024-01-01T00:00:00+99:00", "9999-12-31T23:59:59.999999999Z", "PT9223372036S", "PT9223372037S", "P106751D", "P106752D", "P3277D"}

// robSpliceString replaces the value of every JSON member with the given name by the string v.
func robSpliceString(t any, name, v string) any {
	switch c := t.(type) {
	case map[string]any:
		out := map[string]any{}
		for k, x := range c {
			if k == name {
				out[k] = v
			} else {
				out[k] = robSpliceString(x, name, v)
			}
		}
		return out
	case []any:
		out := make([]any, len(c))
		for i, x := range c {
			out[i] = robSpliceString(x, name, v)
		}
		return out
	}
	return t
}

// robSpliceRaw puts raw text (possibly not JSON) at a position of the encoded tree.
func robSpliceRaw(t any, path []any, raw string) []byte {
	const mark = "@@RAW-SPLICE@@"
	return []byte(strings.Replace(string(robEncode(robSet(t, path, false, mark))), `"`+mark+`"`, raw, 1))
}

func robOtherType(old any, rng *rand.Rand) any {
	choices := []any{map[string]any{}, map[string]any{"a": json.Number("1")}, []any{}, []any{json.Number("1")}, "str", json.Number("5"), json.Number("-3.25e2"), true, false, nil, []any{[]any{}}, []any{nil}}
	for {
		c := choices[rng.Intn(len(choices))]
		if reflect.TypeOf(c) != reflect.TypeOf(old) {
			return c
		}
	}
}

// robGenBytes yields one byte-level input derived from (or independent of) a valid message.
func robGenBytes(rng *rand.Rand, tp robTpl) (string, []byte) {
	msg := append([]byte{}, tp.msg...)
	switch rng.Intn(12) {
	case 0: // random bytes
		b := make([]byte, rng.Intn(200))
		rng.Read(b)
		return "random", b
	case 1: // truncated
		return "truncated", msg[:rng.Intn(len(msg))]
	case 2: // bit flips
		for k := 1 + rng.Intn(3); k > 0; k-- {
			i := rng.Intn(len(msg))
			msg[i] ^= 1 << uint(rng.Intn(8))
		}
		return "bitflip", msg
	case 3: // wrong JSON type at a random position
		paths := robPaths(tp.tree)
		p := paths[rng.Intn(len(paths))]
		return "wrong-type", robEncode(robSet(tp.tree, p, false, robOtherType(robGet(tp.tree, p), rng)))
	case 4: // deep nesting at a random position
		depth := []int{50, 1000, 9990, 10010, 100000}[rng.Intn(5)]
		open, cl := "[", "]"
		if rng.Intn(2) == 0 {
			open, cl = `{"a":`, "}"
		}
		nest := strings.Repeat(open, depth) + "1" + strings.Repeat(cl, depth)
		if rng.Intn(3) == 0 {
			return "deep", []byte(nest)
		}
		paths := robPaths(tp.tree)
		p := paths[rng.Intn(len(paths))]
		return "deep", robSpliceRaw(tp.tree, p, nest)
	case 5: // huge / odd numbers in place of numbers
		nums := []string{"1e999", "-1e999", "99999999999999999999999999999", "-0", "1E-400", "0.0000000000000000000000000001", "18446744073709551616", "-9223372036854775809", "1.0", "1e2", "00", "0x10", "NaN", "Infinity", "+1", ".5", "5."}
		paths := robPaths(tp.tree)
		var np [][]any
		for _, p := range paths {
			if _, ok := robGet(tp.tree, p).(json.Number); ok {
				np = append(np, p)
			}
		}
		if len(np) == 0 {
			return "huge-number", msg
		}
		return "huge-number", robSpliceRaw(tp.tree, np[rng.Intn(len(np))], nums[rng.Intn(len(nums))])
	case 6: // invalid UTF-8 and odd escapes inside strings
		bad := []string{"\xff\xfe", "\xc0\xaf", "\xed\xa0\x80", `\ud800`, `\u0000`, `\uDFFF\uD800`, "\x00", `\x41`, `\`, "\t", " ", strings.Repeat("A", 70000)}
		i := strings.Index(string(msg), `":"`)
		for k := rng.Intn(6); k > 0 && i >= 0; k-- {
			if j := strings.Index(string(msg[i+3:]), `":"`); j >= 0 {
				i += 3 + j
			}
		}
		if i < 0 {
			return "utf8", msg
		}
		ins := bad[rng.Intn(len(bad))]
		return "utf8", []byte(string(msg[:i+3]) + ins + string(msg[i+3:]))
	case 7, 8: // period and time strings into the fields that feed period.Parse / time parsing
		name := []string{"endTime", "startTime", "maxResponseDelay", "timestamp"}[rng.Intn(4)]
		return "period", robEncode(robSpliceString(tp.tree, name, robPeriods[rng.Intn(len(robPeriods))]))
	case 9: // duplicate keys, trailing garbage, BOM, whitespace, second document
		switch rng.Intn(5) {
		case 0:
			return "framing", append([]byte("\xef\xbb\xbf"), msg...)
		case 1:
			return "framing", append(msg, []byte(" {}")...)
		case 2:
			return "framing", []byte(strings.Replace(string(msg), `{"datagram":{`, `{"datagram":{"header":null,`, 1))
		case 3:
			return "framing", []byte(strings.Replace(string(msg), `"payload":`, `"payload":{"cmd":[]},"payload":`, 1))
		}
		return "framing", []byte(" \n\t" + string(msg) + "\n")
	case 10: // top-level shapes
		return "top-level", []byte([]string{"", "null", "[]", "{}", `""`, "0", "true", `{"datagram":null}`, `{"datagram":[]}`, `{"datagram":{"header":{},"payload":{}}}`,
			`{"datagram":{"header":[],"payload":[]}}`, `{"datagram":{"payload":{"cmd":[null]}}}`, `{"datagram":{"payload":{"cmd":null}}}`, `{"Datagram":{"Header":{"AddressSource":null}}}`}[rng.Intn(14)])
	}
	// case-variant and unknown keys (encoding/json matches keys case-insensitively)
	s := string(msg)
	for _, k := range []string{"datagram", "header", "payload", "cmd", "addressSource", "cmdClassifier", "filter"} {
		if rng.Intn(3) == 0 {
			s = strings.Replace(s, `"`+k+`"`, `"`+strings.ToUpper(k)+`"`, 1)
		}
	}
	return "key-case", []byte(s)
}

func TestRobBytes(t *testing.T) {
	r := h.NewReport("rob-bytes", "byte-level inbound stream on live connections (states fresh / disc / bound, two peers): random bytes, truncated and bit-flipped valid JSON, wrong JSON types, deep nesting, huge and malformed numbers, invalid UTF-8 and escapes, period / time strings in the fields that feed period.Parse (TimePeriodType, maxResponseDelay), framing and top-level shapes, key case; after every delivery both peers' discovery reads must be answered; monitor only")
	defer r.Write()
	if ops := h.ReplayOps("rob-bytes"); ops != nil {
		robRun(r, ops, nil)
		return
	}
	corpus := robRunCorpus(r, func(c robWitness) bool { return strings.Contains(strings.Join(c.Ops, " "), "rxhex ") })
	rng := h.Rng(606)
	total := h.Scale(5000, 100000)
	var stats robStats
	parsed := 0
	for n := 0; n < total; {
		ops := []string{"state " + robStates[rng.Intn(len(robStates))]}
		for k := 10 + rng.Intn(40); k > 0 && n < total; k-- {
			peer := "A"
			if rng.Intn(5) == 0 {
				peer = "B"
			}
			tpls := robTemplates("dev" + peer)
			kind, b := robGenBytes(rng, tpls[rng.Intn(len(tpls))])
			var dg model.Datagram
			ok := json.Unmarshal(b, &dg) == nil
			if ok {
				parsed++
			}
			r.Eval("bytes:"+kind+":"+map[bool]string{true: "decodes", false: "rejected"}[ok], "")
			r.Case(kind + " " + hex.EncodeToString(b[:min(len(b), 64)]))
			ops = append(ops, "rxhex "+peer+" "+kind+" "+hex.EncodeToString(b))
			n++
		}
		robRunSkipping(r, ops, &stats, 16)
		r.Traces++
	}
	r.Info["byte_strings"] = total
	r.Info["deliveries"] = stats.delivered
	r.Floor("byte strings that encoding/json accepts as a datagram", parsed, total, 0.25)
	r.Floor("byte strings that encoding/json rejects", total-parsed, total, 0.15)
	robWriteSurvey(r, "bytes")
	robMinimise(r, corpus)
}
