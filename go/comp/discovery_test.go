package comp

// C06 — the remote device tree converges to what the peer announced.
//
// Correspondence of the model family Spine.Disc.World (Lean, drv_disc) with the real stack
// (DeviceLocal + two DeviceRemote reached through HandleSpineMesssage), plus the SPEC monitor of
// the property evaluated on the implementation's own trace. The monitor does not consult the
// model: dscSpecApply is the statement "previous tree + announcement -> tree" written out in Go.
//
// Ops (also the replay format):
//   msg P reply|partial|full|replyx ENT* | FEAT*   ENT = addr:typ:chg:desc   FEAT = ent:id:typ:role:desc:fns
//       absent parts are written "-": empty entity address, missing entityType, missing parts of a feature
//       description ("-:-:-:-:-:-" = element without description), "-=3" = supportedFunction without function;
//       replyx = reply without deviceInformation
//   sub|bind P cEnt cFeat sEnt sFeat          peer P's feature requests a subscription / binding (real call datagram)
//   csub|cbind P lEnt lFeat rEnt rFeat        local client feature SubscribeToRemote / BindToRemote
//
// The model is a family; ten probes on the real code select the member and the generator's domain. On the repaired
// tree the generator also lists entity [0] as removed at any position, omits it from full notifications, re-announces
// it with / without feature 0, and sends entries the handlers reject and malformed feature elements. On a tree that
// still panics or wedges on one of these shapes (the pinned commit a1767d0) that shape is not generated: it is C05's.

import (
	"encoding/json"
	"fmt"
	"math/rand"
	"reflect"
	"regexp"
	"sort"
	"strconv"
	"strings"
	"sync"
	"testing"
	"time"

	"github.com/enbility/spine-go/api"
	"github.com/enbility/spine-go/model"
	"github.com/enbility/spine-go/spine"
	"github.com/enbility/spine-go/util"
	"verifharness/h"
)

// ---------------------------------------------------------------- vocabulary

var dscFTypes = map[int]model.FeatureTypeType{1: model.FeatureTypeTypeLoadControl, 2: model.FeatureTypeTypeSetpoint,
	3: model.FeatureTypeTypeDeviceDiagnosis, 4: model.FeatureTypeTypeMeasurement, 5: model.FeatureTypeTypeElectricalConnection,
	6: model.FeatureTypeTypeGeneric, 7: model.FeatureTypeType("Bogus"), 9: model.FeatureTypeTypeNodeManagement}
var dscRoles = map[int]model.RoleType{0: model.RoleTypeClient, 1: model.RoleTypeServer, 2: model.RoleTypeSpecial}
var dscFns = map[int]model.FunctionType{1: model.FunctionTypeLoadControlLimitListData, 2: model.FunctionTypeLoadControlLimitDescriptionListData,
	3: model.FunctionTypeMeasurementListData, 4: model.FunctionTypeSetpointListData, 5: model.FunctionTypeDeviceDiagnosisHeartbeatData,
	6: model.FunctionTypeDeviceDiagnosisStateData}

func dscFTypeNum(t model.FeatureTypeType) int {
	for k, v := range dscFTypes {
		if v == t {
			return k
		}
	}
	return 99
}
func dscRoleNum(r model.RoleType) int {
	for k, v := range dscRoles {
		if v == r {
			return k
		}
	}
	return 99
}
func dscFnNum(f model.FunctionType) int {
	for k, v := range dscFns {
		if v == f {
			return k
		}
	}
	return 99
}
func dscETypeNum(t model.EntityTypeType) int {
	if t == model.EntityTypeTypeDeviceInformation {
		return 0
	}
	if n, err := strconv.Atoi(strings.TrimPrefix(string(t), "T")); err == nil && strings.HasPrefix(string(t), "T") {
		return n
	}
	return 99
}
func dscEType(n int) model.EntityTypeType {
	if n == 0 {
		return model.EntityTypeTypeDeviceInformation
	}
	return model.EntityTypeType(fmt.Sprintf("T%d", n))
}
func dscDescNum(d *model.DescriptionType) int {
	if d == nil {
		return -1
	}
	if n, err := strconv.Atoi(strings.TrimPrefix(string(*d), "D")); err == nil && strings.HasPrefix(string(*d), "D") {
		return n
	}
	return 99
}
func dscOpt(n int) string {
	if n < 0 {
		return "-"
	}
	return strconv.Itoa(n)
}

// ---------------------------------------------------------------- messages

type dscEnt struct {
	a    []uint // empty = the empty entity address (rejected by the repaired code, panics at the pinned commit)
	typ  int    // -1 = entityType omitted
	chg  string // a r n
	desc int    // -1 = absent
}
type dscFn struct{ fn, bits int } // fn -1 = function absent; bits -1 = possibleOperations absent; else read(0,1,2) + 3*write(0,1,2)
type dscFeat struct {
	e                  []uint // nil = entity part of the feature address absent
	id, typ, rol, desc int    // -1 = absent
	fns                []dscFn
}

// a feature element that announces a feature: address, type and role present (others are skipped by the repaired code)
func (f dscFeat) ok() bool { return f.e != nil && f.id >= 0 && f.typ >= 0 && f.rol >= 0 }

// an element without description at all
func (f dscFeat) empty() bool {
	return f.e == nil && f.id < 0 && f.typ < 0 && f.rol < 0 && f.desc < 0 && len(f.fns) == 0
}

type dscMsg struct {
	peer  int
	kind  string // reply partial full; replyx = reply without deviceInformation
	ents  []dscEnt
	feats []dscFeat
}

func dscAddrU(s string) []uint {
	if s == "-" {
		return nil
	}
	var out []uint
	for _, p := range strings.Split(s, ".") {
		n, _ := strconv.Atoi(p)
		out = append(out, uint(n))
	}
	return out
}
func dscAddrTok(a []uint) string {
	if len(a) == 0 {
		return "-"
	}
	return h.EntU(a)
}
func dscAtoiOpt(s string) int {
	if s == "-" {
		return -1
	}
	n, _ := strconv.Atoi(s)
	return n
}

func (m dscMsg) String() string {
	toks := []string{"msg", strconv.Itoa(m.peer), m.kind}
	for _, e := range m.ents {
		toks = append(toks, fmt.Sprintf("%s:%s:%s:%s", dscAddrTok(e.a), dscOpt(e.typ), e.chg, dscOpt(e.desc)))
	}
	toks = append(toks, "|")
	for _, f := range m.feats {
		fs := "-"
		if len(f.fns) > 0 {
			var p []string
			for _, x := range f.fns {
				b := "x"
				if x.bits >= 0 {
					b = strconv.Itoa(x.bits)
				}
				p = append(p, fmt.Sprintf("%s=%s", dscOpt(x.fn), b))
			}
			fs = strings.Join(p, ",")
		}
		toks = append(toks, fmt.Sprintf("%s:%s:%s:%s:%s:%s", dscAddrTok(f.e), dscOpt(f.id), dscOpt(f.typ), dscOpt(f.rol), dscOpt(f.desc), fs))
	}
	return strings.Join(toks, " ")
}

func dscParseMsg(op string) (dscMsg, bool) {
	f := strings.Fields(op)
	if len(f) < 4 || f[0] != "msg" {
		return dscMsg{}, false
	}
	m := dscMsg{kind: f[2]}
	m.peer, _ = strconv.Atoi(f[1])
	i := 3
	for ; i < len(f) && f[i] != "|"; i++ {
		p := strings.Split(f[i], ":")
		if len(p) != 4 {
			return m, false
		}
		a := dscAddrU(p[0])
		if a == nil {
			a = []uint{}
		}
		m.ents = append(m.ents, dscEnt{a, dscAtoiOpt(p[1]), p[2], dscAtoiOpt(p[3])})
	}
	for i++; i < len(f); i++ {
		p := strings.Split(f[i], ":")
		if len(p) != 6 {
			return m, false
		}
		ft := dscFeat{e: dscAddrU(p[0]), id: dscAtoiOpt(p[1]), typ: dscAtoiOpt(p[2]), rol: dscAtoiOpt(p[3]), desc: dscAtoiOpt(p[4])}
		if p[5] != "-" {
			for _, x := range strings.Split(p[5], ",") {
				kv := strings.Split(x, "=")
				if len(kv) != 2 {
					return m, false
				}
				b := -1
				if kv[1] != "x" {
					b, _ = strconv.Atoi(kv[1])
				}
				ft.fns = append(ft.fns, dscFn{dscAtoiOpt(kv[0]), b})
			}
		}
		m.feats = append(m.feats, ft)
	}
	return m, true
}

// ---------------------------------------------------------------- the observable tree (shared by SPEC and observation)

type dscOFeat struct {
	id, typ, rol, desc int
	ops                map[int]int
}
type dscOEnt struct {
	addr      string
	typ, desc int
	feats     []dscOFeat
}
type dscTree map[string]*dscOEnt

func (f dscOFeat) String() string {
	var ks []int
	for k := range f.ops {
		ks = append(ks, k)
	}
	sort.Ints(ks)
	var p []string
	for _, k := range ks {
		p = append(p, fmt.Sprintf("%d=%d", k, f.ops[k]))
	}
	o := "-"
	if len(p) > 0 {
		o = strings.Join(p, "+")
	}
	return fmt.Sprintf("%d:%d:%d:%s:%s", f.id, f.typ, f.rol, dscOpt(f.desc), o)
}

// canonical text of one entity; features as a multiset (the property fixes no order)
func (e *dscOEnt) String() string {
	var p []string
	for _, f := range e.feats {
		p = append(p, f.String())
	}
	sort.Strings(p)
	return fmt.Sprintf("%s(%d;%s)[%s]", e.addr, e.typ, dscOpt(e.desc), strings.Join(p, ","))
}

func (t dscTree) String() string {
	var ks []string
	for k := range t {
		ks = append(ks, k)
	}
	sort.Strings(ks)
	var p []string
	for _, k := range ks {
		p = append(p, t[k].String())
	}
	return strings.Join(p, ";")
}

// ---------------------------------------------------------------- SPEC: previous tree + announcement -> tree, events

// dscSpecOps: what SetOperations must report for an announced supportedFunction list: per function the
// operations of its last announcement that carries possibleOperations; functions never announced with
// possibleOperations are absent; an element without function announces nothing.
func dscSpecOps(fns []dscFn) map[int]int {
	ops := map[int]int{}
	for _, x := range fns {
		if x.bits >= 0 && x.fn >= 0 {
			ops[x.fn] = x.bits
		}
	}
	return ops
}

func dscHasF0(fs []dscOFeat) bool {
	for _, f := range fs {
		if f.id == 0 {
			return true
		}
	}
	return false
}

// dscSpecApply is Spec.Tree.apply.
//   - added => the entity exists with exactly the listed features (feature elements that lack address, type or role
//     announce nothing); removed => absent; full notification => entities not listed are absent, listed-and-known
//     ones unchanged, listed-and-unknown ones as added.
//   - the device-information entity [0] stands for the device itself: it is never removed (neither by a removed entry
//     nor by a full notification that omits it) and an announcement that would take feature 0 (node management) away
//     from it is ignored for [0]; everything else in such a message is applied.
//   - specified=false: the statement says nothing about this message (a partial notification without entries; an entry
//     without state change, with the empty address, or announcing an unknown entity without entityType; a reply
//     without deviceInformation). `next` is then what the code is known to do (entries before the offending one
//     applied); it only steers the generator.
//
// events: one "+addr" for each entity that appeared, one "-addr" for each that disappeared, per entry in order.
func dscSpecApply(prev dscTree, m dscMsg) (next dscTree, events []string, specified bool) {
	next = dscTree{}
	for k, e := range prev {
		next[k] = e // entities are replaced, never mutated, below
	}
	listed := func(a string) []dscOFeat {
		var fs []dscOFeat
		for _, f := range m.feats {
			if f.ok() && h.EntU(f.e) == a {
				fs = append(fs, dscOFeat{f.id, f.typ, f.rol, f.desc, dscSpecOps(f.fns)})
			}
		}
		return fs
	}
	rejected := func(e dscEnt, announces bool) bool {
		if len(e.a) == 0 {
			return true
		}
		_, known := next[h.EntU(e.a)]
		return announces && !known && e.typ < 0
	}
	add := func(e dscEnt) {
		a := h.EntU(e.a)
		fs := listed(a)
		typ := e.typ
		if old, ok := next[a]; ok {
			if a == "0" && dscHasF0(old.feats) && !dscHasF0(fs) {
				return // the device keeps its node management feature
			}
			typ = old.typ // an entity's type is fixed when the entity is created
		} else {
			events = append(events, "+"+a)
		}
		next[a] = &dscOEnt{addr: a, typ: typ, desc: e.desc, feats: fs}
	}
	remove := func(a string) {
		if a == "0" {
			return // the device-information entity is never removed
		}
		if _, ok := next[a]; ok {
			delete(next, a)
			events = append(events, "-"+a)
		}
	}
	switch m.kind {
	case "replyx":
		return next, nil, false
	case "reply":
		for _, e := range m.ents {
			if rejected(e, true) {
				return next, nil, false
			}
			add(e)
		}
		return next, events, true
	case "partial":
		if len(m.ents) == 0 {
			return next, nil, false
		}
		for _, e := range m.ents {
			if (e.chg != "a" && e.chg != "r") || rejected(e, e.chg == "a") {
				return next, nil, false
			}
			if e.chg == "a" {
				add(e)
			} else {
				remove(h.EntU(e.a))
			}
		}
		return next, events, true
	case "full":
		existing := map[string]bool{}
		for _, e := range m.ents {
			a := h.EntU(e.a)
			if _, known := prev[a]; known && len(e.a) > 0 {
				existing[a] = true // listed and known: unchanged
				continue
			}
			if rejected(e, true) {
				return next, nil, false
			}
			add(e) // listed and unknown: appears with the listed features
		}
		var gone []string
		for a := range prev {
			if !existing[a] {
				gone = append(gone, a)
			}
		}
		sort.Strings(gone)
		for _, a := range gone {
			remove(a)
		}
		return next, events, true
	}
	return next, nil, false
}

// dscShapes names the special shapes a message has (input distribution of the new domain)
func dscShapes(prev dscTree, m dscMsg) map[string]bool {
	sh := map[string]bool{}
	has0 := false
	for i, e := range m.ents {
		a := h.EntU(e.a)
		if a == "0" {
			has0 = true
			fs := false
			for _, f := range m.feats {
				if f.ok() && h.EntU(f.e) == "0" && f.id == 0 {
					fs = true
				}
			}
			switch {
			case e.chg == "r" && m.kind == "partial":
				sh["[0] listed as removed"] = true
				if i < len(m.ents)-1 {
					sh["[0] listed as removed before other entries"] = true
				}
			case e.chg == "a" || m.kind == "reply":
				if fs {
					sh["[0] re-announced with feature 0"] = true
				} else {
					sh["[0] re-announced without feature 0"] = true
				}
			}
		}
		if len(e.a) == 0 {
			sh["entry with empty address"] = true
		}
		if _, known := prev[a]; e.typ < 0 && !known && e.chg != "r" && len(e.a) > 0 {
			sh["unknown entity announced without entityType"] = true
		}
	}
	if m.kind == "full" && !has0 {
		sh["full notification omits [0]"] = true
		if len(prev) > 1 {
			sh["full notification omits [0] while other entities are known"] = true
		}
	}
	for _, f := range m.feats {
		if !f.ok() {
			sh["feature element without address / type / role"] = true
		}
		if f.typ == 7 {
			sh["unknown feature type"] = true
		}
		for _, x := range f.fns {
			if x.fn < 0 {
				sh["supportedFunction without function"] = true
			}
		}
	}
	if m.kind == "replyx" {
		sh["reply without deviceInformation"] = true
	}
	return sh
}

// dscMixed: does the message both add and remove entities (the shape of the known defect)?
func dscMixed(prev dscTree, m dscMsg) bool {
	switch m.kind {
	case "partial":
		for _, x := range m.ents {
			for _, y := range m.ents {
				if x.chg == "a" && y.chg == "r" {
					return true
				}
			}
		}
	case "full":
		inMsg := map[string]bool{}
		adds := false
		for _, e := range m.ents {
			inMsg[h.EntU(e.a)] = true
			if _, ok := prev[h.EntU(e.a)]; !ok {
				adds = true
			}
		}
		for a := range prev {
			if !inMsg[a] && adds {
				return true
			}
		}
	}
	return false
}

// ---------------------------------------------------------------- world

type dscEvH struct {
	mu  sync.Mutex
	evs []string // entity events: "+addr@ski" / "-addr@ski"
	dev int      // device-change events
}

func (e *dscEvH) HandleEvent(p api.EventPayload) {
	e.mu.Lock()
	defer e.mu.Unlock()
	switch p.EventType {
	case api.EventTypeEntityChange:
		s := "+"
		if p.ChangeType == api.ElementChangeRemove {
			s = "-"
		} else if p.ChangeType != api.ElementChangeAdd {
			s = "?"
		}
		a := "nil"
		if p.Entity != nil {
			a = h.EntStr(p.Entity.Address().Entity)
		}
		ski := p.Ski
		if p.Device != nil && p.Device.Ski() != p.Ski {
			ski = p.Ski + "!" + p.Device.Ski()
		}
		e.evs = append(e.evs, s+a+"@"+ski)
	case api.EventTypeDeviceChange:
		e.dev++
	}
}

func (e *dscEvH) take() []string {
	e.mu.Lock()
	defer e.mu.Unlock()
	out := e.evs
	e.evs = nil
	sort.Strings(out)
	return out
}

type dscPeer struct {
	n    int
	ski  string
	dev  string
	w    *h.W
	rdev api.DeviceRemoteInterface
	ctr  uint64
}

type dscWorld struct {
	local   *spine.DeviceLocal
	peers   map[int]*dscPeer
	clients []api.FeatureLocalInterface // local client features whose bookkeeping is observed
	evh     *dscEvH
}

var dscBase = -1

const dscLocalDev = "HEMS"

func newDscWorld() *dscWorld {
	w := &dscWorld{peers: map[int]*dscPeer{}, evh: &dscEvH{}}
	w.local = spine.NewDeviceLocal("b", "m", "s", "c", dscLocalDev, model.DeviceTypeTypeEnergyManagementSystem, model.NetworkManagementFeatureSetTypeSmart)
	e1 := spine.NewEntityLocal(w.local, model.EntityTypeTypeCEM, spine.NewAddressEntityType([]uint{1}), time.Second*4)
	w.local.AddEntity(e1)
	// servers 1/1 LoadControl, 1/2 Setpoint, 1/3 DeviceDiagnosis, 1/4 Measurement; clients 1/5 LoadControl, 1/6 Measurement
	e1.GetOrAddFeature(model.FeatureTypeTypeLoadControl, model.RoleTypeServer).AddFunctionType(model.FunctionTypeLoadControlLimitListData, true, true)
	e1.GetOrAddFeature(model.FeatureTypeTypeSetpoint, model.RoleTypeServer).AddFunctionType(model.FunctionTypeSetpointListData, true, true)
	e1.GetOrAddFeature(model.FeatureTypeTypeDeviceDiagnosis, model.RoleTypeServer).AddFunctionType(model.FunctionTypeDeviceDiagnosisStateData, true, false)
	e1.GetOrAddFeature(model.FeatureTypeTypeMeasurement, model.RoleTypeServer).AddFunctionType(model.FunctionTypeMeasurementListData, true, false)
	w.clients = append(w.clients, e1.GetOrAddFeature(model.FeatureTypeTypeLoadControl, model.RoleTypeClient))
	w.clients = append(w.clients, e1.GetOrAddFeature(model.FeatureTypeTypeMeasurement, model.RoleTypeClient))
	// servers 2/1 LoadControl, 2/2 Setpoint
	e2 := spine.NewEntityLocal(w.local, model.EntityTypeTypeCEM, spine.NewAddressEntityType([]uint{2}), time.Second*4)
	w.local.AddEntity(e2)
	e2.GetOrAddFeature(model.FeatureTypeTypeLoadControl, model.RoleTypeServer).AddFunctionType(model.FunctionTypeLoadControlLimitListData, true, true)
	e2.GetOrAddFeature(model.FeatureTypeTypeSetpoint, model.RoleTypeServer).AddFunctionType(model.FunctionTypeSetpointListData, true, true)
	for n := 1; n <= 2; n++ {
		p := &dscPeer{n: n, ski: fmt.Sprintf("ski%d", n), dev: fmt.Sprintf("dev%d", n), w: &h.W{}, ctr: 10}
		w.local.SetupRemoteDevice(p.ski, p.w)
		p.rdev = w.local.RemoteDeviceForSki(p.ski)
		w.peers[n] = p
	}
	spine.Events.Subscribe(w.evh)
	if dscBase < 0 {
		dscBase = h.Baseline()
	}
	h.Settle(dscBase)
	w.evh.take()
	return w
}

func (w *dscWorld) close() {
	spine.Events.Unsubscribe(w.evh)
	for _, p := range w.peers {
		w.local.RemoveRemoteDeviceConnection(p.ski)
	}
	h.Settle(dscBase)
}

// local server features by "ent/feat" -> feature type number
var dscLocalServers = map[string]int{"1/1": 1, "1/2": 2, "1/3": 3, "1/4": 4, "2/1": 1, "2/2": 2}
var dscLocalClients = []string{"1/5", "1/6"}

func (w *dscWorld) deliver(m dscMsg) {
	p := w.peers[m.peer]
	dev := util.Ptr(model.AddressDeviceType(p.dev))
	dd := &model.NodeManagementDetailedDiscoveryDataType{DeviceInformation: &model.NodeManagementDetailedDiscoveryDeviceInformationType{
		Description: &model.NetworkManagementDeviceDescriptionDataType{DeviceAddress: &model.DeviceAddressType{Device: dev}}}}
	if m.kind == "replyx" {
		dd.DeviceInformation = nil
	}
	withDev := (len(m.ents)+len(m.feats))%3 != 0 // the device part of entity addresses may be omitted
	for _, e := range m.ents {
		d := &model.NetworkManagementEntityDescriptionDataType{
			EntityAddress: &model.EntityAddressType{Entity: spine.NewAddressEntityType(e.a)}}
		if len(e.a) == 0 {
			d.EntityAddress.Entity = []model.AddressEntityType{}
		}
		if e.typ >= 0 {
			d.EntityType = util.Ptr(dscEType(e.typ))
		}
		if withDev {
			d.EntityAddress.Device = dev
		}
		if e.desc >= 0 {
			d.Description = util.Ptr(model.DescriptionType(fmt.Sprintf("D%d", e.desc)))
		}
		switch e.chg {
		case "a":
			d.LastStateChange = util.Ptr(model.NetworkManagementStateChangeTypeAdded)
		case "r":
			d.LastStateChange = util.Ptr(model.NetworkManagementStateChangeTypeRemoved)
		}
		dd.EntityInformation = append(dd.EntityInformation, model.NodeManagementDetailedDiscoveryEntityInformationType{Description: d})
	}
	for _, f := range m.feats {
		if f.empty() {
			dd.FeatureInformation = append(dd.FeatureInformation, model.NodeManagementDetailedDiscoveryFeatureInformationType{})
			continue
		}
		fd := &model.NetworkManagementFeatureDescriptionDataType{FeatureAddress: &model.FeatureAddressType{}}
		if withDev {
			fd.FeatureAddress.Device = dev
		}
		if f.e != nil {
			fd.FeatureAddress.Entity = spine.NewAddressEntityType(f.e)
		}
		if f.id >= 0 {
			fd.FeatureAddress.Feature = util.Ptr(model.AddressFeatureType(f.id))
		}
		if f.e == nil && f.id < 0 {
			fd.FeatureAddress = nil
		}
		if f.typ >= 0 {
			fd.FeatureType = util.Ptr(dscFTypes[f.typ])
		}
		if f.rol >= 0 {
			fd.Role = util.Ptr(dscRoles[f.rol])
		}
		if f.desc >= 0 {
			fd.Description = util.Ptr(model.DescriptionType(fmt.Sprintf("D%d", f.desc)))
		}
		for _, x := range f.fns {
			fp := model.FunctionPropertyType{}
			if x.fn >= 0 {
				fp.Function = util.Ptr(dscFns[x.fn])
			}
			if x.bits >= 0 {
				po := &model.PossibleOperationsType{}
				switch x.bits % 3 {
				case 1:
					po.Read = &model.PossibleOperationsReadType{}
				case 2:
					po.Read = &model.PossibleOperationsReadType{Partial: &model.ElementTagType{}}
				}
				switch x.bits / 3 {
				case 1:
					po.Write = &model.PossibleOperationsWriteType{}
				case 2:
					po.Write = &model.PossibleOperationsWriteType{Partial: &model.ElementTagType{}}
				}
				fp.PossibleOperations = po
			}
			fd.SupportedFunction = append(fd.SupportedFunction, fp)
		}
		dd.FeatureInformation = append(dd.FeatureInformation, model.NodeManagementDetailedDiscoveryFeatureInformationType{Description: fd})
	}
	p.ctr++
	hd := model.HeaderType{AddressSource: h.FA(p.dev, []uint{0}, 0), AddressDestination: h.FA(dscLocalDev, []uint{0}, 0), MsgCounter: util.Ptr(model.MsgCounterType(p.ctr))}
	c := model.CmdType{NodeManagementDetailedDiscoveryData: dd}
	switch m.kind {
	case "reply", "replyx":
		hd.CmdClassifier = util.Ptr(model.CmdClassifierTypeReply)
		hd.MsgCounterReference = util.Ptr(model.MsgCounterType(1))
	case "partial":
		hd.CmdClassifier = util.Ptr(model.CmdClassifierTypeNotify)
		c.Function = util.Ptr(model.FunctionTypeNodeManagementDetailedDiscoveryData)
		c.Filter = []model.FilterType{{CmdControl: &model.CmdControlType{Partial: &model.ElementTagType{}}}}
	default:
		hd.CmdClassifier = util.Ptr(model.CmdClassifierTypeNotify)
	}
	b, err := json.Marshal(model.Datagram{Datagram: model.DatagramType{Header: hd, Payload: model.PayloadType{Cmd: []model.CmdType{c}}}})
	if err != nil {
		panic(err)
	}
	p.rdev.HandleSpineMesssage(b)
	h.Settle(dscBase)
}

// request performs a real subscription / binding request call of peer p.
func (w *dscWorld) request(kind string, pn int, cEnt []uint, cFeat int, sEnt []uint, sFeat int) {
	w.peers[pn].rdev.HandleSpineMesssage(w.requestBytes(kind, pn, cEnt, cFeat, sEnt, sFeat, false))
	h.Settle(dscBase)
}

// requestBytes builds the call datagram of a subscription / binding request of peer pn (ack: with ackRequest, so that
// a granted request is answered with an explicit success result).
func (w *dscWorld) requestBytes(kind string, pn int, cEnt []uint, cFeat int, sEnt []uint, sFeat int, ack bool) []byte {
	p := w.peers[pn]
	ft := dscFTypes[dscLocalServers[fmt.Sprintf("%s/%d", h.EntU(sEnt), sFeat)]]
	ca, sa := h.FA(p.dev, cEnt, uint(cFeat)), h.FA(dscLocalDev, sEnt, uint(sFeat))
	var c model.CmdType
	if kind == "sub" {
		c = model.CmdType{NodeManagementSubscriptionRequestCall: spine.NewNodeManagementSubscriptionRequestCallType(ca, sa, ft)}
	} else {
		c = model.CmdType{NodeManagementBindingRequestCall: spine.NewNodeManagementBindingRequestCallType(ca, sa, ft)}
	}
	p.ctr++
	hd := model.HeaderType{AddressSource: h.FA(p.dev, []uint{0}, 0), AddressDestination: h.FA(dscLocalDev, []uint{0}, 0),
		MsgCounter: util.Ptr(model.MsgCounterType(p.ctr)), CmdClassifier: util.Ptr(model.CmdClassifierTypeCall)}
	if ack {
		hd.AckRequest = util.Ptr(true)
	}
	b, _ := json.Marshal(model.Datagram{Datagram: model.DatagramType{Header: hd, Payload: model.PayloadType{Cmd: []model.CmdType{c}}}})
	return b
}

func (w *dscWorld) localClient(key string) api.FeatureLocalInterface {
	for _, f := range w.clients {
		if fmt.Sprintf("%s/%d", h.EntStr(f.Address().Entity), *f.Address().Feature) == key {
			return f
		}
	}
	return nil
}

// ---------------------------------------------------------------- observation

// observeTree reads the tree of one peer through the API and checks its internal coherence
// (addresses complete and resolvable, no address twice); problems are returned as text.
func (w *dscWorld) observeTree(pn int) (dscTree, string, []string) {
	p := w.peers[pn]
	t := dscTree{}
	var order []string
	var problems []string
	for _, e := range p.rdev.Entities() {
		a := h.EntStr(e.Address().Entity)
		oe := &dscOEnt{addr: a, typ: dscETypeNum(e.EntityType()), desc: dscDescNum(e.Description())}
		if _, dup := t[a]; dup {
			problems = append(problems, "entity "+a+" reported twice")
		}
		// entity [0] exists before the device address is known and receives it from the first ACCEPTED reply that lists
		// it (a reply rejected at an earlier entry sets the device's address but not yet that of [0]): no device part
		// is tolerated there
		nilOK := a == "0" && e.Address().Device == nil
		if (e.Address().Device == nil || string(*e.Address().Device) != p.dev) && !nilOK {
			// before the first reply the device address is unknown; afterwards it must be the peer's
			if p.rdev.Address() != nil {
				problems = append(problems, "entity "+a+" carries a wrong device address")
			}
		}
		if p.rdev.Entity(e.Address().Entity) == nil {
			problems = append(problems, "entity "+a+" is listed but not resolvable")
		}
		var fs []string
		for _, f := range e.Features() {
			fa := f.Address()
			if fa == nil || fa.Feature == nil {
				problems = append(problems, "feature of "+a+" without address")
				continue
			}
			of := dscOFeat{id: int(*fa.Feature), typ: dscFTypeNum(f.Type()), rol: dscRoleNum(f.Role()), desc: dscDescNum(f.Description()), ops: map[int]int{}}
			for fn, o := range f.Operations() {
				rc, wc := 0, 0
				if o.Read() {
					rc = 1
					if o.ReadPartial() {
						rc = 2
					}
				}
				if o.Write() {
					wc = 1
					if o.WritePartial() {
						wc = 2
					}
				}
				of.ops[dscFnNum(fn)] = rc + 3*wc
			}
			if h.EntStr(fa.Entity) != a {
				problems = append(problems, fmt.Sprintf("feature %s/%d carries entity address %s", a, of.id, h.EntStr(fa.Entity)))
			}
			if p.rdev.Address() != nil && (fa.Device == nil || string(*fa.Device) != p.dev) && !(a == "0" && fa.Device == nil) {
				problems = append(problems, fmt.Sprintf("feature %s/%d carries a wrong device address", a, of.id))
			}
			if f.Entity() != e || f.Device() != p.rdev {
				problems = append(problems, fmt.Sprintf("feature %s/%d points to another entity or device", a, of.id))
			}
			if p.rdev.FeatureByAddress(fa) == nil {
				problems = append(problems, fmt.Sprintf("feature %s/%d is listed but not resolvable", a, of.id))
			}
			oe.feats = append(oe.feats, of)
			fs = append(fs, of.String())
		}
		t[a] = oe
		order = append(order, fmt.Sprintf("%s(%d;%s)[%s]", a, oe.typ, dscOpt(oe.desc), strings.Join(fs, ",")))
	}
	return t, strings.Join(order, ";"), problems
}

// ---------------------------------------------------------------- addresses and resolution

func dscIsNil(v any) bool {
	if v == nil {
		return true
	}
	rv := reflect.ValueOf(v)
	switch rv.Kind() {
	case reflect.Ptr, reflect.Interface, reflect.Map, reflect.Slice, reflect.Func, reflect.Chan:
		return rv.IsNil()
	}
	return false
}

// dscDevTok: the device part of an address as the model interns it: absent "-", the peer's announced device
// address "devN" the number N, anything else verbatim (never equal to a model answer)
func dscDevTok(d *model.AddressDeviceType) string {
	if d == nil {
		return "-"
	}
	if n, err := strconv.Atoi(strings.TrimPrefix(string(*d), "dev")); err == nil && strings.HasPrefix(string(*d), "dev") {
		return strconv.Itoa(n)
	}
	return "<" + string(*d) + ">"
}

func dscObsFeat(f api.FeatureRemoteInterface) dscOFeat {
	fa := f.Address()
	of := dscOFeat{id: -1, typ: dscFTypeNum(f.Type()), rol: dscRoleNum(f.Role()), desc: dscDescNum(f.Description()), ops: map[int]int{}}
	if fa != nil && fa.Feature != nil {
		of.id = int(*fa.Feature)
	}
	for fn, o := range f.Operations() {
		rc, wc := 0, 0
		if o.Read() {
			rc = 1
			if o.ReadPartial() {
				rc = 2
			}
		}
		if o.Write() {
			wc = 1
			if o.WritePartial() {
				wc = 2
			}
		}
		of.ops[dscFnNum(fn)] = rc + 3*wc
	}
	return of
}

func dscObsEnt(e api.EntityRemoteInterface) string {
	var fs []string
	for _, f := range e.Features() {
		fs = append(fs, dscObsFeat(f).String())
	}
	return fmt.Sprintf("%s(%d;%s)[%s]", h.EntStr(e.Address().Entity), dscETypeNum(e.EntityType()), dscOpt(dscDescNum(e.Description())), strings.Join(fs, ","))
}

// entity addresses asked of Entity(): the generator's domain and addresses that are never announced
var dscResolveEnts = [][]uint{{0}, {1}, {2}, {1, 1}, {1, 2}, {3}, {0, 0}, {1, 1, 1}, {2, 1}}

// dscResolve reads, for peer pn, every reported address with its device part and asks Entity() / FeatureByAddress()
// for every reported and a set of unreported addresses.
//   - SPEC (no model): every entity in Entities() resolves through its own address to that very object, every
//     feature of it likewise (a feature number listed twice in one entity: to a feature with that address);
//     whatever Entity() / FeatureByAddress() return is reported; an unreported address resolves to nil.
//   - the returned text is the canonical observation the model driver's `resolve` op answers.
func (w *dscWorld) dscResolve(r *h.Report, done []string, pn int, evs []string) (line, impl string) {
	p := w.peers[pn]
	ents := p.rdev.Entities()
	fail := func(key, format string, a ...any) {
		r.SpecFail(key, done, fmt.Sprintf("peer %d: ", pn)+fmt.Sprintf(format, a...))
	}
	listedE := map[string]api.EntityRemoteInterface{}
	listedF := map[string]api.FeatureRemoteInterface{} // "ent/id" -> first feature listed with that address
	var aParts []string
	var qf []string
	for _, e := range ents {
		ea := e.Address()
		a := h.EntStr(ea.Entity)
		if _, dup := listedE[a]; !dup {
			listedE[a] = e
		}
		got := p.rdev.Entity(ea.Entity)
		if dscIsNil(got) || got != listedE[a] {
			fail("C06/reported-address-does-not-resolve", "entity %s is in Entities(), Entity(%s) returns %s", a, a, dscEntTok(got))
		}
		count := map[int]int{}
		for _, f := range e.Features() {
			if fa := f.Address(); fa != nil && fa.Feature != nil {
				count[int(*fa.Feature)]++
			}
		}
		var fparts []string
		for _, f := range e.Features() {
			fa := f.Address()
			if fa == nil || fa.Feature == nil {
				fparts = append(fparts, "nil")
				continue
			}
			id := int(*fa.Feature)
			key := fmt.Sprintf("%s/%d", h.EntStr(fa.Entity), id)
			if _, dup := listedF[key]; !dup {
				listedF[key] = f
				qf = append(qf, key)
			}
			rf := p.rdev.FeatureByAddress(fa)
			switch {
			case dscIsNil(rf):
				fail("C06/reported-address-does-not-resolve", "feature %s is reported, FeatureByAddress(its address) returns nil", key)
			case count[id] == 1 && rf != f:
				fail("C06/reported-address-does-not-resolve", "feature %s is reported, FeatureByAddress(its address) returns another feature (%s)", key, h.AddrS(rf.Address()))
			case h.AddrS(rf.Address()) != h.AddrS(fa):
				fail("C06/reported-address-does-not-resolve", "feature %s is reported, FeatureByAddress(its address) returns a feature with address %s", key, h.AddrS(rf.Address()))
			}
			fparts = append(fparts, fmt.Sprintf("%d@%s", id, dscDevTok(fa.Device)))
		}
		aParts = append(aParts, fmt.Sprintf("%s@%s{%s}", a, dscDevTok(ea.Device), strings.Join(fparts, ",")))
	}
	// queries: every domain / foreign entity address; features 0..4 of each plus every reported feature address
	var qe []string
	seenE := map[string]bool{}
	for _, a := range dscResolveEnts {
		qe = append(qe, h.EntU(a))
		seenE[h.EntU(a)] = true
	}
	for _, e := range ents {
		if a := h.EntStr(e.Address().Entity); !seenE[a] && a != "" {
			qe = append(qe, a)
			seenE[a] = true
		}
	}
	seenF := map[string]bool{}
	for _, k := range qf {
		seenF[k] = true
	}
	for _, a := range qe {
		for id := 0; id <= 4; id++ {
			if k := fmt.Sprintf("%s/%d", a, id); !seenF[k] {
				qf = append(qf, k)
				seenF[k] = true
			}
		}
	}
	var reParts, rfParts []string
	for _, a := range qe {
		got := p.rdev.Entity(spine.NewAddressEntityType(dscAddrU(a)))
		tok := "-"
		if !dscIsNil(got) {
			tok = dscObsEnt(got)
			if want, ok := listedE[a]; !ok || got != want {
				fail("C06/unreported-address-resolves", "Entity(%s) returns %s, Entities() does not list it at that address", a, dscEntTok(got))
			}
		} else if _, ok := listedE[a]; ok {
			fail("C06/reported-address-does-not-resolve", "entity %s is in Entities(), Entity(%s) returns nil", a, a)
		}
		reParts = append(reParts, a+"="+tok)
	}
	for i, k := range qf {
		sl := strings.LastIndex(k, "/")
		a, ids := k[:sl], k[sl+1:]
		id, _ := strconv.Atoi(ids)
		if a == "" || strings.HasPrefix(k, "nil") {
			continue
		}
		// the device part of the asked address is not looked at by the code: absent, the peer's, a foreign one
		fa := &model.FeatureAddressType{Entity: spine.NewAddressEntityType(dscAddrU(a)), Feature: util.Ptr(model.AddressFeatureType(id))}
		switch i % 3 {
		case 1:
			fa.Device = util.Ptr(model.AddressDeviceType(p.dev))
		case 2:
			fa.Device = util.Ptr(model.AddressDeviceType("elsewhere"))
		}
		got := p.rdev.FeatureByAddress(fa)
		tok := "-"
		if !dscIsNil(got) {
			ga := got.Address()
			tok = h.EntStr(ga.Entity) + "/" + dscObsFeat(got).String()
			if want, ok := listedF[k]; !ok || got != want {
				fail("C06/unreported-address-resolves", "FeatureByAddress(%s) returns %s, which no listed entity reports at that address first", k, h.AddrS(ga))
			}
		} else if _, ok := listedF[k]; ok {
			fail("C06/reported-address-does-not-resolve", "feature %s is reported, FeatureByAddress(%s) returns nil", k, k)
		}
		rfParts = append(rfParts, k+"="+tok)
	}
	if dscIsNil(p.rdev.FeatureByAddress(nil)) == false {
		fail("C06/unreported-address-resolves", "FeatureByAddress(nil) returns a feature")
	}
	j := func(l []string, sep string) string {
		if len(l) == 0 {
			return "."
		}
		return strings.Join(l, sep)
	}
	var qfAsk []string
	for _, x := range rfParts {
		qfAsk = append(qfAsk, x[:strings.Index(x, "=")])
	}
	line = fmt.Sprintf("resolve %d %s | %s", pn, strings.Join(qe, " "), strings.Join(qfAsk, " "))
	// the SKIs the entity events of this message carried, as peer numbers ("ski1" -> 1); the SPEC monitor of the
	// event clause has already judged them against the sender's SKI
	kset := map[string]bool{}
	for _, e := range evs {
		k := e[strings.LastIndex(e, "@")+1:]
		if n, err := strconv.Atoi(strings.TrimPrefix(k, "ski")); err == nil && strings.HasPrefix(k, "ski") {
			k = strconv.Itoa(n)
		}
		kset[k] = true
	}
	impl = fmt.Sprintf("D %s | A %s | RE %s | RF %s | K %s", dscDevTok(p.rdev.Address()), j(aParts, ";"), j(reParts, ","), j(rfParts, ","), j(keys(kset), ","))
	return line, impl
}

// dscResolveAgrees: equal, where "?" in the model's answer (device parts of a member whose device parts are not
// modelled: whole=1) stands for any device part
func dscResolveAgrees(impl, mdl string) bool {
	if !strings.Contains(mdl, "?") {
		return impl == mdl
	}
	masked := regexp.MustCompile(`@(-|[0-9]+|<[^>]*>)`).ReplaceAllString(impl, "@?")
	masked = regexp.MustCompile(`^D \S+`).ReplaceAllString(masked, "D ?")
	return masked == mdl
}

func dscEntTok(e api.EntityRemoteInterface) string {
	if dscIsNil(e) {
		return "nil"
	}
	return "entity " + h.EntStr(e.Address().Entity) + fmt.Sprintf(" (%p)", e)
}

type dscReg struct{ subs, binds, csubs, cbinds []string }

func (r dscReg) String() string {
	j := func(l []string) string {
		if len(l) == 0 {
			return "."
		}
		return strings.Join(l, ",")
	}
	return fmt.Sprintf("S %s | B %s | CS %s | CB %s", j(r.subs), j(r.binds), j(r.csubs), j(r.cbinds))
}

var dscDomain = [][]uint{{0}, {1}, {2}, {1, 1}, {1, 2}}

func (w *dscWorld) observeReg() dscReg {
	var r dscReg
	for pn := 1; pn <= 2; pn++ {
		p := w.peers[pn]
		for _, s := range w.local.SubscriptionManager().Subscriptions(p.rdev) {
			r.subs = append(r.subs, fmt.Sprintf("%d/%s/%d>%s/%d", pn, h.EntStr(s.ClientFeature.Address().Entity), *s.ClientFeature.Address().Feature,
				h.EntStr(s.ServerFeature.Address().Entity), *s.ServerFeature.Address().Feature))
		}
		for _, s := range w.local.BindingManager().Bindings(p.rdev) {
			r.binds = append(r.binds, fmt.Sprintf("%d/%s/%d>%s/%d", pn, h.EntStr(s.ClientFeature.Address().Entity), *s.ClientFeature.Address().Feature,
				h.EntStr(s.ServerFeature.Address().Entity), *s.ServerFeature.Address().Feature))
		}
		for _, lf := range w.clients {
			lk := fmt.Sprintf("%s/%d", h.EntStr(lf.Address().Entity), *lf.Address().Feature)
			for _, ea := range dscDomain {
				for fid := 0; fid <= 4; fid++ {
					ra := h.FA(p.dev, ea, uint(fid))
					if lf.HasSubscriptionToRemote(ra) {
						r.csubs = append(r.csubs, fmt.Sprintf("%s>%d/%s/%d", lk, pn, h.EntU(ea), fid))
					}
					if lf.HasBindingToRemote(ra) {
						r.cbinds = append(r.cbinds, fmt.Sprintf("%s>%d/%s/%d", lk, pn, h.EntU(ea), fid))
					}
				}
			}
		}
	}
	sort.Strings(r.subs)
	sort.Strings(r.binds)
	sort.Strings(r.csubs)
	sort.Strings(r.cbinds)
	return r
}

// entry "p/cEnt/cFeat>s" or "l>p/rEnt/rFeat": the (peer, remote entity) it refers to
func dscRefersTo(kind, entry string) (int, string) {
	part := entry
	if kind == "csub" || kind == "cbind" {
		part = entry[strings.Index(entry, ">")+1:]
	} else {
		part = entry[:strings.Index(entry, ">")]
	}
	x := strings.Split(part, "/")
	p, _ := strconv.Atoi(x[0])
	return p, x[1]
}

// SPEC of the cascade: after a message of peer p that removed the entities `gone`, each registry holds exactly
// the previous entries minus those that refer to (p, e), e in gone.
func dscCheckCascade(r *h.Report, ops []string, pn int, gone map[string]bool, before, after dscReg) {
	check := func(kind string, b, a []string) {
		ac := map[string]int{}
		for _, x := range a {
			ac[x]++
		}
		for _, x := range b {
			p, e := dscRefersTo(kind, x)
			should := !(p == pn && gone[e])
			if should {
				if ac[x] == 0 {
					key := "C06/cascade-removes-unrelated:" + kind
					if kind == "bind" && p != pn && gone[e] {
						key = "C06/cascade-binding-other-peer"
					}
					r.SpecFail(key, ops, fmt.Sprintf("removal of entity %v of peer %d deleted the %s entry %s, which refers to another peer or entity", keys(gone), pn, kind, x))
				} else {
					ac[x]--
				}
			} else if ac[x] > 0 {
				r.SpecFail("C06/cascade-leaves-entry:"+kind, ops, fmt.Sprintf("entity %s of peer %d was removed, the %s entry %s is still there", e, pn, kind, x))
				ac[x]--
			}
		}
		for x, n := range ac {
			if n > 0 {
				r.SpecFail("C06/cascade-creates-entry:"+kind, ops, fmt.Sprintf("a discovery message created the %s entry %s", kind, x))
			}
		}
	}
	check("sub", before.subs, after.subs)
	check("bind", before.binds, after.binds)
	check("csub", before.csubs, after.csubs)
	check("cbind", before.cbinds, after.cbinds)
}

func keys(m map[string]bool) []string {
	var k []string
	for x := range m {
		k = append(k, x)
	}
	sort.Strings(k)
	return k
}

// ---------------------------------------------------------------- one history

type dscStats struct {
	cascadeSteps, removedEntities, mixed, cascadeHist, hist, readdOtherType, noType int
	shapes                                                                          map[string]int
	conc                                                                            map[string]int // concurrent steps by outcome
}

// runDscHistory executes ops on a fresh world and on the model, judges every discovery message by the
// SPEC monitor and compares observations with the model. d may be nil (probe / shrink without model).
func runDscHistory(r *h.Report, d *h.Driver, ops []string, st *dscStats) {
	w := newDscWorld()
	defer w.close()
	if d != nil {
		if d.Ask("reset") != "ok" {
			panic("drv_disc: reset")
		}
		d.Mark()
	}
	var done []string
	nontrivial := false
	for _, op := range ops {
		f := strings.Fields(op)
		if len(f) == 0 {
			continue
		}
		done = append(done, op)
		var impl, line, kind string
		var stepEvs []string // entity events of this step, with the SKI they carry
		// conc REQ / msg ...: the discovery message is delivered while request REQ of the OTHER peer is processed on
		// its own goroutine inside the cascade of the message (discovery_conc_test.go); judged as the message plus the request
		var conc *dscConc
		if f[0] == "conc" {
			conc = dscParseConc(w, f)
			op = strings.Join(f[8:], " ")
			f = strings.Fields(op)
		}
		switch f[0] {
		case "msg":
			m, ok := dscParseMsg(op)
			if !ok || w.peers[m.peer] == nil || (conc != nil && conc.pn == m.peer) {
				panic("bad op " + op)
			}
			prev, _, _ := w.observeTree(m.peer)
			other := 3 - m.peer
			otherBefore, _, _ := w.observeTree(other)
			regBefore := w.observeReg()
			w.evh.take()
			if pan := h.Recover(func() {
				if conc != nil {
					conc.arm(w.peers[m.peer].ski)
					defer conc.disarm()
				}
				w.deliver(m)
			}); pan != nil {
				r.SpecFail("C06/panic", done, fmt.Sprintf("well-formed discovery message panics: %v", pan))
				return
			}
			if conc != nil && !conc.finish(r, done) {
				return
			}
			got, gotOrdered, problems := w.observeTree(m.peer)
			otherAfter, _, _ := w.observeTree(other)
			regAfter := w.observeReg()
			regFinal := regAfter
			if conc != nil {
				// SPEC for the concurrent request: answered with success <=> registered; what is judged below is the
				// registry without the entry the granted request created
				regAfter = conc.judge(r, done, regBefore, regAfter)
			}
			evs := w.evh.take()
			stepEvs = evs
			// ---- SPEC monitor (no model involved)
			want, wantEv, specified := dscSpecApply(prev, m)
			mixed := dscMixed(prev, m)
			if mixed && st != nil {
				st.mixed++
			}
			if st != nil {
				for k := range dscShapes(prev, m) {
					st.shapes[k]++
				}
				for _, e := range m.ents {
					if old, ok := prev[h.EntU(e.a)]; ok && e.chg != "r" && m.kind != "full" && e.typ != old.typ && e.typ > 0 {
						st.readdOtherType++
					}
					if e.typ < 0 {
						st.noType++
					}
				}
			}
			ski := w.peers[m.peer].ski
			var wantEvS []string
			for _, e := range wantEv {
				wantEvS = append(wantEvS, e+"@"+ski)
			}
			sort.Strings(wantEvS)
			kind = "msg:" + m.kind
			if !specified {
				kind += ":unspecified"
			} else {
				if got.String() != want.String() {
					key := "C06/tree-diverges:" + m.kind
					if mixed {
						key = "C06/mixed-add-remove-notification"
					}
					r.SpecFail(key, done, fmt.Sprintf("peer %d after %s: API reports %s, applying the announcement to the previous tree gives %s", m.peer, m.kind, got, want))
				} else if strings.Join(evs, ",") != strings.Join(wantEvS, ",") {
					key := "C06/events-diverge:" + m.kind
					if mixed {
						key = "C06/mixed-add-remove-notification"
					}
					r.SpecFail(key, done, fmt.Sprintf("peer %d %s: entity events %v, entities that appeared / disappeared %v", m.peer, m.kind, evs, wantEvS))
				}
				if got.String() != prev.String() {
					kind += ":changed"
				}
			}
			if old, ok := prev["0"]; ok && dscHasF0(old.feats) {
				if now, ok := got["0"]; !ok || !dscHasF0(now.feats) {
					r.SpecFail("C06/device-information-lost", done, fmt.Sprintf("peer %d after %s: entity [0] with feature 0 was known, the API now reports %s - no message of this peer will be accepted any more", m.peer, m.kind, got))
				}
			}
			for _, pr := range problems {
				r.SpecFail("C06/tree-incoherent", done, fmt.Sprintf("peer %d after %s: %s", m.peer, m.kind, pr))
			}
			if otherAfter.String() != otherBefore.String() {
				r.SpecFail("C06/other-peer-tree-changed", done, fmt.Sprintf("message of peer %d changed the tree of peer %d: %s -> %s", m.peer, other, otherBefore, otherAfter))
			}
			// cascade: judged on the entities the implementation actually removed in this step
			gone := map[string]bool{}
			for _, e := range evs {
				if strings.HasPrefix(e, "-") && strings.HasSuffix(e, "@"+ski) {
					gone[strings.TrimSuffix(e[1:], "@"+ski)] = true
				}
			}
			for a := range prev {
				if _, still := got[a]; !still && !gone[a] {
					gone[a] = true // disappeared without an event (reported above as events-diverge)
				}
			}
			dscCheckCascade(r, done, m.peer, gone, regBefore, regAfter)
			if st != nil && len(gone) > 0 {
				st.removedEntities += len(gone)
				if regBefore.String() != regAfter.String() {
					st.cascadeSteps++
					nontrivial = true
				}
			}
			// ---- model
			var evShort []string
			for _, e := range evs {
				evShort = append(evShort, strings.TrimSuffix(e, "@"+ski))
			}
			es := "."
			if len(evShort) > 0 {
				sort.Strings(evShort)
				es = strings.Join(evShort, ",")
			}
			impl = fmt.Sprintf("T %s | E %s | %s", gotOrdered, es, regAfter)
			line = op
			if conc != nil {
				kind = "conc:" + conc.kind + ":" + conc.outcome()
				if d != nil {
					// the model runs the two operations one after the other: message, then the granted request
					want := d.Ask(line)
					if impl != want {
						r.Mismatch(done, impl, want, "discovery message of "+strings.Join(done[len(done)-1:], ""))
						return
					}
					if conc.granted {
						if want := d.Ask(conc.op()); regFinal.String() != want {
							r.Mismatch(done, regFinal.String(), want, "request processed inside the cascade: "+conc.op())
							return
						}
					}
					line = ""
				}
				if st != nil {
					st.conc[conc.outcome()]++
					if conc.fired {
						st.conc["the handler's wait ended: request "+conc.parked]++
					}
				}
			}
		case "sub", "bind":
			if len(f) != 6 {
				panic("bad op " + op)
			}
			pn, _ := strconv.Atoi(f[1])
			cf, _ := strconv.Atoi(f[3])
			sf, _ := strconv.Atoi(f[5])
			before := w.observeReg()
			if pan := h.Recover(func() { w.request(f[0], pn, dscAddrU(f[2]), cf, dscAddrU(f[4]), sf) }); pan != nil {
				r.SpecFail("C06/panic", done, fmt.Sprintf("request call panics: %v", pan))
				return
			}
			after := w.observeReg()
			granted := len(after.subs)+len(after.binds) == len(before.subs)+len(before.binds)+1
			kind = f[0] + ":refused"
			if granted {
				kind = f[0] + ":granted"
				line = op
				impl = after.String()
			}
		case "csub", "cbind":
			if len(f) != 6 {
				panic("bad op " + op)
			}
			pn, _ := strconv.Atoi(f[1])
			lf := w.localClient(f[2] + "/" + f[3])
			rf, _ := strconv.Atoi(f[5])
			if lf == nil || w.peers[pn] == nil {
				panic("bad op " + op)
			}
			ra := h.FA(w.peers[pn].dev, dscAddrU(f[4]), uint(rf))
			var err *model.ErrorType
			if f[0] == "csub" {
				_, err = lf.SubscribeToRemote(ra)
			} else {
				_, err = lf.BindToRemote(ra)
			}
			h.Settle(dscBase)
			kind = f[0] + ":refused"
			if err == nil {
				kind = f[0] + ":done"
				line = op
				impl = w.observeReg().String()
			}
		default:
			panic("bad op " + op)
		}
		r.Eval(kind, "")
		if d != nil && line != "" {
			want := d.Ask(line)
			if impl != want {
				r.Mismatch(done, impl, want, "discovery op "+op)
				return
			}
		}
		if f[0] == "msg" && conc == nil {
			// addresses (device part included) and Entity() / FeatureByAddress(): SPEC on the implementation's own
			// answers, then the same observation from the model (Spine.Disc.findE / resolveF / Dev)
			pn, _ := strconv.Atoi(f[1])
			rline, rimpl := w.dscResolve(r, done, pn, stepEvs)
			r.Eval("resolve", "")
			if d != nil && line != "" {
				want := d.Ask(rline)
				if !dscResolveAgrees(rimpl, want) {
					r.Mismatch(done, rimpl, want, "addresses and resolution after "+op)
					return
				}
			}
		}
	}
	r.Traces++
	if st != nil {
		st.hist++
	}
	if nontrivial {
		r.Case(strings.Join(ops, "; "))
		if st != nil {
			st.cascadeHist++
		}
	}
}

// ---------------------------------------------------------------- generator

type dscGen struct {
	rng  *rand.Rand
	tree map[int]dscTree // what the generator believes is known (from the SPEC function, only to steer choices)
	subs map[string]bool
	bind map[string]string // bound local server feature -> "peer/clientEntity" of the binding
}

func (g *dscGen) feats(a []uint) []dscFeat {
	r := g.rng
	var fs []dscFeat
	ids := r.Perm(3)
	for i, n := 0, r.Intn(4); i < n && i < 3; i++ {
		f := dscFeat{e: a, id: ids[i] + 1, typ: 1 + r.Intn(6), rol: r.Intn(2), desc: r.Intn(4) - 1}
		if r.Intn(10) == 0 {
			f.rol = 2
		}
		if r.Intn(3) == 0 {
			f.typ = 6 // Generic client features can subscribe / bind to any local server
			f.rol = 0
		}
		for j, k := 0, r.Intn(4); j < k; j++ {
			x := dscFn{1 + r.Intn(6), r.Intn(9)}
			if r.Intn(7) == 0 {
				x.bits = -1
			}
			f.fns = append(f.fns, x)
		}
		fs = append(fs, f)
	}
	return fs
}

var dscAddrs = [][]uint{{1}, {2}, {1, 1}, {1, 2}}

// dscCaps: what the tree under test can be given without panicking or wedging (probed). All false = the pinned
// commit: the generator then stays inside the domain of the first round.
type dscCaps struct{ rmDev, refresh, emptyAddr, noType, featParts, fnNoFn, unknownType, noDevInfo bool }

var dscCap dscCaps

// features announced for the device-information entity: with or without feature 0, possibly others
func (g *dscGen) devInfoFeats() []dscFeat {
	r := g.rng
	var fs []dscFeat
	if r.Intn(2) == 0 {
		fs = append(fs, dscFeat{e: []uint{0}, id: 0, typ: 9, rol: 2, desc: r.Intn(3) - 1})
	}
	for i, n := 0, r.Intn(3); i < n; i++ {
		fs = append(fs, dscFeat{e: []uint{0}, id: 1 + i, typ: 1 + r.Intn(6), rol: r.Intn(2), desc: -1})
	}
	return fs
}

// extend perturbs a message of the first-round domain with the shapes the repaired tree handles: [0] listed as
// removed anywhere, omitted from a full notification, re-announced with / without feature 0; rejected entries;
// malformed feature elements.
func (g *dscGen) extend(m *dscMsg) {
	r, c := g.rng, dscCap
	insert := func(e dscEnt) {
		i := r.Intn(len(m.ents) + 1)
		m.ents = append(m.ents[:i], append([]dscEnt{e}, m.ents[i:]...)...)
	}
	drop0 := func() {
		var es []dscEnt
		for _, e := range m.ents {
			if h.EntU(e.a) != "0" {
				es = append(es, e)
			}
		}
		m.ents = es
		var fs []dscFeat
		for _, f := range m.feats {
			if f.e == nil || h.EntU(f.e) != "0" {
				fs = append(fs, f)
			}
		}
		m.feats = fs
	}
	switch m.kind {
	case "partial":
		if c.rmDev && r.Intn(100) < 14 {
			e := dscEnt{[]uint{0}, 0, "r", -1}
			if r.Intn(2) == 0 {
				e.typ = -1
			}
			insert(e)
		}
		if c.refresh && r.Intn(100) < 8 {
			insert(dscEnt{[]uint{0}, 0, "a", r.Intn(3) - 1})
			m.feats = append(m.feats, g.devInfoFeats()...)
		}
		if c.noType {
			for i := range m.ents {
				if m.ents[i].chg == "r" && r.Intn(2) == 0 {
					m.ents[i].typ = -1 // removed entries carry the address only, also next to added entries
				}
			}
		}
	case "full":
		if c.rmDev && r.Intn(100) < 18 {
			drop0()
			if r.Intn(4) == 0 {
				m.ents, m.feats = nil, nil // lists nothing at all
			}
		} else if c.rmDev {
			r.Shuffle(len(m.ents), func(i, j int) { m.ents[i], m.ents[j] = m.ents[j], m.ents[i] })
		}
	case "reply":
		if c.refresh && r.Intn(100) < 20 {
			var e0 []dscEnt
			for _, e := range m.ents {
				if h.EntU(e.a) == "0" {
					e0 = append(e0, e)
				}
			}
			drop0()
			for _, e := range e0 {
				insert(e)
			}
			m.feats = append(m.feats, g.devInfoFeats()...)
		}
	}
	if r.Intn(100) < 7 {
		switch k := r.Intn(2); {
		case k == 0 && c.emptyAddr:
			insert(dscEnt{[]uint{}, 1 + r.Intn(3), []string{"a", "r", "n"}[r.Intn(3)], -1})
		case k == 1 && c.noType:
			a := dscAddrs[r.Intn(len(dscAddrs))] // unknown with some probability: then the entry is rejected
			chg := "a"
			if m.kind != "partial" {
				chg = "n"
			}
			insert(dscEnt{a, -1, chg, -1})
		}
	}
	if c.featParts && r.Intn(100) < 12 {
		for i, n := 0, 1+r.Intn(2); i < n; i++ {
			f := dscFeat{e: dscAddrs[r.Intn(len(dscAddrs))], id: 1 + r.Intn(3), typ: 1 + r.Intn(6), rol: r.Intn(2), desc: -1}
			if len(m.ents) > 0 && len(m.ents[0].a) > 0 {
				f.e = m.ents[r.Intn(len(m.ents))].a
				if len(f.e) == 0 {
					f.e = []uint{1}
				}
			}
			switch r.Intn(6) {
			case 0:
				f.e = nil
			case 1:
				f.id = -1
			case 2:
				f.typ = -1
			case 3:
				f.rol = -1
			case 4:
				f.e, f.id = nil, -1
			default:
				f = dscFeat{id: -1, typ: -1, rol: -1, desc: -1}
			}
			j := r.Intn(len(m.feats) + 1)
			m.feats = append(m.feats[:j], append([]dscFeat{f}, m.feats[j:]...)...)
		}
	}
	if c.fnNoFn && len(m.feats) > 0 && r.Intn(100) < 10 {
		j := r.Intn(len(m.feats))
		if !m.feats[j].empty() {
			m.feats[j].fns = append(m.feats[j].fns, dscFn{-1, r.Intn(9)})
			if r.Intn(2) == 0 {
				m.feats[j].fns = append(m.feats[j].fns, dscFn{1 + r.Intn(6), r.Intn(9)})
			}
		}
	}
	if c.unknownType && len(m.feats) > 0 && r.Intn(100) < 6 {
		j := r.Intn(len(m.feats))
		if m.feats[j].ok() && m.feats[j].id != 0 {
			m.feats[j].typ = 7
		}
	}
	if c.noDevInfo && m.kind == "reply" && r.Intn(100) < 3 {
		m.kind = "replyx"
	}
}

func (g *dscGen) entTyp(p int, a []uint) int {
	if e, ok := g.tree[p][h.EntU(a)]; ok && g.rng.Intn(10) < 7 {
		return e.typ
	}
	return 1 + g.rng.Intn(3)
}

func (g *dscGen) msg(p int, kind string) dscMsg {
	r := g.rng
	m := dscMsg{peer: p, kind: kind}
	nm := dscFeat{e: []uint{0}, id: 0, typ: 9, rol: 2, desc: -1}
	switch kind {
	case "reply", "full":
		m.ents = append(m.ents, dscEnt{[]uint{0}, 0, "n", -1})
		m.feats = append(m.feats, nm)
		for _, a := range dscAddrs {
			keep := r.Intn(2) == 0
			if _, known := g.tree[p][h.EntU(a)]; known && kind == "full" {
				keep = r.Intn(3) > 0
			}
			if keep {
				m.ents = append(m.ents, dscEnt{a, g.entTyp(p, a), "n", r.Intn(4) - 1})
				m.feats = append(m.feats, g.feats(a)...)
			}
		}
		r.Shuffle(len(m.ents)-1, func(i, j int) { m.ents[i+1], m.ents[j+1] = m.ents[j+1], m.ents[i+1] })
	default:
		used := map[string]bool{}
		for i, n := 0, 1+r.Intn(3); i < n; i++ {
			a := dscAddrs[r.Intn(len(dscAddrs))]
			if used[h.EntU(a)] && r.Intn(5) > 0 {
				continue
			}
			if r.Intn(100) < 55 {
				m.ents = append(m.ents, dscEnt{a, g.entTyp(p, a), "a", r.Intn(4) - 1})
				m.feats = append(m.feats, g.feats(a)...)
			} else {
				// mostly remove something that is known
				var known [][]uint
				for _, b := range dscAddrs {
					if _, ok := g.tree[p][h.EntU(b)]; ok && !used[h.EntU(b)] {
						known = append(known, b)
					}
				}
				if len(known) > 0 && r.Intn(10) < 7 {
					a = known[r.Intn(len(known))]
				}
				m.ents = append(m.ents, dscEnt{a, g.entTyp(p, a), "r", -1})
			}
			used[h.EntU(a)] = true
		}
		if len(m.ents) == 0 {
			a := dscAddrs[r.Intn(len(dscAddrs))]
			m.ents = append(m.ents, dscEnt{a, g.entTyp(p, a), "a", r.Intn(4) - 1})
			m.feats = append(m.feats, g.feats(a)...)
		}
		pure := true
		for _, e := range m.ents {
			pure = pure && e.chg == "r"
		}
		if pure && r.Intn(2) == 0 {
			// the shape real devices send: a removed entry carries the address only. Only in notifications without
			// added entries: as written, an added entry makes the handler dereference every entry's entityType (C05)
			for i := range m.ents {
				m.ents[i].typ = -1
			}
		} else if r.Intn(40) == 0 {
			m.ents[r.Intn(len(m.ents))].chg = "n" // entry without a state change: the statement is silent, the model is not
		}
		r.Shuffle(len(m.feats), func(i, j int) { m.feats[i], m.feats[j] = m.feats[j], m.feats[i] })
	}
	g.extend(&m)
	return m
}

func (g *dscGen) apply(m dscMsg) {
	next, _, _ := dscSpecApply(g.tree[m.peer], m)
	g.tree[m.peer] = next
	// forget registry entries of entities that went away (only steers later choices)
	for k := range g.subs {
		f := strings.Fields(k)
		p, _ := strconv.Atoi(f[1])
		if _, ok := g.tree[p][f[2]]; !ok {
			delete(g.subs, k)
		}
	}
	for k, v := range g.bind {
		x := strings.Split(v, "/")
		p, _ := strconv.Atoi(x[0])
		if _, ok := g.tree[p][x[1]]; !ok {
			delete(g.bind, k)
		}
	}
}

// a request that the stack must grant: client feature announced with role client/special and a type that
// matches a local server feature (or Generic), pair not registered, server not bound
func (g *dscGen) request(kind string) string {
	r := g.rng
	var cands []string
	for p := 1; p <= 2; p++ {
		for a, e := range g.tree[p] {
			for _, f := range e.feats {
				if f.rol == 1 {
					continue
				}
				for sk, st := range dscLocalServers {
					if f.typ != st && f.typ != 6 {
						continue
					}
					s := strings.Split(sk, "/")
					op := fmt.Sprintf("%s %d %s %d %s %s", kind, p, a, f.id, s[0], s[1])
					if kind == "sub" && g.subs[op] {
						continue
					}
					if _, bound := g.bind[sk]; kind == "bind" && bound {
						continue
					}
					cands = append(cands, op)
				}
			}
		}
	}
	if len(cands) == 0 {
		return ""
	}
	sort.Strings(cands)
	op := cands[r.Intn(len(cands))]
	if kind == "sub" {
		g.subs[op] = true
	} else {
		f := strings.Fields(op)
		g.bind[f[4]+"/"+f[5]] = f[1] + "/" + f[2]
	}
	return op
}

func (g *dscGen) client(kind string) string {
	r := g.rng
	p := 1 + r.Intn(2)
	var cands []string
	for a, e := range g.tree[p] {
		if a == "0" {
			continue
		}
		for _, f := range e.feats {
			cands = append(cands, fmt.Sprintf("%s %d", a, f.id))
		}
	}
	sort.Strings(cands)
	target := fmt.Sprintf("%s %d", h.EntU(dscAddrs[r.Intn(len(dscAddrs))]), 1+r.Intn(3))
	if len(cands) > 0 && r.Intn(5) > 0 {
		target = cands[r.Intn(len(cands))]
	}
	lk := strings.Split(dscLocalClients[r.Intn(len(dscLocalClients))], "/")
	return fmt.Sprintf("%s %d %s %s %s", kind, p, lk[0], lk[1], target)
}

func genDscHistory(rng *rand.Rand, n int) []string {
	g := &dscGen{rng: rng, tree: map[int]dscTree{1: {"0": &dscOEnt{addr: "0"}}, 2: {"0": &dscOEnt{addr: "0"}}}, subs: map[string]bool{}, bind: map[string]string{}}
	var ops []string
	emit := func(m dscMsg) {
		ops = append(ops, m.String())
		g.apply(m)
	}
	// both peers answer the discovery read first (their device address is unknown before)
	emit(g.msg(1, "reply"))
	emit(g.msg(2, "reply"))
	if rng.Intn(3) == 0 {
		// identical numbering on both peers
		m := g.msg(1, "partial")
		emit(m)
		m.peer = 2
		emit(m)
	}
	for len(ops) < n {
		x := rng.Intn(100)
		op := ""
		switch {
		case x < 14:
			op = g.request("sub")
		case x < 26:
			op = g.request("bind")
		case x < 34:
			op = g.client("csub")
		case x < 42:
			op = g.client("cbind")
		}
		if op != "" {
			ops = append(ops, op)
			continue
		}
		p := 1 + rng.Intn(2)
		switch y := rng.Intn(100); {
		case y < 62:
			emit(g.msg(p, "partial"))
		case y < 90:
			emit(g.msg(p, "full"))
		default:
			emit(g.msg(p, "reply"))
		}
	}
	return ops
}

// ---------------------------------------------------------------- corpus (known-defect witnesses first)

const dscNM = "0:0:9:2:-:-"

var dscCorpus = map[string][]string{
	// the known defect, both orders (DESIGN §8 C06): [A added, B removed] / [B removed, A added]
	"mixed:added-then-removed": {
		"msg 1 reply 0:0:n:- 2:1:n:- | " + dscNM + " 2:1:1:1:-:1=1",
		"msg 1 partial 1:1:a:2 2:1:r:- | 1:1:1:0:1:1=4,2=1",
	},
	"mixed:removed-then-added": {
		"msg 1 reply 0:0:n:- 2:1:n:- | " + dscNM + " 2:1:1:1:-:1=1",
		"msg 1 partial 2:1:r:- 1:1:a:2 | 1:1:1:0:1:1=4,2=1",
	},
	// a full notification that adds one entity and drops another
	"mixed:full": {
		"msg 1 reply 0:0:n:- 1:1:n:- | " + dscNM + " 1:1:1:1:-:-",
		"msg 1 full 0:0:n:- 2:2:n:3 | " + dscNM + " 2:1:2:1:2:4=4 2:2:3:0:-:-",
	},
	// minimal witness of the binding defect: both peers bind from their entity [1], peer 1 announces [1] as removed
	"cascade:binding-other-peer": {
		"msg 1 reply 0:0:n:- 1:1:n:- | " + dscNM + " 1:1:6:0:-:-",
		"msg 2 reply 0:0:n:- 1:1:n:- | " + dscNM + " 1:1:6:0:-:-",
		"bind 1 1 1 1 1", "bind 2 1 1 1 2",
		"msg 1 partial 1:1:r:- | ",
	},
	// cascade with two peers that use identical numbering; peer 1 announces entity [1] as removed
	"cascade:two-peers": {
		"msg 1 reply 0:0:n:- 1:1:n:- 2:1:n:- | " + dscNM + " 1:1:6:0:-:- 1:2:1:1:-:1=4 2:1:6:0:-:-",
		"msg 2 reply 0:0:n:- 1:1:n:- 2:1:n:- | " + dscNM + " 1:1:6:0:-:- 1:2:1:1:-:1=4 2:1:6:0:-:-",
		"sub 1 1 1 1 1", "sub 2 1 1 1 1", "sub 1 2 1 1 2", "sub 1 1 1 2 1",
		"bind 1 1 1 1 1", "bind 2 1 1 1 2", "bind 1 2 1 2 1",
		"csub 1 1 5 1 2", "csub 2 1 5 1 2", "cbind 1 1 5 1 2", "cbind 2 1 5 1 2", "csub 1 1 6 2 1",
		"msg 1 partial 1:1:r:- | ",
		"msg 2 partial 1:1:r:- | ",
	},
	// nested addresses, repeated adds, removal of unknown entities, re-announcement with other features / type
	"nested-repeated-unknown": {
		"msg 1 reply 0:0:n:- 1:1:n:1 | " + dscNM + " 1:1:1:1:1:1=4,2=1 1:2:4:0:-:-",
		"msg 1 partial 1.1:2:a:- 1.2:2:a:3 | 1.1:1:1:1:-:1=1 1.2:1:2:1:-:4=4 1.2:2:6:0:2:-",
		"sub 1 1.2 2 1 1", "bind 1 1.2 2 1 2", "sub 1 1 2 1 4", "csub 1 1 5 1.1 1", "cbind 1 1 5 1 1",
		"msg 1 partial 1:-:r:- | ",
		"msg 1 partial 1:-:r:- 2:-:r:- | ",
		"msg 1 partial 1.1:3:a:5 1.1:3:a:6 | 1.1:2:3:1:-:5=1,5=x,6=x,5=2",
		"msg 1 partial 1.2:2:r:- 1.2:2:r:- | ",
		"msg 1 partial 1.1:2:a:- 1.1:2:r:- | 1.1:1:1:1:-:-",
		"msg 1 full 0:0:n:- 1.1:2:n:- 1:2:n:- | " + dscNM + " 1.1:3:1:1:-:- 1:1:2:0:1:4=8",
		"msg 1 reply 0:0:n:- 1:3:n:7 | " + dscNM + " 1:3:5:1:0:3=2",
	},
}

// witnesses and corpus of the second round: shapes the repaired tree handles (run only when the probes say so)
var dscCorpus2 = map[string][]string{
	// probe witnesses
	"probe:rmdev":         {"msg 1 reply 0:0:n:- 1:1:n:- | " + dscNM, "msg 1 partial 0:-:r:- | "},
	"probe:rmdev-full":    {"msg 1 reply 0:0:n:- 1:1:n:- | " + dscNM, "msg 1 full 1:1:n:- | "},
	"probe:refresh":       {"msg 1 reply 0:0:n:- | " + dscNM, "msg 1 partial 0:0:a:- | 0:1:1:1:-:-"},
	"probe:refresh-empty": {"msg 1 reply 0:0:n:- | " + dscNM, "msg 1 partial 0:0:a:- | "},
	"probe:refresh-reply": {"msg 1 reply 0:0:n:- | " + dscNM, "msg 1 reply 0:0:n:- 1:1:n:- | 0:1:1:1:-:-"},
	"probe:emptyAddr":     {"msg 1 reply 0:0:n:- | " + dscNM, "msg 1 partial -:1:a:- | ", "msg 1 partial -:1:r:- | ", "msg 1 reply 0:0:n:- -:1:n:- | " + dscNM, "msg 1 full 0:0:n:- -:1:n:- | " + dscNM},
	"probe:noType":        {"msg 1 reply 0:0:n:- | " + dscNM, "msg 1 partial 1:-:a:- | ", "msg 1 reply 0:0:n:- 1:-:n:- | " + dscNM, "msg 1 full 0:0:n:- 1:-:n:- | " + dscNM},
	"probe:featParts":     {"msg 1 reply 0:0:n:- 1:1:n:- | " + dscNM + " -:1:1:1:-:- 1:-:1:1:-:- 1:1:-:1:-:- 1:1:1:-:-:- -:-:1:1:-:- -:-:-:-:-:- 1:2:1:1:-:-"},
	"probe:fnNoFn":        {"msg 1 reply 0:0:n:- 1:1:n:- | " + dscNM + " 1:1:1:1:-:-=4,1=1"},
	"probe:unknownType":   {"msg 1 reply 0:0:n:- 1:1:n:- | " + dscNM + " 1:1:7:1:-:1=1"},
	"probe:noDevInfo":     {"msg 1 replyx 0:0:n:- 1:1:n:- | " + dscNM},
	// [0] listed as removed between other entries: it stays, the entries before AND after it are processed with
	// the full cascade and events
	"devinfo:removed-in-the-middle": {
		"msg 1 reply 0:0:n:- 1:1:n:- 2:1:n:- 1.1:2:n:- | " + dscNM + " 1:1:6:0:-:- 2:1:6:0:-:- 1.1:1:6:0:-:-",
		"msg 2 reply 0:0:n:- 1:1:n:- 2:1:n:- | " + dscNM + " 1:1:6:0:-:- 2:1:6:0:-:-",
		"sub 1 1 1 1 1", "sub 1 2 1 1 2", "bind 1 2 1 1 1", "bind 1 1.1 1 1 2", "sub 2 2 1 1 1", "bind 2 2 1 2 1", "csub 1 1 5 2 1", "cbind 1 1 5 1 1",
		"msg 1 partial 1:-:r:- 0:-:r:- 2:-:r:- | ",
		"msg 1 partial 0:0:r:- 1.1:-:r:- 1:1:a:2 | 1:1:1:1:-:1=1",
		"msg 1 partial 1:-:r:- 0:-:r:- | ",
		"msg 1 partial 0:-:r:- | ",
	},
	// full notifications that omit [0], alone or together with other entities, or list nothing
	"devinfo:full-omits": {
		"msg 1 reply 0:0:n:- 1:1:n:- 2:1:n:- | " + dscNM + " 1:1:6:0:-:- 2:1:6:0:-:-",
		"sub 1 1 1 1 1", "bind 1 2 1 1 1", "csub 1 1 5 1 1",
		"msg 1 full 1:1:n:- 2:1:n:- | 1:1:6:0:-:-",
		"msg 1 full 2:1:n:- 1.1:2:n:3 | 1.1:1:1:1:-:1=4",
		"msg 1 full 0:0:n:- 2:1:n:- 1.1:2:n:- | " + dscNM,
		"msg 1 full | ",
		"msg 1 partial 1:1:a:- | 1:1:1:1:-:-",
	},
	// re-announcements of [0] with and without feature 0; the other entries of the message are processed
	"devinfo:reannounced": {
		"msg 1 reply 0:0:n:- 1:1:n:- | " + dscNM + " 1:1:6:0:-:-",
		"msg 1 partial 0:0:a:1 2:1:a:- | 0:1:1:1:-:- 2:1:1:1:-:-",
		"msg 1 partial 2:-:r:- 0:0:a:2 1.1:1:a:- | 1.1:1:1:1:-:-",
		"msg 1 partial 0:0:a:3 | " + dscNM + " 0:1:1:1:-:1=1",
		"msg 1 partial 0:0:a:- | 0:0:1:1:4:-",
		"msg 1 reply 0:0:n:5 1:1:n:- 1.2:1:n:- | 0:2:1:1:-:- 1:2:1:1:-:-",
		"msg 1 reply 1.2:1:n:- 0:0:n:6 | " + dscNM + " 0:3:4:0:-:-",
		"msg 1 full 0:0:n:7 1:1:n:- | 0:5:1:1:-:-",
	},
	// entries the repaired handlers reject: the entries before are applied, the entries after are not
	"malformed:rejected-entries": {
		"msg 1 reply 0:0:n:- 1:1:n:- | " + dscNM + " 1:1:6:0:-:-",
		"sub 1 1 1 1 1",
		"msg 1 partial 2:1:a:- -:1:a:- 1.1:1:a:- | 2:1:1:1:-:-",
		"msg 1 partial 1:-:r:- 1.2:-:a:- 2:-:r:- | ",
		"msg 1 partial 2:-:r:- -:-:r:- 1.1:1:a:- | ",
		"msg 1 partial 2:-:a:- 1.1:1:a:- | ",
		"msg 1 partial 1:-:a:4 | 1:1:1:1:-:-",
		"msg 1 reply 0:0:n:- 1.1:1:n:- 1.2:-:n:- 2:1:n:- | " + dscNM,
		"msg 1 reply 0:0:n:- 2:2:n:- -:1:n:- 1.2:1:n:- | " + dscNM,
		"msg 1 full 0:0:n:- 1:1:n:- 1.2:-:n:- | " + dscNM,
		"msg 1 full 0:0:n:- 1.2:1:n:- -:1:n:- | " + dscNM,
		"msg 1 replyx 0:0:n:- 1:1:n:- | " + dscNM,
	},
	// feature elements and supportedFunction entries that are skipped
	"malformed:features": {
		"msg 1 reply 0:0:n:- 1:1:n:- | " + dscNM + " -:1:1:1:-:- 1:-:1:1:-:- 1:1:-:1:-:- 1:1:1:-:-:- -:-:1:1:-:- -:-:-:-:-:- 1:2:1:1:-:-=4,1=1,-=x,2=x 1:3:7:0:2:1=4",
		"msg 1 partial 1:1:a:- 2:1:a:- | 1:1:1:1:-:1=1 -:-:-:-:-:- 2:-:1:1:-:- 2:1:6:0:-:-=1",
		"msg 1 full 0:0:n:- 1.1:1:n:- | " + dscNM + " 1.1:1:-:1:-:- 1.1:2:7:1:-:-",
	},
}

var dscCorpus2Order = []string{"devinfo:removed-in-the-middle", "devinfo:full-omits", "devinfo:reannounced", "malformed:rejected-entries", "malformed:features"}

// which capabilities a corpus history of the second round needs
func dscCorpus2Runnable(name string) bool {
	c := dscCap
	switch name {
	case "devinfo:removed-in-the-middle", "devinfo:full-omits":
		return c.rmDev && c.noType
	case "devinfo:reannounced":
		return c.rmDev && c.refresh && c.noType
	case "malformed:rejected-entries":
		return c.emptyAddr && c.noType && c.noDevInfo
	case "malformed:features":
		return c.featParts && c.fnNoFn && c.unknownType
	}
	return false
}

var dscCorpusOrder = []string{"mixed:added-then-removed", "mixed:removed-then-added", "mixed:full", "cascade:binding-other-peer", "cascade:two-peers", "nested-repeated-unknown"}

// ---------------------------------------------------------------- probes (select the member of the model family)

// the witnesses of a flag are run on the real code alone; the flag is on iff the SPEC monitor reports its key on
// one of them
func dscProbe(r *h.Report, name, key string, witnesses ...string) bool {
	on := false
	detail := "the real code handles the witnesses as the property says: repaired member selected"
	var ops []string
	for _, wn := range witnesses {
		q := h.Quiet()
		runDscHistory(q, nil, dscCorpus[wn], nil)
		if q.HasSpecFail(key) && !on {
			on = true
			ops = dscCorpus[wn]
			for _, sf := range q.SpecFailures {
				if sf.Key == key {
					detail = wn + ": " + sf.Detail
				}
			}
		}
	}
	if !on {
		ops = dscCorpus[witnesses[0]]
	}
	r.SetFlag(name, on, ops, detail)
	return on
}

// a capability of the tree under test: its witnesses neither panic nor lose the device-information entity.
// Losing the device-information entity contradicts the SPEC ([0] is never removed, never loses feature 0): that is
// reported as a spec failure with the witness; a panic on a malformed shape is C05's business and only narrows the
// generator's domain.
func dscProbeCap(r *h.Report, name string, witnesses ...string) bool {
	bad := ""
	var badOps []string
	for _, wn := range witnesses {
		q := h.Quiet()
		runDscHistory(q, nil, dscCorpus2[wn], nil)
		for _, sf := range q.SpecFailures {
			if (sf.Key == "C06/panic" || sf.Key == "C06/device-information-lost") && bad == "" {
				bad, badOps = sf.Detail, sf.Ops
				if sf.Key == "C06/device-information-lost" {
					r.SpecFail(sf.Key, sf.Ops, sf.Detail)
				}
			}
		}
	}
	if bad == "" {
		badOps = dscCorpus2[witnesses[0]]
	}
	r.SetFlag(name, bad != "", badOps, "on = the pinned behaviour (panic / device information lost): this shape is not generated. "+bad)
	return bad == ""
}

// dscProbeAll selects the member of the model family and the generator's domain; returns the driver arguments
func dscProbeAll(r *h.Report) []string {
	whole := dscProbe(r, "wholeMessage", "C06/mixed-add-remove-notification", "mixed:added-then-removed", "mixed:removed-then-added", "mixed:full")
	bindent := dscProbe(r, "bindEntityOnly", "C06/cascade-binding-other-peer", "cascade:binding-other-peer")
	c := dscCaps{
		rmDev:       dscProbeCap(r, "removesDevInfo", "probe:rmdev", "probe:rmdev-full"),
		refresh:     dscProbeCap(r, "refreshUnguarded", "probe:refresh", "probe:refresh-empty", "probe:refresh-reply"),
		emptyAddr:   dscProbeCap(r, "panics:emptyEntityAddress", "probe:emptyAddr"),
		noType:      dscProbeCap(r, "panics:newEntityWithoutType", "probe:noType"),
		featParts:   dscProbeCap(r, "panics:featureElementParts", "probe:featParts"),
		fnNoFn:      dscProbeCap(r, "panics:supportedFunctionWithoutFunction", "probe:fnNoFn"),
		unknownType: dscProbeCap(r, "panics:unknownFeatureType", "probe:unknownType"),
		noDevInfo:   dscProbeCap(r, "panics:replyWithoutDeviceInformation", "probe:noDevInfo"),
	}
	args := []string{fmt.Sprintf("whole=%d", h.B2i(whole)), fmt.Sprintf("bindent=%d", h.B2i(bindent)),
		fmt.Sprintf("rmdev=%d", h.B2i(!c.rmDev)), fmt.Sprintf("refresh=%d", h.B2i(!c.refresh))}
	if whole {
		// the handler over the whole message is modelled on the first-round domain only
		c = dscCaps{}
	}
	dscCap = c
	r.Info["generator domain"] = fmt.Sprintf("%+v", c)
	return args
}

func TestDiscovery(t *testing.T) {
	r := h.NewReport("discovery", "histories of 8-30 ops on a real DeviceLocal with two connected peers that use identical entity / feature numbering: "+
		"detailed-discovery replies, partial notifications (1-3 entries, added / removed mixed in either order, repeated adds, repeated and unknown removals, "+
		"same address twice, removed entries with and without entityType) and full notifications over entity addresses [1],[2],[1,1],[1,2] (+[0]), 0-3 "+
		"features per entity from 6 feature types (+ an unknown one) with roles, descriptions and 0-3 supportedFunction entries (read/write plain or partial, "+
		"possibleOperations absent, function repeated), interleaved with real subscription / binding request calls of the peers' features and "+
		"SubscribeToRemote / BindToRemote of local client features. Where the probes find the tree repaired (HEAD: all of them): entity [0] listed as removed "+
		"at any position among other entries, full notifications that omit [0] alone, with other entities or list nothing, re-announcements of [0] with and "+
		"without feature 0 (partial and reply), entries the handlers reject (empty address, unknown entity without entityType, no state change; reply without "+
		"deviceInformation) at any position, feature elements without address / number / type / role / description, supportedFunction without function. "+
		"After every discovery message: (SPEC, model-free) the tree the API reports (Entities/Features/Address/EntityType/Type/Role/Description/Operations, "+
		"resolvability by Entity()/FeatureByAddress()) = Spec.Tree.apply(previous reported tree, announcement), where [0] is never removed and never loses "+
		"feature 0 and malformed feature elements announce nothing; entity-added/removed events of the step as a multiset = the entities that appeared / "+
		"disappeared, all carrying the sender's SKI; [0] with feature 0 still there; the other peer's tree unchanged; Subscriptions()/Bindings() of both peers "+
		"and HasSubscriptionToRemote/HasBindingToRemote of the local client features = previous minus the entries that refer to (sender, removed entity); "+
		"(correspondence) tree in API order, events, registries compared with Spine.Disc.World.stepG of the member selected by the probes. Messages with a "+
		"rejected entry are outside the statement (dist key ':unspecified'): tree and events are compared with the model only (the code applies the entries "+
		"before the rejected one and drops the rest), the other SPEC clauses still apply. Not generated: entity elements without description, device-address "+
		"mismatch, maxResponseDelay. non-trivial = a history in which an entity removal changed a registry or the client-side bookkeeping (distinct by op text)")
	defer r.Write()
	h.JitterStart() // the kept-time reference is one more goroutine: it has to run before the baseline is measured
	if ops := h.ReplayOps("discovery"); ops != nil {
		d := h.StartDriver("drv_disc", dscProbeAll(r)...)
		defer d.Close()
		runDscHistory(r, d, ops, nil)
		return
	}
	// probe phase: which member of the family is the tree under test?
	d := h.StartDriver("drv_disc", dscProbeAll(r)...)
	defer d.Close()
	if a := d.Ask("nonsense"); a != "bad-op" {
		panic("drv_disc answers an unknown op with " + a)
	}
	st := &dscStats{shapes: map[string]int{}, conc: map[string]int{}}
	// corpus first
	for _, name := range dscCorpusOrder {
		runDscHistory(r, d, dscCorpus[name], st)
	}
	for _, name := range dscCorpus2Order {
		if dscCorpus2Runnable(name) {
			runDscHistory(r, d, dscCorpus2[name], st)
			r.Info["corpus "+name] = "run"
		} else {
			r.Info["corpus "+name] = "not run: the tree under test panics or wedges on it (C05)"
		}
	}
	// the cascade with a request of the other peer processed inside it (discovery_conc_test.go)
	for _, name := range dscConcCorpusOrder {
		runDscHistory(r, d, dscConcCorpus[name], st)
	}
	crng := h.Rng(66)
	for i, n := 0, h.Scale(40, 400); i < n; i++ {
		runDscHistory(r, d, genDscConcHistory(crng), st)
	}
	rng := h.Rng(6)
	hist := h.Scale(900, 9000)
	for i := 0; i < hist; i++ {
		runDscHistory(r, d, genDscHistory(rng, 8+rng.Intn(23)), st)
	}
	// minimise the witnesses of spec failures other than the corpus ones and of the first mismatch
	known := map[string]bool{"C06/mixed-add-remove-notification": true, "C06/cascade-binding-other-peer": true}
	for _, sf := range append([]h.SpecFailure{}, r.SpecFailures...) {
		if known[sf.Key] || len(sf.Ops) < 3 {
			continue
		}
		key := sf.Key
		small := h.Shrink(sf.Ops, func(ops []string) bool {
			q := h.Quiet()
			runDscHistory(q, nil, ops, nil)
			return q.HasSpecFail(key)
		})
		r.ReplaceSpecFailOps(key, small)
	}
	if len(r.Mismatches) > 0 {
		mm := r.Mismatches[0]
		small := h.Shrink(mm.Ops, func(ops []string) bool {
			q := h.Quiet()
			runDscHistory(q, d, ops, nil)
			return q.MismatchN > 0
		})
		q := h.Quiet()
		runDscHistory(q, d, small, nil)
		if q.MismatchN > 0 {
			r.ReplaceMismatch(0, small, q.Mismatches[0].Impl, q.Mismatches[0].Model)
		}
	}
	if r.MismatchN == 0 {
		// generator-quality floors guard a run that passes; a history that disagrees with the model is cut short at
		// that op, so after mismatches the distribution says nothing about the generator
		msgs := r.Dist["msg:partial"] + r.Dist["msg:partial:changed"] + r.Dist["msg:partial:unspecified"]
		r.Floor("partial notifications that change the tree", r.Dist["msg:partial:changed"], msgs, 0.5)
		r.Floor("full notifications that change the tree", r.Dist["msg:full:changed"], r.Dist["msg:full"]+r.Dist["msg:full:changed"]+r.Dist["msg:full:unspecified"], 0.3)
		r.Floor("subscription requests granted", r.Dist["sub:granted"], r.Dist["sub:granted"]+r.Dist["sub:refused"], 0.6)
		r.Floor("binding requests granted", r.Dist["bind:granted"], r.Dist["bind:granted"]+r.Dist["bind:refused"], 0.6)
		r.Floor("client-side subscribe / bind accepted", r.Dist["csub:done"]+r.Dist["cbind:done"], r.Dist["csub:done"]+r.Dist["cbind:done"]+r.Dist["csub:refused"]+r.Dist["cbind:refused"], 0.9)
		r.Floor("histories in which a removal changed a registry", st.cascadeHist, st.hist, 0.3)
		concAll := 0
		for k, v := range st.conc {
			if strings.HasPrefix(k, "granted") || strings.HasPrefix(k, "refused") {
				concAll += v
			}
		}
		r.Floor("concurrent requests started inside the cascade and granted", st.conc["granted:inside-the-cascade"], concAll, 0.5)
	} else {
		r.Info["floors"] = fmt.Sprintf("not evaluated: %d histories were cut short by a disagreement with the model", r.MismatchN)
	}
	r.Info["known entities re-announced as added with another entityType (SPEC: type is kept)"] = st.readdOtherType
	r.Info["removed entries without entityType"] = st.noType
	for k, v := range st.shapes {
		r.Info["shape: "+k] = v
	}
	r.Info["entities removed"] = st.removedEntities
	for k, v := range st.conc {
		r.Info["request of the other peer during a cascade, "+k] = v
	}
	r.Info["steps in which a removal changed a registry or the client-side bookkeeping"] = st.cascadeSteps
	r.Info["messages that add and remove in one notification"] = st.mixed
}
