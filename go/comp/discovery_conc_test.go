package comp

// C06, cascade clause under concurrency: "removing an entity removes that entity's subscriptions, bindings and
// cached client-side references AND NOTHING ELSE" — also not the entry another peer obtains WHILE the removal is
// processed. Connections are served by their own goroutines; the cascade of peer A's discovery notification
// (RemoveSubscriptionsForEntity, RemoveBindingsForEntity, CleanRemoteEntityCaches per removed entity) runs on A's
// goroutine while peer B's subscription / binding requests are processed on B's.
//
// Op (replay format):   conc sub|bind P cEnt cFeat sEnt sFeat / msg Q ...        (P != Q)
//
// The message of peer Q is delivered on the test goroutine. A CORE-level event handler (spine.VerifSubscribeCore; core
// handlers run synchronously inside Events.Publish) waits for the first registry-removal event of Q's cascade that is
// of the request's kind (binding-removed for `bind`, subscription-removed for `sub`) — the program point INSIDE the
// per-entity pass of that manager — and starts P's request there, as a real call datagram with ackRequest through
// P's HandleSpineMesssage on a goroutine of its own. The handler returns when that goroutine has finished or is
// blocked on a mutex (on the unchanged tree: the manager's mutex, held by the pass; the request is then processed
// right after the pass) — never after a fixed sleep; bounded in kept time for the case that neither happens.
// Nothing here can raise an alarm by timing: whatever the interleaving, the SPEC below must hold.
//
// SPEC (model-free): P's request is answered with exactly one result; answered with success <=> its entry is in the
// registry afterwards (key cascade-loses-concurrent-entry); all other clauses of the message step (tree, events,
// exactly the entries of (Q, removed entity) gone, nothing else) are judged on the registries without that entry.
// Model: Spine.Disc.World.stepG for the message, then the request op — the sequential order the theorem
// c06_interleaving_is_sequential (Spine/Props/C06Conc.lean) says every interleaving is equivalent to when each
// pass is ONE critical section, which c06gen_* re-derive from the source on every run.

import (
	"encoding/json"
	"fmt"
	"math/rand"
	"regexp"
	"runtime"
	"sort"
	"strconv"
	"strings"
	"sync"
	"sync/atomic"
	"time"

	"github.com/enbility/spine-go/api"
	"github.com/enbility/spine-go/model"
	"github.com/enbility/spine-go/spine"
	"verifharness/h"
)

type dscConc struct {
	w            *dscWorld
	kind         string
	pn           int
	cEnt, sEnt   []uint
	cFeat, sFeat int

	ski    string // of the peer whose message is delivered
	bytes  []byte
	ctr    uint64
	once   sync.Once
	fired  bool
	gid    atomic.Uint64
	done   chan struct{}
	pan    any
	parked string // how the handler's wait ended: done / blocked / bound

	granted, refused bool
}

func dscParseConc(w *dscWorld, f []string) *dscConc {
	if len(f) < 10 || (f[1] != "sub" && f[1] != "bind") || f[7] != "/" || f[8] != "msg" {
		panic("bad op " + strings.Join(f, " "))
	}
	c := &dscConc{w: w, kind: f[1], cEnt: dscAddrU(f[3]), sEnt: dscAddrU(f[5]), done: make(chan struct{})}
	c.pn, _ = strconv.Atoi(f[2])
	c.cFeat, _ = strconv.Atoi(f[4])
	c.sFeat, _ = strconv.Atoi(f[6])
	if w.peers[c.pn] == nil {
		panic("bad op " + strings.Join(f, " "))
	}
	return c
}

func (c *dscConc) op() string {
	return fmt.Sprintf("%s %d %s %d %s %d", c.kind, c.pn, h.EntU(c.cEnt), c.cFeat, h.EntU(c.sEnt), c.sFeat)
}

func (c *dscConc) entry() string {
	return fmt.Sprintf("%d/%s/%d>%s/%d", c.pn, h.EntU(c.cEnt), c.cFeat, h.EntU(c.sEnt), c.sFeat)
}

func (c *dscConc) outcome() string {
	s := "refused"
	if c.granted {
		s = "granted"
	}
	if !c.fired {
		return s + ":after-the-message"
	}
	return s + ":inside-the-cascade"
}

func (c *dscConc) arm(ski string) {
	c.ski = ski
	p := c.w.peers[c.pn]
	p.w.Take()
	c.bytes = c.w.requestBytes(c.kind, c.pn, c.cEnt, c.cFeat, c.sEnt, c.sFeat, true)
	c.ctr = p.ctr
	if err := spine.VerifSubscribeCore(c); err != nil {
		panic(err)
	}
}

func (c *dscConc) disarm() { _ = spine.VerifUnsubscribeCore(c) }

var dscGoroutineHdr = regexp.MustCompile(`(?m)^goroutine (\d+) \[([^\]]*)\]:`)

// dscBlockedOnMutex: is goroutine gid waiting for a sync.Mutex / RWMutex?
func dscBlockedOnMutex(gid uint64) bool {
	buf := make([]byte, 1<<20)
	n := runtime.Stack(buf, true)
	for _, m := range dscGoroutineHdr.FindAllSubmatch(buf[:n], -1) {
		if id, _ := strconv.ParseUint(string(m[1]), 10, 64); id == gid {
			st := string(m[2])
			return strings.Contains(st, "sync.Mutex") || strings.Contains(st, "sync.RWMutex") || strings.Contains(st, "semacquire")
		}
	}
	return false
}

// HandleEvent runs on the goroutine that delivers the discovery message, inside Events.Publish.
func (c *dscConc) HandleEvent(p api.EventPayload) {
	if p.ChangeType != api.ElementChangeRemove || p.Ski != c.ski {
		return
	}
	if !(c.kind == "bind" && p.EventType == api.EventTypeBindingChange) && !(c.kind == "sub" && p.EventType == api.EventTypeSubscriptionChange) {
		return
	}
	c.once.Do(func() {
		c.fired = true
		rdev := c.w.peers[c.pn].rdev
		go func() {
			defer close(c.done)
			c.gid.Store(h.GoID())
			c.pan = h.Recover(func() { _, _ = rdev.HandleSpineMesssage(c.bytes) })
		}()
		t0 := time.Now()
		for {
			select {
			case <-c.done:
				c.parked = "done"
				return
			default:
			}
			if g := c.gid.Load(); g != 0 && dscBlockedOnMutex(g) {
				c.parked = "blocked"
				return
			}
			if h.Kept(t0) > 400*time.Millisecond || time.Since(t0) > 3*time.Second {
				c.parked = "bound"
				return
			}
			time.Sleep(100 * time.Microsecond)
		}
	})
}

// finish waits for the request (or performs it now when the cascade published no event of its kind) and reads
// its result off the peer's writer.
func (c *dscConc) finish(r *h.Report, done []string) bool {
	p := c.w.peers[c.pn]
	if !c.fired {
		close(c.done)
		c.pan = h.Recover(func() { _, _ = p.rdev.HandleSpineMesssage(c.bytes) })
	} else {
		t0 := time.Now()
		for waiting := true; waiting; {
			select {
			case <-c.done:
				waiting = false
			case <-time.After(50 * time.Millisecond):
				if h.Kept(t0) > 20*time.Second {
					r.SpecFail("C06/concurrent-request-blocked", done, fmt.Sprintf("the %s request of peer %d started inside the cascade of the other peer's notification has not returned after 20 s", c.kind, c.pn))
					return false
				}
			}
		}
	}
	h.Settle(dscBase)
	if c.pan != nil {
		r.SpecFail("C06/panic", done, fmt.Sprintf("request call processed during the cascade panics: %v", c.pan))
		return false
	}
	results := 0
	for _, m := range p.w.Take() {
		var d model.Datagram
		if json.Unmarshal(m, &d) != nil || d.Datagram.Header.MsgCounterReference == nil || uint64(*d.Datagram.Header.MsgCounterReference) != c.ctr {
			continue
		}
		for _, cmd := range d.Datagram.Payload.Cmd {
			if cmd.ResultData != nil && cmd.ResultData.ErrorNumber != nil {
				results++
				if *cmd.ResultData.ErrorNumber == 0 {
					c.granted = true
				} else {
					c.refused = true
				}
			}
		}
	}
	if results != 1 {
		r.SpecFail("C06/concurrent-request-answers", done, fmt.Sprintf("the %s request of peer %d (with ackRequest) processed during the other peer's cascade was answered with %d results", c.kind, c.pn, results))
		return false
	}
	return true
}

// judge: answered with success <=> registered. Returns the registries without the entry of the granted request.
func (c *dscConc) judge(r *h.Report, done []string, before, after dscReg) dscReg {
	pick := func(g dscReg) []string {
		if c.kind == "sub" {
			return g.subs
		}
		return g.binds
	}
	count := func(l []string) int {
		n := 0
		for _, x := range l {
			if x == c.entry() {
				n++
			}
		}
		return n
	}
	had, has := count(pick(before)), count(pick(after))
	if !c.granted {
		return after
	}
	if has != had+1 {
		r.SpecFail("C06/cascade-loses-concurrent-entry:"+c.kind, done, fmt.Sprintf(
			"peer %d's %s request %s was answered with success while peer %s's entity removal was processed (%s), but the registry holds %d such entries (before: %d): %s",
			c.pn, c.kind, c.entry(), c.ski, c.outcome(), has, had, after))
		return after
	}
	out := after
	var l []string
	dropped := false
	for _, x := range pick(after) {
		if x == c.entry() && !dropped {
			dropped = true
			continue
		}
		l = append(l, x)
	}
	if c.kind == "sub" {
		out.subs = l
	} else {
		out.binds = l
	}
	return out
}

// ---------------------------------------------------------------- corpus and generator

var dscConcCorpus = map[string][]string{
	// both peers number alike; peer 1's entity [1] holds a binding and a subscription; while its removal is processed
	// peer 2 binds / subscribes
	"conc:bind": {
		"msg 1 reply 0:0:n:- 1:1:n:- 2:1:n:- | " + dscNM + " 1:1:6:0:-:- 1:2:6:0:-:- 2:1:6:0:-:-",
		"msg 2 reply 0:0:n:- 1:1:n:- 2:1:n:- | " + dscNM + " 1:1:6:0:-:- 1:2:6:0:-:- 2:1:6:0:-:-",
		"bind 1 1 1 1 1", "bind 1 2 1 2 1", "sub 1 1 1 1 1", "bind 2 1 1 1 2", "sub 2 1 1 1 1",
		"conc bind 2 1 2 2 2 / msg 1 partial 1:1:r:- | ",
		"msg 2 partial 1:1:r:- | ",
	},
	"conc:bind-freed-server": {
		"msg 1 reply 0:0:n:- 1:1:n:- | " + dscNM + " 1:1:6:0:-:-",
		"msg 2 reply 0:0:n:- 1:1:n:- | " + dscNM + " 1:1:6:0:-:-",
		"bind 1 1 1 1 1",
		"conc bind 2 1 1 1 1 / msg 1 full 0:0:n:- | " + dscNM,
	},
	"conc:sub": {
		"msg 1 reply 0:0:n:- 1:1:n:- 2:1:n:- | " + dscNM + " 1:1:6:0:-:- 2:1:6:0:-:-",
		"msg 2 reply 0:0:n:- 1:1:n:- 2:1:n:- | " + dscNM + " 1:1:6:0:-:- 2:1:6:0:-:-",
		"sub 1 1 1 1 1", "sub 1 1 1 1 2", "sub 1 2 1 1 1", "sub 2 1 1 1 1", "bind 1 1 1 1 1",
		"conc sub 2 2 1 1 3 / msg 1 partial 1:1:r:- | ",
		"conc sub 1 2 1 2 1 / msg 2 partial 1:1:r:- | ",
	},
}

var dscConcCorpusOrder = []string{"conc:bind", "conc:bind-freed-server", "conc:sub"}

// genDscConcHistory: both peers announce entities [1], [2] (sometimes [1,1]) with Generic client features, the peers
// obtain subscriptions and bindings, then 1-3 removals (partial or full notification) of an entity that holds an
// entry of the kind, each with a request of the other peer started inside its cascade.
func genDscConcHistory(rng *rand.Rand) []string {
	ents := [][]uint{{1}, {2}}
	if rng.Intn(2) == 0 {
		ents = append(ents, []uint{1, 1})
	}
	reply := func(p int) string {
		es, fs := []string{"0:0:n:-"}, []string{dscNM}
		for _, a := range ents {
			es = append(es, fmt.Sprintf("%s:1:n:-", dscAddrTok(a)))
			for id := 1; id <= 2; id++ {
				fs = append(fs, fmt.Sprintf("%s:%d:6:0:-:-", dscAddrTok(a), id))
			}
		}
		return fmt.Sprintf("msg %d reply %s | %s", p, strings.Join(es, " "), strings.Join(fs, " "))
	}
	ops := []string{reply(1), reply(2)}
	servers := []string{"1 1", "1 2", "1 3", "1 4", "2 1", "2 2"}
	bound := map[string]string{}    // server -> "peer ent"
	subs := map[string]bool{}       // "peer ent feat server"
	holds := map[string][]string{}  // "kind peer ent" -> servers
	alive := map[string]bool{}      // "peer ent"
	for p := 1; p <= 2; p++ {
		for _, a := range ents {
			alive[fmt.Sprintf("%d %s", p, h.EntU(a))] = true
		}
	}
	request := func(kind string, p int, a []uint) string {
		perm := rng.Perm(len(servers))
		for _, i := range perm {
			sv := servers[i]
			feat := 1 + rng.Intn(2)
			key := fmt.Sprintf("%d %s %d %s", p, h.EntU(a), feat, sv)
			if kind == "bind" {
				if _, b := bound[sv]; b {
					continue
				}
				bound[sv] = fmt.Sprintf("%d %s", p, h.EntU(a))
			} else {
				if subs[key] {
					continue
				}
				subs[key] = true
			}
			hk := fmt.Sprintf("%s %d %s", kind, p, h.EntU(a))
			holds[hk] = append(holds[hk], sv)
			return fmt.Sprintf("%s %d %s %d %s", kind, p, h.EntU(a), feat, sv)
		}
		return ""
	}
	for i, n := 0, 4+rng.Intn(6); i < n; i++ {
		kind := []string{"sub", "bind"}[rng.Intn(2)]
		if op := request(kind, 1+rng.Intn(2), ents[rng.Intn(len(ents))]); op != "" {
			ops = append(ops, op)
		}
	}
	for round, n := 0, 1+rng.Intn(3); round < n; round++ {
		kind := []string{"sub", "bind"}[rng.Intn(2)]
		// a (peer, entity) that is alive and holds an entry of the kind
		var cands []string
		for k := range alive {
			if len(holds[kind+" "+k]) > 0 {
				cands = append(cands, k)
			}
		}
		sort.Strings(cands)
		if len(cands) == 0 {
			// give somebody one
			p, a := 1+rng.Intn(2), ents[rng.Intn(len(ents))]
			if !alive[fmt.Sprintf("%d %s", p, h.EntU(a))] {
				continue
			}
			if op := request(kind, p, a); op != "" {
				ops = append(ops, op)
				cands = []string{fmt.Sprintf("%d %s", p, h.EntU(a))}
			} else {
				continue
			}
		}
		victim := strings.Fields(cands[rng.Intn(len(cands))])
		q, _ := strconv.Atoi(victim[0])
		p := 3 - q
		// the other peer's request comes from one of ITS entities that is alive
		var mine []string
		for k := range alive {
			if strings.HasPrefix(k, fmt.Sprintf("%d ", p)) {
				mine = append(mine, strings.Fields(k)[1])
			}
		}
		sort.Strings(mine)
		if len(mine) == 0 {
			continue
		}
		// the removal frees the victim's bound servers: the concurrent bind may ask for one of them (granted after the
		// pass, refused before it) or for a free one
		hk := fmt.Sprintf("%s %s %s", kind, victim[0], victim[1])
		freed := holds[hk]
		for sv, who := range bound {
			if who == victim[0]+" "+victim[1] {
				delete(bound, sv)
			}
		}
		for k := range subs {
			if strings.HasPrefix(k, victim[0]+" "+victim[1]+" ") {
				delete(subs, k)
			}
		}
		delete(holds, "sub "+victim[0]+" "+victim[1])
		delete(holds, "bind "+victim[0]+" "+victim[1])
		delete(alive, victim[0]+" "+victim[1])
		req := ""
		if kind == "bind" && len(freed) > 0 && rng.Intn(3) == 0 {
			sv := freed[rng.Intn(len(freed))]
			a := mine[rng.Intn(len(mine))]
			bound[sv] = fmt.Sprintf("%d %s", p, a)
			holds[fmt.Sprintf("bind %d %s", p, a)] = append(holds[fmt.Sprintf("bind %d %s", p, a)], sv)
			req = fmt.Sprintf("bind %d %s %d %s", p, a, 1+rng.Intn(2), sv)
		} else {
			req = request(kind, p, dscAddrU(mine[rng.Intn(len(mine))]))
		}
		if req == "" {
			continue
		}
		msg := fmt.Sprintf("msg %d partial %s:1:r:- | ", q, victim[1])
		if rng.Intn(3) == 0 {
			// full notification that no longer lists the victim
			es, fs := []string{"0:0:n:-"}, []string{dscNM}
			var left []string
			for k := range alive {
				if strings.HasPrefix(k, victim[0]+" ") {
					left = append(left, strings.Fields(k)[1])
				}
			}
			sort.Strings(left)
			for _, a := range left {
				es = append(es, a+":1:n:-")
				for id := 1; id <= 2; id++ {
					fs = append(fs, fmt.Sprintf("%s:%d:6:0:-:-", a, id))
				}
			}
			msg = fmt.Sprintf("msg %d full %s | %s", q, strings.Join(es, " "), strings.Join(fs, " "))
		}
		ops = append(ops, "conc "+req+" / "+msg)
	}
	return ops
}
