package comp

// Probes of the update engine's defect flags (Spine.UpdateF.UCfg) on the tree under test, for the C02 driver:
// each flag's witness is run on the real code (LoadControlLimitListDataType) and the matching member of the
// model family is selected, so a repair of one of these sites in /repo does not break C02's correspondence.

import (
	"fmt"

	"github.com/enbility/spine-go/model"
	"github.com/enbility/spine-go/util"
	"verifharness/h"
)

func updLimit(id uint, changeable *bool, value float64) model.LoadControlLimitDataType {
	return model.LoadControlLimitDataType{LimitId: util.Ptr(model.LoadControlLimitIdType(id)), IsLimitChangeable: changeable, Value: model.NewScaledNumberType(value)}
}

// updProbeEngineFlags returns the `cfg` line for drv_upd and the flags by name.
func updProbeEngineFlags() (string, map[string]bool) {
	tr, fa := true, false
	flags := map[string]bool{}
	selFilter := func() *model.FilterType {
		f := model.NewFilterTypePartial()
		f.LoadControlLimitListDataSelectors = &model.LoadControlLimitListDataSelectorsType{LimitId: util.Ptr(model.LoadControlLimitIdType(0))}
		return f
	}
	// mergeStrict: a remote partial write addressing only the changeable limit 0 while limit 1 is not changeable
	{
		ex := &model.LoadControlLimitListDataType{LoadControlLimitData: []model.LoadControlLimitDataType{updLimit(0, &tr, 1), updLimit(1, &fa, 2)}}
		nw := &model.LoadControlLimitListDataType{LoadControlLimitData: []model.LoadControlLimitDataType{updLimit(0, nil, 7)}}
		_, ok := ex.UpdateList(true, true, nw, model.NewFilterTypePartial(), nil)
		flags["mergeStrict"] = !ok
	}
	// selNilPanics: the selector names limitId, the stored item carries none
	{
		ex := &model.LoadControlLimitListDataType{LoadControlLimitData: []model.LoadControlLimitDataType{{Value: model.NewScaledNumberType(1)}}}
		nw := &model.LoadControlLimitListDataType{LoadControlLimitData: []model.LoadControlLimitDataType{updLimit(0, nil, 7)}}
		pan := h.Recover(func() { ex.UpdateList(false, true, nw, selFilter(), nil) })
		flags["selNilPanics"] = pan != nil
	}
	// emptySelPanics: partial filter with a selector and an empty list
	{
		ex := &model.LoadControlLimitListDataType{LoadControlLimitData: []model.LoadControlLimitDataType{updLimit(0, &tr, 1)}}
		nw := &model.LoadControlLimitListDataType{}
		pan := h.Recover(func() { ex.UpdateList(false, true, nw, selFilter(), nil) })
		flags["emptySelPanics"] = pan != nil
	}
	// inplaceAltersFlag: a remote selector write that carries the changeability flag itself
	{
		ex := &model.LoadControlLimitListDataType{LoadControlLimitData: []model.LoadControlLimitDataType{updLimit(0, &tr, 1)}}
		nw := &model.LoadControlLimitListDataType{LoadControlLimitData: []model.LoadControlLimitDataType{{IsLimitChangeable: &fa}}}
		h.Recover(func() { ex.UpdateList(true, true, nw, selFilter(), nil) })
		c := ex.LoadControlLimitData[0].IsLimitChangeable
		flags["inplaceAltersFlag"] = c == nil || !*c
	}
	// deleteStrict: a remote delete whose selector matches only the changeable limit 0 while limit 1 is not changeable
	{
		ex := &model.LoadControlLimitListDataType{LoadControlLimitData: []model.LoadControlLimitDataType{updLimit(0, &tr, 1), updLimit(1, &fa, 2)}}
		f := &model.FilterType{CmdControl: &model.CmdControlType{Delete: &model.ElementTagType{}},
			LoadControlLimitListDataSelectors: &model.LoadControlLimitListDataSelectorsType{LimitId: util.Ptr(model.LoadControlLimitIdType(0))}}
		ok := false
		h.Recover(func() { _, ok = ex.UpdateList(true, true, &model.LoadControlLimitListDataType{}, nil, f) })
		flags["deleteStrict"] = !ok
	}
	return fmt.Sprintf("cfg %d %d %d %d %d", h.B2i(flags["mergeStrict"]), h.B2i(flags["selNilPanics"]), h.B2i(flags["emptySelPanics"]), h.B2i(flags["inplaceAltersFlag"]), h.B2i(flags["deleteStrict"])), flags
}
