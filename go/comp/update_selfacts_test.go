package comp

// Probe of how FilterData.SelectorMatch of the tree under test compares struct-typed selector values (the second
// half of Spine.Tables.SelFacts; the first half, "selected item field nil => panic / no match", is the engine flag
// selNilPanics of update_flags_test.go). The C02 harness classifies selector fields, generates selector values and
// lets the driver encode the model's selMap by these PROBED facts, so that a repair of SelectorMatch (nil check,
// reflect.DeepEqual) changes the member the check runs, not its verdict.

import (
	"fmt"

	"github.com/enbility/spine-go/model"
	"github.com/enbility/spine-go/util"
	"verifharness/h"
)

// updProbeStructDeep: two witnesses with a selector equal (field by field) to the stored item's value —
// a NON-COMPARABLE struct (ClientAddress *FeatureAddressType of a binding entry: `!=` panics, DeepEqual matches)
// and a COMPARABLE one that holds a pointer (DeviceAddress of a device description: `!=` compares identities and
// never matches, DeepEqual matches).
func updProbeStructDeep() (deep bool, detail string) {
	outcome := func(f func() bool) string {
		res := ""
		if pan := h.Recover(func() { res = map[bool]string{true: "match", false: "no-match"}[f()] }); pan != nil {
			return "panic"
		}
		return res
	}
	addr := func() *model.FeatureAddressType {
		return &model.FeatureAddressType{Device: util.Ptr(model.AddressDeviceType("d")), Entity: []model.AddressEntityType{1}, Feature: util.Ptr(model.AddressFeatureType(1))}
	}
	item := model.BindingManagementEntryDataType{BindingId: util.Ptr(model.BindingIdType(0)), ClientAddress: addr()}
	fdNC := &model.FilterData{Selector: &model.BindingManagementEntryListDataSelectorsType{ClientAddress: addr()}}
	nc := outcome(func() bool { return fdNC.SelectorMatch(&item) })
	dev := func() *model.DeviceAddressType {
		return &model.DeviceAddressType{Device: util.Ptr(model.AddressDeviceType("d"))}
	}
	item2 := model.NetworkManagementDeviceDescriptionDataType{DeviceAddress: dev()}
	fdC := &model.FilterData{Selector: &model.NetworkManagementDeviceDescriptionListDataSelectorsType{DeviceAddress: dev()}}
	cmp := outcome(func() bool { return fdC.SelectorMatch(&item2) })
	detail = fmt.Sprintf("selector equal to the stored value: non-comparable struct (binding ClientAddress) %s, comparable struct holding a pointer (DeviceAddress) %s", nc, cmp)
	switch {
	case nc == "match" && cmp == "match":
		return true, detail
	case nc == "panic" && cmp == "no-match":
		return false, detail
	}
	panic("SelectorMatch on struct-typed selector values behaves in a way the model family has no member for: " + detail)
}
