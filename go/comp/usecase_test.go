package comp

// C20 — correspondence of Spine.UC / Spine.UCH (Lean) with the use-case
// operations of spine.EntityLocal and the node-management read, plus the SPEC
// monitor of the property evaluated on the implementation's own trace.
//
// Op language (one line per op; also the replay format):
//   add E A N V AV SC SUB   AddUseCaseSupport on entity E (1 | 2 | 1.1), actor index A, name index N,
//                           version index V, available AV, scenarios SC ("1,2" or "-"), sub-revision index SUB
//   avail E A N AV          SetUseCaseAvailability
//   rm E A N                RemoveUseCaseSupport
//   rmall E                 RemoveAllUseCaseSupports
//   rment E                 DeviceLocal.RemoveEntity (clears the entity's use cases)
//   has E A N               HasUseCaseSupport
//   read                    a connected peer reads nodeManagementUseCaseData (real datagram, real reply)
//   copy K <op>             start <op> in goroutine K and let it run to the yield point after its DataCopy
//   store K                 release goroutine K (modify + SetData) and wait for it to finish
// Index 0 of actors and names is the empty string: a wildcard in the code's lookup, outside the property's
// quantifier; such ops are compared with the model only and switch the monitor off for the rest of the history.

import (
	"encoding/json"
	"fmt"
	"math/rand"
	"runtime"
	"sort"
	"strconv"
	"strings"
	"sync"
	"testing"
	"time"

	"github.com/enbility/spine-go/api"
	"github.com/enbility/spine-go/model"
	"github.com/enbility/spine-go/spine"
	"github.com/enbility/spine-go/util"
	"verifharness/h"
)

var (
	ucsActors = []string{"", "CEM", "EV"}
	ucsNames  = []string{"", "ucA", "ucB", "ucC"}
	ucsSubs   = []string{"", "release", "RC1"}
	ucsEnts   = map[string][]uint{"1": {1}, "2": {2}, "1.1": {1, 1}}
	ucsEntL   = []string{"1", "2", "1.1"}
)

const ucsLostKey = "C20/usecase-lost-update"

func ucsIdx(l []string, s string) int {
	for i, x := range l {
		if x == s {
			return i
		}
	}
	return -1
}

// ---- goroutine-parking schedule driver (yield site UseCase.copied)

var ucsS = h.NewSched("UseCase.copied")

// ---- world

type ucsWorld struct {
	l   *spine.DeviceLocal
	es  map[string]*spine.EntityLocal
	w   *h.W
	rd  api.DeviceRemoteInterface
	ctr uint64
}

func newUcsWorld() *ucsWorld {
	l := spine.NewDeviceLocal("b", "m", "s", "c", "HEMS", model.DeviceTypeTypeEnergyManagementSystem, model.NetworkManagementFeatureSetTypeSmart)
	uw := &ucsWorld{l: l, es: map[string]*spine.EntityLocal{}, w: &h.W{}, ctr: 10}
	for _, n := range ucsEntL {
		e := spine.NewEntityLocal(l, model.EntityTypeTypeCEM, spine.NewAddressEntityType(ucsEnts[n]), time.Second*4)
		l.AddEntity(e)
		uw.es[n] = e
	}
	// one connected peer that has announced itself (so that its datagrams are accepted)
	l.SetupRemoteDevice("ski1", uw.w)
	uw.rd = l.RemoteDeviceForSki("ski1")
	dev := "dev1"
	nm := h.FA(dev, []uint{0}, 0)
	dd := &model.NodeManagementDetailedDiscoveryDataType{
		DeviceInformation: &model.NodeManagementDetailedDiscoveryDeviceInformationType{Description: &model.NetworkManagementDeviceDescriptionDataType{DeviceAddress: &model.DeviceAddressType{Device: util.Ptr(model.AddressDeviceType(dev))}}},
		EntityInformation: []model.NodeManagementDetailedDiscoveryEntityInformationType{
			{Description: &model.NetworkManagementEntityDescriptionDataType{EntityAddress: &model.EntityAddressType{Device: util.Ptr(model.AddressDeviceType(dev)), Entity: spine.NewAddressEntityType([]uint{0})}, EntityType: util.Ptr(model.EntityTypeTypeDeviceInformation)}}},
		FeatureInformation: []model.NodeManagementDetailedDiscoveryFeatureInformationType{
			{Description: &model.NetworkManagementFeatureDescriptionDataType{FeatureAddress: nm, FeatureType: util.Ptr(model.FeatureTypeTypeNodeManagement), Role: util.Ptr(model.RoleTypeSpecial)}}},
	}
	uw.send(model.CmdClassifierTypeReply, util.Ptr(model.MsgCounterType(1)), model.CmdType{NodeManagementDetailedDiscoveryData: dd})
	uw.w.Take()
	return uw
}

func (uw *ucsWorld) close() {
	spine.VerifUnsubscribeCore(uw.l)
}

func (uw *ucsWorld) send(cl model.CmdClassifierType, ref *model.MsgCounterType, c model.CmdType) {
	uw.ctr++
	hd := model.HeaderType{AddressSource: h.FA("dev1", []uint{0}, 0), AddressDestination: h.FA("HEMS", []uint{0}, 0),
		MsgCounter: util.Ptr(model.MsgCounterType(uw.ctr)), MsgCounterReference: ref, CmdClassifier: &cl}
	b, _ := json.Marshal(model.Datagram{Datagram: model.DatagramType{Header: hd, Payload: model.PayloadType{Cmd: []model.CmdType{c}}}})
	uw.rd.HandleSpineMesssage(b)
}

// peerRead sends a real read datagram and returns the use-case data of the reply.
func (uw *ucsWorld) peerRead() (*model.NodeManagementUseCaseDataType, string) {
	uw.w.Take()
	uw.send(model.CmdClassifierTypeRead, nil, model.CmdType{NodeManagementUseCaseData: &model.NodeManagementUseCaseDataType{}})
	want := uw.ctr
	var got *model.NodeManagementUseCaseDataType
	n := 0
	for _, m := range uw.w.Take() {
		var d model.Datagram
		if err := json.Unmarshal(m, &d); err != nil {
			return nil, "undecodable datagram"
		}
		hd := d.Datagram.Header
		if hd.CmdClassifier == nil || *hd.CmdClassifier != model.CmdClassifierTypeReply || len(d.Datagram.Payload.Cmd) != 1 ||
			d.Datagram.Payload.Cmd[0].NodeManagementUseCaseData == nil {
			continue
		}
		if hd.MsgCounterReference == nil || uint64(*hd.MsgCounterReference) != want {
			return nil, "reply with wrong reference"
		}
		got = d.Datagram.Payload.Cmd[0].NodeManagementUseCaseData
		n++
	}
	if n != 1 {
		return nil, fmt.Sprintf("%d replies", n)
	}
	return got, ""
}

func (uw *ucsWorld) registry() *model.NodeManagementUseCaseDataType {
	d, _ := uw.l.NodeManagement().DataCopy(model.FunctionTypeNodeManagementUseCaseData).(*model.NodeManagementUseCaseDataType)
	return d
}

type ucsVal struct {
	version, sub int
	avail        bool
	scen         string
}

func leanList(xs []string) string { return "[" + strings.Join(xs, ", ") + "]" }

// ucsRender prints use-case data in the model driver's format and, as a map, in the SPEC's format.
func ucsRender(d *model.NodeManagementUseCaseDataType) (string, map[string]ucsVal, string) {
	m := map[string]ucsVal{}
	if d == nil || len(d.UseCaseInformation) == 0 {
		return ".", m, ""
	}
	dup := ""
	var parts []string
	for _, i := range d.UseCaseInformation {
		var en []string
		if i.Address != nil {
			for _, x := range i.Address.Entity {
				en = append(en, strconv.Itoa(int(x)))
			}
		}
		ai := -1
		if i.Actor != nil {
			ai = ucsIdx(ucsActors, string(*i.Actor))
		}
		var sups []string
		for _, s := range i.UseCaseSupport {
			ni, v, sub := -1, -1, -1
			if s.UseCaseName != nil {
				ni = ucsIdx(ucsNames, string(*s.UseCaseName))
			}
			if s.UseCaseVersion != nil {
				v, _ = strconv.Atoi(strings.TrimPrefix(string(*s.UseCaseVersion), "1.0."))
			}
			if s.UseCaseDocumentSubRevision != nil {
				sub = ucsIdx(ucsSubs, *s.UseCaseDocumentSubRevision)
			}
			av := s.UseCaseAvailable != nil && *s.UseCaseAvailable
			var sc []string
			for _, x := range s.ScenarioSupport {
				sc = append(sc, strconv.Itoa(int(x)))
			}
			sups = append(sups, fmt.Sprintf("%d/%d/%d/%s/%d", ni, v, h.B2i(av), leanList(sc), sub))
			key := fmt.Sprintf("%s|%d|%d", strings.Join(en, "."), ai, ni)
			if _, ok := m[key]; ok {
				dup = key
			}
			m[key] = ucsVal{version: v, sub: sub, avail: av, scen: strings.Join(sc, ",")}
		}
		parts = append(parts, fmt.Sprintf("%s:%d:%s", leanList(en), ai, strings.Join(sups, ",")))
	}
	return strings.Join(parts, " | "), m, dup
}

func ucsMapStr(m map[string]ucsVal) string {
	var k []string
	for key, v := range m {
		k = append(k, fmt.Sprintf("%s=%d/%d/%v/[%s]", key, v.version, v.sub, v.avail, v.scen))
	}
	sort.Strings(k)
	return strings.Join(k, " ")
}

func ucsOther(m map[string]ucsVal, ent string) string {
	o := map[string]ucsVal{}
	for k, v := range m {
		if !strings.HasPrefix(k, ent+"|") {
			o[k] = v
		}
	}
	return ucsMapStr(o)
}

// apply performs one use-case operation (the words after an optional "copy K") on the real stack.
func (uw *ucsWorld) apply(f []string) {
	e := uw.es[f[1]]
	switch f[0] {
	case "add":
		a, _ := strconv.Atoi(f[2])
		n, _ := strconv.Atoi(f[3])
		v, _ := strconv.Atoi(f[4])
		sub, _ := strconv.Atoi(f[7])
		var sc []model.UseCaseScenarioSupportType
		if f[6] != "-" {
			for _, x := range strings.Split(f[6], ",") {
				k, _ := strconv.Atoi(x)
				sc = append(sc, model.UseCaseScenarioSupportType(k))
			}
		}
		e.AddUseCaseSupport(model.UseCaseActorType(ucsActors[a]), model.UseCaseNameType(ucsNames[n]),
			model.SpecificationVersionType("1.0."+strconv.Itoa(v)), ucsSubs[sub], f[5] == "1", sc)
	case "avail":
		a, _ := strconv.Atoi(f[2])
		n, _ := strconv.Atoi(f[3])
		e.SetUseCaseAvailability(model.UseCaseActorType(ucsActors[a]), model.UseCaseNameType(ucsNames[n]), f[4] == "1")
	case "rm":
		a, _ := strconv.Atoi(f[2])
		n, _ := strconv.Atoi(f[3])
		e.RemoveUseCaseSupport(model.UseCaseActorType(ucsActors[a]), model.UseCaseNameType(ucsNames[n]))
	case "rmall":
		e.RemoveAllUseCaseSupports()
	case "rment":
		uw.l.RemoveEntity(e)
	}
}

func ucsValidOp(f []string) bool {
	need := map[string]int{"add": 8, "avail": 5, "rm": 4, "rmall": 2, "rment": 2, "has": 4}
	n, ok := need[f[0]]
	if !ok || len(f) != n {
		return false
	}
	if _, ok := ucsEnts[f[1]]; !ok {
		return false
	}
	lim := []int{0, 0, len(ucsActors), len(ucsNames), 1 << 20, 2, 0, len(ucsSubs)}
	for i := 2; i < len(f); i++ {
		if f[0] == "add" && i == 6 {
			continue
		}
		v, err := strconv.Atoi(f[i])
		if err != nil || v < 0 || (f[0] == "add" && v >= lim[i]) || (f[0] != "add" && i == 2 && v >= len(ucsActors)) || (f[0] != "add" && i == 3 && v >= len(ucsNames)) {
			return false
		}
	}
	return true
}

func ucsWildcard(f []string) bool {
	switch f[0] {
	case "add", "avail", "rm", "has":
		return f[2] == "0" || f[3] == "0"
	}
	return false
}

// specApply is the SPEC's own bookkeeping: (entity, actor, name) -> (version, sub-revision, scenarios, available).
func ucsSpecApply(spec map[string]ucsVal, f []string) {
	switch f[0] {
	case "add":
		v, _ := strconv.Atoi(f[4])
		sub, _ := strconv.Atoi(f[7])
		sc := f[6]
		if sc == "-" {
			sc = ""
		}
		spec[f[1]+"|"+f[2]+"|"+f[3]] = ucsVal{version: v, sub: sub, avail: f[5] == "1", scen: sc}
	case "avail":
		k := f[1] + "|" + f[2] + "|" + f[3]
		if v, ok := spec[k]; ok {
			v.avail = f[4] == "1"
			spec[k] = v
		}
	case "rm":
		delete(spec, f[1]+"|"+f[2]+"|"+f[3])
	case "rmall", "rment":
		for k := range spec {
			if strings.HasPrefix(k, f[1]+"|") {
				delete(spec, k)
			}
		}
	}
}

func ucsSplit(ans string) (heap, value string) {
	if i := strings.Index(ans, " ## "); i >= 0 {
		return ans[:i], ans[i+4:]
	}
	return ans, ans
}

type ucsCfg struct {
	serialised bool // the tree under test serialises the read-modify-write cycles (defect repaired)
	lenient    bool // pair probes: a released cycle that cannot finish (it waits for a lock a parked cycle holds) ends the history quietly
}

// runUcsHistory executes one history on a fresh world, op by op against the model, monitor alongside.
func runUcsHistory(r *h.Report, d *h.Driver, cfg ucsCfg, ops []string) {
	uw := newUcsWorld()
	defer uw.close()
	d.Ask("reset")
	if cfg.serialised {
		// the tree serialises the cycles: answers come from the member with the lock (Spine.UC.LSt)
		if a := d.Ask("cfg locked 1"); a != "ok" {
			panic("driver: " + a)
		}
	}
	d.Mark()
	spec := map[string]ucsVal{}
	monitor := true
	inflight := map[string]*h.G{}
	overlapped := false     // some read-modify-write cycles overlapped since the last quiescent check
	everOverlapped := false // … at any time in this history (the value-copy member is then not expected to be exact)
	modelOff := false       // the model disagreed; the rest of the history is judged by the monitor only
	var done []string
	defer func() {
		for _, g := range inflight {
			select {
			case g.Release <- struct{}{}:
			default:
			}
		}
		for _, g := range inflight {
			select {
			case <-g.Done:
			case <-time.After(5 * time.Second):
			}
		}
	}()
	parkWait := 5 * time.Second
	if cfg.serialised {
		parkWait = 150 * time.Millisecond
	}
	check := func(kind string) bool {
		// quiescent point: registry, Has and (on reads) the peer's view against the SPEC map
		if !monitor || len(inflight) > 0 {
			return true
		}
		_, im, dup := ucsRender(uw.registry())
		if dup != "" {
			r.SpecFail("C20/registry-duplicate-entry", done, "two entries for "+dup)
		}
		if ucsMapStr(im) != ucsMapStr(spec) {
			key := "C20/registry-differs-from-declared"
			if overlapped {
				key = ucsLostKey
			}
			r.SpecFail(key, done, fmt.Sprintf("declared {%s} registry {%s}", ucsMapStr(spec), ucsMapStr(im)))
			// continue from what the implementation holds
			for k := range spec {
				delete(spec, k)
			}
			for k, v := range im {
				spec[k] = v
			}
			overlapped = false
			return false
		}
		overlapped = false
		for _, en := range ucsEntL {
			for a := 1; a < len(ucsActors); a++ {
				for n := 1; n < len(ucsNames); n++ {
					_, want := spec[fmt.Sprintf("%s|%d|%d", en, a, n)]
					if got := uw.es[en].HasUseCaseSupport(model.UseCaseActorType(ucsActors[a]), model.UseCaseNameType(ucsNames[n])); got != want {
						r.SpecFail("C20/has-differs-from-declared", done, fmt.Sprintf("HasUseCaseSupport(%s,%s,%s)=%v, declared=%v", en, ucsActors[a], ucsNames[n], got, want))
						return false
					}
				}
			}
		}
		return true
	}
	// Replies in preparation: processReadUseCaseData answers a read from DataCopy of the use-case data and the copy is
	// serialised later. Every copy taken at a quiescent point must keep describing the registry of that moment whatever
	// the application declares afterwards (model-free; the registry itself may be right while an outstanding copy is
	// rewritten through a shared array). Copies are taken before every registry operation and judged after every one.
	type ucsHeld struct {
		d    *model.NodeManagementUseCaseDataType
		text string
		at   int
	}
	var held []ucsHeld
	hold := func() {
		if len(inflight) > 0 {
			return
		}
		if c := uw.registry(); c != nil {
			b, _ := json.Marshal(c)
			held = append(held, ucsHeld{c, string(b), len(done)})
		}
	}
	judgeHeld := func() {
		for i := range held {
			b, _ := json.Marshal(held[i].d)
			if string(b) != held[i].text {
				r.SpecFail("C20/reply-in-preparation-changed", done, fmt.Sprintf("copy of the use-case data taken after %d operations read %s then and reads %s now", held[i].at, held[i].text, string(b)))
				held[i].text = string(b)
			}
		}
		r.Eval("held-copies-judged", "")
	}
	for _, op := range ops {
		f := strings.Fields(op)
		if len(f) == 0 {
			continue
		}
		var impl, line, kind string
		calmOnly := false // answer must also equal the value-copy member
		switch f[0] {
		case "add", "avail", "rm", "rmall", "rment":
			if !ucsValidOp(f) {
				panic("bad op " + op)
			}
			if len(inflight) > 0 {
				// a sequential op while cycles are open would be one more overlapping cycle; not generated
				monitor = false
			}
			if ucsWildcard(f) {
				monitor = false
				kind = "obs:wildcard"
			} else {
				kind = f[0]
			}
			_, before, _ := ucsRender(uw.registry())
			hold()
			if pan := h.Recover(func() { uw.apply(f) }); pan != nil {
				done = append(done, op)
				r.SpecFail("C20/panic", done, fmt.Sprint(pan))
				return
			}
			done = append(done, op)
			judgeHeld()
			var after map[string]ucsVal
			impl, after, _ = ucsRender(uw.registry())
			line = op
			if f[0] == "rment" {
				line = "rmall " + f[1]
			}
			if monitor {
				ucsSpecApply(spec, f)
				if ucsOther(before, f[1]) != ucsOther(after, f[1]) {
					r.SpecFail("C20/cross-entity-effect", done, fmt.Sprintf("%s changed other entities: {%s} -> {%s}", op, ucsOther(before, f[1]), ucsOther(after, f[1])))
				}
				if ucsMapStr(before) != ucsMapStr(after) {
					kind += ":changed"
				} else {
					kind += ":same"
				}
			}
			calmOnly = !everOverlapped
		case "has":
			if !ucsValidOp(f) {
				panic("bad op " + op)
			}
			a, _ := strconv.Atoi(f[2])
			n, _ := strconv.Atoi(f[3])
			got := uw.es[f[1]].HasUseCaseSupport(model.UseCaseActorType(ucsActors[a]), model.UseCaseNameType(ucsNames[n]))
			done = append(done, op)
			impl, line = strconv.FormatBool(got), op
			kind = "has:" + impl
			if ucsWildcard(f) {
				kind = "obs:wildcard-has"
			}
			calmOnly = !everOverlapped
		case "read":
			open := len(inflight) > 0 // a read between some cycle's copy and store: compared with the model, not judged
			reply, errS := uw.peerRead()
			done = append(done, op)
			if errS != "" {
				r.SpecFail("C20/read-not-answered", done, errS)
				return
			}
			var rm map[string]ucsVal
			impl, rm, _ = ucsRender(reply)
			line, kind = "read", "read"
			regS, _, _ := ucsRender(uw.registry())
			if impl != regS {
				r.SpecFail("C20/read-differs-from-registry", done, fmt.Sprintf("reply {%s} stored {%s}", impl, regS))
			}
			if monitor && !open && ucsMapStr(rm) != ucsMapStr(spec) {
				key := "C20/read-differs-from-declared"
				if overlapped {
					key = ucsLostKey
				}
				r.SpecFail(key, done, fmt.Sprintf("declared {%s} peer reads {%s}", ucsMapStr(spec), ucsMapStr(rm)))
			}
			calmOnly = !everOverlapped
		case "copy":
			if len(f) < 3 || !ucsValidOp(f[2:]) || f[2] == "has" || f[2] == "rment" {
				panic("bad op " + op)
			}
			if _, dup := inflight[f[1]]; dup {
				continue
			}
			for _, g := range inflight {
				if g.Op[1] == f[3] {
					monitor = false // two open cycles on one entity: the outcome is order-dependent, not judged
				}
			}
			if ucsWildcard(f[2:]) {
				monitor = false
			}
			if len(inflight) > 0 {
				overlapped, everOverlapped = true, true
			}
			opw := f[2:]
			g := ucsS.Start(func() { uw.apply(opw) }, opw)
			done = append(done, op)
			select {
			case <-g.Parked:
				g.State = "parked"
				if cfg.serialised && len(inflight) > 0 {
					r.Eval("copy:overlaps-on-serialised-tree", "")
				}
				inflight[f[1]] = g
				line, impl, kind = "copy "+f[1], "ok", "copy"
			case <-g.Done:
				// returned before the yield point: there was no data to copy; the op had no effect and no events
				r.Eval("copy:early-return", "")
				if monitor {
					ucsSpecApply(spec, opw)
				}
				continue
			case <-time.After(parkWait):
				if !cfg.serialised {
					r.Mismatch(done, "goroutine neither parked at UseCase.copied nor finished", "parked", "schedule driver")
					return
				}
				g.State = "blocked"
				inflight[f[1]] = g
				r.Eval("copy:blocked", "")
				continue
			}
		case "store":
			g := inflight[f[1]]
			if g == nil {
				continue
			}
			if g.State == "blocked" {
				select {
				case <-g.Parked:
				case <-time.After(5 * time.Second):
					r.Mismatch(append(done, op), "blocked goroutine never reached UseCase.copied", "parked", "schedule driver")
					return
				}
				if want := d.Ask("copy " + f[1]); want != "ok" {
					r.Mismatch(append(done, op), "ok", want, "copy")
					return
				}
			}
			g.Release <- struct{}{}
			storeWait := 5 * time.Second
			if cfg.lenient {
				storeWait = 300 * time.Millisecond
			}
			select {
			case <-g.Done:
			case <-time.After(storeWait):
				if cfg.lenient {
					r.Eval("store:cannot-finish", "")
					return
				}
				r.Mismatch(append(done, op), "released goroutine did not finish", "finished", "schedule driver")
				return
			}
			delete(inflight, f[1])
			done = append(done, op)
			judgeHeld()
			if monitor {
				ucsSpecApply(spec, g.Op)
			}
			impl, _, _ = ucsRender(uw.registry())
			line, kind = "store "+f[1]+" "+strings.Join(g.Op, " "), "store"
			calmOnly = !everOverlapped
		default:
			panic("bad op " + op)
		}
		if modelOff {
			// the model already disagreed earlier in this history: the rest runs under the monitor only, so that a
			// failing input of the property is found if there is one
			r.Eval(kind, "")
			check(kind)
			continue
		}
		ans := d.Ask(line)
		heap, value := ucsSplit(ans)
		r.Eval(kind, "")
		if heap != value {
			r.Eval("members-differ", "")
		}
		// the monitor judges the implementation first and on its own; only then is the model consulted
		check(kind)
		if impl != heap {
			r.Mismatch(done, impl, heap, "use-case op "+op+" as "+line+" (member selected by the probe)")
			modelOff = true
			continue
		}
		if calmOnly && impl != value {
			r.Mismatch(done, impl, value, "use-case op "+op+" as "+line+" (value-copy member, no overlap so far)")
			modelOff = true
			continue
		}
	}
	if !modelOff {
		r.Traces++
	}
}

// ---- generators

// ucsGen generates mostly valid ops: it keeps its own record of what is declared so that removals,
// availability changes and queries hit existing use cases most of the time.
type ucsGen struct {
	rng     *rand.Rand
	present map[string]ucsVal
}

func newUcsGen(rng *rand.Rand) *ucsGen { return &ucsGen{rng: rng, present: map[string]ucsVal{}} }

func (g *ucsGen) op(ents []string, wild bool) string {
	rng := g.rng
	e := ents[rng.Intn(len(ents))]
	a, n := 1+rng.Intn(2), 1+rng.Intn(3)
	pickExisting := func() {
		var ks []string
		for k := range g.present {
			for _, en := range ents {
				if strings.HasPrefix(k, en+"|") {
					ks = append(ks, k)
				}
			}
		}
		if len(ks) == 0 || rng.Intn(10) >= 7 {
			return
		}
		sort.Strings(ks)
		p := strings.Split(ks[rng.Intn(len(ks))], "|")
		e = p[0]
		a, _ = strconv.Atoi(p[1])
		n, _ = strconv.Atoi(p[2])
	}
	wildcard := func() {
		if wild && rng.Intn(4) == 0 {
			if rng.Intn(2) == 0 {
				a = 0
			} else {
				n = 0
			}
		}
	}
	var op string
	switch x := rng.Intn(100); {
	case x < 38:
		if rng.Intn(4) == 0 {
			pickExisting() // re-add
		}
		wildcard()
		var sc []string
		for k, m := 0, rng.Intn(3); k < m; k++ {
			sc = append(sc, strconv.Itoa(rng.Intn(4)))
		}
		scs := "-"
		if len(sc) > 0 {
			scs = strings.Join(sc, ",")
		}
		op = fmt.Sprintf("add %s %d %d %d %d %s %d", e, a, n, rng.Intn(3), rng.Intn(2), scs, rng.Intn(3))
	case x < 52:
		pickExisting()
		wildcard()
		op = fmt.Sprintf("avail %s %d %d %d", e, a, n, rng.Intn(2))
	case x < 72:
		pickExisting()
		wildcard()
		op = fmt.Sprintf("rm %s %d %d", e, a, n)
	case x < 77:
		op = "rmall " + e
	case x < 90:
		pickExisting()
		wildcard()
		return fmt.Sprintf("has %s %d %d", e, a, n)
	default:
		return "read"
	}
	ucsSpecApply(g.present, strings.Fields(op))
	return op
}

func (g *ucsGen) history(n int, wild bool) []string {
	var ops []string
	for i := 0; i < n; i++ {
		if g.rng.Intn(60) == 0 {
			op := "rment " + ucsEntL[g.rng.Intn(3)]
			ucsSpecApply(g.present, strings.Fields(op))
			ops = append(ops, op)
			continue
		}
		ops = append(ops, g.op(ucsEntL, wild))
	}
	return append(ops, "read")
}

// a modifying op on entity e (for the concurrent blocks)
func (g *ucsGen) mod(e string) string {
	for {
		op := g.op([]string{e}, false)
		if !strings.HasPrefix(op, "has") && op != "read" {
			return op
		}
	}
}

// all interleavings of k cycles (copy_i before store_i)
func ucsInterleavings(k int) [][]string {
	var out [][]string
	var rec func(cur []string, copied, stored []bool)
	rec = func(cur []string, copied, stored []bool) {
		if len(cur) == 2*k {
			out = append(out, append([]string{}, cur...))
			return
		}
		for i := 0; i < k; i++ {
			if !copied[i] {
				copied[i] = true
				rec(append(cur, fmt.Sprintf("c%d", i)), copied, stored)
				copied[i] = false
			} else if !stored[i] {
				stored[i] = true
				rec(append(cur, fmt.Sprintf("s%d", i)), copied, stored)
				stored[i] = false
			}
		}
	}
	rec(nil, make([]bool, k), make([]bool, k))
	return out
}

func ucsPerms(k int) [][]string {
	var out [][]string
	var rec func(cur []int, used []bool)
	rec = func(cur []int, used []bool) {
		if len(cur) == k {
			var ev []string
			for _, i := range cur {
				ev = append(ev, fmt.Sprintf("c%d", i), fmt.Sprintf("s%d", i))
			}
			out = append(out, ev)
			return
		}
		for i := 0; i < k; i++ {
			if !used[i] {
				used[i] = true
				rec(append(cur, i), used)
				used[i] = false
			}
		}
	}
	rec(nil, make([]bool, k))
	return out
}

func ucsSchedule(prefix, mods, evs []string) []string {
	ops := append([]string{}, prefix...)
	for _, ev := range evs {
		i, _ := strconv.Atoi(ev[1:])
		if ev[0] == 'c' {
			ops = append(ops, fmt.Sprintf("copy %d %s", i+1, mods[i]))
		} else {
			ops = append(ops, fmt.Sprintf("store %d", i+1))
		}
	}
	return append(ops, "read")
}

var ucsWitness = []string{"copy 1 add 1 1 1 0 1 - 0", "copy 2 add 2 1 1 0 1 - 0", "store 1", "store 2", "read"}

// ucsProbe runs the lost-update witness schedule on the real code without the model and tells
// whether the tree under test serialises the cycles (second cycle cannot reach its copy while the first is open).
func ucsProbe() (serialised bool, lost bool) {
	uw := newUcsWorld()
	defer uw.close()
	g1 := ucsS.Start(func() { uw.apply(strings.Fields("add 1 1 1 0 1 - 0")) }, nil)
	select {
	case <-g1.Parked:
	case <-g1.Done:
		return true, false // no yield point reached at all: treat as serialised (hook gone)
	case <-time.After(5 * time.Second):
		panic("usecase probe: first goroutine neither parked nor finished")
	}
	g2 := ucsS.Start(func() { uw.apply(strings.Fields("add 2 1 1 0 1 - 0")) }, nil)
	select {
	case <-g2.Parked:
	case <-g2.Done:
	case <-time.After(400 * time.Millisecond):
		serialised = true
	}
	g1.Release <- struct{}{}
	<-g1.Done
	if serialised {
		select {
		case <-g2.Parked:
		case <-g2.Done:
		case <-time.After(5 * time.Second):
			panic("usecase probe: second goroutine stuck")
		}
	}
	select {
	case g2.Release <- struct{}{}:
	default:
	}
	<-g2.Done
	lost = !uw.es["1"].HasUseCaseSupport("CEM", "ucA") || !uw.es["2"].HasUseCaseSupport("CEM", "ucA")
	return
}

func TestUseCase(t *testing.T) {
	r := h.NewReport("usecase", "histories of AddUseCaseSupport / SetUseCaseAvailability / RemoveUseCaseSupport / RemoveAllUseCaseSupports / RemoveEntity / HasUseCaseSupport over 3 entities x 2 actors x 3 names and real nodeManagementUseCaseData reads from a connected peer, compared op by op with Spine.UC; all interleavings of the copy/store events of two (thorough: three) concurrent operations on different entities driven through the yield hook, compared with the aliasing-exact member Spine.UCH; SPEC monitor: registry, HasUseCaseSupport and the peer's reply against the map (entity, actor, name) -> (version, sub-revision, scenarios, available) kept by the harness; non-trivial = distinct history text with at least one state change")
	defer r.Write()
	d := h.StartDriver("drv_uc")
	defer d.Close()
	spine.VerifYield = ucsS.Hook
	defer func() { spine.VerifYield = nil }()

	serialised, lost := ucsProbe()
	cfg := ucsCfg{serialised: serialised}
	r.SetFlag("usecaseCyclesUnserialised", !serialised, ucsWitness, fmt.Sprintf("witness schedule on the real code: second cycle reached its copy while the first was open = %v, update lost = %v", !serialised, lost))

	if ops := h.ReplayOps("usecase"); ops != nil {
		runUcsHistory(r, d, cfg, ops)
		return
	}

	// ---- corpus: the lost-update witness (the monitor reports it if the update is lost), edge histories
	runUcsHistory(r, d, cfg, ucsWitness)
	corpus := [][]string{
		// re-add overwrites, remove unknown, remove last of an actor, remove-all, set-availability of unknown
		{"add 1 1 1 0 1 1,2 1", "add 1 1 1 2 0 3 2", "has 1 1 1", "rm 1 1 2", "rm 1 2 1", "avail 1 1 3 1", "add 1 2 2 0 1 - 0", "rm 1 2 2", "has 1 2 2", "read",
			"add 2 1 1 0 1 - 0", "add 1.1 1 1 1 1 - 0", "rmall 1", "has 1.1 1 1", "has 1 1 1", "read", "rmall 1.1", "rmall 2", "read"},
		// operations before any data exists
		{"has 1 1 1", "rm 1 1 1", "avail 1 1 1 1", "rmall 1", "read", "add 1 1 1 0 1 - 0", "read"},
		// removing an entity clears its use cases only
		{"add 1 1 1 0 1 - 0", "add 2 1 1 0 1 - 0", "add 1.1 2 3 1 0 1 0", "rment 1", "has 1 1 1", "has 1.1 2 3", "read", "add 1 1 2 0 1 - 0", "read"},
		// wildcard probes (outside the quantifier; model comparison only)
		{"add 1 1 1 0 1 - 0", "add 1 2 2 0 1 - 0", "has 1 0 0", "has 1 0 2", "has 1 1 0", "has 2 0 0", "rm 1 0 2", "read", "add 1 0 1 0 1 - 0", "add 1 1 0 0 1 - 0", "avail 1 0 1 0", "rm 1 1 0", "read"},
		// overlapping cycles that write in place survive; a stale header loses an appended element
		{"add 1 1 1 0 1 - 0", "add 2 1 1 0 1 - 0", "copy 1 avail 1 1 1 0", "copy 2 avail 2 1 1 0", "store 1", "store 2", "read"},
		{"add 1 1 1 0 1 - 0", "add 2 1 1 0 1 - 0", "add 1.1 1 1 0 1 - 0", "copy 1 add 1 2 1 0 1 - 0", "copy 2 add 2 2 1 0 1 - 0", "store 1", "store 2", "read"},
	}
	for _, c := range corpus {
		if serialised && strings.Contains(strings.Join(c, ";"), "copy 2") {
			continue
		}
		runUcsHistory(r, d, cfg, c)
	}

	// ---- pair probes: for every pair of operation kinds on two different entities, park the first cycle at its
	// copy, start the second; if the second reaches its copy too the cycles can overlap, and both store orders are
	// run under the monitor (a deterministic, replayable witness if an update is lost). On a serialised tree the
	// second cannot get there (one short wait per pair).
	{
		pre := []string{"add 1 1 1 0 1 1 0", "add 2 1 1 0 1 2 0", "add 1.1 1 1 0 1 3 0"}
		xs := []string{"add 1 2 2 1 1 - 1", "avail 1 1 1 0", "rm 1 1 1", "rmall 1"}
		ys := []string{"add 2 2 2 1 1 - 1", "avail 2 1 1 0", "rm 2 1 1", "rmall 2"}
		lc := cfg
		lc.lenient = true
		for _, x := range xs {
			for _, y := range ys {
				before := r.Dist["copy:blocked"]
				ops := append(append([]string{}, pre...), "copy 1 "+x, "copy 2 "+y, "store 1", "store 2", "read")
				runUcsHistory(r, d, lc, ops)
				if r.Dist["copy:blocked"] == before {
					// the second cycle reached its copy while the first was open: try the other store order as well
					ops = append(append([]string{}, pre...), "copy 1 "+x, "copy 2 "+y, "store 2", "store 1", "read")
					runUcsHistory(r, d, lc, ops)
				}
				r.Eval("pair-probe", "")
			}
		}
	}

	// ---- seeded sequential histories
	rng := h.Rng(20)
	hist := h.Scale(500, 5000)
	for i := 0; i < hist; i++ {
		ops := newUcsGen(rng).history(10+rng.Intn(31), rng.Intn(6) == 0)
		before := r.Dist["add:changed"] + r.Dist["rm:changed"] + r.Dist["avail:changed"] + r.Dist["rmall:changed"]
		runUcsHistory(r, d, cfg, ops)
		if r.Dist["add:changed"]+r.Dist["rm:changed"]+r.Dist["avail:changed"]+r.Dist["rmall:changed"] > before {
			r.Case(strings.Join(ops, "; "))
		}
	}

	// ---- schedules: all interleavings of two / three concurrent cycles on different entities
	type blk struct{ k, n int }
	blocks := []blk{{2, h.Scale(120, 600)}}
	if h.Tier() == "thorough" {
		blocks = append(blocks, blk{3, 60})
	} else {
		blocks = append(blocks, blk{3, 3})
	}
	for _, b := range blocks {
		scheds := ucsInterleavings(b.k)
		if serialised {
			scheds = ucsPerms(b.k)
		}
		for i := 0; i < b.n; i++ {
			// the first op makes sure data exists so that every cycle reaches its copy
			g := newUcsGen(rng)
			prefix := []string{"add 1.1 2 3 0 1 - 0"}
			ucsSpecApply(g.present, strings.Fields(prefix[0]))
			for j, m := 0, 3+rng.Intn(8); j < m; j++ {
				prefix = append(prefix, g.mod(ucsEntL[rng.Intn(3)]))
			}
			perm := rng.Perm(3)
			var mods []string
			for j := 0; j < b.k; j++ {
				mods = append(mods, g.mod(ucsEntL[perm[j]]))
			}
			for _, evs := range scheds {
				runUcsHistory(r, d, cfg, ucsSchedule(prefix, mods, evs))
				r.Eval(fmt.Sprintf("schedule:%d-cycles", b.k), "")
			}
			r.Case(fmt.Sprintf("%d cycles %v after %v", b.k, mods, prefix))
		}
	}

	// ---- free-running concurrent use (monitor only), meaningful once the cycles are serialised
	if serialised {
		spine.VerifYield = func(string) { runtime.Gosched() }
		for round := 0; round < h.Scale(30, 300); round++ {
			uw := newUcsWorld()
			spec := map[string]ucsVal{}
			var per [][]string
			for _, e := range ucsEntL {
				var l []string
				g := newUcsGen(rng)
				for j := 0; j < 12; j++ {
					l = append(l, g.mod(e))
				}
				per = append(per, l)
				for _, op := range l {
					ucsSpecApply(spec, strings.Fields(op))
				}
			}
			var wg sync.WaitGroup
			for _, l := range per {
				wg.Add(1)
				go func(l []string) {
					defer wg.Done()
					for _, op := range l {
						uw.apply(strings.Fields(op))
					}
				}(l)
			}
			wg.Wait()
			reply, errS := uw.peerRead()
			_, rm, _ := ucsRender(reply)
			if errS != "" || ucsMapStr(rm) != ucsMapStr(spec) {
				// one entry per op, so that a deterministic (replayable) witness of the same key is preferred as the shorter one
				var all []string
				for gi, l := range per {
					for _, op := range l {
						all = append(all, fmt.Sprintf("goroutine %d: %s", gi+1, op))
					}
				}
				r.SpecFail(ucsLostKey, all, fmt.Sprintf("free-running goroutines on three entities: declared {%s} peer reads {%s} %s", ucsMapStr(spec), ucsMapStr(rm), errS))
			}
			r.Eval("free-running-round", "")
			uw.close()
		}
		// ---- the same with SIX goroutines, two per entity, each confined to one actor (no remove-all): the operations
		//      of two goroutines on one entity touch disjoint keys of the SPEC map, so the declared map does not depend on
		//      the interleaving (c20_frame_concurrent / c20_concurrent_locked: some lock order, every store takes effect),
		//      while in the implementation they are read-modify-write cycles on the SAME entity's and the same list's data
		for round := 0; round < h.Scale(20, 200); round++ {
			uw := newUcsWorld()
			spec := map[string]ucsVal{}
			var per [][]string
			for _, e := range ucsEntL {
				for a := 1; a <= 2; a++ {
					var l []string
					g := newUcsGen(rng)
					for tries := 0; len(l) < 10 && tries < 2000; tries++ {
						f := strings.Fields(g.mod(e))
						if (f[0] == "add" || f[0] == "rm" || f[0] == "avail") && f[2] == strconv.Itoa(a) {
							l = append(l, strings.Join(f, " "))
						}
					}
					per = append(per, l)
					for _, op := range l {
						ucsSpecApply(spec, strings.Fields(op))
					}
				}
			}
			var wg sync.WaitGroup
			for _, l := range per {
				wg.Add(1)
				go func(l []string) {
					defer wg.Done()
					for _, op := range l {
						uw.apply(strings.Fields(op))
					}
				}(l)
			}
			wg.Wait()
			reply, errS := uw.peerRead()
			_, rm, _ := ucsRender(reply)
			if errS != "" || ucsMapStr(rm) != ucsMapStr(spec) {
				var all []string
				for gi, l := range per {
					for _, op := range l {
						all = append(all, fmt.Sprintf("goroutine %d: %s", gi+1, op))
					}
				}
				r.SpecFail(ucsLostKey, all, fmt.Sprintf("free-running goroutines, two per entity on different actors: declared {%s} peer reads {%s} %s", ucsMapStr(spec), ucsMapStr(rm), errS))
			}
			r.Eval("free-running-round:6-goroutines", "")
			uw.close()
		}
		spine.VerifYield = ucsS.Hook
	}

	// ---- minimise witnesses of unlisted spec failures and of the first mismatch
	for _, sf := range append([]h.SpecFailure{}, r.SpecFailures...) {
		if sf.Key == ucsLostKey || len(sf.Ops) < 3 || strings.HasPrefix(sf.Ops[0], "goroutine") {
			continue
		}
		key := sf.Key
		small := h.Shrink(sf.Ops, func(ops []string) bool {
			q := h.Quiet()
			runUcsHistory(q, d, cfg, ops)
			return q.HasSpecFail(key)
		})
		r.ReplaceSpecFailOps(key, small)
	}
	if len(r.Mismatches) > 0 {
		mm := r.Mismatches[0]
		small := h.Shrink(mm.Ops, func(ops []string) bool {
			q := h.Quiet()
			runUcsHistory(q, d, cfg, ops)
			return q.MismatchN > 0
		})
		q := h.Quiet()
		runUcsHistory(q, d, cfg, small)
		if q.MismatchN > 0 {
			r.ReplaceMismatch(0, small, q.Mismatches[0].Impl, q.Mismatches[0].Model)
		}
	}
	// floors describe the generator on complete histories; histories cut short by a disagreement distort them
	// (and the disagreement is reported anyway)
	if r.MismatchN == 0 {
		mods := 0
		for _, k := range []string{"add", "rm", "avail", "rmall"} {
			mods += r.Dist[k+":changed"] + r.Dist[k+":same"]
		}
		r.Floor("modifying ops that changed the registry", r.Dist["add:changed"]+r.Dist["rm:changed"]+r.Dist["avail:changed"]+r.Dist["rmall:changed"], mods, 0.35)
		r.Floor("removals that removed something", r.Dist["rm:changed"], r.Dist["rm:changed"]+r.Dist["rm:same"], 0.30)
		r.Floor("HasUseCaseSupport answering true", r.Dist["has:true"], r.Dist["has:true"]+r.Dist["has:false"], 0.25)
		if !serialised {
			r.Floor("overlapping schedules on which the two members differ", r.Dist["members-differ"], r.Dist["store"], 0.01)
		}
	}
}
