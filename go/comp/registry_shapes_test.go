package comp

// C08, clause "at any time a change of a local server feature's data sends one notification carrying the changed
// function's data to each remote feature currently subscribed to that feature and to nobody else": the SHAPES of a
// change. TestRegistry changes data by replacing an opaque content number; here FeatureLocal.UpdateData is driven with
// all seven filter shapes (none, partial, partial+selector, delete+selector, delete+elements, delete+selector+elements,
// delete+partial data) on list functions that already hold two or three items, with subscribers on two or three peers
// of identical numbering and at least one peer without a subscription. The judgement is model-free (SPEC): what the
// API reports as the function's data is serialised BEFORE the call (an independent deep copy: a JSON text) and after
// it; if the two differ, every subscriber got exactly one notification, it carries the data as it is now, and nobody
// else got one. A call that leaves the data as it was may notify every subscriber once or nobody (counted, not judged).

import (
	"encoding/json"
	"fmt"
	"strings"
	"testing"

	"github.com/enbility/spine-go/api"
	"github.com/enbility/spine-go/model"
	"github.com/enbility/spine-go/spine"
	"github.com/enbility/spine-go/util"

	"verifharness/h"
)

var shapeNames = []string{"none", "partial", "partial+selector", "delete+selector", "delete+elements", "delete+selector+elements", "delete+partial"}

// shapeList: n items with ids 1..n, value v+id, flags set
func shapeList(f, n, v int) any {
	if f == 1 {
		d := &model.LoadControlLimitListDataType{}
		for id := 1; id <= n; id++ {
			d.LoadControlLimitData = append(d.LoadControlLimitData, model.LoadControlLimitDataType{LimitId: util.Ptr(model.LoadControlLimitIdType(id)),
				IsLimitChangeable: util.Ptr(true), IsLimitActive: util.Ptr(false), Value: model.NewScaledNumberType(float64(v + id))})
		}
		return d
	}
	d := &model.SetpointListDataType{}
	for id := 1; id <= n; id++ {
		d.SetpointData = append(d.SetpointData, model.SetpointDataType{SetpointId: util.Ptr(model.SetpointIdType(id)),
			IsSetpointChangeable: util.Ptr(true), IsSetpointActive: util.Ptr(false), Value: model.NewScaledNumberType(float64(v + id))})
	}
	return d
}

// shapeItem: a list with one item: id (0 = no identifier), value v, active
func shapeItem(f, id, v int) any {
	if f == 1 {
		it := model.LoadControlLimitDataType{IsLimitActive: util.Ptr(true), Value: model.NewScaledNumberType(float64(v))}
		if id > 0 {
			it.LimitId = util.Ptr(model.LoadControlLimitIdType(id))
		}
		return &model.LoadControlLimitListDataType{LoadControlLimitData: []model.LoadControlLimitDataType{it}}
	}
	it := model.SetpointDataType{IsSetpointActive: util.Ptr(true), Value: model.NewScaledNumberType(float64(v))}
	if id > 0 {
		it.SetpointId = util.Ptr(model.SetpointIdType(id))
	}
	return &model.SetpointListDataType{SetpointData: []model.SetpointDataType{it}}
}

func shapeEmpty(f int) any {
	if f == 1 {
		return &model.LoadControlLimitListDataType{}
	}
	return &model.SetpointListDataType{}
}

// shapeFilter: a filter with the given control, selector on item id (0: none) and elements (0: none, 1: the value,
// 2: the active flag)
func shapeFilter(f int, del bool, sel, el int) *model.FilterType {
	ft := &model.FilterType{CmdControl: &model.CmdControlType{}}
	if del {
		ft.CmdControl.Delete = &model.ElementTagType{}
	} else {
		ft.CmdControl.Partial = &model.ElementTagType{}
	}
	if f == 1 {
		if sel > 0 {
			ft.LoadControlLimitListDataSelectors = &model.LoadControlLimitListDataSelectorsType{LimitId: util.Ptr(model.LoadControlLimitIdType(sel))}
		}
		switch el {
		case 1:
			ft.LoadControlLimitDataElements = &model.LoadControlLimitDataElementsType{Value: &model.ScaledNumberElementsType{}}
		case 2:
			ft.LoadControlLimitDataElements = &model.LoadControlLimitDataElementsType{IsLimitActive: &model.ElementTagType{}}
		}
		return ft
	}
	if sel > 0 {
		ft.SetpointListDataSelectors = &model.SetpointListDataSelectorsType{SetpointId: util.Ptr(model.SetpointIdType(sel))}
	}
	switch el {
	case 1:
		ft.SetpointDataElements = &model.SetpointDataElementsType{Value: &model.ScaledNumberElementsType{}}
	case 2:
		ft.SetpointDataElements = &model.SetpointDataElementsType{IsSetpointActive: &model.ElementTagType{}}
	}
	return ft
}

// shapeArgs: the arguments of UpdateData for "upd f shape id v el"
func shapeArgs(f, shape, id, v, el int) (data any, partial, del *model.FilterType) {
	switch shape {
	case 0: // no filter: the data is replaced
		return shapeList(f, 2, v), nil, nil
	case 1: // partial: el = 0 an item with its identifier (merged), el > 0 an item without (copied to all)
		if el == 0 {
			return shapeItem(f, id, v), model.NewFilterTypePartial(), nil
		}
		return shapeItem(f, 0, v), model.NewFilterTypePartial(), nil
	case 2: // partial with a selector: the item chosen by the selector takes the fields
		return shapeItem(f, 0, v), shapeFilter(f, false, id, 0), nil
	case 3: // delete the selected item
		return shapeEmpty(f), model.NewFilterTypePartial(), shapeFilter(f, true, id, 0)
	case 4: // delete elements of every item
		return shapeEmpty(f), model.NewFilterTypePartial(), shapeFilter(f, true, 0, 1+el%2)
	case 5: // delete elements of the selected item
		return shapeEmpty(f), model.NewFilterTypePartial(), shapeFilter(f, true, id, 1+el%2)
	}
	// delete the selected item and merge another one
	return shapeItem(f, 1+id%3, v), model.NewFilterTypePartial(), shapeFilter(f, true, id, 0)
}

type shapeStats struct{ changed, noopNotified, noopSilent, refused, withSubs int }

func shapeFunction(f int) (model.FunctionType, uint) {
	if f == 1 {
		return model.FunctionTypeLoadControlLimitListData, 1
	}
	return model.FunctionTypeSetpointListData, 2
}

// runShapeHistory: ops "peers N", "sub p f", "unsub p f", "set f n v", "upd f shape id v el"
func runShapeHistory(r *h.Report, ev *regEvents, base int, ops []string, st *shapeStats) {
	np := 3
	if len(ops) > 0 && strings.HasPrefix(ops[0], "peers ") {
		np = regAtoi(strings.Fields(ops[0])[1])
	}
	w := newRegWorld(np, ev, base)
	defer w.close()
	subs := map[int]map[int]bool{1: {}, 2: {}}
	var done []string
	for _, op := range ops {
		done = append(done, op)
		fs := strings.Fields(op)
		a := make([]int, len(fs))
		for i := range fs {
			a[i] = regAtoi(fs[i])
		}
		switch {
		case fs[0] == "peers":
		case (fs[0] == "sub" || fs[0] == "unsub") && len(fs) == 3:
			p, f := a[1], a[2]
			_, sf := shapeFunction(f)
			if p < 1 || p > np {
				continue
			}
			var err error
			pan := h.Recover(func() {
				if fs[0] == "sub" {
					err = w.l.SubscriptionManager().AddSubscription(w.rds[p], model.SubscriptionManagementRequestCallType{
						ClientAddress: regAddr(p, "1", sf), ServerAddress: regAddr(99, "1", sf), ServerFeatureType: util.Ptr(regTypeNames[f])})
				} else {
					err = w.l.SubscriptionManager().RemoveSubscription(model.SubscriptionManagementDeleteCallType{
						ClientAddress: regAddr(p, "1", sf), ServerAddress: regAddr(99, "1", sf)}, w.rds[p])
				}
			})
			if pan == nil && err == nil {
				subs[f][p] = fs[0] == "sub"
			}
			w.settle()
			w.log.take()
			r.Eval(fs[0], "")
		case (fs[0] == "set" && len(fs) == 4) || (fs[0] == "upd" && len(fs) == 6):
			f := a[1]
			if f != 1 && f != 2 {
				continue
			}
			fn, sf := shapeFunction(f)
			lf := w.l.FeatureByAddress(regAddr(99, "1", sf))
			if lf == nil {
				continue
			}
			before := shapeJSON(lf.DataCopy(fn))
			w.settle()
			w.log.take()
			var uerr *model.ErrorType
			kind := "set"
			pan := h.Recover(func() {
				if fs[0] == "set" {
					lf.SetData(fn, shapeList(f, a[2], a[3]))
				} else {
					kind = "upd " + shapeNames[((a[2]%7)+7)%7]
					data, fp, fd := shapeArgs(f, ((a[2]%7)+7)%7, a[3], a[4], a[5])
					uerr = lf.UpdateData(fn, data, fp, fd)
				}
			})
			w.settle()
			out := w.log.take()
			after := shapeJSON(lf.DataCopy(fn))
			if pan != nil {
				r.SpecFail("C08/data-change-panics", done, fmt.Sprint(pan))
				return
			}
			// notifications of this step, per peer: the carried data of those that come from the changed feature
			got := map[int][]string{}
			for _, o := range out {
				if o.d.Header.CmdClassifier == nil || *o.d.Header.CmdClassifier != model.CmdClassifierTypeNotify {
					continue
				}
				src := o.d.Header.AddressSource
				if src == nil || src.Feature == nil || h.EntStr(src.Entity) != "1" || uint(*src.Feature) != sf {
					r.SpecFail("C08/fanout-wrong-source", done, fmt.Sprintf("a change of 1/%d is notified with source %v", sf, src))
					continue
				}
				carried := "?"
				if len(o.d.Payload.Cmd) == 1 {
					if cd, err := o.d.Payload.Cmd[0].Data(); err == nil && cd.Function != nil && *cd.Function == fn {
						carried = shapeJSON(cd.Value)
					}
				}
				got[o.peer] = append(got[o.peer], carried)
			}
			nsubs, notified := 0, 0
			for p := 1; p <= np; p++ {
				if subs[f][p] {
					nsubs++
					if len(got[p]) > 0 {
						notified++
					}
				} else if len(got[p]) > 0 {
					r.SpecFail("C08/data-change-notifies-nonsubscriber", done, fmt.Sprintf("%s: peer %d has no subscription to 1/%d and was sent %d notification(s)", kind, p, sf, len(got[p])))
				}
				if len(got[p]) > 1 {
					r.SpecFail("C08/data-change-notified-twice", done, fmt.Sprintf("%s: peer %d was sent %d notifications for one change", kind, p, len(got[p])))
				}
				for _, c := range got[p] {
					if c != after {
						r.SpecFail("C08/fanout-data-is-not-the-stored-data", done, fmt.Sprintf("%s: peer %d was sent %s, the feature holds %s", kind, p, c, after))
					}
				}
			}
			changed := before != after
			if nsubs > 0 {
				st.withSubs++
			}
			switch {
			case uerr != nil:
				st.refused++
			case changed:
				st.changed++
				for p := 1; p <= np; p++ {
					if subs[f][p] && len(got[p]) == 0 {
						r.SpecFail("C08/changed-data-not-notified", done, fmt.Sprintf("%s changed the data of 1/%d from %s to %s; subscriber %d was sent no notification", kind, sf, before, after, p))
					}
				}
			case nsubs > 0 && notified == 0:
				st.noopSilent++
			case nsubs > 0 && notified == nsubs:
				st.noopNotified++
			case nsubs > 0:
				r.SpecFail("C08/unchanged-data-notified-to-some", done, fmt.Sprintf("%s left the data as it was and notified %d of %d subscribers", kind, notified, nsubs))
			}
			key := ""
			if changed && nsubs > 0 && uerr == nil {
				key = fmt.Sprintf("%s %v %s->%s", kind, subs[f], before, after)
			}
			r.Eval(kind, key)
		}
	}
	r.Traces++
}

func shapeJSON(v any) string {
	if util.IsNil(v) {
		return "null"
	}
	b, err := json.Marshal(v)
	if err != nil {
		return "!" + err.Error()
	}
	return string(b)
}

func genShapeHistory(rng regRng, n int) []string {
	np := 3
	ops := []string{fmt.Sprintf("peers %d", np)}
	for f := 1; f <= 2; f++ {
		ops = append(ops, fmt.Sprintf("sub 1 %d", f), fmt.Sprintf("sub 2 %d", f))
		ops = append(ops, fmt.Sprintf("set %d %d %d", f, 2+rng.Intn(2), 10*(1+rng.Intn(5))))
	}
	for i := 0; i < n; i++ {
		f := 1 + rng.Intn(2)
		switch k := rng.Intn(20); {
		case k == 0:
			ops = append(ops, fmt.Sprintf("sub 3 %d", f))
		case k == 1:
			ops = append(ops, fmt.Sprintf("unsub %d %d", 1+rng.Intn(3), f))
		case k == 2:
			ops = append(ops, fmt.Sprintf("sub %d %d", 1+rng.Intn(2), f))
		case k <= 4:
			ops = append(ops, fmt.Sprintf("set %d %d %d", f, 2+rng.Intn(2), 10*(1+rng.Intn(5))))
		default:
			ops = append(ops, fmt.Sprintf("upd %d %d %d %d %d", f, rng.Intn(7), 1+rng.Intn(3), 1+rng.Intn(60), rng.Intn(3)))
		}
	}
	return ops
}

func TestRegShapes(t *testing.T) {
	r := h.NewReport("regshapes", "FeatureLocal.UpdateData with the seven filter shapes (none, partial with and without identifiers, partial+selector, delete+selector, delete+elements, delete+selector+elements, delete+partial data) and SetData on two list functions holding 2-3 items, two subscribed peers with identical numbering and one without a subscription (subscriptions come and go); SPEC, model-free: the data the API reports is serialised before and after the call, a difference must reach every subscriber exactly once carrying the data as it is now and nobody else; exhaustive grid function x items x shape x selected item x element + random histories; non-trivial = a distinct (shape, subscribers, data before -> after) with a real change")
	defer r.Write()
	ev := &regEvents{}
	_ = spine.Events.Subscribe(ev)
	defer func() { _ = spine.Events.Unsubscribe(ev) }()
	var _ api.EventHandlerInterface = ev
	base := h.Baseline()
	st := &shapeStats{}
	run := func(ops []string) { runShapeHistory(r, ev, base, ops, st) }
	if ops := h.ReplayOps("regshapes"); ops != nil {
		run(ops)
		return
	}
	// exhaustive grid: every shape on freshly set data (2 and 3 items), every selected item, every element choice;
	// after each, the same call again (often a no-op)
	for f := 1; f <= 2; f++ {
		for n := 2; n <= 3; n++ {
			for shape := 0; shape < 7; shape++ {
				ops := []string{"peers 3", fmt.Sprintf("sub 1 %d", f), fmt.Sprintf("sub 2 %d", f)}
				for id := 1; id <= 3; id++ {
					for el := 0; el < 3; el++ {
						u := fmt.Sprintf("upd %d %d %d %d %d", f, shape, id, 7*id+el+1, el)
						ops = append(ops, fmt.Sprintf("set %d %d %d", f, n, 20), u, u)
					}
				}
				run(ops)
			}
		}
	}
	rng := h.Rng(83)
	for i, hist := 0, h.Scale(60, 600); i < hist; i++ {
		run(genShapeHistory(rng, 10+rng.Intn(20)))
	}
	if regClean(r, map[string]bool{}) {
		r.Floor("data changes that really change the data", st.changed, r.Evaluations, 0.20)
	}
	r.Info["changes"] = st.changed
	r.Info["unchanged_and_notified_not_judged"] = st.noopNotified
	r.Info["unchanged_and_silent_not_judged"] = st.noopSilent
	r.Info["refused_updates_not_judged"] = st.refused
	if len(r.SpecFailures) > 0 {
		for i := range r.SpecFailures {
			f := r.SpecFailures[i]
			small := h.Shrink(f.Ops, func(ops []string) bool {
				q := h.Quiet()
				runShapeHistory(q, ev, base, ops, &shapeStats{})
				return q.HasSpecFail(f.Key)
			})
			q := h.Quiet()
			runShapeHistory(q, ev, base, small, &shapeStats{})
			if q.HasSpecFail(f.Key) {
				r.ReplaceSpecFailOps(f.Key, small)
				for _, g := range q.SpecFailures { // the detail of the minimised history (peer numbers differ)
					if g.Key == f.Key {
						r.SpecFailures[i].Detail = g.Detail
					}
				}
			}
		}
	}
}
