package comp

// C14 — correspondence of Spine.CB (Lean) with FeatureLocal.AddResponseCallback
// / AddResultCallback and the inbound reply / result path, plus the SPEC
// monitor of the property evaluated on the implementation's own invocation log.
//
// World of one history: a local device with node management (feature 0) and
// HIERARCHICAL local entities whose features repeat the same feature ids:
//   1 LoadControl client @ [1] (id 1)    2 Setpoint client @ [1] (id 2)
//   3 LoadControl client @ [1,1] (id 1)  4 Setpoint client @ [1,1] (id 2)
//   5 LoadControl client @ [2] (id 1)    6 LoadControl client @ [2,1] (id 1)
// (parents are added first), and two peers, each discovered with node
// management and the two matching server features. Inbound traffic goes through
// DeviceRemote.HandleSpineMesssage as JSON.
//
// Ops (also the replay format):
//   reg f c cb        AddResponseCallback on feature f for counter c with function literal cb (1..3)
//   regres f cb       AddResultCallback on feature f
//   arr p f c kind    a datagram from peer p to feature f referencing c; kind:
//        reply       full reply, 1-2 list items        disc      discovery reply (f = 0), accepted
//        replypart   reply with a partial filter (items with identifiers, merged into the cached list)
//        replysel    reply with a partial filter and a selector     replydel  reply with a delete filter and a selector
//        result0/1   result without / with error       rejected  reply the feature rejects
//        noref       acceptable reply, no reference    notify    notify that carries a reference
//        badresult   result without error number       unknownsrc reply from an unknown remote feature
//
// Not generated: a datagram with classifier reply that carries resultData
// (node management treats it as a result, other features reject it — whether
// it is "a result" in the sense of the statement is open).

import (
	"encoding/json"
	"fmt"
	"reflect"
	"runtime"
	"sort"
	"strconv"
	"strings"
	"sync"
	"sync/atomic"
	"testing"
	"time"

	"github.com/enbility/spine-go/api"
	"github.com/enbility/spine-go/model"
	"github.com/enbility/spine-go/spine"
	"github.com/enbility/spine-go/util"
	"verifharness/h"
)

const cbkNMKey = "C14/nm-reply-skips-response-callbacks"

type cbkInv struct {
	reg    int
	result bool // invoked as result callback
	msg    api.ResponseMessage
}

type cbkLog struct {
	mu    sync.Mutex
	items []cbkInv
}

func (l *cbkLog) add(reg int, result bool, m api.ResponseMessage) {
	l.mu.Lock()
	l.items = append(l.items, cbkInv{reg, result, m})
	l.mu.Unlock()
}

// seen: has registration reg been invoked so far (the log is left as it is)
func (l *cbkLog) seen(reg int) bool {
	l.mu.Lock()
	defer l.mu.Unlock()
	for _, x := range l.items {
		if x.reg == reg {
			return true
		}
	}
	return false
}

func (l *cbkLog) take() []cbkInv {
	l.mu.Lock()
	defer l.mu.Unlock()
	x := l.items
	l.items = nil
	return x
}

// three distinct function literals = three distinct code pointers (closures of
// one literal share the pointer and are "the same callback" for AddResponseCallback)
func cbkMk1(l *cbkLog, reg int) func(api.ResponseMessage) {
	return func(m api.ResponseMessage) { l.add(reg, false, m) }
}
func cbkMk2(l *cbkLog, reg int) func(api.ResponseMessage) {
	return func(m api.ResponseMessage) { l.add(reg, false, m); _ = 2 }
}
func cbkMk3(l *cbkLog, reg int) func(api.ResponseMessage) {
	return func(m api.ResponseMessage) { _ = 3; l.add(reg, false, m) }
}
func cbkMkRes(l *cbkLog, reg int) func(api.ResponseMessage) {
	return func(m api.ResponseMessage) { l.add(reg, true, m) }
}

type cbkWorld struct {
	l      *spine.DeviceLocal
	feats  map[int]api.FeatureLocalInterface
	rds    map[int]api.DeviceRemoteInterface
	ws     map[int]*h.W
	log    *cbkLog
	ctr    uint64
	panics int
}

func cbkDiscovery(dev string) *model.NodeManagementDetailedDiscoveryDataType {
	feat := func(ent []uint, fid uint, ft model.FeatureTypeType, role model.RoleType) model.NodeManagementDetailedDiscoveryFeatureInformationType {
		return model.NodeManagementDetailedDiscoveryFeatureInformationType{Description: &model.NetworkManagementFeatureDescriptionDataType{FeatureAddress: h.FA(dev, ent, fid), FeatureType: &ft, Role: &role}}
	}
	ent := func(e []uint, et model.EntityTypeType) model.NodeManagementDetailedDiscoveryEntityInformationType {
		return model.NodeManagementDetailedDiscoveryEntityInformationType{Description: &model.NetworkManagementEntityDescriptionDataType{EntityAddress: &model.EntityAddressType{Device: util.Ptr(model.AddressDeviceType(dev)), Entity: spine.NewAddressEntityType(e)}, EntityType: &et}}
	}
	return &model.NodeManagementDetailedDiscoveryDataType{
		DeviceInformation: &model.NodeManagementDetailedDiscoveryDeviceInformationType{Description: &model.NetworkManagementDeviceDescriptionDataType{DeviceAddress: &model.DeviceAddressType{Device: util.Ptr(model.AddressDeviceType(dev))}}},
		EntityInformation: []model.NodeManagementDetailedDiscoveryEntityInformationType{ent([]uint{0}, model.EntityTypeTypeDeviceInformation), ent([]uint{1}, model.EntityTypeTypeEVSE), ent([]uint{1, 1}, model.EntityTypeTypeEV)},
		FeatureInformation: []model.NodeManagementDetailedDiscoveryFeatureInformationType{
			feat([]uint{0}, 0, model.FeatureTypeTypeNodeManagement, model.RoleTypeSpecial),
			feat([]uint{1}, 1, model.FeatureTypeTypeLoadControl, model.RoleTypeServer),
			feat([]uint{1}, 2, model.FeatureTypeTypeSetpoint, model.RoleTypeServer),
			feat([]uint{1, 1}, 1, model.FeatureTypeTypeLoadControl, model.RoleTypeServer)}, // remote sub-entity repeating feature id 1
	}
}

func cbkDev(p int) string { return fmt.Sprintf("dev%d", p) }
func cbkSki(p int) string { return fmt.Sprintf("ski%d", p) }

const cbkNFeat = 7

// cbkRemote: the number of the remote feature that talks to local feature f
// (0 node management, 1 LoadControl server, 2 Setpoint server).
func cbkRemote(f int) int {
	switch f {
	case 0:
		return 0
	case 2, 4:
		return 2
	}
	return 1
}

// cbkSrc is the address of the remote feature that talks to local feature f.
func cbkSrc(p, f int) *model.FeatureAddressType {
	if f == 0 {
		return h.FA(cbkDev(p), []uint{0}, 0)
	}
	if f == 3 || f == 6 { // the child LoadControl clients talk to the LoadControl server of the remote SUB-entity
		return h.FA(cbkDev(p), []uint{1, 1}, 1)
	}
	return h.FA(cbkDev(p), []uint{1}, uint(cbkRemote(f)))
}

// cbkSrcNum: peer*100 + depth of the remote entity*10 + feature number.
func cbkSrcNum(p int, a *model.FeatureAddressType) int {
	if a == nil || a.Feature == nil {
		return 0
	}
	return p*100 + len(a.Entity)*10 + int(*a.Feature)
}

func newCbkWorld(discover bool) *cbkWorld {
	l := spine.NewDeviceLocal("b", "m", "s", "c", "HEMS", model.DeviceTypeTypeEnergyManagementSystem, model.NetworkManagementFeatureSetTypeSmart)
	ent := func(a ...uint) *spine.EntityLocal {
		e := spine.NewEntityLocal(l, model.EntityTypeTypeCEM, spine.NewAddressEntityType(a), 4*time.Second)
		l.AddEntity(e)
		return e
	}
	e1, e11, e2, e21 := ent(1), ent(1, 1), ent(2), ent(2, 1) // parents first
	w := &cbkWorld{l: l, rds: map[int]api.DeviceRemoteInterface{}, ws: map[int]*h.W{}, log: &cbkLog{}, ctr: 500}
	lc := func(e *spine.EntityLocal) api.FeatureLocalInterface {
		return e.GetOrAddFeature(model.FeatureTypeTypeLoadControl, model.RoleTypeClient)
	}
	sp := func(e *spine.EntityLocal) api.FeatureLocalInterface {
		return e.GetOrAddFeature(model.FeatureTypeTypeSetpoint, model.RoleTypeClient)
	}
	w.feats = map[int]api.FeatureLocalInterface{0: l.NodeManagement(), 1: lc(e1), 2: sp(e1), 3: lc(e11), 4: sp(e11), 5: lc(e2), 6: lc(e21)}
	for p := 1; p <= 2; p++ {
		w.ws[p] = &h.W{}
		l.SetupRemoteDevice(cbkSki(p), w.ws[p])
		w.rds[p] = l.RemoteDeviceForSki(cbkSki(p))
		if discover {
			w.send(p, 0, model.CmdClassifierTypeReply, 1, util.Ptr(model.MsgCounterType(1)), cbkSrc(p, 0), model.CmdType{NodeManagementDetailedDiscoveryData: cbkDiscovery(cbkDev(p))})
		}
	}
	return w
}

func (w *cbkWorld) close() {
	for p := 1; p <= 2; p++ {
		w.l.RemoveRemoteDeviceConnection(cbkSki(p))
	}
}

func (w *cbkWorld) send(p, f int, cl model.CmdClassifierType, ctr uint64, ref *model.MsgCounterType, src *model.FeatureAddressType, c model.CmdType) {
	hd := model.HeaderType{AddressSource: src, AddressDestination: w.feats[f].Address(), MsgCounter: util.Ptr(model.MsgCounterType(ctr)), MsgCounterReference: ref, CmdClassifier: &cl}
	b, _ := json.Marshal(model.Datagram{Datagram: model.DatagramType{Header: hd, Payload: model.PayloadType{Cmd: []model.CmdType{c}}}})
	// a panic of the stack on a malformed datagram (reply without reference, result without error number: sites of
	// C05 in PrintMessageOverview) is C05's business; for C14 the message then simply was not delivered to a feature
	if pan := h.Recover(func() { _, _ = w.rds[p].HandleSpineMesssage(b) }); pan != nil {
		w.panics++
	}
}

// rejectedOnWire: did the stack answer message ctr of peer p with an error result?
func (w *cbkWorld) rejectedOnWire(p int, ctr uint64) bool {
	rej := false
	for _, m := range w.ws[p].Take() {
		var d model.Datagram
		if json.Unmarshal(m, &d) != nil || d.Datagram.Header.MsgCounterReference == nil || uint64(*d.Datagram.Header.MsgCounterReference) != ctr {
			continue
		}
		for _, c := range d.Datagram.Payload.Cmd {
			if c.ResultData != nil && c.ResultData.ErrorNumber != nil && *c.ResultData.ErrorNumber != 0 {
				rej = true
			}
		}
	}
	return rej
}

// cbkPayload builds the command of an arrival; data = what the callback must
// be handed (the received data of the function). List items carry a small
// identifier (so that partial replies merge into what earlier replies and
// notifies cached) and the arrival number as value.
func cbkPayload(f int, kind string, arrival int, p int) (cl model.CmdClassifierType, cmd model.CmdType, data any) {
	num := func(n int) *model.ScaledNumberType { return model.NewScaledNumberType(float64(n)) }
	id := 1 + arrival%3
	// list: a command for the function of local feature f with n items; filter = cmdOption filters
	list := func(n int, withID bool, filter []model.FilterType) (model.CmdType, any) {
		var fn *model.FunctionType
		if filter != nil {
			fn = util.Ptr(model.FunctionTypeLoadControlLimitListData)
			if cbkRemote(f) == 2 {
				fn = util.Ptr(model.FunctionTypeSetpointListData)
			}
		}
		if cbkRemote(f) == 2 {
			d := &model.SetpointListDataType{}
			for i := 0; i < n; i++ {
				it := model.SetpointDataType{Value: num(arrival), IsSetpointActive: util.Ptr(arrival%2 == 0)}
				if withID {
					it.SetpointId = util.Ptr(model.SetpointIdType(1 + (id-1+i)%3))
				}
				d.SetpointData = append(d.SetpointData, it)
			}
			return model.CmdType{Function: fn, Filter: filter, SetpointListData: d}, d
		}
		d := &model.LoadControlLimitListDataType{}
		for i := 0; i < n; i++ {
			it := model.LoadControlLimitDataType{Value: num(arrival), IsLimitActive: util.Ptr(arrival%2 == 0)}
			if withID {
				it.LimitId = util.Ptr(model.LoadControlLimitIdType(1 + (id-1+i)%3))
			}
			d.LoadControlLimitData = append(d.LoadControlLimitData, it)
		}
		return model.CmdType{Function: fn, Filter: filter, LoadControlLimitListData: d}, d
	}
	selector := func(fl *model.FilterType) model.FilterType {
		if cbkRemote(f) == 2 {
			fl.SetpointListDataSelectors = &model.SetpointListDataSelectorsType{SetpointId: util.Ptr(model.SetpointIdType(id))}
		} else {
			fl.LoadControlLimitListDataSelectors = &model.LoadControlLimitListDataSelectorsType{LimitId: util.Ptr(model.LoadControlLimitIdType(id))}
		}
		return *fl
	}
	good := func() (model.CmdType, any) {
		if f == 0 {
			d := &model.NodeManagementUseCaseDataType{UseCaseInformation: []model.UseCaseInformationDataType{{Actor: util.Ptr(model.UseCaseActorType("a" + strconv.Itoa(arrival)))}}}
			return model.CmdType{NodeManagementUseCaseData: d}, d
		}
		return list(1+arrival%2, true, nil)
	}
	switch kind {
	case "reply", "noref", "unknownsrc":
		c, d := good()
		return model.CmdClassifierTypeReply, c, d
	case "replypart": // partial filter, items addressed by their identifiers
		c, d := list(1+arrival%2, true, []model.FilterType{*model.NewFilterTypePartial()})
		return model.CmdClassifierTypeReply, c, d
	case "replysel": // partial filter with a selector, one item without identifier
		c, d := list(1, false, []model.FilterType{selector(model.NewFilterTypePartial())})
		return model.CmdClassifierTypeReply, c, d
	case "replydel": // delete filter with a selector (sometimes together with a partial filter and an item)
		del := selector(&model.FilterType{CmdControl: &model.CmdControlType{Delete: &model.ElementTagType{}}})
		if arrival%2 == 0 {
			c, d := list(1, true, []model.FilterType{del, *model.NewFilterTypePartial()})
			return model.CmdClassifierTypeReply, c, d
		}
		c, d := list(0, false, []model.FilterType{del})
		return model.CmdClassifierTypeReply, c, d
	case "notify":
		c, d := good()
		return model.CmdClassifierTypeNotify, c, d
	case "disc":
		d := cbkDiscovery(cbkDev(p))
		d.DeviceInformation.Description.Description = util.Ptr(model.DescriptionType("a" + strconv.Itoa(arrival)))
		return model.CmdClassifierTypeReply, model.CmdType{NodeManagementDetailedDiscoveryData: d}, d
	case "result0":
		d := &model.ResultDataType{ErrorNumber: util.Ptr(model.ErrorNumberType(0)), Description: util.Ptr(model.DescriptionType("a" + strconv.Itoa(arrival)))}
		return model.CmdClassifierTypeResult, model.CmdType{ResultData: d}, d
	case "result1":
		d := &model.ResultDataType{ErrorNumber: util.Ptr(model.ErrorNumberType(1 + arrival%7)), Description: util.Ptr(model.DescriptionType("a" + strconv.Itoa(arrival)))}
		return model.CmdClassifierTypeResult, model.CmdType{ResultData: d}, d
	case "badresult":
		d := &model.ResultDataType{Description: util.Ptr(model.DescriptionType("a" + strconv.Itoa(arrival)))}
		return model.CmdClassifierTypeResult, model.CmdType{ResultData: d}, d
	case "rejected":
		if f == 0 {
			d := &model.NodeManagementSubscriptionDataType{}
			return model.CmdClassifierTypeReply, model.CmdType{NodeManagementSubscriptionData: d}, d
		}
		d := &model.DeviceDiagnosisStateDataType{}
		return model.CmdClassifierTypeReply, model.CmdType{DeviceDiagnosisStateData: d}, d
	}
	panic("bad kind " + kind)
}

var cbkKinds = []string{"reply", "replypart", "replysel", "replydel", "disc", "result0", "result1", "rejected", "noref", "notify", "badresult", "unknownsrc"}

// cbkDataNum extracts the arrival number the harness put into the data (0 if it is not there).
func cbkDataNum(d any) int {
	num := func(s string) int { n, _ := strconv.Atoi(strings.TrimPrefix(s, "a")); return n }
	switch x := d.(type) {
	case *model.NodeManagementUseCaseDataType:
		if x != nil && len(x.UseCaseInformation) == 1 && x.UseCaseInformation[0].Actor != nil {
			return num(string(*x.UseCaseInformation[0].Actor))
		}
	case *model.LoadControlLimitListDataType:
		if x != nil && len(x.LoadControlLimitData) >= 1 && x.LoadControlLimitData[0].Value != nil {
			return int(x.LoadControlLimitData[0].Value.GetValue())
		}
	case *model.SetpointListDataType:
		if x != nil && len(x.SetpointData) >= 1 && x.SetpointData[0].Value != nil {
			return int(x.SetpointData[0].Value.GetValue())
		}
	case *model.ResultDataType:
		if x != nil && x.Description != nil {
			return num(string(*x.Description))
		}
	case *model.NodeManagementDetailedDiscoveryDataType:
		if x != nil && x.DeviceInformation != nil && x.DeviceInformation.Description != nil && x.DeviceInformation.Description.Description != nil {
			return num(string(*x.DeviceInformation.Description.Description))
		}
	}
	return 0
}

// cbkSrcCode: cbkSrcNum of the originating remote feature, as the invocation reports it.
func cbkSrcCode(m api.ResponseMessage) int {
	if m.FeatureRemote == nil || m.DeviceRemote == nil || m.FeatureRemote.Address() == nil || m.FeatureRemote.Address().Feature == nil {
		return 0
	}
	p, _ := strconv.Atoi(strings.TrimPrefix(m.DeviceRemote.Ski(), "ski"))
	return cbkSrcNum(p, m.FeatureRemote.Address())
}

// cbkSettle: h.Settle confirmed on three consecutive polls (runtime.NumGoroutine
// is computed without stopping the world and can transiently under-report).
func cbkSettle(base int) bool {
	t0 := time.Now()
	for time.Since(t0) < 6*time.Second {
		if !h.Settle(base) {
			return false
		}
		stable := true
		for i := 0; i < 3 && stable; i++ {
			runtime.Gosched()
			stable = runtime.NumGoroutine() <= base
		}
		if stable {
			return true
		}
	}
	return false
}

type cbkReg struct {
	reg, f, c, cb int
}

// cbkSpec is the SPEC state of C14, independent of the model: the callbacks
// that were registered (the call returned nil) and not yet invoked.
type cbkSpec struct {
	waiting []cbkReg // response callbacks
	res     []cbkReg // result callbacks
	count   map[int]int
}

func cbkJSON(x any) string { b, _ := json.Marshal(x); return string(b) }

// cbkRunHistory runs one history on the real code, on the model (d may be nil:
// probe) and through the monitor.
func cbkRunHistory(r *h.Report, d *h.Driver, ops []string, base int, info map[string]int) {
	w := newCbkWorld(true)
	defer func() { w.close(); cbkSettle(base) }()
	cbkSettle(base)
	for p := 1; p <= 2; p++ {
		w.ws[p].Take()
	}
	if d != nil {
		d.Ask("reset")
		d.Mark()
	}
	sp := &cbkSpec{count: map[int]int{}}
	var done []string
	nreg, arrival := 0, 100
	fired, refused, resFired := 0, 0, 0
	for _, op := range ops {
		f := strings.Fields(op)
		atoi := func(i int) int { n, _ := strconv.Atoi(f[i]); return n }
		var impl, line, kind string
		switch f[0] {
		case "reg":
			ft, c, cb := atoi(1), atoi(2), atoi(3)
			if w.feats[ft] == nil || cb < 1 || cb > 3 {
				panic("bad op " + op)
			}
			fn := []func(*cbkLog, int) func(api.ResponseMessage){cbkMk1, cbkMk2, cbkMk3}[cb-1](w.log, nreg)
			err := w.feats[ft].AddResponseCallback(model.MsgCounterType(c), fn)
			done = append(done, op)
			dup := false
			for _, x := range sp.waiting {
				if x.f == ft && x.c == c && x.cb == cb {
					dup = true
				}
			}
			// SPEC: the same callback twice for one counter is refused; another callback is not
			if dup && err == nil {
				r.SpecFail("C14/duplicate-registration-accepted", done, fmt.Sprintf("callback %d registered twice on feature %d for counter %d, the second call returned nil", cb, ft, c))
			}
			if !dup && err != nil {
				r.SpecFail("C14/distinct-callback-refused", done, fmt.Sprintf("callback %d on feature %d for counter %d refused (%v) although it is not registered for that counter", cb, ft, c, err))
			}
			if err != nil {
				impl, kind = "refused", "register:refused"
				refused++
			} else {
				impl, kind = fmt.Sprintf("reg%d", nreg), "register:ok"
				sp.waiting = append(sp.waiting, cbkReg{nreg, ft, c, cb})
				nreg++
			}
			line = fmt.Sprintf("register %d %d %d", ft, c, cb)
		case "regres":
			ft, cb := atoi(1), atoi(2)
			if w.feats[ft] == nil {
				panic("bad op " + op)
			}
			w.feats[ft].AddResultCallback(cbkMkRes(w.log, nreg))
			done = append(done, op)
			sp.res = append(sp.res, cbkReg{nreg, ft, 0, cb})
			impl, kind = fmt.Sprintf("reg%d", nreg), "regres"
			nreg++
			line = fmt.Sprintf("regres %d %d", ft, cb)
		case "arr":
			p, ft, c, k := atoi(1), atoi(2), atoi(3), f[4]
			if w.rds[p] == nil || w.feats[ft] == nil || (k == "disc" && ft != 0) || (ft == 0 && strings.HasPrefix(k, "reply") && k != "reply") {
				panic("bad op " + op)
			}
			arrival++
			w.ctr++
			cl, cmd, data := cbkPayload(ft, k, arrival, p)
			ref := util.Ptr(model.MsgCounterType(c))
			if k == "noref" {
				ref = nil
			}
			src := cbkSrc(p, ft)
			if k == "unknownsrc" {
				src = h.FA(cbkDev(p), []uint{7}, 7)
			}
			w.log.take()
			w.ws[p].Take()
			w.send(p, ft, cl, w.ctr, ref, src, cmd)
			done = append(done, op)
			if !cbkSettle(base) {
				r.SpecFail("C14/callback-blocked", done, "the callbacks of an arrival did not return within the settle bound")
				return
			}
			inv := w.log.take()
			rejected := w.rejectedOnWire(p, w.ctr)
			// what kind of arrival is it in the words of the statement?
			isResult := k == "result0" || k == "result1"
			isAcceptedReply := k == "reply" || k == "disc" || k == "replypart" || k == "replysel" || k == "replydel"
			qualifies := isResult || isAcceptedReply
			srcCode := cbkSrcNum(p, cbkSrc(p, ft))
			// SPEC, first sentence
			got := map[int]int{}
			gotRes := map[int]int{}
			for _, x := range inv {
				if x.result {
					gotRes[x.reg]++
				} else {
					got[x.reg]++
				}
			}
			var still []cbkReg
			for _, x := range sp.waiting {
				exp := qualifies && x.f == ft && x.c == c
				n := got[x.reg]
				switch {
				case exp && n == 0:
					key := "C14/callback-not-invoked"
					if ft == 0 && isAcceptedReply {
						key = cbkNMKey
					}
					r.SpecFail(key, done, fmt.Sprintf("callback registration %d on feature %d for counter %d was not invoked by the %s from peer %d referencing %d", x.reg, ft, c, k, p, c))
					still = append(still, x) // it keeps waiting; a later arrival may still serve it
				case exp && n > 1:
					r.SpecFail("C14/callback-invoked-twice", done, fmt.Sprintf("registration %d invoked %d times by one arrival", x.reg, n))
				case !exp && n > 0:
					r.SpecFail("C14/callback-invoked-for-other-message", done, fmt.Sprintf("registration %d (feature %d, counter %d) invoked by a %s for feature %d referencing %s", x.reg, x.f, x.c, k, ft, f[3]))
				case !exp:
					still = append(still, x)
				}
				if n > 0 {
					sp.count[x.reg] += n
				}
				delete(got, x.reg)
			}
			sp.waiting = still
			for reg, n := range got {
				// a registration that is not waiting any more (or never existed) was invoked
				r.SpecFail("C14/callback-invoked-twice", done, fmt.Sprintf("registration %d was invoked (%d times) although it had been invoked before", reg, n))
			}
			// SPEC, second sentence
			for _, x := range sp.res {
				exp := isResult && x.f == ft
				n := gotRes[x.reg]
				switch {
				case exp && n == 0:
					r.SpecFail("C14/result-callback-not-invoked", done, fmt.Sprintf("result callback %d on feature %d not invoked by the %s referencing %d", x.reg, ft, k, c))
				case exp && n > 1:
					r.SpecFail("C14/result-callback-invoked-twice", done, fmt.Sprintf("result callback %d invoked %d times by one result", x.reg, n))
				case !exp && n > 0:
					r.SpecFail("C14/result-callback-invoked-for-other-message", done, fmt.Sprintf("result callback %d on feature %d invoked by a %s for feature %d", x.reg, x.f, k, ft))
				}
				delete(gotRes, x.reg)
			}
			for reg := range gotRes {
				r.SpecFail("C14/result-callback-invoked-for-other-message", done, fmt.Sprintf("unknown result callback %d invoked", reg))
			}
			// SPEC: the invocation carries the reference, the received data, the originating remote feature
			want := cbkJSON(data)
			var respS, resS []string
			for _, x := range inv {
				m := x.msg
				if uint64(m.MsgCounterReference) != uint64(c) {
					r.SpecFail("C14/callback-wrong-reference", done, fmt.Sprintf("registration %d handed reference %d for an arrival referencing %d", x.reg, m.MsgCounterReference, c))
				}
				if cbkJSON(m.Data) != want || reflect.TypeOf(m.Data) != reflect.TypeOf(data) {
					r.SpecFail("C14/callback-wrong-data", done, fmt.Sprintf("registration %d handed %T %s, the arrival carried %T %s", x.reg, m.Data, cbkJSON(m.Data), data, want))
				}
				if cbkSrcCode(m) != srcCode || m.FeatureRemote == nil || cbkJSON(m.FeatureRemote.Address()) != cbkJSON(src) || m.FeatureLocal == nil || m.FeatureLocal.Address().String() != w.feats[ft].Address().String() {
					r.SpecFail("C14/callback-wrong-origin", done, fmt.Sprintf("registration %d handed origin %v (peer %s), the arrival came from %v of peer %d", x.reg, m.FeatureRemote, m.DeviceRemote.Ski(), src, p))
				}
				s := fmt.Sprintf("%d:%d:%d", x.reg, cbkDataNum(m.Data), cbkSrcCode(m))
				if x.result {
					resS = append(resS, s)
					resFired++
				} else {
					respS = append(respS, s)
					fired++
				}
				if info != nil && !x.result {
					info["response-callback-invocations"]++
				}
			}
			show := func(x []string) string {
				if len(x) == 0 {
					return "."
				}
				sort.Slice(x, func(i, j int) bool {
					a, _ := strconv.Atoi(strings.SplitN(x[i], ":", 2)[0])
					b, _ := strconv.Atoi(strings.SplitN(x[j], ":", 2)[0])
					return a < b
				})
				return strings.Join(x, ",")
			}
			// the harness's own assumption about acceptance, cross-checked on the wire (after the monitor has spoken)
			if isAcceptedReply && rejected {
				r.Mismatch(done, "reply answered with an error result", "reply accepted", "harness assumption: a "+k+" arrival is an accepted reply")
				return
			}
			if k == "rejected" && !rejected {
				r.Mismatch(done, "reply not answered with an error result", "reply rejected", "harness assumption: a rejected arrival is answered with an error result")
				return
			}
			impl = show(respS) + "|" + show(resS)
			kind = "arrive:" + k
			if len(inv) > 0 {
				kind += ":invoked"
			}
			reply, acc := 1, h.B2i(qualifies)
			if isResult || k == "badresult" {
				reply = 0
			}
			line = fmt.Sprintf("arrive %d %d %d %d %d %d %d", arrival, ft, c, reply, acc, cbkDataNum(data), srcCode)
		default:
			panic("bad op " + op)
		}
		if d == nil {
			continue
		}
		want := d.Ask(line)
		r.Eval(kind, "")
		if impl != want {
			r.Mismatch(done, impl, want, "callbacks op "+op+" as "+line)
			return
		}
	}
	if info != nil {
		info["arrivals-on-which-the-stack-panicked-before-dispatch(C05)"] += w.panics
	}
	r.Traces++
	if fired > 0 && refused > 0 && resFired > 0 {
		r.Case(strings.Join(ops, "; "))
		r.Dist["history:nontrivial"]++
	}
}

// cbkFamilies: local features that share a feature id and whose entity
// addresses extend one another (parent, child).
var cbkFamilies = [][2]int{{1, 3}, {2, 4}, {5, 6}}

func cbkGenHistory(rng interface{ Intn(int) int }, n int) []string {
	var ops []string
	nc := 1 + rng.Intn(4) // 1..4 counters
	// the features of this history: three or four of the seven, mostly with a parent / child pair among them
	var active []int
	if rng.Intn(4) > 0 {
		fam := cbkFamilies[rng.Intn(len(cbkFamilies))]
		active = append(active, fam[0], fam[1])
	}
	for len(active) < 3+rng.Intn(2) {
		f := rng.Intn(cbkNFeat)
		dup := false
		for _, a := range active {
			dup = dup || a == f
		}
		if !dup {
			active = append(active, f)
		}
	}
	for i := 0; i < n; i++ {
		f, c := active[rng.Intn(len(active))], 1+rng.Intn(nc)
		switch x := rng.Intn(100); {
		case x < 34:
			ops = append(ops, fmt.Sprintf("reg %d %d %d", f, c, 1+rng.Intn(3)))
		case x < 40:
			ops = append(ops, fmt.Sprintf("regres %d %d", f, 1+rng.Intn(3)))
		default:
			p := 1 + rng.Intn(2)
			var k string
			switch y := rng.Intn(100); {
			case y < 24:
				k = "reply"
			case y < 32:
				k = "replypart"
			case y < 38:
				k = "replysel"
			case y < 42:
				k = "replydel"
			case y < 47:
				k = "disc"
			case y < 60:
				k = "result0"
			case y < 72:
				k = "result1"
			case y < 80:
				k = "rejected"
			case y < 86:
				k = "noref"
			case y < 91:
				k = "notify"
			case y < 96:
				k = "badresult"
			default:
				k = "unknownsrc"
			}
			if f == 0 && strings.HasPrefix(k, "reply") {
				k = "reply"
			}
			if f != 0 && k == "disc" {
				k = "reply"
			}
			if rng.Intn(12) == 0 {
				c = 9 // a reference nobody registered for
			}
			ops = append(ops, fmt.Sprintf("arr %d %d %d %s", p, f, c, k))
		}
	}
	return ops
}

// cbkCrossPeer (DESIGN §8 C14, observation within the letter of the statement):
// counters are per connection, the registry is keyed by (feature, counter).
// Two real requests to two peers; the callback meant for the second peer's
// answer is registered for that request's counter. Returns how many
// invocations came from a peer other than the one the request went to.
func cbkCrossPeer(r *h.Report, base int) (other int, detail string) {
	w := newCbkWorld(true)
	defer func() { w.close(); cbkSettle(base) }()
	cbkSettle(base)
	lc := w.feats[1]
	rfA := w.rds[1].FeatureByAddress(cbkSrc(1, 1))
	rfB := w.rds[2].FeatureByAddress(cbkSrc(2, 1))
	if rfA == nil || rfB == nil {
		return 0, "remote features missing"
	}
	mcA, e1 := lc.RequestRemoteData(model.FunctionTypeLoadControlLimitListData, nil, nil, rfA)
	mcB, e2 := lc.RequestRemoteData(model.FunctionTypeLoadControlLimitListData, nil, nil, rfB)
	if e1 != nil || e2 != nil || mcA == nil || mcB == nil {
		return 0, "requests failed"
	}
	errA := lc.AddResponseCallback(*mcA, cbkMk1(w.log, 1)) // meant for peer 1
	errB := lc.AddResponseCallback(*mcB, cbkMk2(w.log, 2)) // meant for peer 2
	var seq []string
	for _, p := range []int{1, 2} {
		ref := *mcA
		if p == 2 {
			ref = *mcB
		}
		_, cmd, _ := cbkPayload(1, "reply", 700+p, p)
		w.ctr++
		w.send(p, 1, model.CmdClassifierTypeReply, w.ctr, &ref, cbkSrc(p, 1), cmd)
		cbkSettle(base)
		for _, x := range w.log.take() {
			from := strings.TrimPrefix(x.msg.DeviceRemote.Ski(), "ski")
			seq = append(seq, fmt.Sprintf("callback-meant-for-peer-%d invoked by peer %s", x.reg, from))
			if from != strconv.Itoa(x.reg) {
				other++
			}
		}
	}
	r.Eval("cross-peer", "")
	return other, fmt.Sprintf("counters of the two requests: %d (peer 1), %d (peer 2); registrations: %v, %v; %s", *mcA, *mcB, errA, errB, strings.Join(seq, "; "))
}

// cbkConcurrent: registrations race with arrivals (monitor only). For every
// (feature, counter) three callbacks are registered from three goroutines
// while each of the two peers delivers — sequentially per connection, as a
// SHIP connection does — matching arrivals for every (feature, counter); a
// final matching arrival follows when everything is quiet. SPEC: every
// registration that returned nil is invoked exactly once, by an arrival for
// its own feature and counter, with that arrival's data and reference.
func cbkConcurrent(r *h.Report, base int, round int) {
	ops := []string{fmt.Sprintf("concurrent round %d: per (feature, counter) 3 registering goroutines, 2 peers delivering matching arrivals, then one final arrival", round)}
	w := newCbkWorld(true)
	defer func() { w.close(); cbkSettle(base) }()
	cbkSettle(base)
	type key struct{ f, c int }
	type regInfo struct {
		k  key
		ok bool
	}
	var mu sync.Mutex
	regs := map[int]regInfo{}
	arrOf := map[int]key{} // arrival number -> (feature, counter) it was sent for
	var wg sync.WaitGroup
	kindFor := func(f, i int) string {
		if f == 0 || i%2 == 1 { // node management: results only (its replies are the known deviation, covered sequentially)
			return "result0"
		}
		return "reply"
	}
	var keys []key
	for _, f := range []int{0, 1, 3} { // node management, a parent feature, its child with the same feature id
		for c := 1; c <= 3; c++ {
			keys = append(keys, key{f, c})
		}
	}
	rng := h.Rng(int64(1400 + round))
	regID := 0
	for _, k := range keys {
		for g := 0; g < 3; g++ {
			id, k := regID, k
			regID++
			mk := []func(*cbkLog, int) func(api.ResponseMessage){cbkMk1, cbkMk2, cbkMk3}[g]
			wg.Add(1)
			delay := time.Duration(rng.Intn(400)) * time.Microsecond // pacing only: spreads the registrations over the delivery phase
			go func() {
				defer wg.Done()
				time.Sleep(delay)
				err := w.feats[k.f].AddResponseCallback(model.MsgCounterType(k.c), mk(w.log, id))
				mu.Lock()
				regs[id] = regInfo{k, err == nil}
				mu.Unlock()
			}()
		}
	}
	for p := 1; p <= 2; p++ {
		order := rng.Perm(len(keys))
		wg.Add(1)
		go func(p int) {
			defer wg.Done()
			for i, ki := range order {
				k := keys[ki]
				arr := 1000*p + i
				mu.Lock()
				arrOf[arr] = k
				mu.Unlock()
				cl, cmd, _ := cbkPayload(k.f, kindFor(k.f, i+p), arr, p)
				w.send(p, k.f, cl, uint64(600+arr), util.Ptr(model.MsgCounterType(k.c)), cbkSrc(p, k.f), cmd)
			}
		}(p)
	}
	wg.Wait()
	cbkSettle(base)
	for i, k := range keys {
		arr := 5000 + i
		arrOf[arr] = k
		cl, cmd, _ := cbkPayload(k.f, kindFor(k.f, 1), arr, 1)
		w.send(1, k.f, cl, uint64(600+arr), util.Ptr(model.MsgCounterType(k.c)), cbkSrc(1, k.f), cmd)
	}
	if !cbkSettle(base) {
		r.SpecFail("C14/callback-blocked", ops, "callbacks did not return")
		return
	}
	count := map[int]int{}
	early := 0
	for _, x := range w.log.take() {
		count[x.reg]++
		ri := regs[x.reg]
		n := cbkDataNum(x.msg.Data)
		ak, known := arrOf[n]
		if !known || ak != ri.k || int(x.msg.MsgCounterReference) != ri.k.c {
			r.SpecFail("C14/callback-invoked-for-other-message", ops, fmt.Sprintf("registration %d for (feature %d, counter %d) invoked with reference %d and data of arrival %d sent for %v", x.reg, ri.k.f, ri.k.c, x.msg.MsgCounterReference, n, ak))
		}
		if n < 5000 {
			early++
		}
	}
	for id, ri := range regs {
		switch {
		case !ri.ok:
			r.SpecFail("C14/distinct-callback-refused", ops, fmt.Sprintf("registration %d refused although its callback is registered nowhere else", id))
		case count[id] == 0:
			r.SpecFail("C14/callback-not-invoked", ops, fmt.Sprintf("registration %d for (feature %d, counter %d) never invoked although a matching arrival came after it had returned", id, ri.k.f, ri.k.c))
		case count[id] > 1:
			r.SpecFail("C14/callback-invoked-twice", ops, fmt.Sprintf("registration %d invoked %d times", id, count[id]))
		}
	}
	r.Eval("concurrent-round", "")
	r.Dist["concurrent:registrations"] += len(regs)
	r.Dist["concurrent:served-by-a-racing-arrival"] += early
}

// cbkConcurrentSame: "registering the same callback twice for one counter is refused" when the registrations come from
// several goroutines at once (monitor only). Per round G pairs of goroutines; each pair walks through K fresh
// counters of its own and registers the SAME function (closures of one function literal: one code pointer, the
// identity AddResponseCallback uses) for each; before every counter the two wait for each other (a spinning barrier
// with a bound: whoever comes first spins until the other is there), so that both calls start within nanoseconds of
// each other whenever both goroutines are on a processor - hundreds of such moments per round. Per counter exactly
// one call may be accepted; then, for a sample of the counters, one matching reply arrives: exactly one invocation.
func cbkConcurrentSame(r *h.Report, base int, rounds int) {
	const groups, k, sample = 4, 128, 4
	w := newCbkWorld(true)
	defer func() { w.close(); cbkSettle(base) }()
	cbkSettle(base)
	next := 1000
	for round := 0; round < rounds; round++ {
		first := next
		next += groups * k
		ops := []string{fmt.Sprintf("concurrent-same round %d: %d pairs of goroutines, each pair registers the same function for each of its %d counters (from %d on) of feature 1 at the same moment, then one reply per sampled counter", round, groups, k, first)}
		// two other functions wait for the sampled counters already (the duplicate check has something to go through)
		for g := 0; g < groups; g++ {
			for j := 0; j < k; j += k / sample {
				_ = w.feats[1].AddResponseCallback(model.MsgCounterType(first+g*k+j), cbkMk2(w.log, 50000))
				_ = w.feats[1].AddResponseCallback(model.MsgCounterType(first+g*k+j), cbkMk3(w.log, 50001))
			}
		}
		var wg sync.WaitGroup
		var accepted, arrived [groups][k]int32
		for g := 0; g < groups; g++ {
			for half := 0; half < 2; half++ {
				g := g
				wg.Add(1)
				go func() {
					defer wg.Done()
					for j := 0; j < k; j++ {
						f := cbkMk1(w.log, 100000+g*k+j) // the registration id names the counter
						atomic.AddInt32(&arrived[g][j], 1)
						for spin := 0; atomic.LoadInt32(&arrived[g][j]) < 2 && spin < 200000; spin++ {
						}
						if w.feats[1].AddResponseCallback(model.MsgCounterType(first+g*k+j), f) == nil {
							atomic.AddInt32(&accepted[g][j], 1)
						}
					}
				}()
			}
		}
		wg.Wait()
		r.Eval("concurrent-same-round", "")
		for g := 0; g < groups; g++ {
			for j := 0; j < k; j++ {
				switch a := atomic.LoadInt32(&accepted[g][j]); {
				case a == 0:
					r.SpecFail("C14/distinct-callback-refused", ops, fmt.Sprintf("both registrations of a function that was registered nowhere for counter %d were refused", first+g*k+j))
					return
				case a > 1:
					// the reply that follows shows what it means
					ctr := model.MsgCounterType(first + g*k + j)
					_, cmd, _ := cbkPayload(1, "reply", 9000, 1)
					w.ctr++
					w.send(1, 1, model.CmdClassifierTypeReply, w.ctr, &ctr, cbkSrc(1, 1), cmd)
					cbkSettle(base)
					inv := 0
					for _, x := range w.log.take() {
						if x.reg == 100000+g*k+j {
							inv++
						}
					}
					r.SpecFail("C14/same-callback-registered-twice", ops, fmt.Sprintf("two goroutines registered the same function (one code pointer) for counter %d of one feature at the same moment: %d of the calls were accepted (the statement: registering the same callback twice for one counter is refused); the one reply that followed invoked it %d times", ctr, a, inv))
					return
				}
			}
		}
		for g := 0; g < groups; g++ {
			for j := 0; j < k; j += k / sample {
				ctr := model.MsgCounterType(first + g*k + j)
				_, cmd, _ := cbkPayload(1, "reply", 9000+j, 1)
				w.ctr++
				w.send(1, 1, model.CmdClassifierTypeReply, w.ctr, &ctr, cbkSrc(1, 1), cmd)
			}
		}
		if !cbkSettle(base) {
			r.SpecFail("C14/callback-blocked", ops, "callbacks did not return")
			return
		}
		inv := map[int]int{}
		for _, x := range w.log.take() {
			if x.reg >= 100000 {
				inv[x.reg-100000]++ // (the two other functions are invoked as well: not counted)
			}
		}
		for g := 0; g < groups; g++ {
			for j := 0; j < k; j += k / sample {
				if inv[g*k+j] != 1 {
					r.SpecFail("C14/callback-invoked-twice", ops, fmt.Sprintf("counter %d: one registration accepted, one matching reply: %d invocations", first+g*k+j, inv[g*k+j]))
					return
				}
			}
		}
	}
	r.Info["concurrent-same"] = fmt.Sprintf("%d rounds of %d pairs of goroutines registering one function for each of %d counters at the same moment: one accepted per counter, one invocation per sampled counter", rounds, groups, k)
}

const cbkReentryKey = "C14/callback-reentry-blocks-delivery"

// the re-entering callback: a function literal of its own (a fourth code pointer)
func cbkMkReent(l *cbkLog, reg int, act func()) func(api.ResponseMessage) {
	return func(m api.ResponseMessage) { l.add(reg, false, m); act(); _ = 4 }
}

// cbkWithin: done closes within `bound` of KEPT time (h.Kept: the time the reference goroutine of this process has
// witnessed - a stall of the whole process does not count, so the other goroutines had a fair chance).
func cbkWithin(done <-chan struct{}, bound time.Duration) bool {
	t0 := time.Now()
	for {
		select {
		case <-done:
			return true
		case <-time.After(time.Millisecond):
		}
		if h.Kept(t0) >= bound {
			select {
			case <-done:
				return true
			default:
				return false
			}
		}
	}
}

// cbkReentry (round 5): WHERE the callbacks run. A callback may call back into the feature it was registered on -
// the request chain: the callback of request 1 registers the callback of follow-up request 2 - so an invocation must
// neither hold the registry mutex nor keep the message-processing goroutine from returning. Per case a fresh world;
// 1 or 3 callbacks wait for one counter, the first of them re-enters the feature (registers a follow-up callback
// for the next counter / adds a result callback / reads data / sets the approval timeout) or is slow (blocks until
// released, while another goroutine registers a callback on the same feature); the arrival comes as reply, as result,
// on a child feature and on node management. SPEC: HandleSpineMesssage returns and the concurrent registration
// returns within a bound of kept time; every registration - the follow-up ones included - is invoked exactly once by
// its own arrival. Returns false after a violation (a blocked goroutine stays behind: the baseline is gone).
func cbkReentry(r *h.Report, base int, skips bool) bool {
	type path struct {
		name string
		f    int
		kind string
	}
	paths := []path{{"reply", 1, "reply"}, {"result", 1, "result0"}, {"reply-child-feature", 3, "reply"}, {"result-node-management", 0, "result1"}}
	if !skips {
		paths = append(paths, path{"reply-node-management", 0, "reply"})
	}
	actions := []string{"add-response-callback", "add-result-callback", "data-copy", "read-api", "set-approval-timeout", "slow"}
	const bound = 2 * time.Second
	for _, pa := range paths {
		for _, n := range []int{1, 3} {
			for _, action := range actions {
				ops := []string{fmt.Sprintf("reentry path=%s callbacks-for-the-counter=%d first-callback=%s", pa.name, n, action)}
				w := newCbkWorld(true)
				cbkSettle(base)
				w.log.take()
				feat := w.feats[pa.f]
				const c = 7
				var entered, reentered int32
				release := make(chan struct{})
				act := func() {
					atomic.StoreInt32(&entered, 1)
					switch action {
					case "add-response-callback":
						_ = feat.AddResponseCallback(c+1, cbkMk2(w.log, 10))
					case "add-result-callback":
						feat.AddResultCallback(cbkMkRes(w.log, 11))
					case "data-copy":
						_ = feat.DataCopy(model.FunctionTypeLoadControlLimitListData)
					case "read-api":
						_, _, _ = feat.Functions(), feat.Description(), feat.Operations()
					case "set-approval-timeout":
						feat.SetWriteApprovalTimeout(time.Second)
					case "slow":
						<-release
					}
					atomic.StoreInt32(&reentered, 1)
				}
				mks := []func(api.ResponseMessage){cbkMkReent(w.log, 0, act), cbkMk2(w.log, 1), cbkMk3(w.log, 2)}
				for i := 0; i < n; i++ {
					if err := feat.AddResponseCallback(c, mks[i]); err != nil {
						r.SpecFail("C14/distinct-callback-refused", ops, fmt.Sprintf("registration %d refused: %v", i, err))
						return false
					}
				}
				arrive := func(kind string, ref int, arrival int) chan struct{} {
					done := make(chan struct{})
					w.ctr++
					ctr := w.ctr
					go func() {
						defer close(done)
						cl, cmd, _ := cbkPayload(pa.f, kind, arrival, 1)
						w.send(1, pa.f, cl, ctr, util.Ptr(model.MsgCounterType(ref)), cbkSrc(1, pa.f), cmd)
					}()
					return done
				}
				done := arrive(pa.kind, c, 800)
				if action == "slow" {
					// wait (bounded) until the callback runs, then register from another goroutine
					t0 := time.Now()
					for atomic.LoadInt32(&entered) == 0 && h.Kept(t0) < bound {
						time.Sleep(200 * time.Microsecond)
					}
					if atomic.LoadInt32(&entered) == 0 {
						close(release)
						r.SpecFail("C14/callback-not-invoked", ops, "the callback was not invoked by the arrival referencing its counter")
						return false
					}
					regDone := make(chan struct{})
					go func() {
						defer close(regDone)
						_ = feat.AddResponseCallback(c+2, cbkMk3(w.log, 12))
					}()
					ok := cbkWithin(regDone, bound)
					// round 7: the callbacks of one counter are independent of each other - while the first one is still
					// running (it may be waiting for something a sibling does) the others must have been invoked
					sibs := true
					for i := 1; i < n && sibs; i++ {
						t1 := time.Now()
						for !w.log.seen(i) && h.Kept(t1) < bound {
							time.Sleep(200 * time.Microsecond)
						}
						sibs = w.log.seen(i)
					}
					close(release)
					if !sibs {
						r.SpecFail("C14/running-callback-holds-up-siblings", ops, fmt.Sprintf("%d callbacks wait for counter %d; while the first one was still running the others were not invoked within %v of kept time: a callback that waits for what a sibling does is never followed by that sibling", n, c, bound))
						return false
					}
					if !ok {
						r.SpecFail("C14/running-callback-blocks-registration", ops, fmt.Sprintf("while a callback invoked for counter %d was still running, AddResponseCallback for counter %d on the same feature from another goroutine did not return within %v of kept time: the callback runs inside the registry's critical section", c, c+2, bound))
						return false
					}
				}
				if !cbkWithin(done, bound) {
					r.SpecFail(cbkReentryKey, ops, fmt.Sprintf("HandleSpineMesssage of the %s referencing counter %d did not return within %v of kept time (callback entered=%v, its call back into the feature returned=%v): the callback is invoked on the message-processing goroutine while the registry mutex is held, so a callback that registers the follow-up callback (the request chain) blocks delivery for ever", pa.kind, c, bound, atomic.LoadInt32(&entered) == 1, atomic.LoadInt32(&reentered) == 1))
					return false
				}
				t0 := time.Now()
				for atomic.LoadInt32(&reentered) == 0 && h.Kept(t0) < bound {
					time.Sleep(200 * time.Microsecond)
				}
				if !cbkSettle(base) || atomic.LoadInt32(&reentered) == 0 {
					r.SpecFail(cbkReentryKey, ops, fmt.Sprintf("the callback's call back into the feature did not return (entered=%v)", atomic.LoadInt32(&entered) == 1))
					return false
				}
				// the follow-up arrival
				want := map[int][2]int{} // registration -> (reference, arrival) it must be invoked with
				for i := 0; i < n; i++ {
					want[i] = [2]int{c, 800}
				}
				var d2 chan struct{}
				switch action {
				case "add-response-callback":
					d2 = arrive(pa.kind, c+1, 801)
					want[10] = [2]int{c + 1, 801}
				case "add-result-callback":
					d2 = arrive("result0", 99, 802)
					want[11] = [2]int{99, 802}
				case "slow":
					d2 = arrive(pa.kind, c+2, 803)
					want[12] = [2]int{c + 2, 803}
				}
				if d2 != nil && !cbkWithin(d2, bound) {
					r.SpecFail(cbkReentryKey, ops, "HandleSpineMesssage of the follow-up arrival did not return")
					return false
				}
				if !cbkSettle(base) {
					r.SpecFail("C14/callback-blocked", ops, "callbacks did not return")
					return false
				}
				count := map[int]int{}
				for _, x := range w.log.take() {
					wa, known := want[x.reg]
					if x.reg == 11 && strings.HasPrefix(pa.kind, "result") && cbkDataNum(x.msg.Data) == 800 {
						continue // the result callback added while the result message was being delivered may see that message's own result section
					}
					count[x.reg]++
					if !known || int(x.msg.MsgCounterReference) != wa[0] || cbkDataNum(x.msg.Data) != wa[1] {
						r.SpecFail("C14/callback-invoked-for-other-message", ops, fmt.Sprintf("registration %d invoked with reference %d and data of arrival %d, expected %v", x.reg, x.msg.MsgCounterReference, cbkDataNum(x.msg.Data), wa))
						return false
					}
				}
				for id := range want {
					switch {
					case count[id] == 0:
						r.SpecFail("C14/callback-not-invoked", ops, fmt.Sprintf("registration %d (0..2: the callbacks of the counter, 10: follow-up response callback registered from inside the callback, 11: result callback added from inside, 12: registered while the callback ran) never invoked by its arrival", id))
						return false
					case count[id] > 1:
						r.SpecFail("C14/callback-invoked-twice", ops, fmt.Sprintf("registration %d invoked %d times", id, count[id]))
						return false
					}
				}
				w.close()
				cbkSettle(base)
				r.Eval("reentry-case", "")
				r.Dist["reentry:"+action]++
			}
		}
	}
	// a RESULT callback that re-enters: it registers a response callback for the follow-up request
	for _, f := range []int{1, 0} {
		ops := []string{fmt.Sprintf("reentry result-callback of feature %d registers a response callback, then a result and the follow-up arrival", f)}
		w := newCbkWorld(true)
		cbkSettle(base)
		w.log.take()
		feat := w.feats[f]
		var once int32
		feat.AddResultCallback(func(m api.ResponseMessage) {
			w.log.add(20, true, m)
			if atomic.AddInt32(&once, 1) == 1 {
				_ = feat.AddResponseCallback(31, cbkMk2(w.log, 10))
				_, _, _ = feat.Functions(), feat.Description(), feat.DataCopy(model.FunctionTypeLoadControlLimitListData)
			}
		})
		for i, a := range []struct {
			kind string
			ref  int
		}{{"result0", 30}, {"result1", 31}} {
			done := make(chan struct{})
			w.ctr++
			ctr, a, arrival := w.ctr, a, 810+i
			go func() {
				defer close(done)
				cl, cmd, _ := cbkPayload(f, a.kind, arrival, 1)
				w.send(1, f, cl, ctr, util.Ptr(model.MsgCounterType(a.ref)), cbkSrc(1, f), cmd)
			}()
			if !cbkWithin(done, bound) {
				r.SpecFail(cbkReentryKey, ops, fmt.Sprintf("HandleSpineMesssage of result %d (reference %d) did not return within %v of kept time: a result callback is invoked on the message-processing goroutine while a mutex of the feature that the callback needs (registry mutex, data or description mutex) is held", i+1, a.ref, bound))
				return false
			}
			if !cbkSettle(base) {
				r.SpecFail(cbkReentryKey, ops, "the result callback's call back into the feature did not return")
				return false
			}
		}
		nRes, nFollow := 0, 0
		for _, x := range w.log.take() {
			switch x.reg {
			case 20:
				nRes++
			case 10:
				nFollow++
				if int(x.msg.MsgCounterReference) != 31 || cbkDataNum(x.msg.Data) != 811 {
					r.SpecFail("C14/callback-invoked-for-other-message", ops, fmt.Sprintf("follow-up callback invoked with reference %d, data of arrival %d", x.msg.MsgCounterReference, cbkDataNum(x.msg.Data)))
					return false
				}
			}
		}
		if nRes != 2 {
			r.SpecFail("C14/result-callback-count", ops, fmt.Sprintf("two results referencing requests: the result callback was invoked %d times", nRes))
			return false
		}
		if nFollow != 1 {
			r.SpecFail("C14/callback-not-invoked", ops, fmt.Sprintf("the response callback registered from inside the result callback for counter 31 was invoked %d times by the result referencing 31", nFollow))
			return false
		}
		w.close()
		cbkSettle(base)
		r.Eval("reentry-case", "")
		r.Dist["reentry:result-callback-reenters"]++
	}
	r.Info["reentry"] = fmt.Sprintf("%d paths x {1,3} callbacks per counter x %d behaviours of the first callback (re-entering the feature / slow with a concurrent registration): delivery returned, every registration invoked exactly once", len(paths), len(actions))
	return true
}

func TestCallbacks(t *testing.T) {
	r := h.NewReport("callbacks", "random histories of AddResponseCallback (3 function literals, 1-4 counters, node management + 6 client features on hierarchical local entities [1],[1,1],[2],[2,1] with repeated feature ids), AddResultCallback and inbound datagrams from two peers (full replies, replies with partial / partial+selector / delete filters merged into cached list data, discovery replies, results with and without error, rejected replies, replies without reference, notifies with reference, malformed results, unknown source) through HandleSpineMesssage, compared op by op with Spine.CB (registrations invoked by the arrival with the data and origin handed over); non-trivial = a history with a response-callback invocation, a refused registration and a result-callback invocation (distinct by op text). Concurrent registration rounds and the cross-peer observation: SPEC monitor only.")
	defer r.Write()
	h.JitterStart() // before the baseline: the reference goroutine of h.Kept stays
	// warm-up: one world built and torn down, then the goroutine baseline at a quiescent point
	newCbkWorld(true).close()
	base := h.Baseline()
	// probe phase (DESIGN §4.7): which member of the model family is the tree under test?
	nmWitness := []string{"reg 0 1 1", "arr 1 0 1 reply"}
	nmWitness2 := []string{"reg 0 1 1", "arr 1 0 1 disc"}
	q1, q2 := h.Quiet(), h.Quiet()
	cbkRunHistory(q1, nil, nmWitness, base, nil)
	cbkRunHistory(q2, nil, nmWitness2, base, nil)
	skips := q1.HasSpecFail(cbkNMKey) || q2.HasSpecFail(cbkNMKey)
	detail := "a callback registered on node management for the counter of a use-case / discovery request is invoked by the accepted reply"
	if skips {
		detail = fmt.Sprintf("a callback registered on node management is not invoked by the accepted reply referencing its counter (use-case reply: skipped=%v, discovery reply: skipped=%v)", q1.HasSpecFail(cbkNMKey), q2.HasSpecFail(cbkNMKey))
	}
	r.SetFlag("nmReplySkipsCallbacks", skips, nmWitness, detail)
	var args []string
	if !skips {
		args = []string{"fixed"}
	}
	for _, q := range []*h.Report{q1, q2} {
		for _, k := range q.SpecFailKeys() {
			if k != cbkNMKey {
				r.SpecFail(k, nmWitness, "found by the probe of the node-management flag")
			}
		}
	}
	d := h.StartDriver("drv_cb", args...)
	defer d.Close()
	d.Ask("reset")
	base = h.Baseline()
	info := map[string]int{}
	if ops := h.ReplayOps("callbacks"); ops != nil {
		if len(ops) > 0 && strings.HasPrefix(ops[0], "concurrent-same") {
			cbkConcurrentSame(r, base, h.Scale(150, 1000))
			return
		}
		if len(ops) > 0 && strings.HasPrefix(ops[0], "concurrent") {
			cbkConcurrent(r, base, 0)
			return
		}
		if len(ops) > 0 && strings.HasPrefix(ops[0], "reentry") {
			cbkReentry(r, base, skips)
			return
		}
		cbkRunHistory(r, d, ops, base, info)
		return
	}
	// corpus first: the known-finding witnesses, then the shapes the statement names
	corpus := [][]string{
		nmWitness,
		nmWitness2,
		{"reg 0 2 1", "reg 0 2 2", "arr 2 0 2 result0", "arr 2 0 2 reply"},                                                                                                                                       // node management: results do invoke
		{"reg 1 1 1", "reg 1 1 1", "reg 1 1 2", "arr 1 1 1 reply", "arr 1 1 1 reply", "reg 1 1 1", "arr 2 1 1 result1"},                                                                                          // duplicate refused, repeated reply, re-registration
		{"reg 1 1 1", "arr 1 1 2 reply", "arr 1 2 1 reply", "arr 1 1 1 rejected", "arr 1 1 1 noref", "arr 1 1 1 notify", "arr 1 1 1 badresult", "arr 1 1 1 unknownsrc", "arr 2 1 1 reply"},                       // never for another reference / feature / message kind
		{"regres 1 1", "regres 1 1", "regres 2 1", "arr 1 1 1 reply", "arr 1 1 1 result0", "arr 2 1 3 result1", "arr 1 2 1 result0", "arr 1 1 1 noref", "arr 1 1 1 badresult"},                                   // result callbacks
		{"reg 1 1 1", "reg 1 2 1", "reg 1 3 1", "reg 2 1 2", "arr 1 1 9 reply", "arr 2 1 9 notify", "arr 1 1 1 replypart", "arr 1 1 2 replysel", "arr 1 1 3 replydel", "arr 1 2 9 reply", "arr 1 2 1 replypart"}, // the received data, not the merged cache: partial / selector / delete replies onto cached data
		{"reg 1 1 1", "reg 3 1 2", "reg 5 1 1", "reg 6 1 1", "regres 3 1", "arr 1 3 1 reply", "arr 1 1 1 reply", "arr 2 6 1 result0", "arr 2 5 1 reply", "arr 1 3 2 result1"},                                    // same feature id in parent and child entity, equal counters
		{"regres 0 1", "reg 0 1 1", "arr 1 0 1 result1", "arr 1 0 1 reply", "arr 2 0 1 disc"},                                                                                                                    // result callbacks on node management
	}
	for _, c := range corpus {
		cbkRunHistory(r, d, c, base, info)
	}
	if !cbkReentry(r, base, skips) {
		r.Info["rest"] = "skipped: a goroutine of the re-entry rounds is blocked for ever, the goroutine baseline is gone"
		return
	}
	other, cp := cbkCrossPeer(r, base)
	r.Info["cross-peer: invocations by a peer other than the one the request went to"] = other
	r.Info["cross-peer: trace"] = cp
	rng := h.Rng(14)
	hist := h.Scale(2000, 40000)
	for i := 0; i < hist; i++ {
		cbkRunHistory(r, d, cbkGenHistory(rng, 25+rng.Intn(35)), base, info)
		if r.MismatchN > 3 {
			break
		}
	}
	for k, v := range info {
		r.Info[k] = v
	}
	// minimise
	for _, sf := range append([]h.SpecFailure{}, r.SpecFailures...) {
		if sf.Key == cbkNMKey || len(sf.Ops) < 4 || strings.HasPrefix(sf.Ops[0], "concurrent") {
			continue
		}
		key := sf.Key
		small := h.Shrink(sf.Ops, func(ops []string) bool {
			q := h.Quiet()
			cbkRunHistory(q, d, ops, base, nil)
			return q.HasSpecFail(key)
		})
		r.ReplaceSpecFailOps(key, small)
	}
	if len(r.Mismatches) > 0 {
		mm := r.Mismatches[0]
		small := h.Shrink(mm.Ops, func(ops []string) bool {
			q := h.Quiet()
			cbkRunHistory(q, d, ops, base, nil)
			return q.MismatchN > 0
		})
		q := h.Quiet()
		cbkRunHistory(q, d, small, base, nil)
		if q.MismatchN > 0 {
			r.ReplaceMismatch(0, small, q.Mismatches[0].Impl, q.Mismatches[0].Model)
		}
	} else {
		arr, inv, regOK, regRef := 0, 0, r.Dist["register:ok"], r.Dist["register:refused"]
		for k, n := range r.Dist {
			if strings.HasPrefix(k, "arrive:") {
				arr += n
				if strings.HasSuffix(k, ":invoked") {
					inv += n
				}
			}
		}
		r.Floor("arrivals that invoked a callback", inv, arr, 0.15)
		r.Floor("refused registrations", regRef, regOK+regRef, 0.03)
		r.Floor("histories with response invocation, refusal and result invocation", r.Dist["history:nontrivial"], r.Traces, 0.30)
	}
	for _, k := range r.SpecFailKeys() {
		if k != cbkNMKey {
			// keep the sequential (replayable, minimised) witness; the concurrent rounds would only repeat the finding
			r.Info["concurrent-rounds"] = "skipped: the sequential part already found " + k
			return
		}
	}
	for round := 0; round < h.Scale(60, 600); round++ {
		cbkConcurrent(r, base, round)
	}
	cbkConcurrentSame(r, base, h.Scale(150, 1000))
}
