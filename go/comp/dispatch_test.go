package comp

// C01, C03 — correspondence of Spine.Disp (Lean) with DeviceLocal.ProcessCmd, FeatureLocal/NodeManagement
// .HandleMessage, the write gate and the binding / subscription registries behind it, driven through
// DeviceRemote.HandleSpineMesssage with real datagrams from up to three peers with identical numbering; plus two
// SPEC monitors that do not consult the model:
//   C01: the classifier rule table of the property statement evaluated on the complete outbound trace of ALL peers
//   C03: data digests (public API) before/after, notifications, data-change events, exactly one error to a denied
//        writer, acceptance following a SPEC binding registry folded from the observed grant / delete / entity
//        removed / disconnect operations.

import (
	"encoding/json"
	"fmt"
	"os"
	"reflect"
	"regexp"
	"sort"
	"strconv"
	"strings"
	"sync"
	"testing"
	"time"

	"github.com/enbility/spine-go/api"
	"github.com/enbility/spine-go/model"
	"github.com/enbility/spine-go/spine"
	"github.com/enbility/spine-go/util"
	"verifharness/h"
)

// ---------- function and feature-type tables, read from the code under test

var (
	dispFnID    map[string]int // function name -> id on the line protocol
	dispFnName  map[int]string
	dispFnField map[string]int // function name -> field index in model.CmdType
	dispTypes   []model.FeatureTypeType
	dispTypeID  map[model.FeatureTypeType]int
	dispFdsMemo = map[model.FeatureTypeType][]int{}
	dispOnce    sync.Once
)

var dispSpecialFn = map[string]int{"resultData": 900, "nodeManagementDetailedDiscoveryData": 901, "nodeManagementUseCaseData": 902,
	"nodeManagementDestinationListData": 903, "nodeManagementSubscriptionData": 904, "nodeManagementBindingData": 905}

const (
	dispFnLimit  = "loadControlLimitListData"
	dispLocalDev = "HEMS"
)

func dispInit() {
	dispOnce.Do(func() {
		dispFnID, dispFnName, dispFnField = map[string]int{}, map[int]string{}, map[string]int{}
		t := reflect.TypeOf(model.CmdType{})
		var names []string
		for i := 0; i < t.NumField(); i++ {
			sf := t.Field(i)
			if sf.Name == "Function" || sf.Name == "Filter" || sf.Type.Kind() != reflect.Ptr {
				continue
			}
			fct := model.EEBusTags(sf)[model.EEBusTagFunction]
			if fct == "" {
				continue
			}
			names = append(names, fct)
			dispFnField[fct] = i
		}
		sort.Strings(names)
		for i, n := range names {
			id := i + 1
			if s, ok := dispSpecialFn[n]; ok {
				id = s
			}
			dispFnID[n], dispFnName[id] = id, n
		}
		// Generic first (id 0, the model's wildcard type); the list is literal: Go has no reflection over constants
		dispTypes = []model.FeatureTypeType{model.FeatureTypeTypeGeneric,
			model.FeatureTypeTypeActuatorLevel, model.FeatureTypeTypeActuatorSwitch, model.FeatureTypeTypeAlarm, model.FeatureTypeTypeDataTunneling,
			model.FeatureTypeTypeDeviceClassification, model.FeatureTypeTypeDeviceDiagnosis, model.FeatureTypeTypeDirectControl,
			model.FeatureTypeTypeElectricalConnection, model.FeatureTypeTypeHvac, model.FeatureTypeTypeLoadControl, model.FeatureTypeTypeMeasurement,
			model.FeatureTypeTypeMessaging, model.FeatureTypeTypeNetworkManagement, model.FeatureTypeTypeNodeManagement,
			model.FeatureTypeTypeOperatingConstraints, model.FeatureTypeTypePowerSequences, model.FeatureTypeTypeSensing, model.FeatureTypeTypeSetpoint,
			model.FeatureTypeTypeSmartEnergyManagementPs, model.FeatureTypeTypeTaskManagement, model.FeatureTypeTypeThreshold,
			model.FeatureTypeTypeTimeInformation, model.FeatureTypeTypeTimeTable, model.FeatureTypeTypeDeviceConfiguration,
			model.FeatureTypeTypeSupplyCondition, model.FeatureTypeTypeTimeSeries, model.FeatureTypeTypeTariffInformation,
			model.FeatureTypeTypeIncentiveTable, model.FeatureTypeTypeBill, model.FeatureTypeTypeIdentification, model.FeatureTypeTypeStateInformation}
		dispTypeID = map[model.FeatureTypeType]int{}
		for i, ft := range dispTypes {
			dispTypeID[ft] = i
		}
	})
}

// dispFds: the functions the code registers for a feature type (spine.CreateFunctionData), as protocol ids.
func dispFds(ft model.FeatureTypeType) []int {
	if v, ok := dispFdsMemo[ft]; ok {
		return v
	}
	var out []int
	for _, fd := range spine.CreateFunctionData[api.FunctionDataCmdInterface](ft) {
		out = append(out, dispFnID[string(fd.FunctionType())])
	}
	sort.Ints(out)
	dispFdsMemo[ft] = out
	return out
}

func dispHas(l []int, x int) bool {
	for _, y := range l {
		if y == x {
			return true
		}
	}
	return false
}

func dispCSV(l []int) string {
	if len(l) == 0 {
		return "-"
	}
	var p []string
	for _, x := range l {
		p = append(p, strconv.Itoa(x))
	}
	return strings.Join(p, ",")
}

// pool of feature types the variable local features are drawn from (types with registered functions; LoadControl is
// the fixed type, NodeManagement and Generic are special)
func dispTypePool() []model.FeatureTypeType {
	var out []model.FeatureTypeType
	for _, ft := range dispTypes {
		if ft == model.FeatureTypeTypeGeneric || ft == model.FeatureTypeTypeNodeManagement || ft == model.FeatureTypeTypeLoadControl {
			continue
		}
		if len(dispFds(ft)) > 0 {
			out = append(out, ft)
		}
	}
	return out
}

// dispCmd builds the payload for a function: an empty value of the function's data type, except result data
// (error number 0) and load-control limits with a value variant v > 0 (three changeable limits, or one for a
// partial write).
func dispCmd(fn int, v int, part bool) model.CmdType {
	name := dispFnName[fn]
	cmd := model.CmdType{}
	fv := reflect.ValueOf(&cmd).Elem().Field(dispFnField[name])
	fv.Set(reflect.New(fv.Type().Elem()))
	switch {
	case fn == 900:
		cmd.ResultData = &model.ResultDataType{ErrorNumber: util.Ptr(model.ErrorNumberType(0))}
	case name == dispFnLimit && v > 0:
		cmd.LoadControlLimitListData = dispLimits(v, part)
	}
	if part {
		cmd.Function = util.Ptr(model.FunctionType(name))
		cmd.Filter = []model.FilterType{*model.NewFilterTypePartial()}
	}
	return cmd
}

func dispLimits(v int, part bool) *model.LoadControlLimitListDataType {
	mk := func(id int) model.LoadControlLimitDataType {
		return model.LoadControlLimitDataType{LimitId: util.Ptr(model.LoadControlLimitIdType(id)), IsLimitChangeable: util.Ptr(true),
			IsLimitActive: util.Ptr((v+id)%2 == 0), Value: model.NewScaledNumberType(float64(v*10 + id))}
	}
	if part {
		return &model.LoadControlLimitListDataType{LoadControlLimitData: []model.LoadControlLimitDataType{mk(1 + v%3)}}
	}
	return &model.LoadControlLimitListDataType{LoadControlLimitData: []model.LoadControlLimitDataType{mk(1), mk(2), mk(3)}}
}

// dispLimitsApplied: does the stored limit list (JSON from DataCopy) hold what write variant v carried - the whole
// list for a full write, the written limit among the stored ones for a partial write
func dispLimitsApplied(stored string, v int, part bool) bool {
	var got model.LoadControlLimitListDataType
	if err := json.Unmarshal([]byte(stored), &got); err != nil {
		return false
	}
	want := dispLimits(v, part)
	if !part {
		a, _ := json.Marshal(got)
		b, _ := json.Marshal(want)
		return string(a) == string(b)
	}
	wi, _ := json.Marshal(want.LoadControlLimitData[0])
	for _, it := range got.LoadControlLimitData {
		if gi, _ := json.Marshal(it); string(gi) == string(wi) {
			return len(got.LoadControlLimitData) == 3
		}
	}
	return false
}

func dispFnOf(c model.CmdType) int {
	d, err := c.Data()
	if err != nil || d.Function == nil {
		return -1
	}
	return dispFnID[string(*d.Function)]
}

// ---------- the world

type dispRemFeat struct {
	ent  []uint
	feat uint
	typ  model.FeatureTypeType
	role model.RoleType
}

type dispPeer struct {
	w        *h.W
	rd       api.DeviceRemoteInterface
	ski, dev string
	readReqs []uint64 // counters of the read requests the stack sent on this connection
}

type dispEvent struct {
	typ     api.EventType
	change  api.ElementChangeType
	ski     string
	cls     string
	fn      string
	local   string // address of the local feature, when given
	feature string // address of the remote feature, when given
}

type dispEvents struct {
	mu  sync.Mutex
	evs []dispEvent
}

func (e *dispEvents) HandleEvent(p api.EventPayload) {
	ev := dispEvent{typ: p.EventType, change: p.ChangeType, ski: p.Ski, fn: string(p.Function)}
	if p.CmdClassifier != nil {
		ev.cls = string(*p.CmdClassifier)
	}
	if p.LocalFeature != nil {
		ev.local = h.AddrS(p.LocalFeature.Address())
	}
	if p.Feature != nil {
		ev.feature = h.AddrS(p.Feature.Address())
	}
	e.mu.Lock()
	e.evs = append(e.evs, ev)
	e.mu.Unlock()
}

func (e *dispEvents) take() []dispEvent {
	e.mu.Lock()
	defer e.mu.Unlock()
	v := e.evs
	e.evs = nil
	return v
}

const dispNPeers = 3

type dispWorld struct {
	l      *spine.DeviceLocal
	peers  [dispNPeers + 1]*dispPeer
	closed []dispClosed // writers of removed connections
	rem    []dispRemFeat
	cfg    []string // the loc / rem lines of the model configuration
	apr    map[string]int // local server features ("ent/feat") that carry write approval callbacks -> how many
}

// dispAprDenies: the verdict of the approval callbacks of a world is an INPUT of the history - a function of the
// write's message counter: every fourth write is denied (by the first callback; the others approve), the rest is
// approved by all
func dispAprDenies(ctr uint64) bool { return ctr%4 == 3 }

// addApproval registers n approval callbacks on a server feature. Every callback answers at once: callback 0 from
// inside the callback, the others from a goroutine of their own (an application that hands the decision on)
func (w *dispWorld) addApproval(fl api.FeatureLocalInterface, n int) {
	if w.apr == nil {
		w.apr = map[string]int{}
	}
	for i := 0; i < n; i++ {
		i := i
		err := fl.AddWriteApprovalCallback(func(m *api.Message) {
			if m == nil || m.RequestHeader == nil || m.RequestHeader.MsgCounter == nil {
				return // (such writes are not sent to features with approval callbacks: ApproveOrDenyWrite needs the counter)
			}
			verdict := model.ErrorType{ErrorNumber: 0}
			if i == 0 && dispAprDenies(uint64(*m.RequestHeader.MsgCounter)) {
				verdict = model.ErrorType{ErrorNumber: model.ErrorNumberTypeGeneralError, Description: util.Ptr(model.DescriptionType("denied by the application"))}
			}
			if i == 0 {
				fl.ApproveOrDenyWrite(m, verdict)
			} else {
				cp := *m // ... and queues the message by value
				done := make(chan struct{})
				go func() { defer close(done); fl.ApproveOrDenyWrite(&cp, verdict) }()
				<-done
			}
		})
		if err != nil {
			panic(err)
		}
	}
	a := fl.Address()
	w.apr[fmt.Sprintf("%s/%d", h.EntStr(a.Entity), *a.Feature)] = n
}

func dispEnt(e []uint) []model.AddressEntityType { return spine.NewAddressEntityType(e) }

// dispNewWorld builds the local device from a world op: `world T2 T3 T4 seed`.
func dispNewWorld(op string) *dispWorld {
	f := strings.Fields(op)
	t2, t3, t4 := model.FeatureTypeType(f[1]), model.FeatureTypeType(f[2]), model.FeatureTypeType(f[3])
	seed, _ := strconv.Atoi(f[4])
	w := &dispWorld{}
	l := spine.NewDeviceLocal("b", "m", "s", "c", dispLocalDev, model.DeviceTypeTypeEnergyManagementSystem, model.NetworkManagementFeatureSetTypeSmart)
	w.l = l
	bit := 0
	flag := func() bool { bit++; return (seed>>(uint(bit)%20))&1 == 1 || bit%5 == 1 }
	addAll := func(fl api.FeatureLocalInterface, ft model.FeatureTypeType) {
		for i, fn := range dispFds(ft) {
			if dispFnName[fn] == string(model.FunctionTypeDeviceDiagnosisHeartbeatData) {
				continue // announcing it starts the heartbeat timer, which writes data and notifies on its own (C16)
			}
			// read-write, read-only, WRITE-ONLY (announced without read), announced with no operation at all, and - every
			// fifth function with data - not announced at all: the write gate must follow the ANNOUNCEMENT
			wr := flag()
			rd := true
			switch k := (seed>>uint(i%7) + i) % 6; {
			case k == 0:
				rd = false // write-only, or (wr false) announced without any operation
			case k == 5 && i%5 == 4:
				continue // function data exists, nothing announced
			}
			fl.AddFunctionType(model.FunctionType(dispFnName[fn]), rd, wr)
		}
	}
	e1 := spine.NewEntityLocal(l, model.EntityTypeTypeCEM, dispEnt([]uint{1}), 4*time.Second)
	l.AddEntity(e1)
	lc := e1.GetOrAddFeature(model.FeatureTypeTypeLoadControl, model.RoleTypeServer) // [1]/1
	lc.AddFunctionType(model.FunctionTypeLoadControlLimitListData, true, true)
	lc.AddFunctionType(model.FunctionTypeLoadControlLimitDescriptionListData, true, false)
	lc.AddFunctionType(model.FunctionTypeMeasurementListData, true, true) // announced writable, but no function data on this type
	lc.AddFunctionType(model.FunctionTypeLoadControlLimitConstraintsListData, false, true) // WRITE-ONLY: announced writable, not readable
	// (loadControlNodeData has function data on this type and is not announced at all)
	lc.SetData(model.FunctionTypeLoadControlLimitListData, dispLimits(1, false))
	addAll(e1.GetOrAddFeature(t2, model.RoleTypeServer), t2)                   // [1]/2
	e1.GetOrAddFeature(model.FeatureTypeTypeLoadControl, model.RoleTypeClient) // [1]/3
	e2 := spine.NewEntityLocal(l, model.EntityTypeTypeCEM, dispEnt([]uint{2}), 4*time.Second)
	l.AddEntity(e2)
	addAll(e2.GetOrAddFeature(t3, model.RoleTypeServer), t3)                          // [2]/1
	lc2 := e2.GetOrAddFeature(model.FeatureTypeTypeLoadControl, model.RoleTypeServer) // [2]/2
	lc2.AddFunctionType(model.FunctionTypeLoadControlLimitListData, true, true)
	lc2.AddFunctionType(model.FunctionTypeLoadControlLimitConstraintsListData, true, false)
	lc2.SetData(model.FunctionTypeLoadControlLimitListData, dispLimits(2, false))
	e2.GetOrAddFeature(t4, model.RoleTypeClient) // [2]/3
	// `apr=K` (optional sixth token): server features that carry write approval callbacks. bit 0: [2]/2 (one callback),
	// bit 1: [1]/1 (two callbacks), bit 2: the generic server features [1]/2 and [2]/1 (one / two callbacks)
	for _, t := range f[5:] {
		if strings.HasPrefix(t, "apr=") {
			k, _ := strconv.Atoi(t[4:])
			if k&1 != 0 {
				w.addApproval(lc2, 1)
			}
			if k&2 != 0 {
				w.addApproval(lc, 2)
			}
			if k&4 != 0 {
				w.addApproval(e1.FeatureOfAddress(util.Ptr(model.AddressFeatureType(2))), 1)
				w.addApproval(e2.FeatureOfAddress(util.Ptr(model.AddressFeatureType(1))), 2)
			}
		}
	}
	w.rem = []dispRemFeat{
		{[]uint{0}, 0, model.FeatureTypeTypeNodeManagement, model.RoleTypeSpecial},
		{[]uint{1}, 1, model.FeatureTypeTypeLoadControl, model.RoleTypeClient},
		{[]uint{1}, 2, t2, model.RoleTypeClient},
		{[]uint{1}, 3, model.FeatureTypeTypeGeneric, model.RoleTypeClient},
		{[]uint{1}, 4, model.FeatureTypeTypeLoadControl, model.RoleTypeServer},
		{[]uint{2}, 1, t3, model.RoleTypeClient},
		{[]uint{2}, 2, model.FeatureTypeTypeLoadControl, model.RoleTypeClient},
		{[]uint{2}, 3, t4, model.RoleTypeServer},
		// sub-entities that repeat the feature numbers (and types) of their parents: the registries and the write gate
		// are keyed by the exact entity address, [1] is not [1,1]
		{[]uint{1, 1}, 1, model.FeatureTypeTypeLoadControl, model.RoleTypeClient},
		{[]uint{1, 1}, 2, t2, model.RoleTypeClient},
		{[]uint{1, 2}, 1, model.FeatureTypeTypeLoadControl, model.RoleTypeClient},
		{[]uint{2, 1}, 1, t3, model.RoleTypeClient},
		{[]uint{2, 1}, 2, model.FeatureTypeTypeLoadControl, model.RoleTypeClient},
	}
	// the model's configuration, read back from the real objects
	for _, e := range l.Entities() {
		for _, fl := range e.Features() {
			a := fl.Address()
			var ops []string
			for fn, o := range fl.Operations() {
				ops = append(ops, fmt.Sprintf("%d:%d", dispFnID[string(fn)], h.B2i(o.Write())))
			}
			sort.Strings(ops)
			opsS := "-"
			if len(ops) > 0 {
				opsS = strings.Join(ops, ",")
			}
			w.cfg = append(w.cfg, fmt.Sprintf("loc %s %d %d %s %d %s %s", h.EntStr(a.Entity), *a.Feature, dispTypeID[fl.Type()], fl.Role(),
				h.B2i(fl.Type() == model.FeatureTypeTypeNodeManagement), dispCSV(dispFds(fl.Type())), opsS))
		}
	}
	for _, rf := range w.rem {
		w.cfg = append(w.cfg, fmt.Sprintf("rem %s %d %d %s %s", h.EntU(rf.ent), rf.feat, dispTypeID[rf.typ], rf.role, dispCSV(dispFds(rf.typ))))
	}
	return w
}

func (w *dispWorld) inject(p int, d model.DatagramType) (pan any) {
	defer func() { pan = recover() }()
	b, err := json.Marshal(model.Datagram{Datagram: d})
	if err != nil {
		panic(err)
	}
	_, _ = w.peers[p].rd.HandleSpineMesssage(b)
	return nil
}

// ents: the entity addresses every peer announces, in announcement order
func (w *dispWorld) ents() [][]uint {
	var out [][]uint
	seen := map[string]bool{}
	for _, rf := range w.rem {
		if k := h.EntU(rf.ent); !seen[k] {
			seen[k] = true
			out = append(out, rf.ent)
		}
	}
	return out
}

func (w *dispWorld) connected(p int) bool { return w.peers[p] != nil && w.peers[p].rd != nil }

func (w *dispWorld) discovery(p int, ents [][]uint, partial bool, state *model.NetworkManagementStateChangeType, withFeatures bool) model.CmdType {
	dev := w.peers[p].dev
	dd := &model.NodeManagementDetailedDiscoveryDataType{
		DeviceInformation: &model.NodeManagementDetailedDiscoveryDeviceInformationType{Description: &model.NetworkManagementDeviceDescriptionDataType{
			DeviceAddress: &model.DeviceAddressType{Device: util.Ptr(model.AddressDeviceType(dev))}}},
	}
	for _, e := range ents {
		et := model.EntityTypeTypeEVSE
		if len(e) == 1 && e[0] == 0 {
			et = model.EntityTypeTypeDeviceInformation
		}
		dd.EntityInformation = append(dd.EntityInformation, model.NodeManagementDetailedDiscoveryEntityInformationType{Description: &model.NetworkManagementEntityDescriptionDataType{
			EntityAddress: &model.EntityAddressType{Device: util.Ptr(model.AddressDeviceType(dev)), Entity: dispEnt(e)}, EntityType: &et, LastStateChange: state}})
		if !withFeatures {
			continue
		}
		for _, rf := range w.rem {
			if h.EntU(rf.ent) != h.EntU(e) {
				continue
			}
			ft, role := rf.typ, rf.role
			dd.FeatureInformation = append(dd.FeatureInformation, model.NodeManagementDetailedDiscoveryFeatureInformationType{Description: &model.NetworkManagementFeatureDescriptionDataType{
				FeatureAddress: h.FA(dev, rf.ent, rf.feat), FeatureType: &ft, Role: &role}})
		}
	}
	cmd := model.CmdType{NodeManagementDetailedDiscoveryData: dd}
	if partial {
		cmd.Function = util.Ptr(model.FunctionTypeNodeManagementDetailedDiscoveryData)
		cmd.Filter = []model.FilterType{*model.NewFilterTypePartial()}
	}
	return cmd
}

func (w *dispWorld) nmHeader(p int, ctr uint64, cls model.CmdClassifierType, ack bool) model.HeaderType {
	hd := model.HeaderType{AddressSource: h.FA(w.peers[p].dev, []uint{0}, 0), AddressDestination: h.FA(dispLocalDev, []uint{0}, 0),
		MsgCounter: util.Ptr(model.MsgCounterType(ctr)), CmdClassifier: &cls}
	if ack {
		hd.AckRequest = &ack
	}
	return hd
}

// connect: SetupRemoteDevice + the peer's discovery reply. Returns an anomaly text when the stack did not write
// exactly its three opening requests (discovery read, subscription to the peer's node management, use-case read).
func (w *dispWorld) connect(p int, devOf int) string {
	pr := &dispPeer{w: &h.W{}, ski: fmt.Sprintf("ski%d", p), dev: fmt.Sprintf("dev%d", devOf)}
	w.peers[p] = pr
	w.l.SetupRemoteDevice(pr.ski, pr.w)
	pr.rd = w.l.RemoteDeviceForSki(pr.ski)
	hd := w.nmHeader(p, 1, model.CmdClassifierTypeReply, false)
	hd.MsgCounterReference = util.Ptr(model.MsgCounterType(1))
	if pan := w.inject(p, model.DatagramType{Header: hd, Payload: model.PayloadType{Cmd: []model.CmdType{w.discovery(p, w.ents(), false, nil, true)}}}); pan != nil {
		return fmt.Sprintf("conn-panic %v", pan)
	}
	msgs := pr.w.Take()
	var cs []string
	for _, m := range msgs {
		var d model.Datagram
		_ = json.Unmarshal(m, &d)
		hd := d.Datagram.Header
		if hd.MsgCounter == nil || hd.CmdClassifier == nil {
			cs = append(cs, "?")
			continue
		}
		cs = append(cs, fmt.Sprintf("%d:%s", *hd.MsgCounter, *hd.CmdClassifier))
	}
	if got := strings.Join(cs, ","); got != "1:read,2:call,3:read" {
		return "conn-anomaly " + got
	}
	return "-"
}

func (w *dispWorld) drop(p int) {
	w.l.RemoveRemoteDeviceConnection(w.peers[p].ski)
	w.peers[p].rd = nil
	// every connection has its own recording writer; a removed connection's writer is kept and watched
	w.closed = append(w.closed, dispClosed{p, w.peers[p].w})
}

type dispClosed struct {
	p int
	w *h.W
}

// digest of all local function data, through the public API
func (w *dispWorld) digest() map[string]string {
	out := map[string]string{}
	for _, e := range w.l.Entities() {
		for _, fl := range e.Features() {
			if fl.Type() == model.FeatureTypeTypeNodeManagement {
				continue
			}
			for _, fn := range dispFds(fl.Type()) {
				v := fl.DataCopy(model.FunctionType(dispFnName[fn]))
				if v == nil || reflect.ValueOf(v).IsNil() {
					continue
				}
				b, _ := json.Marshal(v)
				out[fmt.Sprintf("%s#%d", h.AddrS(fl.Address()), fn)] = string(b)
			}
		}
	}
	return out
}

// ---------- what a feature ANNOUNCES (detailed discovery), as opposed to what its Operations() object answers

type dispAnn struct{ listed, r, rp, w, wp bool }

func dispAnnOf(po *model.PossibleOperationsType) dispAnn {
	a := dispAnn{listed: true}
	if po != nil && po.Read != nil {
		a.r, a.rp = true, po.Read.Partial != nil
	}
	if po != nil && po.Write != nil {
		a.w, a.wp = true, po.Write.Partial != nil
	}
	return a
}

// dispAnnounced: the possibleOperations the feature announces for the function in its detailed discovery information
// (FeatureLocal.Information(), the very structure a discovery reply carries - TestDispatch compares every discovery
// reply with it); `listed` = the function appears among the supported functions at all
func dispAnnounced(lf api.FeatureLocalInterface, fn model.FunctionType) dispAnn {
	info := lf.Information()
	if info == nil || info.Description == nil {
		return dispAnn{}
	}
	for _, sf := range info.Description.SupportedFunction {
		if sf.Function != nil && *sf.Function == fn {
			return dispAnnOf(sf.PossibleOperations)
		}
	}
	return dispAnn{}
}

func (a dispAnn) String() string {
	if !a.listed {
		return "unlisted"
	}
	s := ""
	if a.r {
		s += "R"
		if a.rp {
			s += "p"
		}
	}
	if a.w {
		s += "W"
		if a.wp {
			s += "p"
		}
	}
	if s == "" {
		s = "none"
	}
	return s
}

func dispStrP[T ~string](p *T) string {
	if p == nil {
		return "-"
	}
	return string(*p)
}

// dispDiscCanon: canonical text of detailed discovery data (the supported functions of a feature come out of a map:
// sorted here)
func dispDiscCanon(dd *model.NodeManagementDetailedDiscoveryDataType) string {
	if dd == nil {
		return "nil"
	}
	var sb []string
	if dd.SpecificationVersionList != nil {
		for _, v := range dd.SpecificationVersionList.SpecificationVersion {
			sb = append(sb, "sv="+string(v))
		}
	}
	if di := dd.DeviceInformation; di != nil && di.Description != nil {
		d := di.Description
		dev := "-"
		if d.DeviceAddress != nil {
			dev = dispStrP(d.DeviceAddress.Device)
		}
		sb = append(sb, fmt.Sprintf("dev=%s|%s|%s", dev, dispStrP(d.DeviceType), dispStrP(d.NetworkFeatureSet)))
	}
	for _, ei := range dd.EntityInformation {
		if ei.Description == nil || ei.Description.EntityAddress == nil {
			sb = append(sb, "E ?")
			continue
		}
		d := ei.Description
		sb = append(sb, fmt.Sprintf("E %s:%s:%s:%s:%s", dispStrP(d.EntityAddress.Device), h.EntStr(d.EntityAddress.Entity), dispStrP(d.EntityType), dispStrP(d.LastStateChange), dispStrP(d.Description)))
	}
	for _, fi := range dd.FeatureInformation {
		if fi.Description == nil || fi.Description.FeatureAddress == nil {
			sb = append(sb, "F ?")
			continue
		}
		d := fi.Description
		var fns []string
		for _, sf := range d.SupportedFunction {
			fns = append(fns, dispStrP(sf.Function)+"="+dispAnnOf(sf.PossibleOperations).String())
		}
		sort.Strings(fns)
		sb = append(sb, fmt.Sprintf("F %s:%s:%s:%s:%s:[%s]", dispStrP(d.FeatureAddress.Device), h.AddrS(d.FeatureAddress), dispStrP(d.FeatureType), dispStrP(d.Role), dispStrP(d.Description), strings.Join(fns, ",")))
	}
	return strings.Join(sb, ";")
}

// nmExpected: what node management has to report AT THIS MOMENT, from the primitives of the public API (never from a
// rendered reply): 901 the tree - Entities() / EntityType() / Features() / Address() / Type() / Role() / Description() /
// Operations() flag by flag; 902 the use-case data (DataCopy); 903 the destination list from the device description.
// Absent key = the function holds no data.
func (w *dispWorld) nmExpected() map[int]string {
	out := map[int]string{}
	l := w.l
	sb := []string{"sv=" + string(spine.SpecificationVersion)}
	sb = append(sb, fmt.Sprintf("dev=%s|%s|%s", dispStrP(l.Address()), dispStrP(l.DeviceType()), dispStrP(l.FeatureSet())))
	var fs []string
	for _, e := range l.Entities() {
		et := e.EntityType()
		sb = append(sb, fmt.Sprintf("E %s:%s:%s:-:-", dispStrP(e.Address().Device), h.EntStr(e.Address().Entity), string(et)))
		for _, fl := range e.Features() {
			var fns []string
			for fn, o := range fl.Operations() {
				a := dispAnn{listed: true, r: o.Read(), rp: o.Read() && o.ReadPartial(), w: o.Write(), wp: o.Write() && o.WritePartial()}
				fns = append(fns, string(fn)+"="+a.String())
			}
			sort.Strings(fns)
			ft, role := fl.Type(), fl.Role()
			fs = append(fs, fmt.Sprintf("F %s:%s:%s:%s:%s:[%s]", dispStrP(fl.Address().Device), h.AddrS(fl.Address()), string(ft), string(role), dispStrP(fl.Description()), strings.Join(fns, ",")))
		}
	}
	out[901] = strings.Join(append(sb, fs...), ";")
	if v := l.NodeManagement().DataCopy(model.FunctionTypeNodeManagementUseCaseData); v != nil && !reflect.ValueOf(v).IsNil() {
		b, _ := json.Marshal(v)
		out[902] = string(b)
	}
	dest := model.NodeManagementDestinationListDataType{NodeManagementDestinationData: []model.NodeManagementDestinationDataType{{
		DeviceDescription: &model.NetworkManagementDeviceDescriptionDataType{DeviceAddress: &model.DeviceAddressType{Device: l.Address()},
			DeviceType: l.DeviceType(), NetworkFeatureSet: l.FeatureSet()}}}}
	b, _ := json.Marshal(dest)
	out[903] = string(b)
	return out
}

// ---------- canonical outbound trace

type dispOut struct {
	kind     string // reply, result, readReq, notify, other
	ref      int64  // -1 when absent
	ctr      uint64
	err      int
	fn       int
	src, dst *model.FeatureAddressType
	payload  string // JSON of the function's data (replies and notifications)
	nEntries int    // number of entries of a subscription / binding data reply
	nmCanon  string // canonical content of a node-management reply (901 / 902 / 903)
	entries  []string // "server<-client" (with device parts) of a subscription / binding data reply, sorted
	valS     string // canonical value id of the payload (set by dispRun.show)
}

// sdev: the device part of the source: 0 = the local device address, - = absent, 9 = anything else
func (o dispOut) sdev() string {
	switch {
	case o.src == nil || o.src.Device == nil:
		return "-"
	case string(*o.src.Device) == dispLocalDev:
		return "0"
	}
	return "9"
}

func (o dispOut) refS() string {
	if o.ref < 0 {
		return "-"
	}
	return strconv.FormatInt(o.ref, 10)
}

func (o dispOut) String() string {
	switch o.kind {
	case "reply":
		return fmt.Sprintf("reply %s %d %s %s %s d%s", o.refS(), o.fn, h.AddrS(o.src), h.AddrS(o.dst), o.valS, o.sdev())
	case "result":
		return fmt.Sprintf("result %s %d %s %s d%s", o.refS(), o.err, h.AddrS(o.src), h.AddrS(o.dst), o.sdev())
	case "readReq":
		return fmt.Sprintf("readReq %d %s %s", o.fn, h.AddrS(o.src), h.AddrS(o.dst))
	case "notify":
		return fmt.Sprintf("notify %d %s %s %s", o.fn, h.AddrS(o.src), h.AddrS(o.dst), o.valS)
	}
	return "other:" + o.kind
}

func (o dispOut) isResponse() bool { return o.kind == "reply" || o.kind == "result" }

func dispParseOut(m []byte) dispOut {
	var d model.Datagram
	if err := json.Unmarshal(m, &d); err != nil || d.Datagram.Header.CmdClassifier == nil || len(d.Datagram.Payload.Cmd) == 0 {
		return dispOut{kind: "unparsable", ref: -1}
	}
	hd := d.Datagram.Header
	c := d.Datagram.Payload.Cmd[0]
	o := dispOut{ref: -1, fn: dispFnOf(c), src: hd.AddressSource, dst: hd.AddressDestination}
	if hd.MsgCounterReference != nil {
		o.ref = int64(*hd.MsgCounterReference)
	}
	if hd.MsgCounter != nil {
		o.ctr = uint64(*hd.MsgCounter)
	}
	switch *hd.CmdClassifier {
	case model.CmdClassifierTypeReply:
		o.kind = "reply"
	case model.CmdClassifierTypeResult:
		o.kind = "result"
		o.err = -1
		if c.ResultData != nil && c.ResultData.ErrorNumber != nil {
			o.err = int(*c.ResultData.ErrorNumber)
		}
	case model.CmdClassifierTypeRead:
		o.kind = "readReq"
	case model.CmdClassifierTypeNotify:
		o.kind = "notify"
	default:
		o.kind = string(*hd.CmdClassifier)
	}
	if o.kind == "reply" || o.kind == "notify" {
		if cd, err := c.Data(); err == nil {
			b, _ := json.Marshal(cd.Value)
			o.payload = string(b)
		}
		fas := func(a *model.FeatureAddressType) string {
			if a == nil {
				return "nil"
			}
			return dispStrP(a.Device) + ":" + h.AddrS(a)
		}
		if c.NodeManagementSubscriptionData != nil {
			o.nEntries = len(c.NodeManagementSubscriptionData.SubscriptionEntry)
			for _, e := range c.NodeManagementSubscriptionData.SubscriptionEntry {
				o.entries = append(o.entries, fas(e.ServerAddress)+"<-"+fas(e.ClientAddress))
			}
		}
		if c.NodeManagementBindingData != nil {
			o.nEntries = len(c.NodeManagementBindingData.BindingEntry)
			for _, e := range c.NodeManagementBindingData.BindingEntry {
				o.entries = append(o.entries, fas(e.ServerAddress)+"<-"+fas(e.ClientAddress))
			}
		}
		sort.Strings(o.entries)
		switch {
		case c.NodeManagementDetailedDiscoveryData != nil:
			o.nmCanon = dispDiscCanon(c.NodeManagementDetailedDiscoveryData)
		case c.NodeManagementUseCaseData != nil || c.NodeManagementDestinationListData != nil:
			o.nmCanon = o.payload
		}
	}
	return o
}

// ---------- SPEC state of the monitors (never reads the model)

type dispPair struct {
	server string // local feature "e/f"
	peer   int
	client string // remote feature "e/f"
}

type dispSpec struct {
	binds map[dispPair]string // value: "" or the known registry defect that may have removed it in the code ("C10", "C09")
	subs  map[dispPair]bool
}

func newDispSpec() *dispSpec {
	return &dispSpec{binds: map[dispPair]string{}, subs: map[dispPair]bool{}}
}

func dispEntOf(addr string) string { return strings.SplitN(addr, "/", 2)[0] }

// ---------- one history

type dispFlags struct{ r, u, e, o bool }

func (f dispFlags) String() string {
	return fmt.Sprintf("%d %d %d %d", h.B2i(f.r), h.B2i(f.u), h.B2i(f.e), h.B2i(f.o))
}

type dispRun struct {
	r        *h.Report
	d        *h.Driver // nil: no model comparison (probes)
	fl       dispFlags
	ev       *dispEvents
	base     int
	w        *dispWorld
	spec     *dispSpec
	done     []string
	specOnly bool // the history left the model's domain on purpose: judged by the SPEC monitors only
	failed   bool // the history cannot go on (the model driver refused the configuration)
	diverged bool // a mismatch happened: monitor-only from there
	ctr      uint64
	// abstract data values: the model names a value by the operation that set it (value id); the harness records the
	// digest the data had right after that operation and interns digests, so that both sides print the same token
	valSeq    int
	valDigest map[int]string
	digIDs    map[string]int
	claimedDev string // device part of the current request's source address as sent ("" = the sender's own)
	nmCur     map[int]string // node management's expected data at the moment of the current step (set by execDg)
	ent3      api.EntityLocalInterface // the detachable local entity [3] (nil: not built yet)
	ent3On    bool
	treeOps   int // local tree operations executed so far in this history
	nmStale   map[int]bool // 901 / 902: a local operation has changed what the function reports since its last read
	// statistics for the floors
	st *dispStats
}

type dispStats struct {
	writes, writesOK, writesUnauth, writesEngineRej, binds, bindsOK, unbinds, unbindsOK, subsOK, unsubsOK, notifies, deniedWithSubs int
	fulls, fullsReplace, writeAfterFull, writesFeInconsistent, specOnly                                                             int
	reanns, unbindAfterReann, writeAfterUnbind, writesFromRelative                                                                  int
	treeOps, nmReads, nmReadsAfterChange, nmEntryReads, writesSrcDev, writesSrcDevForeignBound, writesSrcDevOwnBound                int
	writesWriteOnly, writesUnannounced                                                                                              int
	aprApprovedAck, aprApprovedNoAck, aprDenied, aprSkipped                                                                         int
	covered                                                                                                                         map[string]bool // classifier:function pairs of registered functions that were visited
}

func newDispStats() *dispStats { return &dispStats{covered: map[string]bool{}} }

func dispAddr(s string) (ent []uint, feat uint) {
	p := strings.SplitN(s, "/", 2)
	for _, x := range strings.Split(p[0], ".") {
		v, _ := strconv.Atoi(x)
		ent = append(ent, uint(v))
	}
	v, _ := strconv.Atoi(p[1])
	return ent, uint(v)
}

func dispEntP(s string) []uint {
	var ent []uint
	for _, x := range strings.Split(s, ".") {
		v, _ := strconv.Atoi(x)
		ent = append(ent, uint(v))
	}
	return ent
}

// mismatch: the real code and the model disagree on this step. The tie is broken from here on: the rest of the history
// is still executed and judged by the SPEC monitors (which never read the model), but no longer compared.
func (x *dispRun) mismatch(impl, want, op string) {
	x.r.Mismatch(x.done, impl, want, "dispatch op "+op)
	x.diverged = true
	x.d = nil
}

func (x *dispRun) fail(key string, detail string) {
	x.r.SpecFail(key, x.done, detail)
}

// traces takes what was written to every connection since the last call.
func (x *dispRun) traces() [dispNPeers + 1][]dispOut {
	var t [dispNPeers + 1][]dispOut
	for p := 1; p <= dispNPeers; p++ {
		if x.w.peers[p] == nil {
			continue
		}
		for _, m := range x.w.peers[p].w.Take() {
			o := dispParseOut(m)
			if o.kind == "readReq" {
				x.w.peers[p].readReqs = append(x.w.peers[p].readReqs, o.ctr)
			}
			t[p] = append(t[p], o)
		}
	}
	// nothing may be written to a removed connection; a reply or result found there is a response the live connection
	// did not get ("no fewer") - and C10's "no further datagram to the removed connection"
	for _, c := range x.w.closed {
		for _, m := range c.w.Take() {
			o := dispParseOut(m)
			x.fail("C10/datagram-to-removed-connection", fmt.Sprintf("a removed connection of peer %d was written to: %s", c.p, o))
			if o.isResponse() {
				x.fail("C01/response-on-removed-connection", fmt.Sprintf("a removed connection of peer %d received %s; the response belongs on the peer's current connection", c.p, o))
			}
		}
	}
	return t
}

func (x *dispRun) digID(d string) int {
	if x.digIDs == nil {
		x.digIDs = map[string]int{}
	}
	id, ok := x.digIDs[d]
	if !ok {
		id = len(x.digIDs) + 1
		x.digIDs[d] = id
	}
	return id
}

func (x *dispRun) newVal() int { x.valSeq++; return x.valSeq }

func (x *dispRun) recordVal(id int, digest string, present bool) {
	if x.valDigest == nil {
		x.valDigest = map[int]string{}
	}
	if present {
		x.valDigest[id] = digest
	}
}

// show: canonical text of the outbound traces. A reply carries the data as it was before the step, a notification
// the data after it; the value token is the interned digest of the payload (v#0: the function holds no data).
func (x *dispRun) show(t [dispNPeers + 1][]dispOut, before, after map[string]string, pan any, wrote bool) string {
	for p := 1; p <= dispNPeers; p++ {
		for i := range t[p] {
			o := &t[p][i]
			if o.kind != "reply" && o.kind != "notify" {
				continue
			}
			src := h.AddrS(o.src)
			switch {
			case src == "0/0" && (o.fn == 904 || o.fn == 905):
				o.valS = fmt.Sprintf("v#n%d", o.nEntries)
			case src == "0/0" && o.kind == "reply" && (o.fn == 901 || o.fn == 902 || o.fn == 903) && x.nmCur != nil:
				// node management computes its data from the local tree / use-case list: the token is the interned content
				if _, ok := x.nmCur[o.fn]; !ok {
					o.valS = "v#0"
				} else {
					o.valS = fmt.Sprintf("v#%d", x.digID(o.nmCanon))
				}
			case src == "0/0":
				o.valS = "v#0" // node management's notifications: contents are C07's subject
			default:
				cur := before
				if o.kind == "notify" {
					cur = after
				}
				if _, ok := cur[fmt.Sprintf("%s#%d", src, o.fn)]; !ok {
					o.valS = "v#0"
				} else {
					o.valS = fmt.Sprintf("v#%d", x.digID(o.payload))
				}
			}
		}
	}
	return dispShow(t, pan, wrote)
}

var dispValTok = regexp.MustCompile(`^v(\d+)$`)

// translate rewrites the value ids of a model answer into interned digests (see show).
func (x *dispRun) translate(want string) string {
	groups := strings.Split(want, " | ")
	for gi, g := range groups {
		segs := strings.Split(g, "; ")
		for si, sg := range segs {
			f := strings.Fields(sg)
			nm := false
			for i, tk := range f {
				if tk == "reply" && i+3 < len(f) && (f[i+2] == "904" || f[i+2] == "905") && f[i+3] == "0/0" {
					nm = true
				}
				m := dispValTok.FindStringSubmatch(tk)
				if m == nil {
					continue
				}
				id, _ := strconv.Atoi(m[1])
				switch {
				case nm:
					f[i] = "v#n" + m[1]
				case id == 0:
					f[i] = "v#0"
				default:
					if d, ok := x.valDigest[id]; ok {
						f[i] = fmt.Sprintf("v#%d", x.digID(d))
					} else {
						f[i] = "v#?" + m[1]
					}
				}
			}
			segs[si] = strings.Join(f, " ")
		}
		groups[gi] = strings.Join(segs, "; ")
	}
	return strings.Join(groups, " | ")
}

func dispShow(t [dispNPeers + 1][]dispOut, pan any, wrote bool) string {
	var groups []string
	for p := 1; p <= dispNPeers; p++ {
		if len(t[p]) == 0 {
			continue
		}
		var s []string
		for _, o := range t[p] {
			s = append(s, o.String())
		}
		groups = append(groups, fmt.Sprintf("%d: %s", p, strings.Join(s, "; ")))
	}
	got := "-"
	if len(groups) > 0 {
		got = strings.Join(groups, " | ")
	}
	if wrote {
		got += " W"
	}
	return got
}

// exec performs one op on the real stack, judges it with the SPEC monitors and compares with the model.
// Returns false when the op was skipped (not applicable in the current state) or the history ended.
func (x *dispRun) exec(op string) bool {
	if x.failed {
		return false
	}
	f := strings.Fields(op)
	if f[0] == "world" {
		x.w = dispNewWorld(op)
		x.spec = newDispSpec()
		x.done = append(x.done, op)
		// the data the local features hold from the start: one value id each
		x.valSeq, x.valDigest, x.digIDs = 0, map[int]string{}, map[string]int{}
		init := x.w.digest()
		var keys []string
		for k := range init {
			keys = append(keys, k)
		}
		sort.Strings(keys)
		var dataCfg []string
		for _, k := range keys {
			id := x.newVal()
			x.recordVal(id, init[k], true)
			kp := strings.SplitN(k, "#", 2)
			dataCfg = append(dataCfg, fmt.Sprintf("data %s %s %d", kp[0], kp[1], id))
		}
		nmInit := x.w.nmExpected()
		for _, fn := range []int{901, 902, 903} {
			if c, ok := nmInit[fn]; ok {
				id := x.newVal()
				x.recordVal(id, c, true)
				dataCfg = append(dataCfg, fmt.Sprintf("nmdata %d %d", fn, id))
			}
		}
		x.ent3, x.ent3On, x.treeOps, x.nmStale = nil, false, 0, map[int]bool{}
		if x.d != nil {
			bad := x.d.Ask("clear") != "ok"
			for _, l := range append(append([]string{}, x.w.cfg...), dataCfg...) {
				if x.d.Ask(l) != "ok" {
					bad = true
				}
			}
			if x.d.Ask("reset "+x.fl.String()) != "reset" || bad {
				x.r.Mismatch(x.done, "configuration", "bad-op", "the model driver refused the world configuration")
				x.failed = true
				return false
			}
		}
		return true
	}
	if x.w == nil {
		return false
	}
	if f[0] == "setdata" {
		return x.execSetData(op, f)
	}
	switch f[0] {
	case "addfeat", "addfn", "descr", "adduc", "remuc", "addent", "rement":
		return x.execTree(op, f)
	}
	p, _ := strconv.Atoi(f[1])
	if p < 1 || p > dispNPeers {
		return false
	}
	w := x.w
	switch f[0] {
	case "conn", "connas":
		if w.connected(p) {
			return false
		}
		devOf := p
		if f[0] == "connas" {
			// the excluded point of hypothesis H-devaddr: peer p announces the device address of another peer.
			// Outside the model: only run without comparison.
			if x.d != nil {
				return false
			}
			devOf, _ = strconv.Atoi(f[2])
		}
		x.done = append(x.done, op)
		impl := w.connect(p, devOf)
		h.Settle(x.base)
		x.ev.take()
		x.compare(op, op, impl, "conn")
		return !x.failed
	case "drop":
		if !w.connected(p) {
			return false
		}
		x.done = append(x.done, op)
		before := w.digest()
		ents := map[string]bool{}
		for _, e := range w.peers[p].rd.Entities() {
			ents[h.EntStr(e.Address().Entity)] = true
		}
		w.drop(p)
		h.Settle(x.base)
		x.ev.take()
		t := x.traces()
		// SPEC: the registries lose exactly the peer's entries
		for pr := range x.spec.binds {
			if pr.peer == p {
				delete(x.spec.binds, pr)
			} else if ents[dispEntOf(pr.client)] {
				if x.spec.binds[pr] == "" {
					x.spec.binds[pr] = "C10" // RemoveBindingsForEntity ignores the device: may be lost in the code
				}
			}
		}
		for pr := range x.spec.subs {
			if pr.peer == p {
				delete(x.spec.subs, pr)
			}
		}
		x.unchanged(before, "drop")
		x.sweep(op)
		x.compare(op, op, x.show(t, nil, nil, nil, false), "drop")
		return !x.failed
	}
	if !w.connected(p) {
		return false
	}
	switch f[0] {
	case "dg":
		return x.execDg(op, f, p)
	case "reann":
		return x.execReann(op, f, p)
	case "full":
		return x.execFull(op, f, p)
	case "bind", "unbind", "sub", "unsub":
		return x.execCall(op, f, p)
	case "entrem", "entadd":
		return x.execEnt(op, f, p)
	}
	panic("bad op " + op)
}

func (x *dispRun) compare(op, line, impl, kind string) {
	x.r.Eval(kind, "")
	if x.d == nil {
		return
	}
	want := x.translate(x.d.Ask(line))
	if impl != want {
		x.mismatch(impl, want, op)
	}
}

// unchanged: SPEC C03 — no local function data changes in a step that is not an accepted write.
func (x *dispRun) unchanged(before map[string]string, what string) bool {
	after := x.w.digest()
	if !reflect.DeepEqual(before, after) {
		x.fail("C03/data-changed-without-authorised-write", fmt.Sprintf("local function data changed by %s: %s", what, dispDiff(before, after)))
		return false
	}
	return true
}

func dispDiff(a, b map[string]string) string {
	var ks []string
	for k := range a {
		if a[k] != b[k] {
			ks = append(ks, k)
		}
	}
	for k := range b {
		if _, ok := a[k]; !ok {
			ks = append(ks, k)
		}
	}
	sort.Strings(ks)
	if len(ks) > 4 {
		ks = ks[:4]
	}
	var s []string
	for _, k := range ks {
		s = append(s, fmt.Sprintf("%s: %.80s -> %.80s", k, a[k], b[k]))
	}
	return strings.Join(s, "; ")
}

func dispCls(s string) model.CmdClassifierType { return model.CmdClassifierType(s) }

func dispFirstDiff(a, b string) string {
	as, bs := strings.Split(a, ";"), strings.Split(b, ";")
	for i := 0; i < len(as) || i < len(bs); i++ {
		var x, y string
		if i < len(as) {
			x = as[i]
		}
		if i < len(bs) {
			y = bs[i]
		}
		if x != y {
			return fmt.Sprintf("reply %q / device %q", x, y)
		}
	}
	return "-"
}

// addressing clause of C01 for one response to a request of peer p
func (x *dispRun) addressing(o dispOut, p int, ctr uint64, src, dst string) {
	okRef := o.ref == int64(ctr)
	// "addressed to the request's source feature": the source address as the request named it - the device part is
	// echoed (x.claimedDev: "" the peer's own device address, "-" omitted, else the device address the header claimed)
	okDst := o.dst != nil && h.AddrS(o.dst) == src
	switch x.claimedDev {
	case "":
		okDst = okDst && o.dst.Device != nil && string(*o.dst.Device) == x.w.peers[p].dev
	case "-":
		okDst = okDst && o.dst.Device == nil
	default:
		okDst = okDst && o.dst.Device != nil && string(*o.dst.Device) == x.claimedDev
	}
	okSrc := o.src != nil && o.src.Device != nil && string(*o.src.Device) == dispLocalDev && h.AddrS(o.src) == dst
	if !okRef {
		x.fail("C01/response-reference", fmt.Sprintf("%s references %d, the request's counter is %d", o, o.ref, ctr))
	}
	if !okDst {
		x.fail("C01/response-destination", fmt.Sprintf("%s is addressed to %v, the request came from %s %s", o, o.dst, x.w.peers[p].dev, src))
	}
	if !okSrc {
		x.fail("C01/response-source", fmt.Sprintf("%s names %v as its source, the request addressed %s %s", o, o.src, dispLocalDev, dst))
	}
}

// shape of the responses to the sender: "", "success", "error", "reply:<fn>", joined by "+"
func dispShape(outs []dispOut) string {
	var s []string
	for _, o := range outs {
		switch {
		case !o.isResponse():
		case o.kind == "reply":
			s = append(s, fmt.Sprintf("reply:%d", o.fn))
		case o.err == 0:
			s = append(s, "success")
		default:
			s = append(s, "error")
		}
	}
	return strings.Join(s, "+")
}

func dispAckShape(ack bool) string {
	if ack {
		return "success"
	}
	return ""
}

func (x *dispRun) execDg(op string, f []string, p int) bool {
	w := x.w
	src, dst := f[2], f[3]
	ctr, _ := strconv.ParseUint(f[4], 10, 64)
	hasCtr := f[4] != "-" // a request without msgCounter: not well-formed, served by the repaired code
	refS, clsS, ack := f[5], f[6], f[7] == "1"
	fn, _ := strconv.Atoi(f[8])
	fe := 0
	v, part, bad, noerr, dd := 0, false, false, false, "0"
	sd := "0" // device part of the SOURCE address: 0 the sender's own device address, - omitted, K the device address of peer K
	for _, t := range f[9:] {
		if strings.HasPrefix(t, "sd=") {
			sd = t[3:]
		}
		if t == "noerr" {
			noerr = true // result data without error number
		}
		if strings.HasPrefix(t, "dd=") {
			dd = t[3:] // device part of the destination: - omitted, 9 another device's address
		}
		if strings.HasPrefix(t, "fe=") {
			fe, _ = strconv.Atoi(t[3:]) // the cmd's optional `function` element names this function
		}
		if strings.HasPrefix(t, "v=") {
			v, _ = strconv.Atoi(t[2:])
		}
		if t == "part" {
			part = true
		}
		if t == "bad" {
			bad = true // a partial write of a function whose data type supports no partial update: the engine rejects it
		}
	}
	if _, ok := dispFnName[fn]; !ok {
		panic("unknown function id in " + op)
	}
	x.done = append(x.done, op)
	se, sf := dispAddr(src)
	de, df := dispAddr(dst)
	cls := dispCls(clsS)
	hd := model.HeaderType{AddressSource: h.FA(w.peers[p].dev, se, sf), AddressDestination: h.FA(dispLocalDev, de, df),
		MsgCounter: util.Ptr(model.MsgCounterType(ctr)), CmdClassifier: &cls}
	if !hasCtr {
		hd.MsgCounter = nil
	}
	switch dd {
	case "-":
		hd.AddressDestination.Device = nil
	case "9":
		hd.AddressDestination.Device = util.Ptr(model.AddressDeviceType("OTHER"))
	}
	x.claimedDev = ""
	switch {
	case sd == "-":
		hd.AddressSource.Device = nil
		x.claimedDev = "-"
	case sd != "0":
		// the header CLAIMS another peer's device address; the datagram still arrives on p's connection
		x.claimedDev = "dev" + sd
		hd.AddressSource.Device = util.Ptr(model.AddressDeviceType(x.claimedDev))
		if x.claimedDev == w.peers[p].dev {
			x.claimedDev = ""
		}
	}
	defer func() { x.claimedDev = "" }()
	if refS != "-" {
		rv, _ := strconv.ParseUint(refS, 10, 64)
		hd.MsgCounterReference = util.Ptr(model.MsgCounterType(rv))
	}
	if ack {
		hd.AckRequest = &ack
	}
	cmd := dispCmd(fn, v, part)
	if noerr && fn == 900 {
		cmd.ResultData = &model.ResultDataType{}
	}
	if name, ok := dispFnName[fe]; ok && fe != 0 {
		// wire-legal, possibly inconsistent with the payload field. The payload decides what is read / written, so the
		// monitors (and the model) judge by the payload's function.
		cmd.Function = util.Ptr(model.FunctionType(name))
	}
	valID := 0
	if clsS == "write" {
		valID = x.newVal() // the identity of this write as a value of the data it may set
	}

	// ---- facts of the moment, from the real objects through the public API (SPEC side)
	srcAnnounced := w.peers[p].rd.FeatureByAddress(hd.AddressSource) != nil
	lf := w.l.FeatureByAddress(hd.AddressDestination)
	before := w.digest()
	fnT := model.FunctionType(dispFnName[fn])
	registered, isNM := false, false
	var role model.RoleType
	announcedWritable, engineRejects := false, false
	var ann dispAnn
	x.nmCur = nil
	if lf != nil {
		registered = dispHas(dispFds(lf.Type()), fn)
		isNM = lf.Type() == model.FeatureTypeTypeNodeManagement
		role = lf.Role()
		// "announced as writable": what the feature's detailed discovery information says about the function at this
		// moment (possibleOperations.write present) - NOT what the Operations object answers when asked Write()
		ann = dispAnnounced(lf, fnT)
		if ann.w {
			announcedWritable = true
			engineRejects = part && !ann.wp // announced: no partial write
		}
		if isNM {
			x.nmCur = w.nmExpected()
		}
	}
	defer func() { x.nmCur = nil }()
	// write approval: the destination carries approval callbacks; their verdict is an input (dispAprDenies)
	aprOn, denied := false, false
	if clsS == "write" && lf != nil && w.apr[h.AddrS(lf.Address())] > 0 {
		if !hasCtr {
			// ApproveOrDenyWrite identifies the write by its counter (C12's precondition): not sent
			x.st.aprSkipped++
			x.r.Eval("approval:skipped-write-without-counter", "")
			return !x.failed
		}
		aprOn = true
		denied = dispAprDenies(ctr)
	}
	if clsS == "write" && lf != nil && announcedWritable && registered && bad != engineRejects {
		panic("op " + op + ": the bad token does not match the announced operations of the feature")
	}
	wf := !((clsS == "reply" || clsS == "result") && refS == "-") && ((fn == 900) == (clsS == "result")) && hasCtr && !noerr && dd == "0"

	pan := w.inject(p, model.DatagramType{Header: hd, Payload: model.PayloadType{Cmd: []model.CmdType{cmd}}})
	h.Settle(x.base)
	evs := x.ev.take()
	t := x.traces()
	wrote := false
	nData := 0
	for _, e := range evs {
		if e.typ == api.EventTypeDataChange {
			nData++
			if e.cls == "write" {
				wrote = true
			}
		}
	}
	after := w.digest()
	if clsS == "write" {
		d, ok := after[fmt.Sprintf("%s#%d", dst, fn)]
		x.recordVal(valID, d, ok)
	}
	impl := x.show(t, before, after, pan, wrote)
	if pan != nil {
		impl = fmt.Sprintf("%d: panic", p)
	}
	changed := !reflect.DeepEqual(before, after)
	shape := dispShape(t[p])
	kind := clsS + ":" + shape
	if pan != nil {
		kind = clsS + ":panic"
	}

	// ---- SPEC monitors
	switch {
	case pan != nil:
		if wf && srcAnnounced {
			x.fail("C05/panic-on-well-formed-datagram", fmt.Sprintf("%s: %v", op, pan))
			x.fail("C01/panic-instead-of-response", fmt.Sprintf("%s: the stack panics (%.120v); responses written before: %q", op, pan, shape))
		}
	case !srcAnnounced || !wf:
		// outside the quantifier of C01 (source not announced, or reply/result without reference, or result data
		// under another classifier): recorded, and still nothing may change
		_, bound := x.spec.binds[dispPair{dst, p, src}]
		if changed && !(clsS == "write" && srcAnnounced && announcedWritable && bound) {
			x.fail("C03/data-changed-without-authorised-write", fmt.Sprintf("%s: %s", op, dispDiff(before, after)))
		}
		if srcAnnounced && pan == nil {
			x.r.Eval("outside-wf:"+clsS+":"+shape, "")
		}
	default:
		// C01: no response to any other peer
		for q := 1; q <= dispNPeers; q++ {
			if q == p {
				continue
			}
			for _, o := range t[q] {
				if o.isResponse() {
					x.fail("C01/response-to-other-peer", fmt.Sprintf("%s by peer %d: peer %d received %s", op, p, q, o))
				}
			}
		}
		for _, o := range t[p] {
			if o.isResponse() {
				x.addressing(o, p, ctr, src, dst)
			}
		}
		expect := func(want, key string) {
			if shape != want {
				x.fail(key, fmt.Sprintf("%s: responses to the sender %q, the classifier rules prescribe %q", op, shape, want))
				if strings.HasPrefix(key, "C03/") {
					// a wrong number or kind of responses to a write contradicts C01's rule table as well
					x.fail("C01/"+key[4:], fmt.Sprintf("%s: responses to the sender %q, the classifier rules prescribe %q", op, shape, want))
				}
			}
		}
		dataJudged := false // the write branches judge the data digest themselves
		switch {
		case clsS == "result":
			if shape != "" {
				if lf == nil {
					x.fail("C01/result-on-result", fmt.Sprintf("%s: a result addressed to an unknown feature is answered with %q", op, shape))
				} else {
					x.fail("C01/result-answered", fmt.Sprintf("%s: a result is answered with %q", op, shape))
				}
			}
		case lf == nil:
			expect("error", "C01/unknown-destination-not-one-error")
		case clsS == "read":
			if (role == model.RoleTypeServer || role == model.RoleTypeSpecial) && registered {
				expect(fmt.Sprintf("reply:%d", fn), "C01/read-not-one-reply")
				if !isNM && shape == fmt.Sprintf("reply:%d", fn) {
					cur := before[fmt.Sprintf("%s#%d", dst, fn)]
					got := ""
					for _, o := range t[p] {
						if o.kind == "reply" {
							got = o.payload
						}
					}
					if cur == "" {
						cur = "{}"
					}
					if got != cur {
						x.fail("C01/reply-not-current-data", fmt.Sprintf("%s: reply carries %.120s, the function's data is %.120s", op, got, cur))
					}
				}
				if isNM && (fn == 901 || fn == 902 || fn == 903) && shape == fmt.Sprintf("reply:%d", fn) {
					// node management: the reply carries what the local device IS at this moment (public API, primitives)
					cur, has := x.nmCur[fn]
					got := ""
					for _, o := range t[p] {
						if o.kind == "reply" {
							got = o.nmCanon
						}
					}
					if !has {
						cur = "{}"
					}
					if got != cur {
						x.fail("C01/reply-not-current-data", fmt.Sprintf("%s: the node-management reply carries\n  %s\nthe local device reports (public API, after %d local tree operations)\n  %s\nfirst difference: %s", op, got, x.treeOps, cur, dispFirstDiff(got, cur)))
					}
					x.st.nmReads++
					if x.nmStale[fn] {
						x.st.nmReadsAfterChange++
						delete(x.nmStale, fn)
					}
				}
				x.st.covered["read:"+dispFnName[fn]] = true
			} else {
				expect("error", "C01/rejected-read-not-one-error")
			}
		case clsS == "reply" || clsS == "notify":
			accepted := false
			for _, e := range evs {
				if e.typ == api.EventTypeDataChange && e.cls == clsS && e.ski == w.peers[p].ski {
					accepted = true
				}
			}
			if isNM && fn == 900 {
				accepted = true
			}
			if accepted {
				expect(dispAckShape(ack), "C01/accepted-"+clsS+"-wrong-response")
				x.st.covered[clsS+":"+dispFnName[fn]] = true
			} else {
				expect("error", "C01/rejected-"+clsS+"-not-one-error")
			}
		case clsS == "call":
			if isNM && (fn == 904 || fn == 905) {
				// subscription / binding data are read by `call`: outside the statement's rule table (observed only) -
				// but the one reply must carry the caller's CURRENT entries: exactly what the public registry lists for
				// this connection, and (subscriptions) exactly the SPEC registry's entries of this peer
				x.r.Eval("info:nm-data-call:"+shape, "")
				if shape == fmt.Sprintf("reply:%d", fn) {
					var got []string
					for _, o := range t[p] {
						if o.kind == "reply" {
							got = o.entries
						}
					}
					var want, spec []string
					fas := func(a *model.FeatureAddressType) string { return dispStrP(a.Device) + ":" + h.AddrS(a) }
					if fn == 904 {
						for _, e := range w.l.SubscriptionManager().Subscriptions(w.peers[p].rd) {
							want = append(want, fas(e.ServerFeature.Address())+"<-"+fas(e.ClientFeature.Address()))
						}
						for pr := range x.spec.subs {
							if pr.peer == p {
								spec = append(spec, dispLocalDev+":"+pr.server+"<-"+w.peers[p].dev+":"+pr.client)
							}
						}
					} else {
						for _, e := range w.l.BindingManager().Bindings(w.peers[p].rd) {
							want = append(want, fas(e.ServerFeature.Address())+"<-"+fas(e.ClientFeature.Address()))
						}
					}
					sort.Strings(want)
					sort.Strings(spec)
					if strings.Join(got, " ") != strings.Join(want, " ") {
						x.fail("C01/reply-not-current-data", fmt.Sprintf("%s: the reply lists %v, the registry holds for this connection %v", op, got, want))
					}
					if fn == 904 && strings.Join(got, " ") != strings.Join(spec, " ") {
						x.fail("C01/reply-not-current-data", fmt.Sprintf("%s: the reply lists %v, the subscriptions granted to this peer and not deleted are %v", op, got, spec))
					}
					x.st.nmEntryReads++
				}
			} else {
				expect("error", "C01/rejected-call-not-one-error")
			}
		case clsS == "write":
			pair := dispPair{dst, p, src}
			_, bound := x.spec.binds[pair]
			authorisedWrite := announcedWritable && bound
			dataJudged = true
			x.st.writes++
			if sd != "0" {
				x.st.writesSrcDev++
				if bound {
					x.st.writesSrcDevOwnBound++
				}
				if k, err := strconv.Atoi(sd); err == nil && k != p {
					if _, fb := x.spec.binds[dispPair{dst, k, src}]; fb && !bound {
						x.st.writesSrcDevForeignBound++ // names the device of the peer that really holds this binding
					}
				}
			}
			if lf != nil && registered && !isNM {
				if o, ok := lf.Operations()[fnT]; !ok {
					x.st.writesUnannounced++
				} else if o.Write() && !o.Read() {
					x.st.writesWriteOnly++
				}
			}
			nsubs := 0
			for s := range x.spec.subs {
				if s.server == dst {
					nsubs++
				}
			}
			switch {
			case authorisedWrite && registered && !isNM && denied:
				// authorised and presented to the approval callbacks, one of which denies: rejected - one error result,
				// nothing changes, nobody is notified
				x.st.aprDenied++
				x.r.Eval("approval:denied:"+dispAckShape(ack), "")
				expect("error", "C03/rejected-write-not-one-error")
				x.silent(op, t, p, nData, changed, before, after)
			case authorisedWrite && registered && !isNM && engineRejects:
				// authorised, but the update engine refuses the payload: rejected like a denied write
				x.st.writesEngineRej++
				expect("error", "C03/rejected-write-not-one-error")
				x.silent(op, t, p, nData, changed, before, after)
			case authorisedWrite && registered && !isNM:
				if shape == "error" && !changed && x.spec.binds[pair] != "" {
					// the code lost this binding through a registry defect of another property
					x.st.writesUnauth++
					key := "C03/binding-lost-to-other-peers-entity-removal"
					if x.spec.binds[pair] == "C09" {
						key = "C03/binding-lost-to-unbind-of-another-binding"
					}
					x.fail(key, fmt.Sprintf("%s: the writer holds a binding granted earlier and never deleted, yet the write is rejected", op))
					x.silent(op, t, p, nData, changed, before, after)
					break
				}
				x.st.writesOK++
				if aprOn {
					// through the approval path (approved by every callback): the same rule - one success result iff an
					// acknowledgement was requested, none otherwise
					if ack {
						x.st.aprApprovedAck++
					} else {
						x.st.aprApprovedNoAck++
					}
					x.r.Eval("approval:approved:"+dispAckShape(ack), "")
				}
				expect(dispAckShape(ack), "C03/authorised-write-not-accepted")
				key := fmt.Sprintf("%s#%d", dst, fn)
				// (a partial write can only update limits that exist and are changeable - C04's subject; the harness
				// keeps three changeable limits in place, the check is skipped should they be missing)
				if v > 0 && (!part || dispLimitsApplied(before[key], 1, false) || strings.Count(before[key], `"isLimitChangeable":true`) == 3) && !dispLimitsApplied(after[key], v, part) {
					x.fail("C03/authorised-write-without-effect", fmt.Sprintf("%s: data of %s does not hold what was written: %.200s", op, key, after[key]))
				}
				if v == 0 && !part {
					if b, _ := json.Marshal(reflect.ValueOf(cmd).Field(dispFnField[dispFnName[fn]]).Interface()); after[key] != string(b) {
						x.fail("C03/authorised-write-without-effect", fmt.Sprintf("%s: data of %s is %.120s, written %s", op, key, after[key], b))
					}
				}
				for k := range after {
					if k != key && before[k] != after[k] {
						x.fail("C03/write-changed-other-data", fmt.Sprintf("%s: %s", op, dispDiff(before, after)))
					}
				}
				if !wrote || nData != 1 {
					x.fail("C03/accepted-write-events", fmt.Sprintf("%s: %d data-change events (write event seen: %v), expected exactly one", op, nData, wrote))
				}
				// exactly one notification per subscriber of the written feature, none else
				want := map[string]int{}
				for s := range x.spec.subs {
					if s.server == dst {
						want[fmt.Sprintf("%d %s", s.peer, s.client)]++
					}
				}
				got := map[string]int{}
				for q := 1; q <= dispNPeers; q++ {
					for _, o := range t[q] {
						if o.kind == "notify" {
							got[fmt.Sprintf("%d %s", q, h.AddrS(o.dst))]++
							x.st.notifies++
							if o.fn != fn || h.AddrS(o.src) != dst {
								x.fail("C03/notification-content", fmt.Sprintf("%s: %s", op, o))
							}
							if cur, ok := after[key]; ok && o.payload != cur {
								x.fail("C03/notification-content", fmt.Sprintf("%s: the notification carries %.120s, the data after the write is %.120s", op, o.payload, cur))
							}
						}
					}
				}
				if !reflect.DeepEqual(want, got) {
					x.fail("C03/accepted-write-fan-out", fmt.Sprintf("%s: notified %v, subscribers of %s are %v", op, got, dst, want))
				}
				x.st.covered["write:"+dispFnName[fn]] = true
			default:
				x.st.writesUnauth++
				if nsubs > 0 {
					x.st.deniedWithSubs++
				}
				expect("error", "C03/denied-write-not-one-error")
				x.silent(op, t, p, nData, changed, before, after)
			}
		}
		if changed && !dataJudged {
			x.fail("C03/data-changed-without-authorised-write", fmt.Sprintf("%s: %s", op, dispDiff(before, after)))
		}
	}
	nt := ""
	if wf && srcAnnounced && pan == nil {
		known := "known"
		if lf == nil {
			known = "unknown"
		}
		nt = fmt.Sprintf("%s fn=%s ack=%v dst=%s role=%s reg=%v -> %s", clsS, dispFnName[fn], ack, known, role, registered, shape)
	}
	x.r.Eval(kind, nt)
	if x.d != nil {
		line := strings.Join(f[:9], " ")
		if bad || denied {
			line += " bad" // the model's abstract input "the write is rejected after the gate": engine or application
		}
		if noerr {
			line += " noerr"
		}
		if dd != "0" {
			line += " dd=" + dd
		}
		if sd != "0" {
			line += " sd=" + sd
		}
		if clsS == "write" {
			line += fmt.Sprintf(" val=%d", valID)
		}
		want := x.translate(x.d.Ask(line))
		if impl != want {
			x.mismatch(impl, want, op)
		}
	}
	return !x.failed
}

// setdata <feature> <fn> [v=<k>] [part] — SetData (UpdateData with a partial filter for `part`) of the local
// application through the public API: the value changes, the subscribers of the feature are notified, nobody gets a
// reply or result.
func (x *dispRun) execSetData(op string, f []string) bool {
	w := x.w
	e, fe := dispAddr(f[1])
	fn, _ := strconv.Atoi(f[2])
	lf := w.l.FeatureByAddress(h.FA(dispLocalDev, e, fe))
	if lf == nil || lf.Type() == model.FeatureTypeTypeNodeManagement {
		return false
	}
	if _, ok := dispFnName[fn]; !ok {
		return false
	}
	v, part := 0, false
	for _, t := range f[3:] {
		if strings.HasPrefix(t, "v=") {
			v, _ = strconv.Atoi(t[2:])
		}
		if t == "part" {
			part = true
		}
	}
	if part && (dispFnName[fn] != dispFnLimit || v == 0) {
		return false
	}
	x.done = append(x.done, op)
	cmd := dispCmd(fn, v, part)
	payload := reflect.ValueOf(cmd).Field(dispFnField[dispFnName[fn]]).Interface()
	before := w.digest()
	valID := x.newVal()
	pan := h.Recover(func() {
		if part {
			lf.UpdateData(model.FunctionType(dispFnName[fn]), payload, model.NewFilterTypePartial(), nil)
		} else {
			lf.SetData(model.FunctionType(dispFnName[fn]), payload)
		}
	})
	h.Settle(x.base)
	x.ev.take()
	t := x.traces()
	after := w.digest()
	key := fmt.Sprintf("%s#%d", f[1], fn)
	d, ok := after[key]
	x.recordVal(valID, d, ok)
	impl := x.show(t, before, after, pan, false)
	if pan != nil {
		impl = "panic"
	}
	for q := 1; q <= dispNPeers; q++ {
		for _, o := range t[q] {
			if o.isResponse() {
				x.fail("C01/response-without-request", fmt.Sprintf("%s: peer %d received %s", op, q, o))
			}
		}
	}
	for k := range after {
		if k != key && before[k] != after[k] {
			x.fail("C03/write-changed-other-data", fmt.Sprintf("%s: %s", op, dispDiff(before, after)))
		}
	}
	x.r.Eval("setdata", "")
	if x.d != nil {
		want := x.translate(x.d.Ask(fmt.Sprintf("setdata %s %d %d", f[1], fn, valID)))
		if impl != want {
			x.mismatch(impl, want, op)
		}
	}
	return !x.failed
}

// ---------- local tree operations of the application (Spine/DispatchTree.lean)
//
//	addfeat E TID ROLE   EntityLocal.GetOrAddFeature(type, role) on the EXISTING entity E
//	addfn A FN R W       FeatureLocal.AddFunctionType(function, read, write) on the existing feature A
//	descr A K            Feature.SetDescriptionString("custom-K")
//	adduc E K | remuc E K   EntityLocal.AddUseCaseSupport / RemoveUseCaseSupport (use case K of three)
//	addent | rement      DeviceLocal.AddEntity / RemoveEntity of the detachable entity [3] (one LoadControl server feature)
//
// None of them is answered to anybody; node management's subscribers are notified by adduc / remuc / addent / rement;
// no function data changes. What node management reports afterwards is judged at the next read (execDg).
var dispUseCases = []struct {
	actor model.UseCaseActorType
	name  model.UseCaseNameType
}{{model.UseCaseActorTypeCEM, model.UseCaseNameTypeLimitationOfPowerConsumption}, {model.UseCaseActorTypeCEM, model.UseCaseNameTypeMonitoringOfPowerConsumption},
	{model.UseCaseActorTypeEnergyGuard, model.UseCaseNameTypeLimitationOfPowerProduction}}

func dispLFToken(fl api.FeatureLocalInterface) string {
	a := fl.Address()
	var ops []string
	for fn, o := range fl.Operations() {
		ops = append(ops, fmt.Sprintf("%d:%d", dispFnID[string(fn)], h.B2i(o.Write())))
	}
	sort.Strings(ops)
	opsS := "-"
	if len(ops) > 0 {
		opsS = strings.Join(ops, ",")
	}
	return fmt.Sprintf("%s|%d|%d|%s|%s|%s", h.EntStr(a.Entity), *a.Feature, dispTypeID[fl.Type()], fl.Role(), dispCSV(dispFds(fl.Type())), opsS)
}

func (x *dispRun) execTree(op string, f []string) bool {
	w := x.w
	l := w.l
	var run func()
	var line func() string // the model's op, built after the real operation (it names what the real objects report)
	fnSet := 901
	id, idu := 0, 0
	switch f[0] {
	case "addfeat":
		e := l.Entity(dispEnt(dispEntP(f[1])))
		tid, _ := strconv.Atoi(f[2])
		if e == nil || tid <= 0 || tid >= len(dispTypes) || dispTypes[tid] == model.FeatureTypeTypeNodeManagement || h.EntStr(e.Address().Entity) == "0" {
			return false
		}
		role := model.RoleType(f[3])
		if role != model.RoleTypeClient && role != model.RoleTypeServer {
			return false
		}
		var fl api.FeatureLocalInterface
		run = func() { fl = e.GetOrAddFeature(dispTypes[tid], role) }
		line = func() string { return fmt.Sprintf("addfeat %s %d", dispLFToken(fl), id) }
	case "addfn":
		ae, af := dispAddr(f[1])
		fl := l.FeatureByAddress(h.FA(dispLocalDev, ae, af))
		fn, _ := strconv.Atoi(f[2])
		name, ok := dispFnName[fn]
		if fl == nil || !ok || fl.Type() == model.FeatureTypeTypeNodeManagement || name == string(model.FunctionTypeDeviceDiagnosisHeartbeatData) || fn >= 900 {
			return false
		}
		run = func() { fl.AddFunctionType(model.FunctionType(name), f[3] == "1", f[4] == "1") }
		line = func() string { return fmt.Sprintf("addfn %s %d %s %d", f[1], fn, f[4], id) }
	case "descr":
		ae, af := dispAddr(f[1])
		fl := l.FeatureByAddress(h.FA(dispLocalDev, ae, af))
		if fl == nil {
			return false
		}
		run = func() { fl.SetDescriptionString("custom-" + f[2]) }
		line = func() string { return fmt.Sprintf("descr %s %d", f[1], id) }
	case "adduc", "remuc":
		e := l.Entity(dispEnt(dispEntP(f[1])))
		k, _ := strconv.Atoi(f[2])
		if e == nil || k < 0 || k >= len(dispUseCases) {
			return false
		}
		fnSet = 902
		uc := dispUseCases[k]
		if f[0] == "adduc" {
			run = func() {
				e.AddUseCaseSupport(uc.actor, uc.name, model.SpecificationVersionType("1.0.0"), "", true, []model.UseCaseScenarioSupportType{1, 2})
			}
		} else {
			run = func() { e.RemoveUseCaseSupport(uc.actor, uc.name) }
		}
		line = func() string { return fmt.Sprintf("%s %d", f[0], id) }
	case "addent":
		if x.ent3On {
			return false
		}
		e3 := spine.NewEntityLocal(l, model.EntityTypeTypeCEM, dispEnt([]uint{3}), 4*time.Second)
		fl := e3.GetOrAddFeature(model.FeatureTypeTypeLoadControl, model.RoleTypeServer)
		// (a function that is only written in full: the feature starts without data, and what a partial write does to
		// an empty limit list is the update engine's business, C02 / C04)
		fl.AddFunctionType(model.FunctionTypeLoadControlNodeData, true, true)
		x.ent3 = e3
		run = func() { l.AddEntity(e3); x.ent3On = true }
		line = func() string { return fmt.Sprintf("addent %d %s", id, dispLFToken(fl)) }
	case "rement":
		if !x.ent3On {
			return false
		}
		idu = x.newVal()
		run = func() { l.RemoveEntity(x.ent3); x.ent3On = false }
		line = func() string { return fmt.Sprintf("rement 3 %d %d", idu, id) }
	default:
		return false
	}
	x.done = append(x.done, op)
	id = x.newVal()
	before := w.digest()
	pan := h.Recover(run)
	h.Settle(x.base)
	evs := x.ev.take()
	t := x.traces()
	after := w.digest()
	exp := w.nmExpected()
	if f[0] == "rement" {
		c, ok := exp[902]
		x.recordVal(idu, c, ok)
	}
	c, ok := exp[fnSet]
	x.recordVal(id, c, ok)
	x.treeOps++
	x.st.treeOps++
	x.nmStale[fnSet] = true
	if f[0] == "rement" {
		x.nmStale[902] = true
	}
	impl := x.show(t, nil, nil, pan, false)
	if pan != nil {
		impl = "panic"
		x.fail("C05/panic-in-local-operation", fmt.Sprintf("%s: %v", op, pan))
	}
	for q := 1; q <= dispNPeers; q++ {
		for _, o := range t[q] {
			if o.isResponse() {
				x.fail("C01/response-without-request", fmt.Sprintf("%s: peer %d received %s", op, q, o))
			}
		}
	}
	for _, e := range evs {
		if e.typ == api.EventTypeDataChange && e.cls == "write" {
			x.fail("C03/data-changed-without-authorised-write", fmt.Sprintf("%s: a write event was published", op))
		}
	}
	for k := range before {
		if !strings.HasPrefix(k, "3/") && before[k] != after[k] {
			x.fail("C03/data-changed-without-authorised-write", fmt.Sprintf("local function data changed by %s: %s", op, dispDiff(before, after)))
			break
		}
	}
	x.r.Eval("tree:"+f[0], "")
	if x.d != nil {
		want := x.translate(x.d.Ask(line()))
		if impl != want {
			x.mismatch(impl, want, op)
		}
	}
	return !x.failed
}

// silent: C03 — a denied write changes nothing, notifies nobody, publishes no data-change event.
func (x *dispRun) silent(op string, t [dispNPeers + 1][]dispOut, p int, nData int, changed bool, before, after map[string]string) {
	if changed {
		x.fail("C03/denied-write-changed-data", fmt.Sprintf("%s: %s", op, dispDiff(before, after)))
	}
	if nData > 0 {
		x.fail("C03/denied-write-published-event", fmt.Sprintf("%s: %d data-change events", op, nData))
	}
	for q := 1; q <= dispNPeers; q++ {
		for _, o := range t[q] {
			if o.kind == "notify" {
				x.fail("C03/denied-write-notified", fmt.Sprintf("%s: peer %d received %s", op, q, o))
			}
		}
	}
}

// bind p client server type ctr ack | unbind p client server ctr ack [nodev] | sub p client server type ctr ack
func (x *dispRun) execCall(op string, f []string, p int) bool {
	w := x.w
	x.done = append(x.done, op)
	client, server := f[2], f[3]
	ce, cf := dispAddr(client)
	se, sf := dispAddr(server)
	i := 4
	var ft model.FeatureTypeType
	if f[0] != "unbind" && f[0] != "unsub" {
		tid, _ := strconv.Atoi(f[4])
		ft = dispTypes[tid%len(dispTypes)]
		i = 5
	}
	ctr, _ := strconv.ParseUint(f[i], 10, 64)
	ack := f[i+1] == "1"
	nodev := len(f) > i+2 && f[i+2] == "nodev"
	dev := w.peers[p].dev
	var cmd model.CmdType
	switch f[0] {
	case "bind":
		cmd = model.CmdType{NodeManagementBindingRequestCall: spine.NewNodeManagementBindingRequestCallType(h.FA(dev, ce, cf), h.FA(dispLocalDev, se, sf), ft)}
	case "sub":
		cmd = model.CmdType{NodeManagementSubscriptionRequestCall: spine.NewNodeManagementSubscriptionRequestCallType(h.FA(dev, ce, cf), h.FA(dispLocalDev, se, sf), ft)}
	case "unbind":
		ca, sa := h.FA(dev, ce, cf), h.FA(dispLocalDev, se, sf)
		if nodev { // the device parts may be omitted (SPINE 7.4.4)
			ca.Device, sa.Device = nil, nil
		}
		cmd = model.CmdType{NodeManagementBindingDeleteCall: spine.NewNodeManagementBindingDeleteCallType(ca, sa)}
	case "unsub":
		ca, sa := h.FA(dev, ce, cf), h.FA(dispLocalDev, se, sf)
		if nodev {
			ca.Device, sa.Device = nil, nil
		}
		cmd = model.CmdType{NodeManagementSubscriptionDeleteCall: spine.NewNodeManagementSubscriptionDeleteCallType(ca, sa)}
	}
	before := w.digest()
	pan := w.inject(p, model.DatagramType{Header: w.nmHeader(p, ctr, model.CmdClassifierTypeCall, ack), Payload: model.PayloadType{Cmd: []model.CmdType{cmd}}})
	h.Settle(x.base)
	evs := x.ev.take()
	t := x.traces()
	impl := x.show(t, nil, nil, pan, false)
	if pan != nil {
		impl = fmt.Sprintf("%d: panic", p)
		x.fail("C05/panic-on-well-formed-datagram", fmt.Sprintf("%s: %v", op, pan))
	}
	// SPEC: the call was accepted iff the registry change was published for this connection
	accepted := false
	wantT := api.EventTypeBindingChange
	wantC := api.ElementChangeAdd
	if f[0] == "sub" || f[0] == "unsub" {
		wantT = api.EventTypeSubscriptionChange
	}
	if f[0] == "unbind" || f[0] == "unsub" {
		wantC = api.ElementChangeRemove
	}
	for _, e := range evs {
		if e.typ == wantT && e.change == wantC && e.ski == w.peers[p].ski {
			accepted = true
		}
	}
	pair := dispPair{server, p, client}
	shape := dispShape(t[p])
	if pan == nil {
		for q := 1; q <= dispNPeers; q++ {
			for _, o := range t[q] {
				if q != p && o.isResponse() {
					x.fail("C01/response-to-other-peer", fmt.Sprintf("%s by peer %d: peer %d received %s", op, p, q, o))
				}
				if q == p && o.isResponse() {
					x.addressing(o, p, ctr, "0/0", "0/0")
				}
			}
		}
		if accepted && shape != dispAckShape(ack) {
			x.fail("C01/accepted-call-wrong-response", fmt.Sprintf("%s: accepted, responses %q", op, shape))
		}
		if !accepted && shape != "error" {
			x.fail("C01/rejected-call-not-one-error", fmt.Sprintf("%s: not accepted, responses %q", op, shape))
		}
		x.unchanged(before, op)
	}
	switch f[0] {
	case "bind":
		x.st.binds++
		if accepted {
			x.st.bindsOK++
			x.spec.binds[pair] = ""
		}
	case "sub":
		if accepted {
			x.st.subsOK++
			x.spec.subs[pair] = true
		}
	case "unsub":
		if accepted {
			x.st.unsubsOK++
			delete(x.spec.subs, pair)
		}
	case "unbind":
		x.st.unbinds++
		if accepted {
			x.st.unbindsOK++
			delete(x.spec.binds, pair)
			// RemoveBinding as written also drops the other bindings of this client feature
			for o := range x.spec.binds {
				if o.peer == p && o.client == client && x.spec.binds[o] == "" {
					x.spec.binds[o] = "C09"
				}
			}
		}
	}
	out := "rejected"
	if accepted {
		out = "accepted"
	}
	x.sweep(op)
	x.r.Eval(f[0]+":"+out, "")
	if x.d != nil {
		want := x.translate(x.d.Ask(op))
		if impl != want {
			x.mismatch(impl, want, op)
		}
	}
	return !x.failed
}

// sweep: SPEC C03 — the lookup the write gate uses (BindingManager.HasLocalFeatureRemoteBinding, public API) answers,
// for EVERY local server feature and EVERY feature any connected peer announces, exactly what the SPEC registry holds:
// the exact (connection, entity address, feature number) triple, nothing that merely resembles it, nothing deleted.
func (x *dispRun) sweep(op string) {
	w := x.w
	bm := w.l.BindingManager()
	for _, srv := range dispServers {
		se, sf := dispAddr(srv)
		lf := w.l.FeatureByAddress(h.FA(dispLocalDev, se, sf))
		if lf == nil {
			continue
		}
		// the registry content itself (public API): exactly the SPEC's entries for this server feature
		entries := bm.BindingsOnFeature(*lf.Address())
		got := map[dispPair]bool{}
		for _, en := range entries {
			q := 0
			for p := 1; p <= dispNPeers; p++ {
				if w.peers[p] != nil && en.ClientFeature.Device().Ski() == w.peers[p].ski {
					q = p
				}
			}
			got[dispPair{srv, q, h.AddrS(en.ClientFeature.Address())}] = true
		}
		for pr := range got {
			if _, ok := x.spec.binds[pr]; !ok {
				x.fail("C03/registry-holds-binding-the-spec-does-not", fmt.Sprintf("after %s: the binding registry holds peer %d feature %s on %s; SPEC registry of this server feature: %s", op, pr.peer, pr.client, srv, x.specOn(srv)))
			}
		}
		for pr, mark := range x.spec.binds {
			if pr.server == srv && mark == "" && !got[pr] {
				x.fail("C03/registry-lost-binding", fmt.Sprintf("after %s: the binding of peer %d feature %s to %s, granted earlier and never deleted, is not in the registry", op, pr.peer, pr.client, srv))
			}
		}
		if len(entries) == 0 {
			continue // nothing the lookup could confuse
		}
		holders := map[int]bool{}
		for pr := range got {
			holders[pr.peer] = true
		}
		for p := 1; p <= dispNPeers; p++ {
			// every feature of the peers that hold an entry here, and of the peer the operation came from; the other
			// peers' features differ in the device part (H-devaddr)
			if !w.connected(p) || !(holders[p] || strings.Contains(op+" ", " "+strconv.Itoa(p)+" ") && strings.Fields(op)[1] == strconv.Itoa(p)) {
				continue
			}
			for _, e := range w.peers[p].rd.Entities() {
				for _, rf := range e.Features() {
					cl := h.AddrS(rf.Address())
					mark, inSpec := x.spec.binds[dispPair{srv, p, cl}]
					has := bm.HasLocalFeatureRemoteBinding(lf.Address(), rf.Address())
					switch {
					case has && !inSpec:
						x.fail("C03/gate-lookup-holds-binding-the-registry-does-not", fmt.Sprintf("after %s: the lookup of the write gate says peer %d feature %s is bound to %s; no such binding was granted, or it was deleted, or its holder is gone (SPEC registry of this server feature: %s)", op, p, cl, srv, x.specOn(srv)))
					case !has && inSpec && mark == "":
						x.fail("C03/gate-lookup-lost-binding", fmt.Sprintf("after %s: peer %d feature %s holds a binding to %s granted earlier and never deleted, the lookup of the write gate denies it", op, p, cl, srv))
					}
				}
			}
		}
	}
}

func (x *dispRun) specOn(srv string) string {
	var l []string
	for pr := range x.spec.binds {
		if pr.server == srv {
			l = append(l, fmt.Sprintf("%d:%s", pr.peer, pr.client))
		}
	}
	sort.Strings(l)
	return "[" + strings.Join(l, " ") + "]"
}

// full p keep ctr ack — a FULL (unfiltered) discovery notification that lists the entities `keep` (comma separated, [0]
// always among them) with their features: entities it no longer lists are gone (with their bindings and subscriptions),
// unknown ones are added, known ones stay as they are; a notification that changes nothing is rejected.
func (x *dispRun) execFull(op string, f []string, p int) bool {
	w := x.w
	keep := map[string]bool{}
	var ents [][]uint
	for _, e := range strings.Split(f[2], ",") {
		keep[e] = true
		ents = append(ents, dispEntP(e))
	}
	if !keep["0"] {
		return false // not listing the device information entity is C05's / C06's subject
	}
	x.done = append(x.done, op)
	ctr, _ := strconv.ParseUint(f[3], 10, 64)
	ack := f[4] == "1"
	// SPEC side, from the public tree: what disappears, is anything new
	removed := map[string]bool{}
	known := map[string]bool{}
	for _, e := range w.peers[p].rd.Entities() {
		k := h.EntStr(e.Address().Entity)
		known[k] = true
		if !keep[k] {
			removed[k] = true
		}
	}
	added := false
	for k := range keep {
		if !known[k] {
			added = true
		}
	}
	before := w.digest()
	pan := w.inject(p, model.DatagramType{Header: w.nmHeader(p, ctr, model.CmdClassifierTypeNotify, ack), Payload: model.PayloadType{Cmd: []model.CmdType{w.discovery(p, ents, false, nil, true)}}})
	h.Settle(x.base)
	x.ev.take()
	t := x.traces()
	impl := x.show(t, nil, nil, pan, false)
	shape := dispShape(t[p])
	if pan != nil {
		impl = fmt.Sprintf("%d: panic", p)
		x.fail("C05/panic-on-well-formed-datagram", fmt.Sprintf("%s: %v", op, pan))
	} else {
		if !added && len(removed) == 0 {
			if shape != "error" {
				x.fail("C01/rejected-notify-not-one-error", fmt.Sprintf("%s: a full notification that changes nothing is rejected by the handler, responses %q", op, shape))
			}
		} else if shape != dispAckShape(ack) {
			x.fail("C01/accepted-notify-wrong-response", fmt.Sprintf("%s: responses %q", op, shape))
		}
		for q := 1; q <= dispNPeers; q++ {
			for _, o := range t[q] {
				if q != p && o.isResponse() {
					x.fail("C01/response-to-other-peer", fmt.Sprintf("%s by peer %d: peer %d received %s", op, p, q, o))
				}
				if q == p && o.isResponse() {
					x.addressing(o, p, ctr, "0/0", "0/0")
				}
			}
		}
		x.unchanged(before, op)
	}
	// SPEC registry: the writer's entity disappeared
	for pr := range x.spec.binds {
		if pr.peer == p && removed[dispEntOf(pr.client)] {
			delete(x.spec.binds, pr)
		}
	}
	for pr := range x.spec.subs {
		if pr.peer == p && removed[dispEntOf(pr.client)] {
			delete(x.spec.subs, pr)
		}
	}
	if pan == nil {
		for k := range removed {
			if k != "0" && w.peers[p].rd.Entity(dispEnt(dispEntP(k))) != nil {
				x.fail("C03/entity-not-listed-by-full-announcement-still-known", fmt.Sprintf("%s: entity [%s] of peer %d is no longer announced and still known", op, k, p))
			}
		}
		x.sweep(op)
	}
	x.st.fulls++
	if len(removed) > 0 && added {
		x.st.fullsReplace++
	}
	x.r.Eval("full", "")
	if x.d != nil {
		want := x.translate(x.d.Ask(op))
		if impl != want {
			x.mismatch(impl, want, op)
		}
	}
	return !x.failed
}

// reann p ctr ref ack — the peer repeats its discovery reply (every entity announced again, features unchanged): the
// code re-creates all remote feature objects; bindings and subscriptions stay registered and stay deletable.
func (x *dispRun) execReann(op string, f []string, p int) bool {
	w := x.w
	x.done = append(x.done, op)
	ctr, _ := strconv.ParseUint(f[2], 10, 64)
	ack := f[4] == "1"
	hd := w.nmHeader(p, ctr, model.CmdClassifierTypeReply, ack)
	if f[3] != "-" {
		rv, _ := strconv.ParseUint(f[3], 10, 64)
		hd.MsgCounterReference = util.Ptr(model.MsgCounterType(rv))
	}
	before := w.digest()
	pan := w.inject(p, model.DatagramType{Header: hd, Payload: model.PayloadType{Cmd: []model.CmdType{w.discovery(p, w.ents(), false, nil, true)}}})
	h.Settle(x.base)
	x.ev.take()
	t := x.traces()
	impl := x.show(t, nil, nil, pan, false)
	shape := dispShape(t[p])
	if pan != nil {
		impl = fmt.Sprintf("%d: panic", p)
		x.fail("C05/panic-on-well-formed-datagram", fmt.Sprintf("%s: %v", op, pan))
	} else {
		if f[3] != "-" && shape != dispAckShape(ack) {
			x.fail("C01/accepted-reply-wrong-response", fmt.Sprintf("%s: responses %q", op, shape))
		}
		for q := 1; q <= dispNPeers; q++ {
			for _, o := range t[q] {
				if q != p && o.isResponse() {
					x.fail("C01/response-to-other-peer", fmt.Sprintf("%s by peer %d: peer %d received %s", op, p, q, o))
				}
				if q == p && o.isResponse() {
					x.addressing(o, p, ctr, "0/0", "0/0")
				}
			}
		}
		x.unchanged(before, op)
		x.sweep(op)
	}
	x.st.reanns++
	x.r.Eval("reann", "")
	if x.d != nil {
		want := x.translate(x.d.Ask(op))
		if impl != want {
			x.mismatch(impl, want, op)
		}
	}
	return !x.failed
}

// entrem p e ctr ack | entadd p e ctr ack — partial discovery notifications of one entity
func (x *dispRun) execEnt(op string, f []string, p int) bool {
	w := x.w
	e := dispEntP(f[2])
	isDevInfo := len(e) == 1 && e[0] == 0
	if isDevInfo && f[0] == "entadd" {
		return false
	}
	with0, nofeat := false, false
	for _, t := range f[5:] {
		with0 = with0 || t == "with0"    // the notification also carries a removal entry for [0]
		nofeat = nofeat || t == "nofeat" // the "added" entry announces the entity WITHOUT features
	}
	if nofeat && f[0] == "entadd" {
		// outside the model's domain (it knows an entity through its features; Spine.Disp.featured): from here on
		// the history is judged by the SPEC monitors only
		x.d = nil
		x.specOnly = true
	}
	exists := w.peers[p].rd.Entity(dispEnt(e)) != nil
	// (an "added" notification for a known entity is a re-announcement: the code re-creates the entity's feature
	// objects, the registries keep their entries)
	x.done = append(x.done, op)
	ctr, _ := strconv.ParseUint(f[3], 10, 64)
	ack := f[4] == "1"
	st := model.NetworkManagementStateChangeTypeRemoved
	if f[0] == "entadd" {
		st = model.NetworkManagementStateChangeTypeAdded
	}
	before := w.digest()
	entries := [][]uint{e}
	if with0 && f[0] == "entrem" && !isDevInfo {
		entries = [][]uint{{0}, e} // a removal entry for the device-information entity is skipped, the others count
	}
	cmd := w.discovery(p, entries, true, &st, f[0] == "entadd" && !nofeat)
	pan := w.inject(p, model.DatagramType{Header: w.nmHeader(p, ctr, model.CmdClassifierTypeNotify, ack), Payload: model.PayloadType{Cmd: []model.CmdType{cmd}}})
	h.Settle(x.base)
	x.ev.take()
	t := x.traces()
	impl := x.show(t, nil, nil, pan, false)
	shape := dispShape(t[p])
	if pan != nil {
		impl = fmt.Sprintf("%d: panic", p)
		x.fail("C05/panic-on-well-formed-datagram", fmt.Sprintf("%s: %v", op, pan))
	} else {
		if shape != dispAckShape(ack) {
			x.fail("C01/accepted-notify-wrong-response", fmt.Sprintf("%s: responses %q", op, shape))
		}
		for q := 1; q <= dispNPeers; q++ {
			for _, o := range t[q] {
				if q != p && o.isResponse() {
					x.fail("C01/response-to-other-peer", fmt.Sprintf("%s by peer %d: peer %d received %s", op, p, q, o))
				}
				if q == p && o.isResponse() {
					x.addressing(o, p, ctr, "0/0", "0/0")
				}
			}
		}
		x.unchanged(before, op)
	}
	if f[0] == "entrem" && w.peers[p].rd.Entity(dispEnt([]uint{0})) == nil {
		x.fail("C05/device-information-entity-removed", fmt.Sprintf("%s: the peer's device-information entity is gone, the peer cannot be answered any more", op))
	}
	if f[0] == "entrem" && exists && !isDevInfo {
		es := f[2]
		for pr := range x.spec.binds {
			if dispEntOf(pr.client) != es {
				continue
			}
			if pr.peer == p {
				delete(x.spec.binds, pr)
			} else if x.spec.binds[pr] == "" {
				x.spec.binds[pr] = "C10"
			}
		}
		for pr := range x.spec.subs {
			if pr.peer == p && dispEntOf(pr.client) == es {
				delete(x.spec.subs, pr)
			}
		}
	}
	if f[0] == "entadd" && exists {
		x.st.reanns++
	}
	if pan == nil {
		x.sweep(op)
	}
	x.r.Eval(f[0], "")
	if x.d != nil {
		want := x.translate(x.d.Ask(op))
		if impl != want {
			x.mismatch(impl, want, op)
		}
	}
	return !x.failed
}

// finish: disconnect every peer (the local device unsubscribes from the global event bus with its last peer).
func (x *dispRun) finish() {
	if x.w == nil {
		return
	}
	for p := 1; p <= dispNPeers; p++ {
		if x.w.connected(p) {
			x.w.drop(p)
		}
	}
	h.Settle(x.base)
	x.ev.take()
	if !x.failed && !x.diverged && !x.specOnly {
		x.r.Traces++
	}
}

// ---------- running op lists

type dispEnv struct {
	r    *h.Report
	d    *h.Driver
	ev   *dispEvents
	base int
	fl   dispFlags
	st   *dispStats
}

func (env *dispEnv) newRun(r *h.Report, withModel bool) *dispRun {
	x := &dispRun{r: r, ev: env.ev, base: env.base, fl: env.fl, st: env.st, ctr: 100}
	if withModel {
		x.d = env.d
	}
	return x
}

func (env *dispEnv) runOps(r *h.Report, ops []string, withModel bool) *dispRun {
	x := env.newRun(r, withModel)
	for _, op := range ops {
		x.exec(op)
		if x.failed {
			break
		}
	}
	x.finish()
	return x
}

const dispWorldFixed = "world Setpoint DeviceDiagnosis Measurement 5"

// probe witnesses, one per defect flag of the model family
func dispWitnessResult() []string {
	return []string{dispWorldFixed, "conn 1", "dg 1 1/1 3/9 101 7 result 0 900"}
}
func dispWitnessUnbind() []string {
	lim := strconv.Itoa(dispFnID[dispFnLimit])
	lc := strconv.Itoa(dispTypeID[model.FeatureTypeTypeLoadControl])
	return []string{dispWorldFixed, "conn 1", "bind 1 1/1 1/1 " + lc + " 101 1", "bind 1 1/1 2/2 " + lc + " 102 1",
		"dg 1 1/1 2/2 103 - write 1 " + lim + " v=3", "unbind 1 1/1 1/1 104 1", "dg 1 1/1 2/2 105 - write 1 " + lim + " v=4"}
}
func dispWitnessEntity() []string {
	lim := strconv.Itoa(dispFnID[dispFnLimit])
	lc := strconv.Itoa(dispTypeID[model.FeatureTypeTypeLoadControl])
	return []string{dispWorldFixed, "conn 1", "conn 2", "bind 1 1/1 1/1 " + lc + " 101 1", "dg 1 1/1 1/1 102 - write 1 " + lim + " v=3",
		"entrem 2 1 103 1", "dg 1 1/1 1/1 104 - write 1 " + lim + " v=4"}
}
func dispWitnessDrop() []string {
	lim := strconv.Itoa(dispFnID[dispFnLimit])
	lc := strconv.Itoa(dispTypeID[model.FeatureTypeTypeLoadControl])
	return []string{dispWorldFixed, "conn 1", "conn 2", "bind 1 2/2 2/2 " + lc + " 101 0", "sub 1 2/2 2/2 " + lc + " 102 1", "sub 2 1/3 2/2 " + lc + " 103 1",
		"dg 1 2/2 2/2 104 - write 1 " + lim + " v=3", "drop 2", "dg 1 2/2 2/2 105 - write 0 " + lim + " v=4 part"}
}

// hierarchical entity addresses: the binding of [1]/1 authorises neither [1,1]/1 nor [1,2]/1, and the reverse
func dispWitnessPrefix() []string {
	lim := strconv.Itoa(dispFnID[dispFnLimit])
	lc := strconv.Itoa(dispTypeID[model.FeatureTypeTypeLoadControl])
	return []string{dispWorldFixed, "conn 1", "conn 2", "sub 2 1/1 1/1 " + lc + " 100 0", "bind 1 1/1 1/1 " + lc + " 101 1", "dg 1 1/1 1/1 102 - write 1 " + lim + " v=3",
		"dg 1 1.1/1 1/1 103 - write 1 " + lim + " v=4", "dg 1 1.2/1 1/1 104 - write 1 " + lim + " v=5",
		"bind 1 2.1/2 2/2 " + lc + " 105 1", "dg 1 2.1/2 2/2 106 - write 1 " + lim + " v=6", "dg 1 2/2 2/2 107 - write 1 " + lim + " v=7"}
}

// bind, re-announcement of the holder's entity (both routes), unbind, write: deleted means rejected
func dispWitnessReann() []string {
	lim := strconv.Itoa(dispFnID[dispFnLimit])
	lc := strconv.Itoa(dispTypeID[model.FeatureTypeTypeLoadControl])
	return []string{dispWorldFixed, "conn 1", "bind 1 1/1 1/1 " + lc + " 101 1", "sub 1 1/1 1/1 " + lc + " 102 1", "entadd 1 1 103 1", "dg 1 1/1 1/1 104 - write 1 " + lim + " v=3",
		"sub 1 1/1 1/1 " + lc + " 105 1", "unbind 1 1/1 1/1 106 1", "dg 1 1/1 1/1 107 - write 1 " + lim + " v=4",
		"bind 1 2/2 2/2 " + lc + " 108 1", "reann 1 109 2 1", "dg 1 2/2 2/2 110 - write 1 " + lim + " v=5", "unsub 1 1/1 1/1 111 1",
		"unbind 1 2/2 2/2 112 1", "dg 1 2/2 2/2 113 - write 1 " + lim + " v=6", "reann 1 114 3 0", "reann 1 115 9 1"}
}

// a full notification that REPLACES the holder's entity (same number of entities), writes from the vanished entity's
// feature right away and after it is announced again; a full notification that changes nothing
func dispWitnessFull() []string {
	lim := strconv.Itoa(dispFnID[dispFnLimit])
	lc := strconv.Itoa(dispTypeID[model.FeatureTypeTypeLoadControl])
	return []string{dispWorldFixed, "conn 1", "full 1 0,1,2 100 1", "bind 1 1/1 1/1 " + lc + " 101 1", "sub 1 1/1 1/1 " + lc + " 102 1", "dg 1 1/1 1/1 103 - write 1 " + lim + " v=3",
		"full 1 0,1,2 104 1", "full 1 0,2,1.1 105 1", "dg 1 1/1 1/1 106 - write 1 " + lim + " v=4", "full 1 0,1,2,1.1 107 0", "dg 1 1/1 1/1 108 - write 1 " + lim + " v=5",
		"bind 1 1/1 1/1 " + lc + " 109 1", "full 1 0,1 110 1", "dg 1 1/1 1/1 111 - write 1 " + lim + " v=6"}
}

// the cmd's `function` element names a writable function, the payload is a read-only one of the same feature (and
// the reverse): what is written decides
func dispWitnessFunctionElement() []string {
	lim, desc := strconv.Itoa(dispFnID[dispFnLimit]), strconv.Itoa(dispFnID["loadControlLimitDescriptionListData"])
	lc := strconv.Itoa(dispTypeID[model.FeatureTypeTypeLoadControl])
	return []string{dispWorldFixed, "conn 1", "conn 2", "sub 2 1/1 1/1 " + lc + " 100 0", "bind 1 1/1 1/1 " + lc + " 101 1",
		"dg 1 1/1 1/1 102 - write 1 " + desc + " fe=" + lim, "dg 1 1/1 1/1 103 - write 1 " + lim + " v=3 fe=" + desc, "dg 1 1/1 1/1 104 - read 0 " + desc + " fe=" + lim,
		"dg 1 1/1 1/1 105 - write 1 " + lim + " v=4 fe=" + lim}
}

// disconnect and reconnect of the same SKI: every connection has its own writer, responses belong on the current one
func dispWitnessReconnect() []string {
	lim := strconv.Itoa(dispFnID[dispFnLimit])
	return []string{dispWorldFixed, "conn 1", "dg 1 1/1 1/1 101 - read 0 " + lim, "drop 1", "conn 1", "dg 1 1/1 1/1 102 - read 1 " + lim, "dg 1 1/1 7/7 103 - read 0 " + lim,
		"drop 1", "conn 1", "dg 1 1/1 1/1 104 - read 0 " + lim}
}

// removal entries naming the device-information entity (skipped by the handler), alone and among others; then an entity
// announced WITHOUT features (outside the model's domain: SPEC only from there): a full notification listing it leaves
// it featureless, its removal drops the binding its former feature holds
func dispWitnessDevInfoAndFeatureless() []string {
	lim := strconv.Itoa(dispFnID[dispFnLimit])
	lc := strconv.Itoa(dispTypeID[model.FeatureTypeTypeLoadControl])
	return []string{dispWorldFixed, "conn 1", "bind 1 1/1 1/1 " + lc + " 101 1", "bind 1 2/2 2/2 " + lc + " 102 1", "entrem 1 0 103 1", "dg 1 1/1 1/1 104 - write 1 " + lim + " v=3",
		"entrem 1 2 105 1 with0", "dg 1 0/0 0/0 106 - read 0 901", "dg 1 2/2 2/2 107 - write 1 " + lim + " v=4",
		"entadd 1 1 108 1 nofeat", "dg 1 1/1 1/1 109 - write 1 " + lim + " v=5", "full 1 0,1,2 110 1", "dg 1 1/1 1/1 111 - write 1 " + lim + " v=6", "entrem 1 1 112 1",
		"entadd 1 1 113 1", "dg 1 1/1 1/1 114 - write 1 " + lim + " v=7"}
}

// node management reports the CURRENT local device: a read (which would fill any cache of the reply), then the
// application adds a function / a feature to an EXISTING entity, changes a description, adds / removes a use case, adds /
// removes an entity - and the same or another peer reads again; subscription / binding data follow the registry
func dispWitnessTreeChanges() []string {
	lc := strconv.Itoa(dispTypeID[model.FeatureTypeTypeLoadControl])
	sp := strconv.Itoa(dispTypeID[model.FeatureTypeTypeSetpoint])
	node := strconv.Itoa(dispFnID["loadControlNodeData"])
	return []string{dispWorldFixed, "conn 1", "conn 2", "sub 2 0/0 0/0 " + strconv.Itoa(dispTypeID[model.FeatureTypeTypeNodeManagement]) + " 100 0",
		"dg 1 0/0 0/0 101 - read 0 901", "addfn 1/1 " + node + " 0 1", "dg 1 0/0 0/0 102 - read 0 901", "dg 2 0/0 0/0 103 - read 1 901",
		"addfeat 1 " + sp + " server", "dg 2 0/0 0/0 104 - read 0 901", "addfn 1/4 " + strconv.Itoa(dispFnID["setpointListData"]) + " 1 1", "descr 1/4 7", "dg 1 0/0 0/0 105 - read 0 901",
		"dg 1 0/0 0/0 106 - read 0 902", "adduc 1 0", "dg 1 0/0 0/0 107 - read 0 902", "adduc 2 1", "remuc 1 0", "dg 2 0/0 0/0 108 - read 0 902",
		"addent", "dg 1 0/0 0/0 109 - read 0 901", "dg 1 1/1 3/1 110 - read 0 " + strconv.Itoa(dispFnID[dispFnLimit]), "adduc 3 2", "rement", "dg 1 0/0 0/0 111 - read 0 901", "dg 1 0/0 0/0 112 - read 0 902",
		"dg 1 1/1 3/1 113 - read 0 " + strconv.Itoa(dispFnID[dispFnLimit]), "dg 1 0/0 0/0 114 - read 0 903",
		"bind 1 1/1 1/1 " + lc + " 115 1", "sub 1 1/1 1/1 " + lc + " 116 1", "dg 1 0/0 0/0 117 - call 0 904", "dg 1 0/0 0/0 118 - call 0 905", "dg 2 0/0 0/0 119 - call 0 905",
		"unbind 1 1/1 1/1 120 1", "dg 1 0/0 0/0 121 - call 0 905", "addfeat 1 " + sp + " server", "addfn 1/1 " + node + " 1 0", "dg 1 0/0 0/0 122 - read 0 901"}
}

// the gate follows the ANNOUNCEMENT: a write-only function (announced writable, not readable) is written by the bound
// peer; a function the feature holds data for but does not announce is not; a function announced writable LATER
// (AddFunctionType on the existing feature) is writable from then on
func dispWitnessAnnouncement() []string {
	lc := strconv.Itoa(dispTypeID[model.FeatureTypeTypeLoadControl])
	cons, node := strconv.Itoa(dispFnID["loadControlLimitConstraintsListData"]), strconv.Itoa(dispFnID["loadControlNodeData"])
	return []string{dispWorldFixed, "conn 1", "conn 2", "bind 1 1/1 1/1 " + lc + " 101 1", "sub 2 1/1 1/1 " + lc + " 102 0",
		"dg 1 1/1 1/1 103 - write 1 " + cons, "dg 1 1/1 1/1 104 - read 0 " + cons, "dg 1 1/1 1/1 105 - write 1 " + node, "dg 2 1/1 1/1 106 - write 1 " + cons,
		"addfn 1/1 " + node + " 0 1", "dg 1 1/1 1/1 107 - write 1 " + node, "dg 1 0/0 0/0 108 - read 0 901"}
}

// the gate judges the SENDING connection's feature, whatever device the header's source address claims: omitted, the
// sender's own, or the device address of the other peer - which holds (or does not hold) the binding for the
// identically numbered feature
func dispWitnessSourceDevice() []string {
	lim := strconv.Itoa(dispFnID[dispFnLimit])
	lc := strconv.Itoa(dispTypeID[model.FeatureTypeTypeLoadControl])
	return []string{dispWorldFixed, "conn 1", "conn 2", "bind 1 1/1 1/1 " + lc + " 101 1", "dg 1 1/1 1/1 102 - write 1 " + lim + " v=3 sd=-", "dg 1 1/1 1/1 103 - write 1 " + lim + " v=4 sd=2",
		"dg 2 1/1 1/1 104 - write 1 " + lim + " v=5 sd=1", "dg 2 1/1 1/1 105 - write 1 " + lim + " v=6 sd=-", "dg 2 1/1 1/1 106 - write 1 " + lim + " v=7", "dg 1 1/1 1/1 107 - write 0 " + lim + " v=8 sd=3",
		"dg 2 1/1 1/1 108 - read 0 " + lim + " sd=1", "dg 1 1/1 1/1 109 - read 1 " + lim + " sd=-"}
}

// writes that pass through the approval path (server features with approval callbacks): approved with ackRequest on /
// off, denied (counter = 3 mod 4) with and without, a write the gate rejects (never presented), engine-refused after
// approval; the same on the two-callback feature [1]/1, whose second callback answers from another goroutine with a
// copy of the message
func dispWitnessApproval() []string {
	lim := strconv.Itoa(dispFnID[dispFnLimit])
	lc := strconv.Itoa(dispTypeID[model.FeatureTypeTypeLoadControl])
	return []string{dispWorldFixed + " apr=3", "conn 1", "conn 2", "bind 1 2/2 2/2 " + lc + " 101 1", "sub 2 1/3 2/2 " + lc + " 102 1",
		"dg 1 2/2 2/2 104 - write 1 " + lim + " v=3", "dg 1 2/2 2/2 105 - write 0 " + lim + " v=4", "dg 1 2/2 2/2 106 - write 0 " + lim + " v=5 part",
		"dg 1 2/2 2/2 107 - write 1 " + lim + " v=6", "dg 1 2/2 2/2 111 - write 0 " + lim + " v=7", "dg 2 2/2 2/2 108 - write 1 " + lim + " v=8",
		"bind 2 1/1 1/1 " + lc + " 109 0", "dg 2 1/1 1/1 112 - write 0 " + lim + " v=9", "dg 2 1/1 1/1 113 - write 1 " + lim + " v=10",
		"dg 2 1/1 1/1 115 - write 0 " + lim + " v=11", "dg 2 1/1 1/1 116 - write 1 " + lim + " v=12 part", "dg 1 2/2 2/2 117 - read 0 " + lim}
}

// ---------- generator

var dispOverviewPanics = true

type dispGen struct {
	rng interface{ Intn(int) int }
	x   *dispRun
}

func (g *dispGen) pick(l []string) string { return l[g.rng.Intn(len(l))] }

func (g *dispGen) next() uint64 { g.x.ctr++; return g.x.ctr }

func (g *dispGen) connectedPeers() []int {
	var ps []int
	for p := 1; p <= dispNPeers; p++ {
		if g.x.w.connected(p) {
			ps = append(ps, p)
		}
	}
	return ps
}

// server features and the client features of a peer that fit them (type-wise)
var dispServers = []string{"1/1", "1/2", "2/1", "2/2"}

// the entities a peer can announce as removed / added (again); [0] is never touched
var dispRemEnts = []string{"1", "2", "1.1", "1.2", "2.1"}

// relatives: the announced client features that share the feature number with c and whose entity address is a proper
// prefix or extension of c's (what a sloppy address comparison would confuse with c)
func (g *dispGen) relatives(c string) []string {
	ce, cf := dispAddr(c)
	var out []string
	for _, rf := range g.x.w.rem {
		if rf.feat != cf || rf.role != model.RoleTypeClient || len(rf.ent) == len(ce) {
			continue
		}
		a, b := rf.ent, ce
		if len(a) > len(b) {
			a, b = b, a
		}
		pre := true
		for i := range a {
			if a[i] != b[i] {
				pre = false
			}
		}
		if pre {
			out = append(out, fmt.Sprintf("%s/%d", h.EntU(rf.ent), rf.feat))
		}
	}
	return out
}

// fullOp: a full discovery notification of peer p. With a bound feature of p at hand mostly a REPLACEMENT: the holder's
// entity is no longer listed and an entity p does not announce at the moment is (same count where possible); else a
// random subset (fewer, more, the same: an empty diff).
func (g *dispGen) fullOp(p int) (op string, dropped *dispPair) {
	cur := map[string]bool{}
	for _, e := range g.x.w.peers[p].rd.Entities() {
		cur[h.EntStr(e.Address().Entity)] = true
	}
	var own []dispPair
	for pr := range g.x.spec.binds {
		if pr.peer == p && cur[dispEntOf(pr.client)] {
			own = append(own, pr)
		}
	}
	sort.Slice(own, func(i, j int) bool { return fmt.Sprint(own[i]) < fmt.Sprint(own[j]) })
	keep := []string{"0"}
	if len(own) > 0 && g.rng.Intn(10) < 7 {
		pr := own[g.rng.Intn(len(own))]
		dropped = &pr
		gone := dispEntOf(pr.client)
		var absent []string
		for _, e := range dispRemEnts {
			if cur[e] && e != gone {
				keep = append(keep, e)
			} else if !cur[e] {
				absent = append(absent, e)
			}
		}
		if len(absent) > 0 && g.rng.Intn(4) > 0 {
			keep = append(keep, absent[g.rng.Intn(len(absent))])
		}
	} else {
		for _, e := range dispRemEnts {
			switch c := g.rng.Intn(10); {
			case cur[e] && c < 7, !cur[e] && c < 3:
				keep = append(keep, e)
			}
		}
	}
	return fmt.Sprintf("full %d %s %d %d", p, strings.Join(keep, ","), g.next(), g.ack()), dropped
}

// reannOp: the peer announces again what it has announced: the whole tree by a repeated discovery reply, or the entity
// of one of its bound / subscribed client features by an "added" notification
func (g *dispGen) reannOp(p int, ent string) string {
	if ent == "" || g.rng.Intn(2) == 0 {
		ref := strconv.Itoa(1 + g.rng.Intn(6))
		return fmt.Sprintf("reann %d %d %s %d", p, g.next(), ref, g.ack())
	}
	return fmt.Sprintf("entadd %d %s %d %d", p, ent, g.next(), g.ack())
}

// writeAs: a write of a writable function (if any) of the server feature by the given client feature
func (g *dispGen) writeAs(p int, client, server string) string {
	fns := g.writableFns(server, true)
	fn := dispFnID[dispFnLimit]
	if len(fns) > 0 {
		fn = fns[g.rng.Intn(len(fns))]
	}
	extra := ""
	if dispFnName[fn] == dispFnLimit {
		extra = fmt.Sprintf(" v=%d", 3+g.rng.Intn(90))
	}
	return fmt.Sprintf("dg %d %s %s %d - write %d %d%s", p, client, server, g.next(), g.ack(), fn, extra)
}

func (g *dispGen) fitting(server string) (clients []string, typ model.FeatureTypeType) {
	e, f := dispAddr(server)
	lf := g.x.w.l.FeatureByAddress(h.FA(dispLocalDev, e, f))
	if lf == nil {
		// a feature of the detachable entity [3] while it is detached (its registry entries stay)
		return []string{"1/1", "1/3"}, model.FeatureTypeTypeLoadControl
	}
	typ = lf.Type()
	for _, rf := range g.x.w.rem {
		if rf.role == model.RoleTypeClient && (rf.typ == typ || rf.typ == model.FeatureTypeTypeGeneric) {
			clients = append(clients, fmt.Sprintf("%s/%d", h.EntU(rf.ent), rf.feat))
		}
	}
	return
}

func (g *dispGen) writableFns(server string, want bool) []int {
	e, f := dispAddr(server)
	lf := g.x.w.l.FeatureByAddress(h.FA(dispLocalDev, e, f))
	var out []int
	if lf == nil {
		return nil
	}
	for fn, o := range lf.Operations() {
		if o.Write() == want {
			out = append(out, dispFnID[string(fn)])
		}
	}
	sort.Ints(out)
	return out
}

func (g *dispGen) ack() int { return g.rng.Intn(2) }

// unannouncedFns: functions with function data on the server feature's type that the feature does not announce
func (g *dispGen) unannouncedFns(server string) []int {
	e, f := dispAddr(server)
	lf := g.x.w.l.FeatureByAddress(h.FA(dispLocalDev, e, f))
	if lf == nil {
		return nil
	}
	ops := lf.Operations()
	var out []int
	for _, fn := range dispFds(lf.Type()) {
		if _, ok := ops[model.FunctionType(dispFnName[fn])]; !ok && dispFnName[fn] != string(model.FunctionTypeDeviceDiagnosisHeartbeatData) {
			out = append(out, fn)
		}
	}
	return out
}

// treeOp: a local tree operation of the application
func (g *dispGen) treeOp() string {
	ents := []string{"1", "2"}
	if g.x.ent3On {
		ents = append(ents, "3")
	}
	feats := append([]string{}, dispServers...)
	feats = append(feats, "1/3", "2/3", "1/4", "2/4", "1/5")
	if g.x.ent3On {
		feats = append(feats, "3/1")
	}
	switch c := g.rng.Intn(100); {
	case c < 22:
		pool := dispTypePool()
		role := "server"
		if g.rng.Intn(3) == 0 {
			role = "client"
		}
		return fmt.Sprintf("addfeat %s %d %s", g.pick(ents), dispTypeID[pool[g.rng.Intn(len(pool))]], role)
	case c < 52:
		a := g.pick(feats)
		fn := dispFnID[g.pick([]string{"measurementListData", "setpointListData", dispFnLimit, "loadControlLimitDescriptionListData", "loadControlNodeData", "billListData"})]
		if un := g.unannouncedFns(a); len(un) > 0 && g.rng.Intn(4) > 0 {
			fn = un[g.rng.Intn(len(un))]
		} else if e, f := dispAddr(a); g.rng.Intn(2) == 0 {
			if lf := g.x.w.l.FeatureByAddress(h.FA(dispLocalDev, e, f)); lf != nil && len(dispFds(lf.Type())) > 0 {
				fds := dispFds(lf.Type())
				fn = fds[g.rng.Intn(len(fds))]
			}
		}
		rw := g.pick([]string{"1 1", "1 0", "0 1", "0 1", "0 0"})
		return fmt.Sprintf("addfn %s %d %s", a, fn, rw)
	case c < 67:
		return fmt.Sprintf("descr %s %d", g.pick(append(feats, "0/0", "0/1")), g.rng.Intn(50))
	case c < 80:
		return fmt.Sprintf("adduc %s %d", g.pick(ents), g.rng.Intn(len(dispUseCases)))
	case c < 88:
		return fmt.Sprintf("remuc %s %d", g.pick(ents), g.rng.Intn(len(dispUseCases)))
	default:
		if g.x.ent3On {
			return "rement"
		}
		return "addent"
	}
}

// nmRead: a read of what node management computes (discovery, use cases, destination list), or the call that reads the
// caller's subscription / binding entries
func (g *dispGen) nmRead(p int) string {
	fn := []int{901, 901, 901, 902, 902, 903, 904, 905}[g.rng.Intn(8)]
	cls := "read"
	if fn >= 904 {
		cls = "call"
	}
	return fmt.Sprintf("dg %d 0/0 0/0 %d - %s %d %d", p, g.next(), cls, g.ack(), fn)
}

// bindOp: mostly a request that can be granted (fitting client, server feature without binding)
func (g *dispGen) bindOp(kind string, p int) string {
	server := g.pick(dispServers)
	if kind == "bind" && g.rng.Intn(3) > 0 {
		// prefer a server feature that has no binding in the SPEC registry
		var free []string
		for _, s := range dispServers {
			taken := false
			for pr := range g.x.spec.binds {
				if pr.server == s {
					taken = true
				}
			}
			if !taken {
				free = append(free, s)
			}
		}
		if len(free) > 0 {
			server = g.pick(free)
		}
	}
	clients, typ := g.fitting(server)
	client := g.pick(clients)
	tid := dispTypeID[typ]
	switch g.rng.Intn(12) {
	case 0:
		client = g.pick([]string{"1/4", "2/3", "1/9", "0/0"}) // wrong role, unknown
	case 1:
		server = g.pick([]string{"1/3", "3/1", "0/0", "0/1"}) // client role, unknown, node management, other entity
	case 2:
		tid = g.rng.Intn(len(dispTypes)) // wrong type named
	}
	return fmt.Sprintf("%s %d %s %s %d %d %d", kind, p, client, server, tid, g.next(), g.ack())
}

func (g *dispGen) unbindOp(p int) string {
	var own []dispPair
	for pr := range g.x.spec.binds {
		if pr.peer == p {
			own = append(own, pr)
		}
	}
	sort.Slice(own, func(i, j int) bool { return own[i].server+own[i].client < own[j].server+own[j].client })
	nodev := ""
	if g.rng.Intn(3) == 0 {
		nodev = " nodev"
	}
	if len(own) > 0 && g.rng.Intn(5) > 0 {
		pr := own[g.rng.Intn(len(own))]
		return fmt.Sprintf("unbind %d %s %s %d %d%s", p, pr.client, pr.server, g.next(), g.ack(), nodev)
	}
	server := g.pick(dispServers)
	clients, _ := g.fitting(server)
	return fmt.Sprintf("unbind %d %s %s %d %d%s", p, g.pick(clients), server, g.next(), g.ack(), nodev)
}

// writeOp: about half authorised; the rest is bound but read-only, bound by another peer or for another
// feature, not bound at all, or addressed to a client / node-management / unknown feature
func (g *dispGen) writeOp(p int) string {
	var own, foreign, all []dispPair
	for pr := range g.x.spec.binds {
		all = append(all, pr)
	}
	sort.Slice(all, func(i, j int) bool { return fmt.Sprint(all[i]) < fmt.Sprint(all[j]) })
	var live []dispPair
	for _, pr := range all {
		if g.x.spec.binds[pr] == "" && g.x.w.connected(pr.peer) {
			live = append(live, pr)
		}
	}
	if len(live) > 0 && g.rng.Intn(5) < 3 {
		p = live[g.rng.Intn(len(live))].peer // write as a peer that holds a binding
	}
	for _, pr := range all {
		// bindings the code may have lost through a registry defect are used less often
		if pr.peer == p && (g.x.spec.binds[pr] == "" || g.rng.Intn(4) == 0) {
			own = append(own, pr)
		} else if pr.peer != p {
			foreign = append(foreign, pr)
		}
	}
	ref := "-"
	if g.rng.Intn(6) == 0 {
		ref = strconv.Itoa(1 + g.rng.Intn(20))
	}
	mk := func(src, dst string, fn int) string {
		extra := ""
		if dispFnName[fn] == dispFnLimit {
			extra = fmt.Sprintf(" v=%d", 3+g.rng.Intn(90))
			if g.rng.Intn(3) == 0 {
				extra += " part"
			}
		} else if g.rng.Intn(4) == 0 {
			// a partial write of a function announced writable without partial support is refused by the update
			// engine (other functions are only written in full: what the engine does with them is C02/C04's subject)
			de, df := dispAddr(dst)
			if lf := g.x.w.l.FeatureByAddress(h.FA(dispLocalDev, de, df)); lf != nil && dispHas(dispFds(lf.Type()), fn) {
				if a := dispAnnounced(lf, model.FunctionType(dispFnName[fn])); a.w && !a.wp {
					extra = " part bad"
				}
			}
		}
		// the optional `function` element: mostly absent; consistent; or naming another function - one of the same
		// feature with the opposite write flag if there is one (the gate must judge what the payload writes), else any
		if g.rng.Intn(4) == 0 {
			fe := fn
			if g.rng.Intn(3) > 0 {
				de, df := dispAddr(dst)
				if lf := g.x.w.l.FeatureByAddress(h.FA(dispLocalDev, de, df)); lf != nil {
					o, ok := lf.Operations()[model.FunctionType(dispFnName[fn])]
					if other := g.writableFns(dst, !(ok && o.Write())); len(other) > 0 {
						fe = other[g.rng.Intn(len(other))]
					}
				}
				if fe == fn || g.rng.Intn(5) == 0 {
					fe = dispFnID[g.pick([]string{"measurementListData", "setpointListData", dispFnLimit, "loadControlLimitDescriptionListData"})]
				}
			}
			if fe != fn {
				g.x.st.writesFeInconsistent++
			}
			extra += fmt.Sprintf(" fe=%d", fe)
		}
		// the device part of the SOURCE address as the header claims it: mostly the sender's own; omitted; or the
		// device address of another peer - preferably of the peer that really holds a binding of this client address
		// to this server feature (identical entity / feature numbers): the gate must judge the SENDING connection
		if c := g.rng.Intn(7); c == 0 {
			extra += " sd=-"
		} else if c == 1 {
			other := 1 + g.rng.Intn(dispNPeers)
			for _, pr := range foreign {
				if pr.client == src && pr.server == dst && g.rng.Intn(4) > 0 {
					other = pr.peer
				}
			}
			if other != p {
				extra += fmt.Sprintf(" sd=%d", other)
			}
		}
		return fmt.Sprintf("dg %d %s %s %d %s write %d %d%s", p, src, dst, g.next(), ref, g.ack(), fn, extra)
	}
	anyFn := func(server string) int {
		all := append(g.writableFns(server, true), g.writableFns(server, false)...)
		// ... and the functions the feature holds data for without announcing them at all
		if un := g.unannouncedFns(server); len(un) > 0 && g.rng.Intn(4) == 0 {
			return un[g.rng.Intn(len(un))]
		}
		if len(all) == 0 {
			return dispFnID[dispFnLimit]
		}
		return all[g.rng.Intn(len(all))]
	}
	c := g.rng.Intn(100)
	switch {
	case c < 55 && len(own) > 0: // own binding, writable function
		pr := own[g.rng.Intn(len(own))]
		if fns := g.writableFns(pr.server, true); len(fns) > 0 {
			return mk(pr.client, pr.server, fns[g.rng.Intn(len(fns))])
		}
		return mk(pr.client, pr.server, anyFn(pr.server))
	case c < 65 && len(own) > 0: // own binding, read-only or foreign function
		pr := own[g.rng.Intn(len(own))]
		if fns := g.writableFns(pr.server, false); len(fns) > 0 && g.rng.Intn(3) > 0 {
			return mk(pr.client, pr.server, fns[g.rng.Intn(len(fns))])
		}
		return mk(pr.client, pr.server, dispFnID[g.pick([]string{"measurementListData", "setpointListData", "deviceDiagnosisStateData", "billListData"})])
	case c < 78 && len(foreign) > 0: // the binding of another peer: same addresses, other connection
		pr := foreign[g.rng.Intn(len(foreign))]
		return mk(pr.client, pr.server, anyFn(pr.server))
	case c < 74 && len(own) > 0 && len(g.relatives(own[0].client)) > 0: // the parent / sub-entity feature with the bound feature's number
		pr := own[0]
		for _, o := range own {
			if len(g.relatives(o.client)) > 0 && g.rng.Intn(2) == 0 {
				pr = o
			}
		}
		g.x.st.writesFromRelative++
		return mk(g.pick(g.relatives(pr.client)), pr.server, anyFn(pr.server))
	case c < 86 && len(own) > 0: // own binding, but another server feature or another client feature
		pr := own[g.rng.Intn(len(own))]
		if g.rng.Intn(2) == 0 {
			s := g.pick(dispServers)
			return mk(pr.client, s, anyFn(s))
		}
		cl, _ := g.fitting(pr.server)
		return mk(g.pick(cl), pr.server, anyFn(pr.server))
	case c < 93: // any fitting pair
		s := g.pick(dispServers)
		cl, _ := g.fitting(s)
		return mk(g.pick(cl), s, anyFn(s))
	default:
		s := g.pick([]string{"1/3", "0/0", "0/1", "3/1", "2/3"})
		return mk(g.pick([]string{"1/1", "1/3", "2/2", "1/9"}), s, dispFnID[dispFnLimit])
	}
}

// anyOp: the classifier x function x destination x ack grid of C01
func (g *dispGen) anyOp(p int) string {
	w := g.x.w
	srcs := []string{"0/0", "1/1", "1/1", "1/2", "1/3", "2/1", "2/2", "1/4", "1/9"}
	dsts := []string{"0/0", "0/1", "1/1", "1/1", "1/2", "1/3", "2/1", "2/2", "2/3", "3/1", "1/7", "1/4", "2/4"}
	clss := []string{"read", "reply", "notify", "write", "call", "result"}
	src, dst, cls := g.pick(srcs), g.pick(dsts), g.pick(clss)
	de, df := dispAddr(dst)
	lf := w.l.FeatureByAddress(h.FA(dispLocalDev, de, df))
	var fn int
	c := g.rng.Intn(100)
	switch {
	case dst == "0/0" && c < 75:
		fn = []int{901, 902, 903, 904, 905, 900}[g.rng.Intn(6)]
	case (cls == "reply" || cls == "notify") && c < 70:
		// a function of the sending feature's type: what a server would really send
		se, sf := dispAddr(src)
		var fds []int
		for _, rf := range w.rem {
			if h.EntU(rf.ent) == h.EntU(se) && rf.feat == sf {
				fds = dispFds(rf.typ)
			}
		}
		if len(fds) > 0 {
			fn = fds[g.rng.Intn(len(fds))]
		} else {
			fn = dispFnID[dispFnLimit]
		}
	case lf != nil && c < 75 && len(dispFds(lf.Type())) > 0:
		fds := dispFds(lf.Type())
		fn = fds[g.rng.Intn(len(fds))]
	case c < 85:
		fn = 900
	default:
		fn = dispFnID[g.pick([]string{dispFnLimit, "measurementListData", "setpointListData", "deviceDiagnosisStateData", "billListData",
			"nodeManagementUseCaseData", "nodeManagementDestinationListData", "nodeManagementSubscriptionData", "deviceClassificationManufacturerData"})]
	}
	if cls == "result" && g.rng.Intn(6) > 0 {
		fn = 900
	}
	if cls != "result" && fn == 900 && g.rng.Intn(4) > 0 {
		fn = dispFnID[dispFnLimit]
	}
	if dst == "0/0" && fn == 901 && (cls == "reply" || cls == "notify") {
		// an empty discovery reply panics and an *empty full discovery notification* wipes the peer's entities and
		// wedges the peer (DESIGN appendix A): C05's subject, never generated here
		cls = "read"
	}
	ref := "-"
	if cls == "reply" || cls == "result" || g.rng.Intn(4) == 0 {
		if g.rng.Intn(12) > 0 {
			rr := w.peers[p].readReqs
			if len(rr) > 0 && g.rng.Intn(2) == 0 {
				ref = strconv.FormatUint(rr[len(rr)-1-g.rng.Intn(dispMin(len(rr), 3))], 10)
			} else {
				ref = strconv.Itoa(1 + g.rng.Intn(14))
			}
		}
	}
	extra := ""
	if cls == "write" && dispFnName[fn] == dispFnLimit {
		extra = fmt.Sprintf(" v=%d", 3+g.rng.Intn(90)) // limit lists are always written with their three changeable limits
	}
	// outside C01's quantifier, inside the correspondence (and C05's "still serves"): result data without error number,
	// destination device omitted or foreign, and - only against a tree whose PrintMessageOverview is repaired, the
	// member as written only approximates the panic on the first answer - requests without msgCounter
	if fn == 900 && g.rng.Intn(10) == 0 {
		extra += " noerr"
	}
	if g.rng.Intn(8) == 0 {
		// a `function` element on any classifier: consistent, or naming some other function
		fe := fn
		if g.rng.Intn(2) == 0 {
			fe = dispFnID[g.pick([]string{"measurementListData", "setpointListData", dispFnLimit, "loadControlLimitDescriptionListData", "nodeManagementUseCaseData"})]
		}
		extra += fmt.Sprintf(" fe=%d", fe)
	}
	if g.rng.Intn(16) == 0 {
		extra += g.pick([]string{" dd=-", " dd=9"})
	}
	ctr := strconv.FormatUint(g.next(), 10)
	if !dispOverviewPanics && g.rng.Intn(20) == 0 {
		ctr = "-"
	}
	return fmt.Sprintf("dg %d %s %s %s %s %s %d %d%s", p, src, dst, ctr, ref, cls, g.ack(), fn, extra)
}

// setOp: the local application sets data of a server feature (mostly the limit lists, in full or in part)
func (g *dispGen) setOp() string {
	srv := g.pick(dispServers)
	if g.rng.Intn(3) > 0 {
		srv = g.pick([]string{"1/1", "2/2"})
	}
	if srv == "1/1" || srv == "2/2" {
		extra := ""
		if g.rng.Intn(3) == 0 {
			extra = " part"
		}
		return fmt.Sprintf("setdata %s %d v=%d%s", srv, dispFnID[dispFnLimit], 3+g.rng.Intn(90), extra)
	}
	e, f := dispAddr(srv)
	fds := dispFds(g.x.w.l.FeatureByAddress(h.FA(dispLocalDev, e, f)).Type())
	return fmt.Sprintf("setdata %s %d", srv, fds[g.rng.Intn(len(fds))])
}

// history generates and executes one random history online (the generator looks at the SPEC registry of the
// monitor to stay mostly valid); the executed op list is x.done.
func (env *dispEnv) history(rng interface{ Intn(int) int }, n int, c03 bool) *dispRun {
	x := env.newRun(env.r, true)
	g := &dispGen{rng: rng, x: x}
	pool := dispTypePool()
	t2 := pool[rng.Intn(len(pool))]
	t3 := pool[rng.Intn(len(pool))]
	t4 := pool[rng.Intn(len(pool))]
	wseed := rng.Intn(1 << 20)
	wop := fmt.Sprintf("world %s %s %s %d", t2, t3, t4, wseed)
	if wseed%3 == 0 {
		// every third world: some server features carry write approval callbacks (which ones: from the same seed)
		wop += fmt.Sprintf(" apr=%d", 1+(wseed/3)%7)
	}
	x.exec(wop)
	np := 2 + rng.Intn(2)
	for p := 1; p <= np; p++ {
		x.exec(fmt.Sprintf("conn %d", p))
	}
	// opening: bindings and subscriptions so that writes can be accepted and notified
	for i := 0; i < 3+rng.Intn(4) && !x.failed; i++ {
		p := 1 + rng.Intn(np)
		if rng.Intn(2) == 0 {
			x.exec(g.bindOp("bind", p))
		} else {
			x.exec(g.bindOp("sub", p))
		}
	}
	for i := 0; i < n && !x.failed; i++ {
		ps := g.connectedPeers()
		c := rng.Intn(100)
		if len(ps) == 0 || (c >= 97 && len(ps) < np) {
			x.exec(fmt.Sprintf("conn %d", 1+rng.Intn(np)))
			continue
		}
		p := ps[rng.Intn(len(ps))]
		wShare := 22
		if c03 {
			wShare = 45
		}
		if k := rng.Intn(100); k < 9 {
			// the application changes the local tree / the use cases ... and a peer (the same, or another one, now or
			// later) reads what node management reports: the reply must carry the CURRENT tree, a first read before the
			// change having given any cache the chance to fill
			if k < 3 && len(ps) > 0 {
				x.exec(g.nmRead(ps[rng.Intn(len(ps))]))
			}
			x.exec(g.treeOp())
			if k < 6 && len(g.connectedPeers()) > 0 {
				qs := g.connectedPeers()
				x.exec(g.nmRead(qs[rng.Intn(len(qs))]))
			}
			continue
		}
		switch {
		case c < wShare:
			x.exec(g.writeOp(p))
		case c < wShare+10:
			x.exec(g.bindOp("bind", p))
		case c < wShare+15:
			uop := g.unbindOp(p)
			uf := strings.Fields(uop)
			_, held := x.spec.binds[dispPair{uf[3], p, uf[2]}]
			if held && rng.Intn(3) == 0 {
				// bind ... re-announcement of the holder's entity ... unbind: the entry must still be deletable
				if x.exec(g.reannOp(p, dispEntOf(uf[2]))) {
					x.st.unbindAfterReann++
				}
			}
			x.exec(uop)
			if held && rng.Intn(2) == 0 && x.w.connected(p) {
				// ... and rejected again as soon as it is deleted
				if x.exec(g.writeAs(p, uf[2], uf[3])) {
					x.st.writeAfterUnbind++
				}
			}
		case c < wShare+20:
			x.exec(g.bindOp("sub", p))
		case c < wShare+23:
			switch k := rng.Intn(12); {
			case k == 0: // a removal entry naming the device-information entity, alone
				x.exec(fmt.Sprintf("entrem %d 0 %d %d", p, g.next(), g.ack()))
			case k <= 2: // ... and among others
				x.exec(fmt.Sprintf("entrem %d %s %d %d with0", p, g.pick(dispRemEnts), g.next(), g.ack()))
			default:
				x.exec(fmt.Sprintf("entrem %d %s %d %d", p, g.pick(dispRemEnts), g.next(), g.ack()))
			}
		case c < wShare+27:
			if i > n/2 && rng.Intn(8) == 0 {
				// an entity announced without features stays known, featureless: outside the model's domain, the rest
				// of the history (a full notification listing it, its removal, writes) is judged by the SPEC only
				x.exec(fmt.Sprintf("entadd %d %s %d %d nofeat", p, g.pick(dispRemEnts), g.next(), g.ack()))
				x.st.specOnly++
			} else {
				x.exec(fmt.Sprintf("entadd %d %s %d %d", p, g.pick(dispRemEnts), g.next(), g.ack()))
			}
		case c < wShare+29:
			x.exec(fmt.Sprintf("drop %d", p))
		case c < wShare+34:
			x.exec(g.setOp())
		case c < wShare+37:
			x.exec(g.reannOp(p, g.pick(dispRemEnts)))
		case c < wShare+41:
			fop, dropped := g.fullOp(p)
			x.exec(fop)
			if dropped != nil && x.w.connected(p) {
				// rejected again as soon as the writer's entity disappears - right away, and after the entity is
				// announced again without a new binding
				if rng.Intn(2) == 0 && x.exec(g.writeAs(p, dropped.client, dropped.server)) {
					x.st.writeAfterFull++
				}
				if rng.Intn(2) == 0 {
					if rng.Intn(2) == 0 {
						x.exec(fmt.Sprintf("entadd %d %s %d %d", p, dispEntOf(dropped.client), g.next(), g.ack()))
					} else {
						x.exec(fmt.Sprintf("full %d %s %d %d", p, "0,"+strings.Join(dispRemEnts, ","), g.next(), g.ack()))
					}
					if x.w.connected(p) && x.exec(g.writeAs(p, dropped.client, dropped.server)) {
						x.st.writeAfterFull++
					}
				}
			}
		case c < wShare+44:
			// delete a subscription (mostly one that exists), now and then right after a re-announcement
			var own []dispPair
			for pr := range x.spec.subs {
				if pr.peer == p {
					own = append(own, pr)
				}
			}
			sort.Slice(own, func(i, j int) bool { return fmt.Sprint(own[i]) < fmt.Sprint(own[j]) })
			if len(own) > 0 && rng.Intn(5) > 0 {
				pr := own[rng.Intn(len(own))]
				if rng.Intn(3) == 0 {
					x.exec(g.reannOp(p, dispEntOf(pr.client)))
				}
				x.exec(fmt.Sprintf("unsub %d %s %s %d %d", p, pr.client, pr.server, g.next(), g.ack()))
			} else {
				srv := g.pick(dispServers)
				cl, _ := g.fitting(srv)
				x.exec(fmt.Sprintf("unsub %d %s %s %d %d", p, g.pick(cl), srv, g.next(), g.ack()))
			}
		default:
			x.exec(g.anyOp(p))
		}
	}
	x.finish()
	return x
}

func dispMin(a, b int) int {
	if a < b {
		return a
	}
	return b
}

// ---------- the test

func TestDispatch(t *testing.T) {
	dispInit()
	r := h.NewReport("dispatch", "histories of real datagrams from 2-3 peers with identical numbering against a local device with node management, "+
		"two fixed LoadControl server features (real limit payloads, full and partial writes) and three features of feature types drawn per history "+
		"from every type the function factory knows (functions and r/w flags read back from the real objects): the classifier x function x ack x "+
		"destination (known / unknown / client / server / special) grid, interleaved with real nodeManagementBindingRequestCall / BindingDeleteCall / "+
		"SubscriptionRequestCall datagrams, partial discovery notifications (entity removed / added), RemoveRemoteDeviceConnection and reconnects; "+
		"every step compared with Spine.Disp (outputs per connection incl. error numbers, write effect) and judged by the C01 rule table on the "+
		"outbound trace of ALL peers and by the C03 monitor (data digests through the public API, notifications, events, SPEC binding registry). "+
		"Not generated on purpose: the empty discovery reply (panics) and the *empty full discovery notification* (wipes the peer's entities and "+
		"wedges the peer) - both belong to C05; delete calls naming another "+
		"peer's device (C09). non-trivial = distinct (classifier, function, ack, destination kind, role, registered) -> response shape of "+
		"well-formed datagrams from announced features")
	defer r.Write()
	d := h.StartDriver("drv_disp")
	defer d.Close()
	ev := &dispEvents{}
	_ = spine.Events.Subscribe(ev)
	defer func() { _ = spine.Events.Unsubscribe(ev) }()
	env := &dispEnv{r: r, d: d, ev: ev, st: newDispStats()}
	// warm-up, then the goroutine baseline at a quiescent point
	env.base = 1 << 30
	env.runOps(h.Quiet(), dispWitnessDrop(), false)
	env.base = h.Baseline()

	// ---- probe phase: which member of the model family is the tree under test (DESIGN §4.7)
	probe := func(ops []string, on func(q *h.Report, x *dispRun) bool) bool {
		q := h.Quiet()
		save := env.st
		env.st = newDispStats()
		x := env.runOps(q, ops, false)
		env.st = save
		return on(q, x)
	}
	env.fl.r = probe(dispWitnessResult(), func(q *h.Report, _ *dispRun) bool { return q.HasSpecFail("C01/result-on-result") })
	env.fl.u = probe(dispWitnessUnbind(), func(q *h.Report, _ *dispRun) bool {
		return q.HasSpecFail("C03/binding-lost-to-unbind-of-another-binding")
	})
	env.fl.e = probe(dispWitnessEntity(), func(q *h.Report, _ *dispRun) bool {
		return q.HasSpecFail("C03/binding-lost-to-other-peers-entity-removal")
	})
	// reply / result without reference, result without result data: PrintMessageOverview panics on them as written
	// (C05); the member overviewPanics = false is the repaired header layer, which serves them.
	dispOverviewPanics = probe([]string{dispWorldFixed, "conn 1", "dg 1 1/1 1/3 101 - reply 0 " + strconv.Itoa(dispFnID[dispFnLimit])},
		func(q *h.Report, _ *dispRun) bool { return q.Dist["reply:panic"] > 0 })
	env.fl.o = dispOverviewPanics
	r.SetFlag("overviewPanics", dispOverviewPanics, nil, "reply/result without msgCounterReference, result without result data panic in PrintMessageOverview (C05); off: the repaired header layer serves them (requests without msgCounter are generated only then)")
	if o := os.Getenv("VERIF_DISP_FLAGS"); len(o) == 4 {
		// harness self-test only: force a member of the model family (a wrong member must disagree with the code)
		env.fl = dispFlags{o[0] == '1', o[1] == '1', o[2] == '1', o[3] == '1'}
		r.Info["flags_forced"] = o
	}
	r.SetFlag("resultOnResult", env.fl.r, dispWitnessResult(), "a result addressed to an unknown local feature is answered with an error result (ProcessCmd)")
	r.SetFlag("unbindDisjunct", env.fl.u, dispWitnessUnbind(), "RemoveBinding drops every binding that shares the client address or the server feature (C09)")
	r.SetFlag("entRemovalAnyPeer", env.fl.e, dispWitnessEntity(), "RemoveBindingsForEntity ignores the device: another peer's entity removal drops the binding (C10)")

	// the excluded point of H-devaddr, observed and recorded (no verdict): peer 3 announces peer 1's device address and
	// writes through peer 1's binding
	{
		lim := strconv.Itoa(dispFnID[dispFnLimit])
		lc := strconv.Itoa(dispTypeID[model.FeatureTypeTypeLoadControl])
		q := h.Quiet()
		save := env.st
		env.st = newDispStats()
		env.runOps(q, []string{dispWorldFixed, "conn 1", "connas 3 1", "bind 1 1/1 1/1 " + lc + " 101 1", "dg 3 1/1 1/1 102 - write 1 " + lim + " v=7"}, false)
		env.st = save
		obs := "rejected"
		if q.Dist["write:success"] > 0 {
			obs = "accepted: a second connection announcing the first peer's device address writes through the first peer's binding (HasLocalFeatureRemoteBinding compares addresses, not connections)"
		}
		r.Info["H-devaddr excluded point (peer 3 announces peer 1's device address, peer 1 holds the binding, peer 3 writes)"] = obs
	}

	if ops := h.ReplayOps("dispatch"); ops != nil {
		env.runOps(r, ops, true)
		return
	}

	// ---- corpus: the witnesses (each known finding is reproduced on every run), then past failures
	for _, ops := range [][]string{dispWitnessResult(), dispWitnessUnbind(), dispWitnessEntity(), dispWitnessDrop(), dispWitnessPrefix(), dispWitnessReann(), dispWitnessFull(),
		dispWitnessFunctionElement(), dispWitnessReconnect(), dispWitnessDevInfoAndFeatureless(), dispWitnessTreeChanges(), dispWitnessAnnouncement(), dispWitnessSourceDevice(), dispWitnessApproval()} {
		env.runOps(r, ops, true)
	}

	// ---- seeded generation
	rng := h.Rng(1)
	hist := h.Scale(900, 12000)
	after := 0
	for i := 0; i < hist; i++ {
		if r.MismatchN > 0 {
			// the tie is broken: keep generating for a while - each history ends at its own mismatch, the monitor
			// judges every step before it - in search of an input on which the property itself fails
			if after++; after > 200 {
				break
			}
		}
		n := 30 + rng.Intn(50)
		env.history(rng, n, i%2 == 1)
	}

	// ---- minimise the witness of the first mismatch and of unlisted spec failures
	known := map[string]bool{"C01/result-on-result": true, "C03/binding-lost-to-unbind-of-another-binding": true, "C03/binding-lost-to-other-peers-entity-removal": true}
	for _, sf := range append([]h.SpecFailure{}, r.SpecFailures...) {
		if known[sf.Key] || len(sf.Ops) < 5 {
			continue
		}
		key := sf.Key
		small := h.Shrink(sf.Ops, func(ops []string) bool {
			if len(ops) == 0 || !strings.HasPrefix(ops[0], "world") {
				return false
			}
			q := h.Quiet()
			save := env.st
			env.st = newDispStats()
			env.runOps(q, ops, false)
			env.st = save
			return q.HasSpecFail(key)
		})
		r.ReplaceSpecFailOps(key, small)
	}
	if len(r.Mismatches) > 0 {
		mm := r.Mismatches[0]
		run := func(ops []string) *h.Report {
			q := h.Quiet()
			save := env.st
			env.st = newDispStats()
			env.runOps(q, ops, true)
			env.st = save
			return q
		}
		small := h.Shrink(mm.Ops, func(ops []string) bool {
			if len(ops) == 0 || !strings.HasPrefix(ops[0], "world") {
				return false
			}
			return run(ops).MismatchN > 0
		})
		if q := run(small); q.MismatchN > 0 {
			r.ReplaceMismatch(0, small, q.Mismatches[0].Impl, q.Mismatches[0].Model)
		}
	}

	st := env.st
	r.Info["writes"] = map[string]int{"total": st.writes, "accepted": st.writesOK, "unauthorised": st.writesUnauth, "authorised_but_refused_by_update_engine": st.writesEngineRej, "denied_while_subscribed": st.deniedWithSubs,
		"notifications_of_accepted_writes": st.notifies}
	r.Info["writes_through_the_approval_path"] = map[string]int{"approved_with_ackRequest": st.aprApprovedAck, "approved_without_ackRequest": st.aprApprovedNoAck, "denied_by_a_callback": st.aprDenied, "not_sent_for_lack_of_a_counter": st.aprSkipped}
	r.Info["registry_calls"] = map[string]int{"bind": st.binds, "bind_granted": st.bindsOK, "unbind": st.unbinds, "unbind_done": st.unbindsOK, "subscriptions_granted": st.subsOK}
	var cov []string
	for k := range st.covered {
		cov = append(cov, k)
	}
	sort.Strings(cov)
	r.Info["registered_functions_accepted_per_classifier"] = len(cov)
	if r.MismatchN > 0 {
		return // generation stopped at the mismatch: the floors say nothing, the verdict is the mismatch
	}
	r.Info["re-announcements"] = map[string]int{"total": st.reanns, "before_an_unbind_of_a_held_binding": st.unbindAfterReann, "writes_right_after_unbind": st.writeAfterUnbind,
		"writes_from_parent_or_sub_entity_of_a_bound_feature": st.writesFromRelative, "subscriptions_deleted": st.unsubsOK}
	r.Info["full_notifications"] = map[string]int{"total": st.fulls, "replacing_an_entity": st.fullsReplace, "writes_from_a_dropped_holder": st.writeAfterFull}
	r.Info["writes_with_inconsistent_function_element"] = st.writesFeInconsistent
	r.Info["histories_continued_outside_the_model_domain_(featureless_entity)_judged_by_SPEC_only"] = st.specOnly
	r.Floor("full notifications that replace an entity (per 1000 steps)", st.fullsReplace*1000, r.Evaluations, 2)
	r.Floor("writes from a holder a full notification dropped (per 1000 writes)", st.writeAfterFull*1000, st.writes, 5)
	r.Floor("writes with an inconsistent function element (per 1000 writes)", st.writesFeInconsistent*1000, st.writes, 30)
	r.Floor("re-announcement before unbind (per 1000 unbinds)", st.unbindAfterReann*1000, st.unbinds, 40)
	r.Floor("write right after unbind (per 1000 unbinds)", st.writeAfterUnbind*1000, st.unbinds, 80)
	r.Floor("writes from the parent / sub-entity feature of a bound one (per 1000 writes)", st.writesFromRelative*1000, st.writes, 10)
	r.Info["local_tree_operations"] = map[string]int{"total": st.treeOps, "node_management_reads_judged_by_content": st.nmReads, "of_them_first_read_after_a_local_change": st.nmReadsAfterChange,
		"subscription_binding_data_calls_judged_by_entries": st.nmEntryReads}
	r.Info["writes_claiming_a_source_device"] = map[string]int{"omitted_or_foreign": st.writesSrcDev, "by_a_bound_writer": st.writesSrcDevOwnBound, "unbound_writer_naming_the_binding_holders_device": st.writesSrcDevForeignBound}
	r.Info["writes_by_announcement"] = map[string]int{"write_only_function": st.writesWriteOnly, "function_with_data_not_announced": st.writesUnannounced}
	r.Floor("local tree operations (per 1000 steps)", st.treeOps*1000, r.Evaluations, 15)
	r.Floor("node-management reads right after a local change (per 1000 tree operations)", st.nmReadsAfterChange*1000, st.treeOps, 300)
	r.Floor("writes whose header omits or forges the source device (per 1000 writes)", st.writesSrcDev*1000, st.writes, 100)
	r.Floor("... by a bound writer (per 1000 writes)", st.writesSrcDevOwnBound*1000, st.writes, 20)
	r.Floor("... by an unbound writer naming the device of the peer that holds the binding (per 1000 writes)", st.writesSrcDevForeignBound*1000, st.writes, 3)
	r.Floor("writes of a write-only function (per 1000 writes)", st.writesWriteOnly*1000, st.writes, 10)
	r.Floor("writes of a function with data that is not announced (per 1000 writes)", st.writesUnannounced*1000, st.writes, 5)
	r.Floor("writes accepted", st.writesOK, st.writes, 0.15)
	r.Floor("accepted writes that went through approval callbacks, without ackRequest (per 1000 accepted writes)", st.aprApprovedNoAck*1000, st.writesOK, 20)
	r.Floor("authorised writes denied by an approval callback (per 1000 writes)", st.aprDenied*1000, st.writes, 3)
	r.Floor("writes unauthorised", st.writesUnauth, st.writes, 0.40)
	r.Floor("binding requests granted", st.bindsOK, st.binds, 0.30)
	r.Floor("binding deletions done", st.unbindsOK, st.unbinds, 0.15)
	r.Floor("denied writes with subscribers present", st.deniedWithSubs, st.writesUnauth, 0.10)
	r.Floor("authorised writes the update engine refuses (per 1000 writes)", st.writesEngineRej*1000, st.writes, 3)
	r.Floor("accepted (classifier, registered function) pairs", len(cov), h.Scale(60, 200), 1.0)
}
