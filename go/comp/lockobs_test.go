package comp

// C17 — dynamic cross-check of the lock analyser (a correspondence for the analyser itself).
//
// The theorems of Spine.Props.C17 rest on two assumptions that ARE the analyser go/lockgraph:
// RespectsEdges (its lock-order edges over-approximate every real "holds h, asks for m") and
// TableGuarded (the must-held sets of its guarded-by rows under-approximate what is really held,
// on the accessed object's own mutex). Nothing static checks the analyser against Go semantics.
// This test checks it against executions: `lockgraph -instr` (run by ./check before the Lean
// build) writes an instrumented copy of the tree under test — mutexes wrapped by a recorder of
// per-goroutine held sets, a hook before every statement that touches a field of the analyser's
// universe (go/ast + go/types, independent of the SSA analysis) — the race workloads are built
// against that copy and run, and every DISTINCT observation is judged
//
//   - by the Lean driver drv_lockobs, which evaluates the monitor predicates Spine.LockObs.acqOk /
//     accOk (proved to be the pointwise content of RespectsEdges / GuardedRW) over the tables
//     regenerated from the same tree;
//   - against the analyser's site table: every observed access must be one the analyser recorded;
//   - for object identity: the common lock held at an access must be the mutex INSIDE the accessed
//     object (struct offsets), never the same-named mutex of another object of that type;
//   - a mutex instance asked for by a goroutine that already holds it (recursive RLock: deadlocks
//     once a writer queues in between) is a failure of the property itself.
//
// An observation outside the tables breaks the tie (Mismatch: the assumption under the theorems
// is false of this tree); it is not by itself a failing input of the property.

import (
	"bufio"
	"encoding/json"
	"fmt"
	"os"
	"os/exec"
	"path/filepath"
	"regexp"
	"runtime"
	"sort"
	"strconv"
	"strings"
	"sync"
	"testing"
	"time"

	"verifharness/h"
)

type lobLocks struct {
	Edges []struct {
		From, To string
	} `json:"edges"`
	Mutexes    []string                     `json:"mutexes"`
	Common     map[string][]string          `json:"common_lock"`
	AllSites   map[string]map[string]string `json:"all_sites"`
	Shared     []string                     `json:"shared_fields"`
	Undiscipl  []string                     `json:"undisciplined"`
	Repo       string                       `json:"repo"`
	Cyclic     bool                         `json:"cyclic"`
	Immutables []string                     `json:"immutable_after_construction"`
}

type lobMeta struct {
	Mutexes   []string `json:"mutexes"`
	AddrTaken []string `json:"addr_taken"`
	Hooks     int      `json:"access_hooks"`
	Files     int      `json:"files_rewritten"`
	Repo      string   `json:"repo"`
}

func lobRoot() string {
	if r := os.Getenv("VERIF_ROOT"); r != "" {
		return r
	}
	wd, _ := os.Getwd()
	return filepath.Clean(filepath.Join(wd, "..", ".."))
}

type lobObs struct {
	line      string
	workloads map[string]bool
}

var lobReReplace = regexp.MustCompile(`replace github.com/enbility/spine-go => \S+`)

func TestLockObs(t *testing.T) {
	r := h.NewReport("lockobs", "dynamic cross-check of the lock analyser: the concurrent workloads of TestRace run against a copy of the tree under test instrumented by go/ast (mutex wrappers recording per-goroutine held sets, a hook before every statement touching an analysed field); every distinct observed (held set, acquired mutex) and (field, read/write, held set, site) is judged by the Lean monitor predicates acqOk/accOk over the regenerated tables, against the analyser's access-site table and for object identity (held mutex inside the accessed object)")
	defer r.Write()
	root := lobRoot()
	goDir := filepath.Join(root, "go")
	instrDir := filepath.Join(goDir, ".instr", "spine-go")
	var locks lobLocks
	var meta lobMeta
	if b, err := os.ReadFile(filepath.Join(root, "lean", "Spine", "Generated", "locks.json")); err != nil || json.Unmarshal(b, &locks) != nil {
		t.Fatalf("cannot read the analyser output (lean/Spine/Generated/locks.json): %v", err)
	}
	mb, err := os.ReadFile(filepath.Join(goDir, ".instr", "instr.json"))
	if err != nil || json.Unmarshal(mb, &meta) != nil {
		r.Floor("instrumented copy of the tree under test present (go/.instr, written by `lockgraph -instr`)", 0, 1, 1.0)
		return
	}
	if meta.Repo != locks.Repo {
		r.Floor("instrumented copy and tables are of the same tree", 0, 1, 1.0)
		return
	}

	// ---------------------------------------------------------------- build the workers against the copy
	tmp, err := os.MkdirTemp("", "verif-lockobs-")
	if err != nil {
		t.Fatal(err)
	}
	defer os.RemoveAll(tmp)
	modSrc, err := os.ReadFile(filepath.Join(goDir, "go.mod"))
	if err != nil {
		t.Fatal(err)
	}
	mod := lobReReplace.ReplaceAllString(string(modSrc), "replace github.com/enbility/spine-go => "+instrDir)
	_ = os.WriteFile(filepath.Join(goDir, ".instr.mod"), []byte(mod), 0o644)
	if sums, err := os.ReadFile(filepath.Join(meta.Repo, "go.sum")); err == nil {
		_ = os.WriteFile(filepath.Join(goDir, ".instr.sum"), sums, 0o644)
	}
	bin := filepath.Join(tmp, "comp.instr.test")
	t0 := time.Now()
	var out []byte
	for attempt := 0; attempt < 4; attempt++ {
		build := exec.Command("go", "test", "-c", "-modfile", filepath.Join(goDir, ".instr.mod"), "-tags", "verif", "-o", bin, "./comp")
		build.Dir = goDir
		build.Env = append(os.Environ(), "CGO_ENABLED=0", "GOFLAGS=-mod=mod")
		out, err = build.CombinedOutput()
		// the Go build cache is shared with other runs on this machine which trim it: an entry that
		// vanished between lookup and use makes the go tool fail ("open …/go-build/…: no such file");
		// that says nothing about the tree — build again
		if err == nil || !(strings.Contains(string(out), "go-build") && strings.Contains(string(out), "no such file or directory")) {
			break
		}
		time.Sleep(2 * time.Second)
	}
	if err != nil {
		tail := string(out)
		if len(tail) > 1500 {
			tail = tail[len(tail)-1500:]
		}
		r.Info["instrumented build"] = tail
		r.Floor("instrumented copy compiles", 0, 1, 1.0)
		return
	}
	r.Info["instrumented_build_s"] = time.Since(t0).Seconds()

	// ---------------------------------------------------------------- run
	all := racWorkloads()
	type job struct {
		wl   racWorkload
		pct  int
		seed int64
	}
	var jobs []job
	if ops := h.ReplayOps("lockobs"); ops != nil {
		byName := map[string]racWorkload{}
		for _, w := range all {
			byName[w.name] = w
		}
		for _, op := range ops {
			f := strings.Fields(op)
			if len(f) >= 2 && f[0] == "workload" {
				if wl, ok := byName[f[1]]; ok {
					j := job{wl, 100, h.Seed()}
					for _, kv := range f[2:] {
						if strings.HasPrefix(kv, "iters=") {
							j.pct, _ = strconv.Atoi(kv[6:])
						}
						if strings.HasPrefix(kv, "seed=") {
							j.seed, _ = strconv.ParseInt(kv[5:], 10, 64)
						}
					}
					jobs = append(jobs, j)
				}
			}
		}
	} else {
		for rep := 0; rep < h.Scale(1, 3); rep++ {
			for _, wl := range all {
				jobs = append(jobs, job{wl, h.Scale(25, 100), h.Seed()*100 + int64(rep)})
			}
		}
	}
	par := runtime.NumCPU() / 4
	if par < 2 {
		par = 2
	}
	if par > 4 {
		par = 4
	}
	type res struct {
		lines    []string
		finished bool
		ops      int64
		hang     bool
		out      string
	}
	results := make([]res, len(jobs))
	sem := make(chan struct{}, par)
	var wg sync.WaitGroup
	for i, j := range jobs {
		wg.Add(1)
		i, j := i, j
		go func() {
			defer wg.Done()
			sem <- struct{}{}
			defer func() { <-sem }()
			sub := filepath.Join(tmp, fmt.Sprintf("%s-%d", j.wl.name, j.seed))
			_ = os.MkdirAll(sub, 0o755)
			obsFile := filepath.Join(sub, "obs.txt")
			cmd := exec.Command(bin, "-test.run", "^TestRaceWorker$", "-test.count=1", "-test.timeout", "150s")
			cmd.Env = append(os.Environ(), "VERIF_RACE_WORKLOAD="+j.wl.name, "VERIF_RACE_DIR="+sub, fmt.Sprintf("VERIF_RACE_ITERS=%d", j.pct),
				fmt.Sprintf("VERIF_RACE_SEED=%d", j.seed), "VERIF_RACE_WATCHDOG_S=60", "VERIF_LOCKOBS_OUT="+obsFile)
			outf, _ := os.Create(filepath.Join(sub, "output.txt"))
			cmd.Stdout, cmd.Stderr = outf, outf
			done := make(chan error, 1)
			if err := cmd.Start(); err == nil {
				go func() { done <- cmd.Wait() }()
				select {
				case <-done:
				case <-time.After(200 * time.Second):
					_ = cmd.Process.Kill()
				}
			}
			outf.Close()
			rs := res{}
			if b, err := os.ReadFile(filepath.Join(sub, "stats-"+j.wl.name+".json")); err == nil {
				var st racStats
				if json.Unmarshal(b, &st) == nil {
					rs.finished, rs.ops = st.Finished, st.Ops
				}
			}
			if _, err := os.Stat(filepath.Join(sub, "hang-"+j.wl.name+".txt")); err == nil {
				rs.hang = true
			}
			if f, err := os.Open(obsFile); err == nil {
				sc := bufio.NewScanner(f)
				sc.Buffer(make([]byte, 1<<20), 1<<20)
				for sc.Scan() {
					rs.lines = append(rs.lines, sc.Text())
				}
				f.Close()
			}
			if !rs.finished {
				b, _ := os.ReadFile(filepath.Join(sub, "output.txt"))
				s := string(b)
				if len(s) > 800 {
					s = s[len(s)-800:]
				}
				rs.out = s
			}
			results[i] = rs
		}()
	}
	wg.Wait()

	obs := map[string]*lobObs{}
	var order []string
	finished, hangs := 0, 0
	unfinished := map[string]string{}
	for i, rs := range results {
		if rs.finished {
			finished++
			r.Traces++
		} else {
			unfinished[jobs[i].wl.name] = rs.out
		}
		if rs.hang {
			hangs++
		}
		for _, l := range rs.lines {
			o := obs[l]
			if o == nil {
				o = &lobObs{line: l, workloads: map[string]bool{}}
				obs[l] = o
				order = append(order, l)
			}
			o.workloads[fmt.Sprintf("workload %s iters=%d seed=%d", jobs[i].wl.name, jobs[i].pct, jobs[i].seed)] = true
		}
	}
	sort.Strings(order)
	r.Floor("instrumented workloads that ran to their end", finished, len(jobs), 0.8)
	if len(unfinished) > 0 {
		r.Info["unfinished instrumented workloads (hangs and races are judged by TestRace)"] = unfinished
	}

	// ---------------------------------------------------------------- judge
	d := h.StartDriver("drv_lockobs")
	defer d.Close()
	r.Info["tables"] = d.Ask("tables")
	edges := map[[2]string]bool{}
	for _, e := range locks.Edges {
		edges[[2]string{e.From, e.To}] = false
	}
	witness := func(o *lobObs) []string {
		var ws []string
		for w := range o.workloads {
			ws = append(ws, w)
		}
		sort.Strings(ws)
		return ws[:1]
	}
	nested, accJudged, ctorPhase, bothPhase, idSame, idUnknown, untracked, noCommon := 0, 0, 0, 0, 0, 0, 0, 0
	fieldsSeen := map[string]bool{}
	sitesSeen := map[string]bool{}
	var outside []string
	for _, l := range order {
		o := obs[l]
		p := strings.Split(l, "|")
		switch {
		case p[0] == "acq" && len(p) == 5:
			name, heldS, inst := p[1], p[3], p[4]
			var held []string
			for _, e := range strings.Split(heldS, ",") {
				if e != "" {
					held = append(held, e[:strings.LastIndexByte(e, ':')])
				}
			}
			r.Eval("acq:held="+strconv.Itoa(min(len(held), 3)), "")
			if len(held) > 0 {
				nested++
				r.Case(l)
			}
			if inst == "same-instance" {
				r.SpecFail("C17/deadlock:recursive-acquisition:"+strings.TrimPrefix(name, "spine."), witness(o),
					fmt.Sprintf("a goroutine asked for mutex %s (mode %s) while already holding that very instance (held: %s): with sync.Mutex this blocks forever, with RLock inside RLock it blocks forever as soon as a writer queues in between", name, p[2], heldS))
			}
			ans := d.Ask("acq|" + name + "|" + strings.Join(held, ","))
			if ans != "ok" {
				outside = append(outside, l+" => "+ans)
				note := "an acquisition observed in an instrumented run is outside the analyser's lock-order edges: RespectsEdges, the assumption of c17_no_deadlock, is false of this tree (Spine.LockObs.rejected_breaks_assumption)"
				if inst == "other-instance" {
					note += "; the goroutine holds the same-named mutex of ANOTHER object: same-type nesting, which the (struct type, field) identity abstraction cannot order"
				}
				r.Mismatch(witness(o), "observed: holds ["+heldS+"] asks for "+name, "analyser tables: "+ans, note)
			}
			for _, hm := range held {
				if _, ok := edges[[2]string{hm, name}]; ok {
					edges[[2]string{hm, name}] = true
				}
			}
		case p[0] == "acc" && len(p) == 6:
			field, w, site, fn, heldS := p[1], p[2], p[3], p[4], p[5]
			var held, excl []string
			flag := map[string]string{}
			for _, e := range strings.Split(heldS, ",") {
				if e == "" {
					continue
				}
				i := strings.LastIndexByte(e, ':')
				n, m := e[:i], e[i+1:]
				held = append(held, n)
				if m[0] == 'x' {
					excl = append(excl, n)
				}
				// several entries of one name: "=" wins (the object's own mutex is among them)
				if flag[n] != "=" {
					flag[n] = m[1:]
				}
			}
			// the analyser must have recorded this access (site = file:line:lo-hi of the statement)
			sp := strings.Split(site, ":")
			phase := ""
			if len(sp) == 3 {
				var lo, hi int
				fmt.Sscanf(sp[2], "%d-%d", &lo, &hi)
				for ln := lo; ln <= hi && ln-lo < 400; ln++ {
					if ph, ok := locks.AllSites[sp[0]+":"+strconv.Itoa(ln)][field]; ok {
						if phase == "" || ph == "post" || (ph == "both" && phase == "ctor") {
							phase = ph
						}
					}
				}
			}
			r.Eval("acc:"+w, "")
			fieldsSeen[field] = true
			sitesSeen[sp[0]+":"+sp[1]+"|"+field] = true
			if phase == "" {
				outside = append(outside, l+" => site not in the analyser's table")
				r.Mismatch(witness(o), "observed: "+map[string]string{"r": "read", "w": "write"}[w]+" of "+field+" in "+fn+" at "+site, "analyser: no access to this field recorded at this statement",
					"an access observed in an instrumented run is missing from the analyser's access table: the guarded-by rows do not cover it, TableGuarded is unchecked for it")
				continue
			}
			if phase == "ctor" {
				ctorPhase++
				continue
			}
			ans := d.Ask("acc|" + field + "|" + w + "|" + strings.Join(held, ",") + "|" + strings.Join(excl, ","))
			switch {
			case ans == "untracked":
				untracked++ // field never written after construction: no row, nothing to hold
			case ans == "no-common-lock":
				noCommon++ // undisciplined field: searched by the race detector, not judged here
			case ans == "ok":
				accJudged++
				r.Case(l)
				own := false
				bad := ""
				for _, c := range locks.Common[field] {
					switch flag[c] {
					case "=":
						own = true
					case "!":
						bad = c
					}
				}
				if own {
					idSame++
				} else if bad != "" {
					outside = append(outside, l+" => holds the mutex of another object")
					r.Mismatch(witness(o), "observed: "+field+" accessed in "+fn+" at "+site+" while holding "+bad+" of ANOTHER object of the type (held: "+heldS+")",
						"analyser: row guarded by "+bad+" (objects identified by struct type)",
						"the (struct type, field) identity abstraction is unsound here: the common lock held is not the accessed object's own mutex, so TableGuarded does not hold on the object level")
				} else {
					idUnknown++
				}
			case phase == "both":
				bothPhase++ // the statement is reached in the constructor phase too (helper shared by New* and methods)
			default:
				outside = append(outside, l+" => "+ans)
				r.Mismatch(witness(o), "observed: "+map[string]string{"r": "read", "w": "write"}[w]+" of "+field+" in "+fn+" at "+site+" holding ["+heldS+"]", "analyser tables: "+ans,
					"an access observed in an instrumented run does not hold the common lock the analyser's rows name: the rows' must-held sets over-state what is held, TableGuarded — the assumption of c17_disciplined_fields_ordered(_rw) — is false of this tree (Spine.LockObs.rejected_not_protected)")
			}
		case p[0] == "foreign-unlock":
			r.Eval("foreign-unlock", "")
			outside = append(outside, l)
			r.Mismatch(witness(o), "observed: "+p[1]+" unlocked by a goroutine that does not hold it", "analyser: lock regions are per function and goroutine (unbalancedUnlocks = [])",
				"a mutex is released by another goroutine than the one that acquired it: outside the analyser's model of lock regions")
		default:
			r.Eval("unparsed", "")
			r.Mismatch(witness(o), l, "", "unparsed observation line")
		}
	}
	covered := 0
	var notSeen []string
	for e, ok := range edges {
		if ok {
			covered++
		} else {
			notSeen = append(notSeen, e[0]+" → "+e[1])
		}
	}
	sort.Strings(notSeen)
	r.Floor("distinct nested acquisitions observed", min(nested, 20), 20, 1.0)
	r.Floor("distinct post-construction accesses judged against a common lock", min(accJudged, 80), 80, 1.0)
	sharedSeen := 0
	for _, f := range locks.Shared {
		if fieldsSeen[f] {
			sharedSeen++
		}
	}
	r.Floor("shared fields of the guarded-by table accessed in the instrumented runs", sharedSeen, max(len(locks.Shared), 1), 0.75)
	r.Info["observations"] = map[string]any{
		"distinct": len(order), "nested_acquisitions": nested,
		"accesses_judged_ok": accJudged, "constructor_phase_sites": ctorPhase, "sites_in_both_phases_unguarded": bothPhase,
		"identity_verified_own_mutex": idSame, "identity_not_determinable": idUnknown,
		"fields_without_row (immutable after construction)": untracked, "undisciplined_fields_not_judged": noCommon,
		"outside_tables": outside,
	}
	r.Info["analyser lock-order edges observed dynamically"] = fmt.Sprintf("%d of %d", covered, len(edges))
	r.Info["analyser lock-order edges not observed (over-approximation or workload missing)"] = notSeen
	r.Info["instrumentation"] = map[string]any{"mutex_declarations": len(meta.Mutexes), "files_rewritten": meta.Files, "access_hooks": meta.Hooks,
		"address_taken (no access at the site; sync/atomic operands and pointers handed out; NOT tracked by analyser or recorder)": meta.AddrTaken}
	r.Info["workers"] = map[string]any{"jobs": len(jobs), "finished": finished, "watchdog_hangs": hangs}
}
