package comp

// C19, clause S3b at the level of the SPINE text: NewDateTimeTypeFromTime and the three GetTime methods
// against the byte-level model Spine.TimeText (lex = time.nextStdChunk, format = Time.AppendFormat, parse =
// time.parse, the calendar, the loop over the layouts). The layouts the model is run with are the ones the
// translator recovered from the source of the tree under test (Generated/TimeLayouts.lean, line "-- HARNESS").
//
// Ops (also the replay format):
//   ttext sec ns off    NewDateTimeTypeFromTime of the instant sec+ns presented in the zone off seconds east:
//                       the text against Spine.TimeText.newDateTimeTypeFromTime, then `tread dt` of it
//   tread kind text     (*DateTimeType | *DateType | *TimeType).GetTime of a text (kind dt | date | tod) against
//                       Spine.TimeText.getTime over the regenerated layouts
//   tlib layout sec ns off   package time itself: Format with the layout against Spine.TimeText.format, and
//                       ParseInLocation of the text written against Spine.TimeText.parse

import (
	"encoding/json"
	"fmt"
	"math/rand"
	"os"
	"path/filepath"
	"regexp"
	"strconv"
	"strings"
	"sync"
	"time"

	"github.com/enbility/spine-go/model"
	"verifharness/h"
)

type timeLayouts struct {
	Format      []string `json:"format"`
	Rounds      bool     `json:"rounds"`
	Utc         bool     `json:"utc"`
	Dt          []string `json:"dt"`
	Date        []string `json:"date"`
	Tod         []string `json:"tod"`
	ParseKnown  bool     `json:"parseKnown"`
	FormatKnown bool     `json:"formatKnown"`
}

// loadTimeLayouts reads what the translator recovered from the source (nil when the table is absent: the
// comparisons that need the layouts are then skipped and counted).
var (
	timeLayoutsOnce sync.Once
	timeLayoutsV    *timeLayouts
)

func loadTimeLayouts() *timeLayouts {
	timeLayoutsOnce.Do(func() { timeLayoutsV = readTimeLayouts() })
	return timeLayoutsV
}

func readTimeLayouts() *timeLayouts {
	root := os.Getenv("VERIF_ROOT")
	if root == "" {
		root = filepath.Join("..", "..")
	}
	b, err := os.ReadFile(filepath.Join(root, "lean", "Spine", "Generated", "TimeLayouts.lean"))
	if err != nil {
		return nil
	}
	for _, l := range strings.Split(string(b), "\n") {
		if strings.HasPrefix(l, "-- HARNESS ") {
			var tl timeLayouts
			if json.Unmarshal([]byte(strings.TrimPrefix(l, "-- HARNESS ")), &tl) == nil {
				return &tl
			}
		}
	}
	return nil
}

func (tl *timeLayouts) of(kind string) []string {
	if tl == nil {
		return nil
	}
	// per getter: the layouts of one method may be recovered although another method's are not
	switch kind {
	case "dt":
		return tl.Dt
	case "date":
		return tl.Date
	case "tod":
		return tl.Tod
	}
	return nil
}

func opSafe(s string) bool {
	if s == "" {
		return false
	}
	for i := 0; i < len(s); i++ {
		if s[i] <= 0x20 || s[i] >= 0x7f || s[i] == '|' {
			return false
		}
	}
	return true
}

func zoneOf(off int) *time.Location {
	if off == 0 {
		return time.UTC
	}
	return time.FixedZone("z", off)
}

func showTime(t time.Time, err error) string {
	if err != nil {
		return "err"
	}
	_, off := t.Zone()
	return fmt.Sprintf("%d %d %d", t.Unix(), t.Nanosecond(), off)
}

// rfc3339Z: an independent reader of the text a DateTimeType carries (not time.Parse: a regular expression and
// time.Date): digits, optional fraction, optional Z, no numeric zone
var rfc3339Z = regexp.MustCompile(`^(\d{4})-(\d\d)-(\d\d)T(\d\d):(\d\d):(\d\d)(?:[.,](\d{1,9}))?(Z?)$`)

func independentInstant(text string) (time.Time, bool) {
	t, shape, valid := independentInstant3(text)
	return t, shape && valid
}

// independentInstant3: shape = the text has the form of an xs:dateTime without numeric zone; valid = its fields
// denote an instant (month 1-12, day within the month, hour < 24, minute, second < 60)
func independentInstant3(text string) (t time.Time, shape, valid bool) {
	t, valid = independentInstantOld(text)
	return t, rfc3339Z.MatchString(text), valid
}

func independentInstantOld(text string) (time.Time, bool) {
	m := rfc3339Z.FindStringSubmatch(text)
	if m == nil {
		return time.Time{}, false
	}
	n := func(i int) int { v, _ := strconv.Atoi(m[i]); return v }
	ns := 0
	if m[7] != "" {
		ns, _ = strconv.Atoi((m[7] + "000000000")[:9])
	}
	y, mo, d, hh, mi, ss := n(1), n(2), n(3), n(4), n(5), n(6)
	t := time.Date(y, time.Month(mo), d, hh, mi, ss, ns, time.UTC)
	// time.Date normalises out-of-range fields; a reader must refuse them
	if t.Year() != y || int(t.Month()) != mo || t.Day() != d || hh > 23 || mi > 59 || ss > 59 {
		return time.Time{}, false
	}
	return t, true
}

func getterOf(kind, text string) (time.Time, error) {
	switch kind {
	case "dt":
		return model.NewDateTimeType(text).GetTime()
	case "date":
		return model.NewDateType(text).GetTime()
	case "tod":
		return model.NewTimeType(text).GetTime()
	}
	panic("bad kind " + kind)
}

// numOneTimeRead: a getter on an arbitrary text against the model over the regenerated layouts; SPEC (dt only):
// a text an independent reader understands is not read as another instant.
func numOneTimeRead(s *numStats, dr *h.Driver, tl *timeLayouts, kind, text string) {
	if !opSafe(text) {
		return
	}
	op := "tread " + kind + " " + text
	got, err := getterOf(kind, text)
	impl := showTime(got, err)
	if err == nil {
		s.evals["timeread:"+kind+":accepted"]++
	} else {
		s.evals["timeread:"+kind+":refused"]++
	}
	if kind == "dt" && err == nil {
		if want, shape, valid := independentInstant3(text); shape && valid && !want.Equal(got) {
			s.fail("C19/instant-misread", absI(got.Unix()), op, fmt.Sprintf("DateTimeType %q is read as %s, an independent reader takes it as %s", text, got.Format(time.RFC3339Nano), want.Format(time.RFC3339Nano)))
		} else if shape && !valid {
			s.fail("C19/instant-misread", absI(got.Unix()), op, fmt.Sprintf("DateTimeType %q has a field out of range and denotes no instant, but is read as %s", text, got.Format(time.RFC3339Nano)))
		}
	}
	ls := tl.of(kind)
	if dr == nil || ls == nil {
		s.evals["timeread:layouts-not-recovered"]++
		return
	}
	want := dr.Ask("tparse " + strings.Join(ls, "|") + " " + text)
	if want == "range" {
		s.skipped++
		s.evals["timeread:outside-model"]++
		return
	}
	if want != impl {
		s.mismatch(op, impl, want, "GetTime: unix seconds, nanoseconds, zone offset, or err")
	}
}

// numOneTimeText: the text NewDateTimeTypeFromTime writes, byte for byte, and the way back.
// SPEC: the text denotes, for an independent reader, the instant rounded to the second, and GetTime returns it.
func numOneTimeText(s *numStats, dr *h.Driver, tl *timeLayouts, sec, ns int64, off int) {
	op := fmt.Sprintf("ttext %d %d %d", sec, ns, off)
	t := time.Unix(sec, ns).In(zoneOf(off))
	dt := model.NewDateTimeTypeFromTime(t)
	text := ""
	if dt != nil {
		text = string(*dt)
	}
	want := t.Round(time.Second)
	if y := want.UTC().Year(); y >= 0 && y <= 9999 {
		if v, ok := independentInstant(text); !ok || !v.Equal(want) {
			s.fail("C19/instant-text-denotes-other", absI(sec), op, fmt.Sprintf("the instant %s is written as %q, which an independent reader takes as %v (readable %v)", t.Format(time.RFC3339Nano), text, v, ok))
		}
		if back, err := dt.GetTime(); err != nil || !back.Equal(want) {
			s.fail("C19/instant-lost", absI(sec), op, fmt.Sprintf("NewDateTimeTypeFromTime(%s) = %q -> %v (err %v)", t.Format(time.RFC3339Nano), text, back, err))
		}
	}
	s.evals["timetext:written"]++
	if dr == nil || tl == nil || !tl.FormatKnown || len(tl.Format) != 1 {
		s.evals["timetext:layout-not-recovered"]++
		return
	}
	m := dr.Ask(fmt.Sprintf("tnew %s %d %d %d %d %d", tl.Format[0], h.B2i(tl.Rounds), h.B2i(tl.Utc), sec, ns, off))
	if m == "range" {
		s.skipped++
		s.evals["timetext:outside-model"]++
	} else if m != text {
		s.mismatch(op, text, m, "text written by NewDateTimeTypeFromTime")
	}
	numOneTimeRead(s, dr, tl, "dt", text)
}

// numOneTimeLib: package time against the model, one layout, one instant.
func numOneTimeLib(s *numStats, dr *h.Driver, layout string, sec, ns int64, off int) {
	if !opSafe(layout) {
		return
	}
	op := fmt.Sprintf("tlib %s %d %d %d", layout, sec, ns, off)
	text := time.Unix(sec, ns).In(zoneOf(off)).Format(layout)
	m := dr.Ask(fmt.Sprintf("tfmt %s %d %d %d", layout, sec, ns, off))
	if m == "range" {
		s.skipped++
		s.evals["timelib:outside-model"]++
		return
	}
	s.evals["timelib:format"]++
	if m != text {
		s.mismatch(op, text, m, "time.Format")
		return
	}
	if !opSafe(text) {
		return
	}
	pm := dr.Ask("tparse " + layout + " " + text)
	if pm == "range" {
		s.evals["timelib:parse-outside-model"]++
		return
	}
	s.evals["timelib:parse"]++
	back, err := time.ParseInLocation(layout, text, time.UTC)
	if impl := showTime(back, err); impl != pm {
		s.mismatch(op, impl, pm, "time.ParseInLocation of "+text)
	}
}

var timePrefix = map[string]string{"dt": "2006-01-02T15:04:05", "date": "2006-01-02", "tod": "15:04:05"}

// numTimeFamily: prefix x fraction element x tail — the layouts a getter may have
func numTimeFamily(kind string) []string {
	var out []string
	for _, fr := range []string{"", ".999999999", ".000", ",999", ".999", ".000000000"} {
		for _, tail := range []string{"", "Z", "-07:00", "Z07:00", "+07:00"} {
			out = append(out, timePrefix[kind]+fr+tail)
		}
	}
	return out
}

// numRandomTimeText: a text for a getter of the given kind: an instant written with a layout of the family (so
// mostly acceptable for some layout), sometimes damaged.
func numRandomTimeText(rng *rand.Rand, kind string) string {
	const minSec, maxSec = int64(-62167219200), int64(253402300799)
	sec := minSec + rng.Int63n(maxSec-minSec+1)
	if rng.Intn(3) == 0 {
		sec = rng.Int63n(4102444800) // 1970 .. 2100
	}
	ns := int64(0)
	frac := ""
	fk := rng.Intn(6)
	if kind == "date" {
		fk = 5 // a date has no fraction
	}
	switch fk {
	case 0:
		ns, frac = rng.Int63n(1000000000), ".000000000"
	case 1:
		ns, frac = rng.Int63n(1000)*1000000, ".000"
	case 2:
		ns, frac = rng.Int63n(1000000000), ".999999999"
	case 3:
		ns, frac = rng.Int63n(10)*100000000, ",0"
	}
	off := 0
	tail := ""
	switch rng.Intn(8) {
	case 0, 1, 2:
		tail = "Z"
	case 3:
		tail, off = "-07:00", (rng.Intn(29)-14)*3600+rng.Intn(4)*900
	case 4:
		tail, off = "Z07:00", (rng.Intn(3)-1)*(rng.Intn(14)*3600+rng.Intn(2)*1800)
	case 5:
		tail = "+07:00"
	}
	txt := time.Unix(sec, ns).In(zoneOf(off)).Format(timePrefix[kind] + frac + tail)
	if rng.Intn(10) < 3 {
		b := []byte(txt)
		switch rng.Intn(7) {
		case 0:
			b = b[:len(b)-1-rng.Intn(len(b)-1)]
		case 1:
			i := rng.Intn(len(b))
			b[i] = "0123456789-:TZ.,+ 9"[rng.Intn(19)]
		case 2:
			i := rng.Intn(len(b))
			b = append(b[:i], b[i+1:]...)
		case 3:
			i := rng.Intn(len(b) + 1)
			b = append(b[:i], append([]byte{"019:-TZ.+"[rng.Intn(9)]}, b[i:]...)...)
		case 4: // a field out of range
			if i := strings.IndexAny(string(b), ":-"); i > 1 && i+2 < len(b) {
				b[i+1], b[i+2] = "23679"[rng.Intn(5)], "0123456789"[rng.Intn(10)]
			}
		case 5: // a one-digit hour
			if i := strings.IndexByte(string(b), ':'); i >= 2 && b[i-2] == '0' {
				b = append(b[:i-2], b[i-1:]...)
			}
		case 6:
			b = append(b, "Z+0.1"[rng.Intn(5)])
		}
		txt = string(b)
	}
	return txt
}

type timeJob struct {
	s0, s1, step int64
	ns           int64
	off          int
}

// numTimeSweep: the text of every instant of the job and what GetTime reads it as, by digest, against
// Spine.TimeText (op tsweep); on a difference the first differing instant is named.
func numTimeSweep(s *numStats, dr *h.Driver, tl *timeLayouts, j timeJob) {
	line := fmt.Sprintf("tsweep %s %s %d %d %d %d %d %d %d", tl.Format[0], strings.Join(tl.Dt, "|"), h.B2i(tl.Rounds), h.B2i(tl.Utc), j.s0, j.s1, j.step, j.ns, j.off)
	ans := make(chan string, 1)
	go func() { ans <- dr.AskWithin(line, numRangeTimeout) }()
	hh, cnt := uint64(numDigest0), 0
	loc := zoneOf(j.off)
	for sec := j.s0; sec <= j.s1; sec += j.step {
		t := time.Unix(sec, j.ns).In(loc)
		dt := model.NewDateTimeTypeFromTime(t)
		back, err := dt.GetTime()
		if err != nil || !back.Equal(t.Round(time.Second)) {
			s.fail("C19/instant-lost", absI(sec), fmt.Sprintf("ttext %d %d %d", sec, j.ns, j.off), fmt.Sprintf("NewDateTimeTypeFromTime(%s) = %q -> %v (err %v)", t.Format(time.RFC3339Nano), string(*dt), back, err))
			s.evals["timetext:lost"]++
		} else {
			s.evals["timetext:exact"]++
		}
		for i := 0; i < len(*dt); i++ {
			hh = numMix(hh, uint64((*dt)[i]))
		}
		if err != nil {
			hh = numMix(hh, 7)
		} else {
			_, off := back.Zone()
			hh = numMix(numMix(numMix(hh, uint64(back.Unix())), uint64(back.Nanosecond())), uint64(int64(off)))
		}
		cnt++
	}
	if got, want := <-ans, fmt.Sprintf("digest %d %d", hh, cnt); got != want {
		q := newNumStats()
		for sec := j.s0; sec <= j.s1 && q.mismN == 0; sec += j.step {
			numOneTimeText(q, dr, tl, sec, j.ns, j.off)
		}
		if q.mismN == 0 {
			s.mismatch(line, want, got, "digest of the instant texts and the instants read back differs but no single value does")
		}
		s.mismN += q.mismN
		s.mism = append(s.mism, q.mism...)
	}
}

// numTimeTextPhase: everything about instants at the level of the text; returns the statistics.
func numTimeTextPhase(r *h.Report, d *h.Driver, args []string, rng *rand.Rand) {
	tl := loadTimeLayouts()
	const minSec, maxSec = int64(-62167219200), int64(253402300799) // years 0000 .. 9999
	var tsOps []string
	// (a) the dense and the strided sweep of written texts (needs the layouts; without them the single values
	//     below still carry the SPEC monitor)
	if tl != nil && tl.FormatKnown && len(tl.Format) == 1 && len(tl.Dt) > 0 && opSafe(tl.Format[0]) && opSafe(strings.Join(tl.Dt, "")) {
		var jobs []timeJob
		dense := int64(h.Scale(2, 20)) * 86400 / 2
		for _, c := range []int64{0, 951782400, 4107542400, 1709164800, -62167219200 + dense, 253402300799 - dense, -2203891200, 1727352000} {
			// every second around: the epoch, 2000-02-29, 2100-03-01, 2024-02-29, both ends of the range, 1900-03-01, now
			for s0 := c - dense; s0 < c+dense; s0 += 86400 {
				jobs = append(jobs, timeJob{s0, s0 + 86399, 1, 0, 0})
			}
		}
		// the whole range, strided: every day of the 10 000 years is visited (a stride just under one day)
		stride := int64(h.Scale(86400*7-61, 86400-61))
		span := (maxSec - minSec) / 64
		for i := int64(0); i < 64; i++ {
			jobs = append(jobs, timeJob{minSec + i*span, minSec + (i+1)*span - 1, stride, 0, 0})
		}
		// with a fraction that rounds up, in a zone, strided
		jobs = append(jobs, timeJob{minSec, maxSec - 1, stride*97 + 13, 500000000, 19800}, timeJob{minSec + 50000, maxSec - 50000, stride*89 + 7, 499999999, -34200})
		sw := numParallel(args, len(jobs), func(s *numStats, dr *h.Driver, i int) { numTimeSweep(s, dr, tl, jobs[i]) })
		n := 0
		for _, v := range sw.evals {
			n += v
		}
		sw.flush(r)
		r.Traces += len(jobs)
		r.Info["instant_text_sweep"] = fmt.Sprintf("%d instants: every second of %d days around 8 anchor dates, the years 0000-9999 with a stride of %d s, fractions and zones strided; text and instant read back compared by digest with Spine.TimeText over the layouts recovered from the source (format %q, parse %q)", n, 8*2*dense/86400, stride, tl.Format[0], tl.Dt)
	} else {
		r.Info["instant_text_sweep"] = "skipped: the layouts could not be recovered from the source of this tree (the single values carry the SPEC monitor)"
	}
	// (b) single written values: edges, random instants with fractions and zones
	for _, c := range []int64{minSec, maxSec, 0, -1, 951782400, 951868799, 4107542400, 1727352000} {
		for _, ns := range []int64{0, 1, 499999999, 500000000, 999999999} {
			if c == maxSec && ns >= 500000000 {
				continue // rounds into the year 10000
			}
			tsOps = append(tsOps, fmt.Sprintf("ttext %d %d 0", c, ns), fmt.Sprintf("ttext %d %d %d", c, ns, 3600*5+1800))
		}
	}
	for i := 0; i < h.Scale(20000, 200000); i++ {
		sec := minSec + rng.Int63n(maxSec-minSec)
		ns := int64(0)
		if rng.Intn(2) == 0 {
			ns = rng.Int63n(1000000000)
		}
		off := 0
		if rng.Intn(3) == 0 {
			off = (rng.Intn(27)-12)*3600 + rng.Intn(4)*900
		}
		tsOps = append(tsOps, fmt.Sprintf("ttext %d %d %d", sec, ns, off))
	}
	// (c) texts a peer may send: every getter on random well-formed and damaged texts
	nTxt := h.Scale(45000, 450000)
	for i := 0; i < nTxt; i++ {
		kind := []string{"dt", "dt", "date", "tod"}[rng.Intn(4)]
		if tx := numRandomTimeText(rng, kind); opSafe(tx) {
			tsOps = append(tsOps, "tread "+kind+" "+tx)
		}
	}
	rs := numRunOpsParallel(args, tsOps, 500)
	ts := newNumStats()
	ts.merge(rs)
	for _, kind := range []string{"dt", "date", "tod"} {
		acc, ref := ts.evals["timeread:"+kind+":accepted"], ts.evals["timeread:"+kind+":refused"]
		r.Floor("texts the "+kind+" getter accepts", acc, acc+ref, 0.10)
		r.Floor("texts the "+kind+" getter refuses", ref, acc+ref, 0.10)
	}
	// (d) package time itself against the model: the family of layouts and some layouts outside it
	var layouts []string
	for _, k := range []string{"dt", "date", "tod"} {
		layouts = append(layouts, numTimeFamily(k)...)
	}
	layouts = append(layouts, "20060102", "15h04m05s", "2006-01-02T15:04:05Z07:00", "2006-01-02T15:04:05.999999999Z07:00", "2006.01.02", "2006-01", "T15:04", "05.999", "_2006-01", "2006-01-02Z07:00",
		"Jan-2006", "02/01/06", "3:04PM", "2006-002", "Z0700", "-0700", "MST", "Monday", "__2", "15:04:05.00x", "2006-01-02T15:04:05.0009", "1/2", "2006-1-2", "-07", "January", "Month", "Janet")
	if tl != nil {
		layouts = append(layouts, tl.Format...)
		layouts = append(layouts, tl.Dt...)
		layouts = append(layouts, tl.Date...)
		layouts = append(layouts, tl.Tod...)
	}
	var libOps []string
	for _, l := range layouts {
		for i := 0; i < h.Scale(25, 250); i++ {
			sec := minSec + rng.Int63n(maxSec-minSec)
			ns := int64(0)
			switch rng.Intn(4) {
			case 0:
				ns = rng.Int63n(1000000000)
			case 1:
				ns = rng.Int63n(1000) * 1000000
			}
			off := 0
			if rng.Intn(2) == 0 {
				off = (rng.Intn(27)-12)*3600 + rng.Intn(4)*900
			}
			if opSafe(l) {
				libOps = append(libOps, fmt.Sprintf("tlib %s %d %d %d", l, sec, ns, off))
			}
		}
	}
	ts.merge(numRunOpsParallel(args, libOps, 200))
	r.Floor("layouts x instants of package time inside the model", ts.evals["timelib:format"], ts.evals["timelib:format"]+ts.evals["timelib:outside-model"], 0.6)
	r.Info["instant_text"] = fmt.Sprintf("texts written compared byte for byte with Spine.TimeText.newDateTimeTypeFromTime; the three getters compared with Spine.TimeText.getTime over the recovered layouts on %d random well-formed and damaged texts; time.Format / time.ParseInLocation compared with Spine.TimeText.format / parse on %d layouts (%d evaluations inside the model, %d outside)", nTxt, len(layouts), ts.evals["timelib:format"], ts.evals["timelib:outside-model"])
	ts.flush(r)
}
